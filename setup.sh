#!/bin/bash
# Builds the checker offline from /verif/checker (go.sum committed; nothing is fetched).
set -e
cd "$(dirname "$0")/checker"
export GOFLAGS=-mod=mod GOPROXY=off GOSUMDB=off GOTOOLCHAIN=local GOWORK=off
mkdir -p ../bin
go1.26.8 build -o ../bin/helmverif .
echo "built $(cd ..; pwd)/bin/helmverif"
