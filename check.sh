#!/bin/bash
# usage: check.sh <ID> <quick|thorough>
# Runs the static checker for one property against /repo's current working tree.
ID=$1; TIER=${2:-${VERIF_TIER:-quick}}
DIR="$(cd "$(dirname "$0")" && pwd)"
export PATH=/opt/veriftools/go1.26.8/bin:$PATH
export GOTOOLCHAIN=local GOFLAGS=-mod=mod GOPROXY=off GOWORK=off
unset GOOS GOARCH
if [ ! -x "$DIR/bin/helmverif" ] || [ -n "$(find "$DIR/checker" -name '*.go' -newer "$DIR/bin/helmverif" 2>/dev/null | head -1)" ]; then
  "$DIR/setup.sh" >/dev/null || { echo "VIOLATION property=$ID replay=$DIR/setup.sh"; exit 1; }
fi
exec "$DIR/bin/helmverif" -prop "$ID" -tier "$TIER" -repo "${VERIF_REPO:-/repo}" -verif "$DIR"
