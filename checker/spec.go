package main

// spec.go — SPEC: specialisation of CFGs by immutable mode flags (sparse conditional constant
// propagation over booleans/strings read from fields of one "mode object" type), §2.4b of DESIGN.md.

import (
	"go/constant"
	"go/token"
	"go/types"

	"golang.org/x/tools/go/ssa"
)

type aval struct {
	k int // 0 unknown, 1 bool, 2 string, 3 undefined (no feasible definition yet), 4 int
	b bool
	s string
	i int64
}

var unknownV = aval{}
var undefV = aval{k: 3}

func boolV(b bool) aval     { return aval{k: 1, b: b} }
func strV(s string) aval    { return aval{k: 2, s: s} }
func intV(i int64) aval     { return aval{k: 4, i: i} }
func (a aval) isBool() bool { return a.k == 1 }

func join(a, b aval) aval {
	if a.k == 3 {
		return b
	}
	if b.k == 3 {
		return a
	}
	if a == b {
		return a
	}
	return unknownV
}

// Spec fixes the value of some fields of every object of type Obj (a named struct type).
type Spec struct {
	W      *World
	Obj    *types.Named
	Fields map[string]aval
	// NotFields: field name → set of string values the field is known NOT to have (for "none of the spellings")
	NotIn  map[string]map[string]bool
	graphs map[*ssa.Function]*Graph
	inprog map[*ssa.Function]bool
	Name   string
}

func NewSpec(w *World, obj *types.Named, name string, fields map[string]aval) *Spec {
	return &Spec{W: w, Obj: obj, Fields: fields, graphs: map[*ssa.Function]*Graph{}, inprog: map[*ssa.Function]bool{}, Name: name}
}

func (s *Spec) isObjPtr(t types.Type) bool {
	if s.Obj == nil {
		return false
	}
	if p, ok := t.Underlying().(*types.Pointer); ok {
		return types.Identical(p.Elem(), s.Obj)
	}
	return false
}

// Graph returns fn's CFG specialised under s.
func (s *Spec) Graph(fn *ssa.Function) *Graph {
	if g, ok := s.graphs[fn]; ok {
		return g
	}
	if len(fn.Blocks) == 0 {
		g := FullGraph(fn)
		s.graphs[fn] = g
		return g
	}
	if s.inprog[fn] {
		return FullGraph(fn) // recursion: conservative
	}
	s.inprog[fn] = true
	defer delete(s.inprog, fn)

	feasible := map[Edge]bool{}
	reach := map[*ssa.BasicBlock]bool{fn.Blocks[0]: true}
	ev := &evaluator{s: s, fn: fn, feasible: feasible, reach: reach}
	for changed := true; changed; {
		changed = false
		for _, b := range fn.Blocks {
			if !reach[b] || len(b.Instrs) == 0 {
				continue
			}
			mark := func(i int) {
				e := Edge{From: b, Succ: i}
				if !feasible[e] {
					feasible[e] = true
					changed = true
				}
				if t := b.Succs[i]; !reach[t] {
					reach[t] = true
					changed = true
				}
			}
			switch t := b.Instrs[len(b.Instrs)-1].(type) {
			case *ssa.If:
				ev.memo = map[ssa.Value]aval{}
				c := ev.eval(t.Cond, 0)
				if c.isBool() {
					if c.b {
						mark(0)
					} else {
						mark(1)
					}
				} else if c.k != 3 {
					mark(0)
					mark(1)
				}
			default:
				for i := range b.Succs {
					mark(i)
				}
			}
		}
	}
	dead := map[Edge]bool{}
	for _, b := range fn.Blocks {
		for i := range b.Succs {
			if !feasible[Edge{From: b, Succ: i}] {
				dead[Edge{From: b, Succ: i}] = true
			}
		}
	}
	g := &Graph{Fn: fn, Dead: dead}
	s.graphs[fn] = g
	return g
}

// Eval evaluates v (a value of fn) under the specialisation: constants, mode fields, and phis whose
// infeasible incoming edges are ignored.
func (s *Spec) Eval(fn *ssa.Function, v ssa.Value) aval {
	g := s.Graph(fn)
	feasible := map[Edge]bool{}
	for _, b := range fn.Blocks {
		for i := range b.Succs {
			if !g.Dead[Edge{From: b, Succ: i}] {
				feasible[Edge{From: b, Succ: i}] = true
			}
		}
	}
	ev := &evaluator{s: s, fn: fn, feasible: feasible, reach: g.Reachable(), memo: map[ssa.Value]aval{}}
	return ev.eval(v, 0)
}

type evaluator struct {
	s        *Spec
	fn       *ssa.Function
	feasible map[Edge]bool
	reach    map[*ssa.BasicBlock]bool
	memo     map[ssa.Value]aval
}

func (e *evaluator) eval(v ssa.Value, depth int) aval {
	if depth > 40 {
		return unknownV
	}
	if a, ok := e.memo[v]; ok {
		return a
	}
	e.memo[v] = unknownV // cycle guard (loops through phis)
	a := e.eval1(v, depth)
	e.memo[v] = a
	return a
}

func (e *evaluator) fieldVal(base ssa.Value, idx int) (aval, bool) {
	t := base.Type()
	var st *types.Struct
	if p, ok := t.Underlying().(*types.Pointer); ok {
		if !types.Identical(p.Elem(), e.s.Obj) {
			return unknownV, false
		}
		st, _ = p.Elem().Underlying().(*types.Struct)
	} else if types.Identical(t, e.s.Obj) {
		st, _ = t.Underlying().(*types.Struct)
	}
	if st == nil || idx >= st.NumFields() {
		return unknownV, false
	}
	if a, ok := e.s.Fields[st.Field(idx).Name()]; ok {
		return a, true
	}
	return unknownV, false
}

func (e *evaluator) fieldName(base ssa.Value, idx int) string {
	t := base.Type()
	if p, ok := t.Underlying().(*types.Pointer); ok {
		t = p.Elem()
	}
	if !types.Identical(t, e.s.Obj) {
		return ""
	}
	st, _ := t.Underlying().(*types.Struct)
	if st == nil || idx >= st.NumFields() {
		return ""
	}
	return st.Field(idx).Name()
}

func (e *evaluator) eval1(v ssa.Value, depth int) aval {
	switch v := v.(type) {
	case *ssa.Const:
		if v.Value == nil {
			return unknownV
		}
		switch v.Value.Kind() {
		case constant.Bool:
			return boolV(constant.BoolVal(v.Value))
		case constant.String:
			return strV(constant.StringVal(v.Value))
		case constant.Int:
			if i, ok := constant.Int64Val(v.Value); ok {
				return intV(i)
			}
		}
		return unknownV
	case *ssa.UnOp:
		switch v.Op {
		case token.NOT:
			a := e.eval(v.X, depth+1)
			if a.isBool() {
				return boolV(!a.b)
			}
			return a
		case token.MUL:
			if fa, ok := v.X.(*ssa.FieldAddr); ok {
				if a, ok := e.fieldVal(fa.X, fa.Field); ok {
					return a
				}
			}
		}
		return unknownV
	case *ssa.Field:
		if a, ok := e.fieldVal(v.X, v.Field); ok {
			return a
		}
		return unknownV
	case *ssa.ChangeType:
		return e.eval(v.X, depth+1)
	case *ssa.Convert:
		return e.eval(v.X, depth+1)
	case *ssa.BinOp:
		if v.Op == token.EQL || v.Op == token.NEQ {
			x, y := e.eval(v.X, depth+1), e.eval(v.Y, depth+1)
			if x.k == 3 || y.k == 3 {
				return undefV
			}
			if x.k != 0 && y.k != 0 && x.k == y.k {
				return boolV((x == y) == (v.Op == token.EQL))
			}
			// field known not to be one of some strings
			if r, ok := e.notIn(v.X, y); ok {
				return boolV(r == (v.Op == token.NEQ))
			}
			if r, ok := e.notIn(v.Y, x); ok {
				return boolV(r == (v.Op == token.NEQ))
			}
			return unknownV
		}
		if v.Op == token.GTR || v.Op == token.LSS || v.Op == token.GEQ || v.Op == token.LEQ {
			x, y := e.eval(v.X, depth+1), e.eval(v.Y, depth+1)
			if x.k == 3 || y.k == 3 {
				return undefV
			}
			if x.k == 4 && y.k == 4 {
				switch v.Op {
				case token.GTR:
					return boolV(x.i > y.i)
				case token.LSS:
					return boolV(x.i < y.i)
				case token.GEQ:
					return boolV(x.i >= y.i)
				case token.LEQ:
					return boolV(x.i <= y.i)
				}
			}
			return unknownV
		}
		if v.Op == token.AND || v.Op == token.OR { // non-short-circuit on bools (rare)
			x, y := e.eval(v.X, depth+1), e.eval(v.Y, depth+1)
			if x.isBool() && y.isBool() {
				if v.Op == token.AND {
					return boolV(x.b && y.b)
				}
				return boolV(x.b || y.b)
			}
		}
		return unknownV
	case *ssa.Phi:
		res := undefV
		for i, in := range v.Edges {
			p := v.Block().Preds[i]
			if !e.reach[p] || !e.edgeFeasible(p, v.Block()) {
				continue
			}
			res = join(res, e.eval(in, depth+1))
			if res.k == 0 {
				return res
			}
		}
		return res
	case *ssa.Call:
		callee, _ := calleeOf(v.Common())
		if callee == nil || !inHelm(callee) || len(callee.Blocks) == 0 {
			return unknownV
		}
		// a predicate method on the mode object: evaluate it under the same specialisation
		if callee.Signature.Recv() == nil || !e.s.isObjPtr(callee.Signature.Recv().Type()) {
			return unknownV
		}
		if callee.Signature.Results().Len() != 1 {
			return unknownV
		}
		if b, ok := callee.Signature.Results().At(0).Type().Underlying().(*types.Basic); !ok || b.Kind() != types.Bool {
			return unknownV
		}
		if !pureReader(callee) {
			return unknownV
		}
		g := e.s.Graph(callee)
		ce := &evaluator{s: e.s, fn: callee, feasible: nil, reach: g.Reachable(), memo: map[ssa.Value]aval{}}
		ce.feasible = map[Edge]bool{}
		for _, b := range callee.Blocks {
			for i := range b.Succs {
				if !g.Dead[Edge{From: b, Succ: i}] {
					ce.feasible[Edge{From: b, Succ: i}] = true
				}
			}
		}
		res := undefV
		for _, b := range callee.Blocks {
			if !g.Reachable()[b] || len(b.Instrs) == 0 {
				continue
			}
			if r, ok := b.Instrs[len(b.Instrs)-1].(*ssa.Return); ok {
				res = join(res, ce.eval(r.Results[0], depth+1))
			}
		}
		if res.k == 3 {
			return unknownV
		}
		return res
	}
	return unknownV
}

// notIn: is value v a load of a mode field known not to equal constant c?
func (e *evaluator) notIn(v ssa.Value, c aval) (bool, bool) {
	if c.k != 2 || e.s.NotIn == nil {
		return false, false
	}
	u, ok := v.(*ssa.UnOp)
	if !ok || u.Op != token.MUL {
		return false, false
	}
	fa, ok := u.X.(*ssa.FieldAddr)
	if !ok {
		return false, false
	}
	name := e.fieldName(fa.X, fa.Field)
	if name == "" {
		return false, false
	}
	if set, ok := e.s.NotIn[name]; ok && set[c.s] {
		return true, true // v != c is true
	}
	return false, false
}

func (e *evaluator) edgeFeasible(from, to *ssa.BasicBlock) bool {
	for i, t := range from.Succs {
		if t == to && e.feasible[Edge{From: from, Succ: i}] {
			return true
		}
	}
	return false
}

// pureReader: the function performs no stores, no calls other than to pure readers, no sends.
func pureReader(fn *ssa.Function) bool {
	for _, b := range fn.Blocks {
		for _, in := range b.Instrs {
			switch in := in.(type) {
			case *ssa.Store, *ssa.Send, *ssa.Go, *ssa.Defer, *ssa.MapUpdate, *ssa.Panic:
				return false
			case *ssa.Call:
				_ = in
				return false
			}
		}
	}
	return true
}
