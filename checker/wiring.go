package main

// wiring.go — option wiring between action objects: a field of one pkg/action options struct that is
// initialised from a field of another must be fed from the field of the same name (a cross-wired flag
// makes one option silently control another), and where one action builds another the listed fields
// must be carried over before the built action runs.

import (
	"fmt"
	"go/token"
	"sort"
	"strings"

	"golang.org/x/tools/go/ssa"
)

func isActionStruct(pkgPath string) bool { return pkgPath == actionPkg }

// wiringSites: stores dst.F = src.G with both structs in pkg/action (F in fields).
func checkWiring(w *World, r *Report, rule string, fields map[string]bool) {
	n := 0
	for _, fn := range w.HelmFuncs() {
		for _, b := range fn.Blocks {
			for _, in := range b.Instrs {
				st, ok := in.(*ssa.Store)
				if !ok {
					continue
				}
				dp, dt, df := fieldNameOf(st.Addr)
				if !isActionStruct(dp) || !fields[df] {
					continue
				}
				ld, ok := st.Val.(*ssa.UnOp)
				if !ok || ld.Op != token.MUL {
					continue
				}
				sp, stt, sf := fieldNameOf(ld.X)
				if !isActionStruct(sp) || sf == "" {
					continue
				}
				n++
				key := fmt.Sprintf("%s/%s.%s←%s.%s", FuncName(fn), dt, df, stt, sf)
				r.Fn(FuncName(fn))
				r.Check(df == sf, rule, key, w.InstrPos(st), dt+"."+df+" is fed from the option of the same name", dt+"."+df+" is fed from "+stt+"."+sf+": a different option now controls it")
			}
		}
	}
	if n == 0 {
		r.OKTrivial(rule, "no-wiring-site", "-", "no action option of this set is copied between action objects")
	}
}

// checkCarried: in the pkg/cmd closure that builds an Install from the Upgrade flags and runs it, the
// listed fields are stored from the same-named Upgrade fields on every path to the run.
func checkCarried(w *World, r *Report, rule string, fields []string) {
	run := w.Fn("pkg/cmd", "runInstall")
	outer := w.Fn("pkg/cmd", "newUpgradeCmd")
	if run == nil || outer == nil {
		r.Unk(rule, "upgrade-install/anchor", "-", "pkg/cmd.newUpgradeCmd / runInstall not found")
		return
	}
	found := false
	for _, fn := range withAnon(outer) {
		g := FullGraph(fn)
		for _, c := range callInstrs(fn) {
			f, _ := calleeOf(c.Common())
			if f == nil || origin(f) != run {
				continue
			}
			found = true
			r.Fn(FuncName(fn))
			for _, fld := range fields {
				var stores []ssa.Instruction
				for _, b := range fn.Blocks {
					for _, in := range b.Instrs {
						st, ok := in.(*ssa.Store)
						if !ok {
							continue
						}
						if _, dt, df := fieldNameOf(st.Addr); dt == "Install" && df == fld {
							if ld, ok := st.Val.(*ssa.UnOp); ok {
								if _, stt, sf := fieldNameOf(ld.X); stt == "Upgrade" && sf == fld {
									stores = append(stores, st)
								}
							}
						}
					}
				}
				ok := len(stores) > 0
				if ok {
					ex, _ := g.PathExists(entryPos(fn), posOf(c), avoidInstrs(stores...))
					ok = !ex
				}
				r.Check(ok, rule, "upgrade-install/carries:"+fld, w.InstrPos(c), "upgrade --install hands "+fld+" to the install it starts", "upgrade --install starts an install without carrying "+fld+" over: the fallback install would ignore the option")
			}
		}
	}
	if !found {
		r.Unk(rule, "upgrade-install/no-call", w.Pos(outer.Pos()), "upgrade no longer falls back to runInstall")
	}
}

// ---- command-line flag bindings ------------------------------------------------------------------------

// flagBindings lists, for every pflag registration in pkg/cmd that stores into a field of a helm struct,
// "StructType/flag-name" -> field name.
func flagBindings(w *World) map[string]string {
	out := map[string]string{}
	for _, fn := range w.HelmFuncs() {
		if !strings.HasSuffix(fnPkgPath(fn), "/pkg/cmd") {
			continue
		}
		for _, c := range callInstrs(fn) {
			f, _ := calleeOf(c.Common())
			if f == nil || !strings.HasSuffix(fnPkgPath(f), "spf13/pflag") || !strings.Contains(f.Name(), "Var") {
				continue
			}
			args := c.Common().Args
			if len(args) < 3 {
				continue
			}
			fa, ok := args[1].(*ssa.FieldAddr)
			if !ok {
				if mi, isMI := args[1].(*ssa.MakeInterface); isMI { // Var(value, name, usage) with a custom Value wrapping &x.F
					fa, ok = mi.X.(*ssa.FieldAddr)
				}
				if !ok {
					continue
				}
			}
			name, isC := constString(args[2])
			if !isC {
				continue
			}
			_, t, fld := fieldNameOf(fa)
			if t == "" {
				continue
			}
			out[t+"/"+name] = fld
		}
	}
	return out
}

// FlagRef is reference/flags.txt: the bindings of the reference tree.
var FlagRef map[string]string

// checkFlagBinding: a command-line flag that the reference tree binds to one of the listed option fields
// is still bound to that field, and none of the listed fields is bound to a flag that belonged to another.
func checkFlagBinding(w *World, r *Report, rule string, fields map[string]bool) {
	if FlagRef == nil {
		r.Unk(rule, "flags/reference", "-", "reference/flags.txt is missing")
		return
	}
	cur := flagBindings(w)
	n := 0
	var keys []string
	for k := range cur {
		keys = append(keys, k)
	}
	sort.Strings(keys)
	for _, k := range keys {
		fld := cur[k]
		ref, known := FlagRef[k]
		if !known || (!fields[fld] && !fields[ref]) {
			continue
		}
		n++
		r.Check(fld == ref, rule, "flag/"+k, "-", "--"+k[strings.Index(k, "/")+1:]+" sets "+ref, "--"+k[strings.Index(k, "/")+1:]+" now sets "+fld+" instead of "+ref+": the option is controlled by the wrong flag")
	}
	if n == 0 {
		r.OKTrivial(rule, "flag/none", "-", "no flag of the reference tree is bound to these options")
	}
}
