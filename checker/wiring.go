package main

// wiring.go — option wiring between action objects: a field of one pkg/action options struct that is
// initialised from a field of another must be fed from the field of the same name (a cross-wired flag
// makes one option silently control another), and where one action builds another the listed fields
// must be carried over before the built action runs.

import (
	"fmt"
	"go/token"

	"golang.org/x/tools/go/ssa"
)

func isActionStruct(pkgPath string) bool { return pkgPath == actionPkg }

// wiringSites: stores dst.F = src.G with both structs in pkg/action (F in fields).
func checkWiring(w *World, r *Report, rule string, fields map[string]bool) {
	n := 0
	for _, fn := range w.HelmFuncs() {
		for _, b := range fn.Blocks {
			for _, in := range b.Instrs {
				st, ok := in.(*ssa.Store)
				if !ok {
					continue
				}
				dp, dt, df := fieldNameOf(st.Addr)
				if !isActionStruct(dp) || !fields[df] {
					continue
				}
				ld, ok := st.Val.(*ssa.UnOp)
				if !ok || ld.Op != token.MUL {
					continue
				}
				sp, stt, sf := fieldNameOf(ld.X)
				if !isActionStruct(sp) || sf == "" {
					continue
				}
				n++
				key := fmt.Sprintf("%s/%s.%s←%s.%s", FuncName(fn), dt, df, stt, sf)
				r.Fn(FuncName(fn))
				r.Check(df == sf, rule, key, w.InstrPos(st), dt+"."+df+" is fed from the option of the same name", dt+"."+df+" is fed from "+stt+"."+sf+": a different option now controls it")
			}
		}
	}
	if n == 0 {
		r.OKTrivial(rule, "no-wiring-site", "-", "no action option of this set is copied between action objects")
	}
}

// checkCarried: in the pkg/cmd closure that builds an Install from the Upgrade flags and runs it, the
// listed fields are stored from the same-named Upgrade fields on every path to the run.
func checkCarried(w *World, r *Report, rule string, fields []string) {
	run := w.Fn("pkg/cmd", "runInstall")
	outer := w.Fn("pkg/cmd", "newUpgradeCmd")
	if run == nil || outer == nil {
		r.Unk(rule, "upgrade-install/anchor", "-", "pkg/cmd.newUpgradeCmd / runInstall not found")
		return
	}
	found := false
	for _, fn := range withAnon(outer) {
		g := FullGraph(fn)
		for _, c := range callInstrs(fn) {
			f, _ := calleeOf(c.Common())
			if f == nil || origin(f) != run {
				continue
			}
			found = true
			r.Fn(FuncName(fn))
			for _, fld := range fields {
				var stores []ssa.Instruction
				for _, b := range fn.Blocks {
					for _, in := range b.Instrs {
						st, ok := in.(*ssa.Store)
						if !ok {
							continue
						}
						if _, dt, df := fieldNameOf(st.Addr); dt == "Install" && df == fld {
							if ld, ok := st.Val.(*ssa.UnOp); ok {
								if _, stt, sf := fieldNameOf(ld.X); stt == "Upgrade" && sf == fld {
									stores = append(stores, st)
								}
							}
						}
					}
				}
				ok := len(stores) > 0
				if ok {
					ex, _ := g.PathExists(entryPos(fn), posOf(c), avoidInstrs(stores...))
					ok = !ex
				}
				r.Check(ok, rule, "upgrade-install/carries:"+fld, w.InstrPos(c), "upgrade --install hands "+fld+" to the install it starts", "upgrade --install starts an install without carrying "+fld+" over: the fallback install would ignore the option")
			}
		}
	}
	if !found {
		r.Unk(rule, "upgrade-install/no-call", w.Pos(outer.Pos()), "upgrade no longer falls back to runInstall")
	}
}
