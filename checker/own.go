package main

// own.go — OWN: ownership of value trees (map[string]interface{} / chartutil.Values), §2.6 of DESIGN.md.
//
// Every tree-typed SSA value gets two classes: `self` (who owns the map object itself) and `content`
// (who owns what is reachable through it). A class is Fresh (deep copy, decoded document, newly made
// map), Of(P) (the function's own parameters P — the object itself or sub-trees of them) or Foreign (a
// struct field such as Chart.Values, a global, an unknown call's result, a one-level copy).
// Every tree-typed parameter gets inferred contracts: mutShallow (keys of the map itself are
// written/deleted), mutDeep (a map reached through it is written) and cap (it, or a sub-tree, is linked
// into another map or a struct field).
// Rules: a written map's `self` must not be Foreign; a Foreign tree must not be linked into a map; an
// argument bound to a mut/cap parameter must be Fresh or Of(P), in which case the obligation moves to
// the caller's parameters P. Exported read-only entry points must end with no contract on their maps.

import (
	"fmt"
	"go/token"
	"go/types"
	"os"
	"sort"
	"strings"

	"golang.org/x/tools/go/ssa"
)

type vclass struct {
	kind int    // 0 Fresh, 1 Of(params), 2 Foreign
	idxs uint64 // bit set of parameter indices (kind 1)
	why  string
}

var freshC = vclass{}

func ofC(i int) vclass {
	if i < 0 || i > 62 {
		return foreignC("parameter index out of range")
	}
	return vclass{kind: 1, idxs: 1 << uint(i)}
}
func foreignC(w string) vclass { return vclass{kind: 2, why: w} }

func (c vclass) params() []int {
	var out []int
	for i := 0; i < 63; i++ {
		if c.idxs&(1<<uint(i)) != 0 {
			out = append(out, i)
		}
	}
	return out
}

func (c vclass) String() string {
	switch c.kind {
	case 0:
		return "fresh"
	case 1:
		return fmt.Sprintf("of-parameters%v", c.params())
	}
	return "foreign (" + c.why + ")"
}

func joinC(a, b vclass) vclass {
	if a.kind == 0 {
		return b
	}
	if b.kind == 0 {
		return a
	}
	if a.kind == 2 {
		return a
	}
	if b.kind == 2 {
		return b
	}
	return vclass{kind: 1, idxs: a.idxs | b.idxs}
}

// vpair: (self, content, top). top: the value is a parameter itself, so writes to it are shallow.
type vpair struct {
	self, content vclass
	top           bool
}

func joinP(a, b vpair) vpair {
	return vpair{joinC(a.self, b.self), joinC(a.content, b.content), a.top && b.top}
}

var freshP = vpair{freshC, freshC, false}

func foreignP(w string) vpair { return vpair{foreignC(w), foreignC(w), false} }

func (p vpair) all() vclass { return joinC(p.self, p.content) }

func isTreeType(t types.Type) bool {
	if n, ok := t.(*types.Named); ok && n.Obj().Name() != "Values" {
		return false
	}
	if u, ok := t.Underlying().(*types.Map); ok {
		if b, ok := u.Key().Underlying().(*types.Basic); ok && b.Kind() == types.String {
			if _, isIface := u.Elem().Underlying().(*types.Interface); isIface {
				return true
			}
		}
	}
	return false
}

// mayHoldTree: the value may be (or dynamically contain) a values tree.
func mayHoldTree(v ssa.Value) bool {
	inner := unwrapIface(v)
	if isTreeType(inner.Type()) {
		return true
	}
	if _, isIface := inner.Type().Underlying().(*types.Interface); isIface {
		if _, isConst := inner.(*ssa.Const); isConst {
			return false
		}
		if isErrorType(inner.Type()) {
			return false
		}
		return true
	}
	if sl, ok := inner.Type().Underlying().(*types.Slice); ok {
		_, isIface := sl.Elem().Underlying().(*types.Interface)
		return isIface
	}
	return false
}

type Own struct {
	w       *World
	scope   map[*ssa.Function]bool
	mutS    map[*ssa.Function]map[int]bool
	mutD    map[*ssa.Function]map[int]bool
	capt    map[*ssa.Function]map[int]bool
	retMemo map[*ssa.Function]*vpair
	retBusy map[*ssa.Function]bool
	cmemo   map[ssa.Value]vpair
	cbusy   map[ssa.Value]bool
	cuts    int
}

func NewOwn(w *World, scope map[*ssa.Function]bool) *Own {
	return &Own{w: w, scope: scope, mutS: map[*ssa.Function]map[int]bool{}, mutD: map[*ssa.Function]map[int]bool{}, capt: map[*ssa.Function]map[int]bool{},
		retMemo: map[*ssa.Function]*vpair{}, retBusy: map[*ssa.Function]bool{}, cmemo: map[ssa.Value]vpair{}, cbusy: map[ssa.Value]bool{}}
}

func paramIndex(fn *ssa.Function, p *ssa.Parameter) int {
	for i, q := range fn.Params {
		if q == p {
			return i
		}
	}
	return -1
}

func isDeepCopyCallee(f *ssa.Function) bool {
	if f == nil {
		return false
	}
	return fnPkgPath(f) == "github.com/mitchellh/copystructure" && (f.Name() == "Copy" || f.Name() == "Must")
}

// isDeepCopyWrapper: a helm function that returns (copy, error) of a direct deep-copy call.
func isDeepCopyWrapper(f *ssa.Function) bool {
	if f == nil || !inHelm(f) || errIndexOf(f) < 0 {
		return false
	}
	for _, c := range callInstrs(f) {
		if g, _ := calleeOf(c.Common()); isDeepCopyCallee(g) {
			return true
		}
	}
	return false
}

func errIndexOf(f *ssa.Function) int {
	res := f.Signature.Results()
	for i := 0; i < res.Len(); i++ {
		if isErrorType(res.At(i).Type()) {
			return i
		}
	}
	return -1
}

// copyFailureEdge: control reaches block pred only after a deep copy failed (err != nil of
// copystructure.Copy or of a helm wrapper of it, or the failed comma-ok assertion of its result): the
// logged "use the original" fallback, a named exception of DESIGN §3 C04.
func copyFailureEdge(fn *ssa.Function, pred *ssa.BasicBlock) bool {
	g := FullGraph(fn)
	for _, c := range callInstrs(fn) {
		f, _ := calleeOf(c.Common())
		if !isDeepCopyCallee(f) && !isDeepCopyWrapper(f) {
			continue
		}
		_, bad := nilTestEdges(errResult(c))
		for _, e := range bad {
			if edgeDominates(g, e, pred) || e.To() == pred {
				return true
			}
		}
		if r0 := resultN(c, 0); r0 != nil && r0.Referrers() != nil {
			for _, rf := range *r0.Referrers() {
				if ta, ok := rf.(*ssa.TypeAssert); ok && ta.CommaOk && ta.Referrers() != nil {
					for _, rr := range *ta.Referrers() {
						if ex, ok := rr.(*ssa.Extract); ok && ex.Index == 1 {
							for _, e := range condEdges(ex) {
								if !e.truth && (edgeDominates(g, e.Edge, pred) || e.To() == pred) {
									return true
								}
							}
						}
					}
				}
			}
		}
	}
	return false
}

func (o *Own) classOf(v ssa.Value) vpair {
	if c, ok := o.cmemo[v]; ok {
		return c
	}
	if o.cbusy[v] {
		o.cuts++
		return vpair{freshC, freshC, true} // cycle through a loop phi: the other edges decide
	}
	o.cbusy[v] = true
	before := o.cuts
	c := o.classOf1(v)
	delete(o.cbusy, v)
	// a result computed while a cycle was cut below is only valid for the root of that evaluation
	if o.cuts == before || len(o.cbusy) == 0 {
		o.cmemo[v] = c
	}
	return c
}

// sub: the class of a value read out of container c (lookup, range value, element).
func sub(c vpair) vpair { return vpair{c.content, c.content, false} }

func (o *Own) classOf1(v ssa.Value) vpair {
	switch x := v.(type) {
	case *ssa.Const:
		return freshP
	case *ssa.MakeMap:
		c := freshP
		if refs := x.Referrers(); refs != nil {
			for _, rf := range *refs {
				if mu, ok := rf.(*ssa.MapUpdate); ok && mu.Map == x && mayHoldTree(mu.Value) {
					c.content = joinC(c.content, o.classOf(mu.Value).all())
				}
			}
		}
		return c
	case *ssa.MakeInterface:
		return o.classOf(x.X)
	case *ssa.ChangeType:
		return o.classOf(x.X)
	case *ssa.ChangeInterface:
		return o.classOf(x.X)
	case *ssa.Convert:
		return o.classOf(x.X)
	case *ssa.TypeAssert:
		return o.classOf(x.X)
	case *ssa.Extract:
		switch t := x.Tuple.(type) {
		case *ssa.Lookup:
			return sub(o.classOf(t.X))
		case *ssa.Next:
			if rg, ok := t.Iter.(*ssa.Range); ok {
				return sub(o.classOf(rg.X))
			}
			return foreignP("iterator")
		case *ssa.TypeAssert:
			return o.classOf(t.X)
		}
		return o.classOf(x.Tuple)
	case *ssa.Lookup:
		return sub(o.classOf(x.X))
	case *ssa.Index:
		return sub(o.classOf(x.X))
	case *ssa.Field:
		return sub(o.classOf(x.X))
	case *ssa.Slice:
		return o.classOf(x.X)
	case *ssa.Phi:
		c := vpair{freshC, freshC, true}
		for i, e := range x.Edges {
			if copyFailureEdge(x.Parent(), x.Block().Preds[i]) {
				continue
			}
			c = joinP(c, o.classOf(e))
		}
		return c
	case *ssa.Parameter:
		c := ofC(paramIndex(x.Parent(), x))
		return vpair{c, c, true}
	case *ssa.FreeVar:
		return foreignP("captured variable " + x.Name())
	case *ssa.Global:
		return foreignP("global " + x.Name())
	case *ssa.UnOp:
		if x.Op == token.MUL {
			switch a := x.X.(type) {
			case *ssa.FieldAddr:
				_, t, f := fieldNameOf(a)
				if al, ok := a.X.(*ssa.Alloc); ok {
					c := freshP
					n := 0
					for _, rf := range *al.Referrers() {
						if st, ok := rf.(*ssa.Store); ok && st.Addr == ssa.Value(al) {
							// the whole struct was copied into the local: its field is a part of the copied value
							n++
							c = joinP(c, sub(o.classOf(st.Val)))
						}
						if fa2, ok := rf.(*ssa.FieldAddr); ok && fa2.Field == a.Field && fa2.Referrers() != nil {
							for _, rr := range *fa2.Referrers() {
								if st, ok := rr.(*ssa.Store); ok && st.Addr == fa2 {
									n++
									c = joinP(c, o.classOf(st.Val))
								}
							}
						}
					}
					if n > 0 {
						return c
					}
				}
				return foreignP("field " + t + "." + f)
			case *ssa.Alloc:
				c := freshP
				n := 0
				for _, rf := range *a.Referrers() {
					if st, ok := rf.(*ssa.Store); ok && st.Addr == a {
						n++
						c = joinP(c, o.classOf(st.Val))
					}
				}
				if n == 0 {
					return freshP // filled through its address by a decoder
				}
				return c
			case *ssa.Global:
				return foreignP("global " + a.Name())
			case *ssa.IndexAddr:
				return sub(o.classOf(a.X))
			}
			return foreignP("load")
		}
		return foreignP("unary op")
	case *ssa.Alloc, *ssa.MakeSlice:
		return freshP
	case *ssa.Call:
		if bi, ok := x.Call.Value.(*ssa.Builtin); ok {
			if bi.Name() == "append" {
				c := freshP
				for _, a := range x.Call.Args {
					c = joinP(c, o.classOf(a))
				}
				return c
			}
			return freshP
		}
		cands := calleesOf(x.Common())
		if len(cands) == 0 {
			return foreignP("result of a dynamic call")
		}
		out := o.classOfCall(x, cands[0])
		for _, cnd := range cands[1:] {
			out = joinP(out, o.classOfCall(x, cnd))
		}
		return out
	}
	return foreignP(fmt.Sprintf("%T", v))
}

// classOfCall: the class of the result of call x if its callee is `callee` (one of the candidates of a
// call through a function value chosen among named functions).
func (o *Own) classOfCall(x *ssa.Call, callee *ssa.Function) vpair {
	{
		if isDeepCopyCallee(callee) {
			return freshP
		}
		if inHelm(callee) && len(callee.Blocks) > 0 {
			rc := o.returnClass(origin(callee))
			subst := func(c vclass, content bool) vclass {
				if c.kind != 1 {
					return c
				}
				out := freshC
				for _, i := range c.params() {
					if i >= len(x.Call.Args) {
						return foreignC("parameter out of range")
					}
					ac := o.classOf(x.Call.Args[i])
					if content {
						out = joinC(out, ac.all())
					} else {
						out = joinC(out, ac.all())
					}
				}
				return out
			}
			return vpair{subst(rc.self, false), subst(rc.content, true), false}
		}
		p := fnPkgPath(callee)
		switch {
		case p == "maps" || p == "golang.org/x/exp/maps":
			in := freshC
			for _, a := range x.Call.Args {
				in = joinC(in, o.classOf(a).all())
			}
			if in.kind == 0 {
				return freshP
			}
			return vpair{freshC, joinC(in, foreignC("one-level copy "+p+"."+callee.Name()+": nested tables stay shared")), false}
		case p == "sigs.k8s.io/yaml" || p == "encoding/json" || strings.HasPrefix(p, "gopkg.in/yaml") || p == "github.com/BurntSushi/toml":
			return freshP
		}
		return foreignP("result of " + p + "." + callee.Name())
	}
}

// returnClass: join over all returns of the first tree-like result.
func (o *Own) returnClass(fn *ssa.Function) vpair {
	if c, ok := o.retMemo[fn]; ok {
		return *c
	}
	if o.retBusy[fn] {
		o.cuts++
		return freshP
	}
	o.retBusy[fn] = true
	defer delete(o.retBusy, fn)
	before := o.cuts
	c := freshP
	for _, b := range fn.Blocks {
		if len(b.Instrs) == 0 {
			continue
		}
		ret, ok := b.Instrs[len(b.Instrs)-1].(*ssa.Return)
		if !ok {
			continue
		}
		if copyFailureEdge(fn, b) {
			continue
		}
		for _, rv := range ret.Results {
			if isErrorType(rv.Type()) || !(isTreeType(rv.Type()) || mayHoldTree(rv)) {
				continue
			}
			c = joinP(c, o.classOf(rv))
			break
		}
	}
	if o.cuts == before || len(o.retBusy) == 1 {
		o.retMemo[fn] = &c
	}
	return c
}

func (o *Own) set(m map[*ssa.Function]map[int]bool, which string, fn *ssa.Function, c vclass) bool {
	changed := false
	for _, i := range c.params() {
		if m[fn] == nil {
			m[fn] = map[int]bool{}
		}
		if !m[fn][i] {
			m[fn][i] = true
			changed = true
			if os.Getenv("VERIF_DEBUG") != "" {
				fmt.Fprintf(os.Stderr, "OWN %s %s #%d\n", which, FuncName(fn), i)
			}
		}
	}
	return changed
}

type ownSite struct {
	Fn  *ssa.Function
	At  ssa.Instruction
	Key string
	OK  bool
	Why string
}

// Infer runs the contract fixpoint and returns the checked sites of the final round.
func (o *Own) Infer() []ownSite {
	var sites []ownSite
	for round := 0; round < 14; round++ {
		changed := false
		sites = nil
		o.cmemo = map[ssa.Value]vpair{}
		o.retMemo = map[*ssa.Function]*vpair{}
		write := func(fn *ssa.Function, at ssa.Instruction, m ssa.Value, what string) {
			mc := o.classOf(m)
			switch mc.self.kind {
			case 1:
				if mc.top {
					if o.set(o.mutS, "mutShallow", fn, mc.self) {
						changed = true
					}
				} else if o.set(o.mutD, "mutDeep", fn, mc.self) {
					changed = true
				}
			case 2:
				sites = append(sites, ownSite{fn, at, what, false, "a map that is " + mc.self.String() + " is written in place"})
			}
		}
		for _, fn := range o.sortedScope() {
			for _, b := range fn.Blocks {
				for _, in := range b.Instrs {
					switch x := in.(type) {
					case *ssa.MapUpdate:
						if !isTreeType(x.Map.Type()) {
							continue
						}
						write(fn, x, x.Map, "write")
						if mayHoldTree(x.Value) {
							vc := o.classOf(x.Value).all()
							mc := o.classOf(x.Map)
							switch vc.kind {
							case 1:
								// storing a sub-tree of P back into P's own tree is not a capture
								if !(mc.self.kind == 1 && mc.self.idxs&vc.idxs == vc.idxs) {
									if o.set(o.capt, "cap", fn, vc) {
										changed = true
									}
								}
							case 2:
								sites = append(sites, ownSite{fn, x, "link", false, "a tree that is " + vc.String() + " is linked into another map (later merges write into it)"})
							}
						}
					case ssa.CallInstruction:
						cc := x.Common()
						if bi, ok := cc.Value.(*ssa.Builtin); ok {
							if bi.Name() == "delete" && isTreeType(cc.Args[0].Type()) {
								write(fn, x, cc.Args[0], "delete")
							}
							continue
						}
						for _, callee := range calleesOf(cc) {
							if callee == nil || !o.scope[origin(callee)] {
								continue
							}
							callee = origin(callee)
							for k, a := range cc.Args {
								if k >= len(callee.Params) {
									break
								}
								nS, nD, nC := o.mutS[callee][k], o.mutD[callee][k], o.capt[callee][k]
								if !nS && !nD && !nC {
									continue
								}
								if !mayHoldTree(a) && !isTreeType(a.Type()) {
									continue
								}
								ac := o.classOf(a)
								var need []string
								req := freshC
								if nS {
									need = append(need, "written")
									req = joinC(req, ac.self)
								}
								if nD {
									need = append(need, "written below the top level")
									req = joinC(req, ac.all())
								}
								if nC {
									need = append(need, "linked into another tree")
									req = joinC(req, ac.all())
								}
								contract := strings.Join(need, " and ")
								key := fmt.Sprintf("arg:%s#%d", FuncName(callee), k)
								switch req.kind {
								case 0:
									sites = append(sites, ownSite{fn, x, key, true, "argument is fresh (deep copy / newly made) where the callee's parameter is " + contract})
								case 1:
									if nS {
										if ac.top && ac.self.kind == 1 {
											if o.set(o.mutS, "mutShallow", fn, ac.self) {
												changed = true
											}
										} else if o.set(o.mutD, "mutDeep", fn, ac.self) {
											changed = true
										}
									}
									if nD && o.set(o.mutD, "mutDeep", fn, ac.all()) {
										changed = true
									}
									if nC && o.set(o.capt, "cap", fn, ac.all()) {
										changed = true
									}
									sites = append(sites, ownSite{fn, x, key, true, "argument belongs to the caller's own parameters (callee: " + contract + "); the obligation moves to this function's callers"})
								case 2:
									sites = append(sites, ownSite{fn, x, key, false, "argument is " + req.String() + " but the callee's parameter is " + contract})
								}
							}
						}
					case *ssa.Store:
						if _, ok := x.Addr.(*ssa.FieldAddr); ok && mayHoldTree(x.Val) {
							vc := o.classOf(x.Val).all()
							if vc.kind == 1 && o.set(o.capt, "cap", fn, vc) {
								changed = true
							}
						}
					}
				}
			}
		}
		if !changed {
			break
		}
	}
	return sites
}

func (o *Own) sortedScope() []*ssa.Function {
	var fns []*ssa.Function
	for f := range o.scope {
		fns = append(fns, f)
	}
	sort.Slice(fns, func(i, j int) bool {
		if fns[i].Pos() != fns[j].Pos() {
			return fns[i].Pos() < fns[j].Pos()
		}
		return fns[i].String() < fns[j].String()
	})
	return fns
}
