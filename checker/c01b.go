package main

// c01b.go — HISTORY-ORDER: positional use of an unordered history list.

import (
	"fmt"
	"go/token"
	"strings"

	"golang.org/x/tools/go/ssa"
)

// c01HistoryOrder: Storage.History (and the other list queries) return records in the order of the
// backend (the Kubernetes backends list by object name: v1, v10, v11, v2 …). Picking "the latest" or
// "the first" by position is only meaningful after SortByRevision.
func c01HistoryOrder(w *World, r *Report, rule string) {
	r.Rule(rule, "a record is picked by position (first, last, fixed index) from a list returned by Storage.History / ListReleases / Query only after releaseutil.SortByRevision (or Reverse of it) was applied to that list", 3)
	isListQuery := func(f *ssa.Function) bool {
		switch FuncName(f) {
		case "(*pkg/storage.Storage).History", "(*pkg/storage.Storage).ListReleases", "(*pkg/storage.Storage).ListDeployed", "(*pkg/storage.Storage).ListUninstalled", "(*pkg/storage.Storage).DeployedAll":
			return true
		}
		return false
	}
	isSort := func(f *ssa.Function) bool {
		n := FuncName(f)
		return n == "pkg/release/util.SortByRevision" || n == "pkg/release/util.Reverse" || n == "pkg/release/util.SortByDate" || n == "pkg/release/util.SortByName"
	}
	n := 0
	seen := map[string]int{}
	for _, rel := range []string{"pkg/action", "pkg/storage", "pkg/cmd"} {
		for _, fn := range w.FuncsIn(rel) {
			var g *Graph
			for _, c := range callInstrs(fn) {
				f, _ := calleeOf(c.Common())
				if f == nil || !isListQuery(f) {
					continue
				}
				list := resultN(c, 0)
				if list == nil {
					continue
				}
				// aliases of the list (phi / conversions)
				al := map[ssa.Value]bool{list: true}
				work := []ssa.Value{list}
				var sorts []ssa.Instruction
				var picks []*ssa.IndexAddr
				for len(work) > 0 {
					v := work[len(work)-1]
					work = work[:len(work)-1]
					if v.Referrers() == nil {
						continue
					}
					for _, rf := range *v.Referrers() {
						switch x := rf.(type) {
						case *ssa.Phi, *ssa.ChangeType, *ssa.MakeInterface:
							xv := x.(ssa.Value)
							if !al[xv] {
								al[xv] = true
								work = append(work, xv)
							}
						case *ssa.Slice:
							if !al[x] {
								al[x] = true
								work = append(work, x)
							}
						case ssa.CallInstruction:
							if sf, _ := calleeOf(x.Common()); sf != nil && isSort(sf) {
								sorts = append(sorts, x)
								// sort.Reverse-style wrappers return a value that is the list again
								if xv := x.Value(); xv != nil && !al[xv] {
									al[xv] = true
									work = append(work, xv)
								}
							}
						case *ssa.IndexAddr:
							if x.X == v && !phiCountsUp(x.Index) {
								if phi, isPhi := x.Index.(*ssa.Phi); isPhi && phi.Comment == "rangeindex" {
									continue
								}
								picks = append(picks, x)
							}
						}
					}
				}
				for _, p := range picks {
					if g == nil {
						g = FullGraph(fn)
					}
					n++
					key := fmt.Sprintf("%s/%s[%s]", FuncName(fn), describeCall(c.Common()), indexForm(p.Index))
					seen[key]++
					if seen[key] > 1 {
						key = fmt.Sprintf("%s#%d", key, seen[key])
					}
					ok := false
					if len(sorts) > 0 {
						ex, _ := g.PathExists(posOf(c), posOf(p), avoidInstrs(sorts...))
						ok = !ex
					}
					r.Fn(FuncName(fn))
					r.Check(ok, rule, key, w.InstrPos(p), "the list is sorted by revision before this element is picked", "an element is picked by position from a list in backend order (v1, v10, v11, v2 … on the Kubernetes backends): not the revision intended once ten revisions exist")
				}
			}
		}
	}
	if n == 0 {
		r.Unk(rule, "no-instance", "-", "no positional pick from a history list found (uninstall and rollback are expected)")
	}
}

func indexForm(v ssa.Value) string {
	if c, ok := constInt(v); ok {
		return fmt.Sprint(c)
	}
	if bo, ok := v.(*ssa.BinOp); ok && bo.Op == token.SUB {
		if c, ok := constInt(bo.Y); ok {
			return fmt.Sprintf("len-%d", c)
		}
	}
	return "expr"
}

// c01ReportLast: a worker goroutine that hands its result to the operation over a channel does nothing
// to the ledger or the cluster afterwards: the receiver acts on the report at once (records the
// failure, rolls back), and a later write by the worker would land on top of that with stale data.
func c01ReportLast(w *World, r *Report, rule string) {
	ef := NewEffects(w)
	n := 0
	for _, fn := range w.FuncsIn("pkg/action") {
		if strings.HasSuffix(w.FileOf(fn), "_test.go") || isNewFunc(fn) {
			continue
		}
		g := FullGraph(fn)
		reps := reporterExits(g)
		if len(reps) == 0 {
			continue
		}
		r.Fn(FuncName(fn))
		var effects []ssa.CallInstruction
		for _, c := range callInstrs(fn) {
			if ef.CallEffect(c.Common())&(WStore|WCluster) != 0 {
				effects = append(effects, c)
			}
		}
		seen := map[string]int{}
		for _, rep := range reps {
			n++
			bad := ""
			for _, c := range effects {
				if c == rep.Instr {
					continue
				}
				if ex, _ := g.PathExists(rep.At, posOf(c), Avoid{}); ex {
					bad = w.InstrPos(c)
				}
			}
			key := fmt.Sprintf("%s/line-order", siteKey(Site{fn, rep.Instr.(ssa.CallInstruction), rep.At}))
			seen[key]++
			if seen[key] > 1 {
				key = fmt.Sprintf("%s@%d", key, seen[key])
			}
			r.Check(bad == "", rule, key, w.InstrPos(rep.Instr), "nothing is written after the result was reported", "after the result was handed to the operation the worker still writes to the ledger or the cluster at "+bad+": the operation reacts to the report at once (failure record, atomic rollback) and this late write overwrites what it did with stale data")
		}
	}
	if n == 0 {
		r.Unk(rule, "no-site", "-", "no worker reporting over a channel found in pkg/action")
	}
}

// c01NameReuse: a name whose history was found is handed out again only with Replace set: after the
// status of the last revision was looked at, every success return lies behind the true edge of Replace
// (without it the new release would not get the next revision number).
func c01NameReuse(w *World, r *Report) {
	r.Rule("C01/NAME-REUSE", "Install.availableName returns successfully after looking at the last revision's status only on the edge where Replace is set", 1)
	fn := w.Fn("pkg/action", "Install.availableName")
	if fn == nil {
		r.Unk("C01/NAME-REUSE", "anchor", "-", "Install.availableName not found")
		return
	}
	r.Fn(FuncName(fn))
	g := FullGraph(fn)
	var statusLoads []ssa.Instruction
	var replaceTrue []Edge
	for _, b := range fn.Blocks {
		for _, in := range b.Instrs {
			ld, ok := in.(*ssa.UnOp)
			if !ok || ld.Op != token.MUL {
				continue
			}
			if fa, ok := ld.X.(*ssa.FieldAddr); ok {
				if isFieldOf(fa, relPkg, "Info", "Status") {
					statusLoads = append(statusLoads, ld)
				}
				if _, t, f := fieldNameOf(fa); t == "Install" && f == "Replace" {
					for _, e := range condEdges(ld) {
						if e.truth {
							replaceTrue = append(replaceTrue, e.Edge)
						}
					}
				}
			}
		}
	}
	if len(statusLoads) == 0 {
		r.Unk("C01/NAME-REUSE", "no-status", w.Pos(fn.Pos()), "availableName does not look at the last revision's status")
		return
	}
	n := 0
	for i, rp := range g.classifyReturns() {
		if rp.Class != RetSuccess {
			continue
		}
		reach, viol := false, false
		for _, l := range statusLoads {
			if ex, _ := g.PathExists(posOf(l), retPos(rp), Avoid{}); ex {
				reach = true
				if ex2, _ := g.PathExists(posOf(l), retPos(rp), Avoid{}.withEdges(replaceTrue...)); ex2 {
					viol = true
				}
			}
		}
		if !reach {
			continue
		}
		n++
		r.Check(!viol && len(replaceTrue) > 0, "C01/NAME-REUSE", fmt.Sprintf("return#%d", i), w.InstrPos(rp.Ret), "the name of an existing history is reused only with Replace", "the name of an existing history can be handed out without Replace being set: the install does not take the next revision number but starts again at revision 1, below (or on top of) the revisions that are still stored")
	}
	if n == 0 {
		r.Unk("C01/NAME-REUSE", "no-reuse", w.Pos(fn.Pos()), "no success return after the status was looked at")
	}
}
