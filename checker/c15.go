package main

// C15 — packaging and loading a chart preserves its content (thin structural part).

import (
	"fmt"
	"go/token"
	"sort"
	"strings"

	"golang.org/x/tools/go/ssa"
)

func init() {
	register(&propDef{
		ID:      "C15",
		Anchors: []string{"pkg/chart/v2/util/save.go", "pkg/chart/v2/loader/load.go", "pkg/chart/v2/loader/archive.go", "pkg/chart/v2/loader/directory.go", "pkg/ignore/rules.go", "pkg/action/package.go"},
		NotDec:  []string{"equality of the loaded chart with the saved one for arbitrary content (round trip)", ".helmignore pattern semantics (which paths a rule matches)", "the stripping of a leading UTF-8 byte-order mark by both loaders (a stated limitation of 'byte for byte')"},
		Run:     runC15,
	})
}

func runC15(w *World, r *Report) {
	r.Rule("C15/WRITER-READER", "every fixed name the archive writer emits is a name the loader's classification knows, and both loaders strip the same byte-order mark", 3)
	r.Rule("C15/VERBATIM", "archive entries carry the caller's name (only separator-normalised) and body unmodified; chart files and templates are written from their Data unmodified under Join(base, Name)", 4)
	r.Rule("C15/VALID-FIRST", "nothing is created before the chart validated: Save creates the file only after Validate's ok-edge, the writers check the chart name before the first write", 3)
	r.Rule("C15/IGNORE", "the directory loader keeps a file only on the not-ignored edge and skips ignored directories entirely; helm package obtains the chart through the loader", 3)
	r.Rule("C15/CLEANUP", "after the archive file was created, every error return of Save leaves with the removal of the partial archive armed, and the success return with it disarmed", 2)
	c15WriterReader(w, r)
	c15Verbatim(w, r)
	c15ValidFirst(w, r)
	c15Ignore(w, r)
	c15Cleanup(w, r)
	c15IgnoreDefaults(w, r)
	c15APIVersionDefault(w, r)
	c15SavePrefix(w, r)
	c15PackageStateless(w, r)
}

// stringConstsIn collects string constants (and loads of string constants declared in the package) used in fn.
func stringConstsIn(fn *ssa.Function) map[string]bool {
	out := map[string]bool{}
	for _, b := range fn.Blocks {
		for _, in := range b.Instrs {
			for _, op := range in.Operands(nil) {
				if s, ok := constString(*op); ok && s != "" {
					out[s] = true
				}
			}
		}
	}
	return out
}

func c15WriterReader(w *World, r *Report) {
	wt := w.Fn("pkg/chart/v2/util", "writeTarContents")
	lf := w.Fn("pkg/chart/v2/loader", "LoadFiles")
	if wt == nil || lf == nil {
		r.Unk("C15/WRITER-READER", "anchor", "-", "writeTarContents / LoadFiles not found")
		return
	}
	r.Fn(FuncName(wt))
	r.Fn(FuncName(lf))
	// names the writer joins under the chart's base directory
	wtc := w.Fn("pkg/chart/v2/util", "writeToTar")
	written := map[string]bool{}
	for _, c := range callInstrs(wt) {
		f, _ := calleeOf(c.Common())
		if f == nil {
			continue
		}
		if origin(f) == wtc || origin(f) == wt {
			for _, a := range c.Common().Args {
				backSlice(a, func(v ssa.Value) bool {
					if s, ok := constString(v); ok && s != "" {
						written[s] = true
					}
					_, isField := v.(*ssa.FieldAddr)
					return isField
				})
			}
		}
	}
	known := stringConstsIn(lf)
	var names []string
	bad := ""
	for n := range written {
		names = append(names, n)
		ok := known[n] || known[n+"/"]
		if !ok {
			bad = n
		}
	}
	sort.Strings(names)
	r.Check(bad == "" && len(names) >= 5, "C15/WRITER-READER", "fixed-names", w.Pos(wt.Pos()), "writer names "+strings.Join(names, ", ")+" are all classified by the loader", "the archive writer emits "+bad+", which the loader's classification does not know")
	// both loaders trim the BOM
	for _, e := range [][2]string{{"pkg/chart/v2/loader", "LoadArchiveFiles"}, {"pkg/chart/v2/loader", "LoadDir"}} {
		fn := w.Fn(e[0], e[1])
		if fn == nil {
			r.Unk("C15/WRITER-READER", "bom/"+e[1], "-", "function not found")
			continue
		}
		has := false
		for _, f := range withAnon(fn) {
			for _, c := range callInstrs(f) {
				if cal, _ := calleeOf(c.Common()); cal != nil && fnPkgPath(cal) == "bytes" && cal.Name() == "TrimPrefix" {
					has = true
				}
			}
			// unconditionally: what is kept as the file's data is the result of the trim itself, not a
			// merge of trimmed and untrimmed bytes (a trim applied only to "text" makes the loaders disagree)
			for _, b := range f.Blocks {
				for _, in := range b.Instrs {
					st, ok := in.(*ssa.Store)
					if !ok {
						continue
					}
					if _, t, fl := fieldNameOf(st.Addr); t != "BufferedFile" || fl != "Data" {
						continue
					}
					direct := false
					if cl, ok := stripConv(st.Val).(*ssa.Call); ok {
						if cal, _ := calleeOf(cl.Common()); cal != nil && fnPkgPath(cal) == "bytes" && cal.Name() == "TrimPrefix" {
							direct = true
						}
					}
					r.Check(direct, "C15/WRITER-READER", "bom-unconditional/"+e[1], w.InstrPos(st), "the kept data is the result of the byte-order-mark trim on every path", "the data kept for a file is not on every path the result of the byte-order-mark trim: where this loader keeps the mark and its sibling strips it, directory and archive loads of the same chart differ (and save+load is not byte for byte)")
				}
			}
		}
		r.Check(has, "C15/WRITER-READER", "bom/"+e[1], w.Pos(fn.Pos()), "strips the UTF-8 byte-order mark like its sibling loader", "does not strip the byte-order mark although the sibling loader does: directory and archive loads of the same content differ")
	}
}

func c15Verbatim(w *World, r *Report) {
	wtc := w.Fn("pkg/chart/v2/util", "writeToTar")
	wt := w.Fn("pkg/chart/v2/util", "writeTarContents")
	if wtc == nil || wt == nil {
		r.Unk("C15/VERBATIM", "anchor", "-", "writeToTar not found")
		return
	}
	r.Fn(FuncName(wtc))
	name, body := ssa.Value(wtc.Params[1]), ssa.Value(wtc.Params[2])
	// header name = ToSlash(name) or name
	okName, okBody := false, false
	for _, b := range wtc.Blocks {
		for _, in := range b.Instrs {
			switch x := in.(type) {
			case *ssa.Store:
				if p, t, f := fieldNameOf(x.Addr); p == "archive/tar" && t == "Header" && f == "Name" {
					v := x.Val
					if c, ok := v.(*ssa.Call); ok {
						if cal, _ := calleeOf(c.Common()); cal != nil && fnPkgPath(cal) == "path/filepath" && cal.Name() == "ToSlash" {
							v = c.Call.Args[0]
						}
					}
					okName = v == name
				}
			case ssa.CallInstruction:
				if cal, _ := calleeOf(x.Common()); cal != nil && FuncName(cal) == "(*archive/tar.Writer).Write" {
					okBody = x.Common().Args[1] == body
				}
			}
		}
	}
	r.Check(okName, "C15/VERBATIM", "entry-name", w.Pos(wtc.Pos()), "the tar entry name is the caller's name with separators normalised", "the tar entry name is transformed (not just separator-normalised): files are renamed inside the archive")
	r.Check(okBody, "C15/VERBATIM", "entry-body", w.Pos(wtc.Pos()), "the tar entry body is the caller's byte slice", "the tar entry body is not the caller's byte slice")
	// in writeTarContents: loops over Templates and Files write Join(base, f.Name), f.Data
	n := 0
	coveredLists := map[string]bool{}
	for _, c := range callInstrs(wt) {
		f, _ := calleeOf(c.Common())
		if f == nil || origin(f) != wtc {
			continue
		}
		nm, data := c.Common().Args[1], c.Common().Args[2]
		ld, ok := data.(*ssa.UnOp)
		if !ok {
			continue
		}
		if _, t, fld := fieldNameOf(ld.X); t != "File" || fld != "Data" {
			continue
		}
		fileVal := ld.X.(*ssa.FieldAddr).X
		n++
		backSliceIdx(fileVal, func(v ssa.Value) bool {
			if l3, ok := v.(*ssa.UnOp); ok && l3.Op == token.MUL {
				if _, t, fld := fieldNameOf(l3.X); t == "Chart" && (fld == "Templates" || fld == "Files") {
					coveredLists[fld] = true
				}
			}
			return false
		})
		// name: filepath.Join(base, <file>.Name) with the same file (or the fixed values file name)
		okN := false
		if jc, isC := nm.(*ssa.Call); isC {
			if cal, _ := calleeOf(jc.Common()); cal != nil && fnPkgPath(cal) == "path/filepath" && cal.Name() == "Join" {
				for _, e := range sliceElems(jc.Call.Args[0]) {
					if l2, ok := e.(*ssa.UnOp); ok {
						if fa, ok := l2.X.(*ssa.FieldAddr); ok {
							if _, t, fld := fieldNameOf(fa); t == "File" && fld == "Name" && fa.X == fileVal {
								okN = true
							}
						}
					}
					if _, isConst := constString(e); isConst {
						okN = okN || true
					}
				}
			}
		}
		r.Check(okN, "C15/VERBATIM", fmt.Sprintf("file-entry#%d", n), w.InstrPos(c), "written as Join(base, file.Name) with the file's Data", "a chart file is not written under its own name with its own data")
	}
	if n < 1 || !coveredLists["Templates"] || !coveredLists["Files"] {
		r.Unk("C15/VERBATIM", "file-entries", w.Pos(wt.Pos()), fmt.Sprintf("%d file-data writes found; templates written: %v, files written: %v (both lists are expected to be written from their entries' Data)", n, coveredLists["Templates"], coveredLists["Files"]))
	}
}

func c15ValidFirst(w *World, r *Report) {
	save := w.Fn("pkg/chart/v2/util", "Save")
	if save == nil {
		r.Unk("C15/VALID-FIRST", "anchor", "-", "chartutil.Save not found")
		return
	}
	r.Fn(FuncName(save))
	g := FullGraph(save)
	var val, create ssa.CallInstruction
	for _, c := range callInstrs(save) {
		f, _ := calleeOf(c.Common())
		if f == nil {
			continue
		}
		if FuncName(f) == "(*pkg/chart/v2.Chart).Validate" {
			val = c
		}
		if fnPkgPath(f) == "os" && (f.Name() == "Create" || f.Name() == "OpenFile") {
			create = c
		}
	}
	r.Check(val != nil && create != nil && g.AfterOK(val, posOf(create)), "C15/VALID-FIRST", "Save", w.Pos(save.Pos()), "the archive file is created only after Validate succeeded", "an archive file can be created for a chart that did not validate")
	for _, name := range []string{"writeTarContents", "SaveDir"} {
		fn := w.Fn("pkg/chart/v2/util", name)
		if fn == nil {
			r.Unk("C15/VALID-FIRST", name, "-", "function not found")
			continue
		}
		r.Fn(FuncName(fn))
		fg := FullGraph(fn)
		guard := baseNameCheckEdges(fn, 0)
		ok := len(guard) > 0
		if ok {
			for _, c := range callInstrs(fn) {
				f, _ := calleeOf(c.Common())
				if f == nil {
					continue
				}
				isW, _ := isFSWrite(f)
				if isW || FuncName(f) == "pkg/chart/v2/util.writeToTar" || FuncName(f) == "pkg/chart/v2/util.writeFile" {
					if ex, _ := fg.PathExists(entryPos(fn), posOf(c), Avoid{}.withEdges(guard...)); ex {
						ok = false
					}
				}
			}
		}
		r.Check(ok, "C15/VALID-FIRST", name, w.Pos(fn.Pos()), "the chart name is checked before the first write", "something is written before the chart name was checked (a name with path components would escape the destination)")
	}
}

func c15Ignore(w *World, r *Report) {
	ld := w.Fn("pkg/chart/v2/loader", "LoadDir")
	if ld == nil {
		r.Unk("C15/IGNORE", "anchor", "-", "loader.LoadDir not found")
		return
	}
	found := false
	for _, fn := range withAnon(ld) {
		if fn == ld {
			continue
		}
		g := FullGraph(fn)
		var notIgnored []Edge
		var ignoreCalls []*ssa.Call
		for _, c := range callInstrs(fn) {
			cc, ok := c.(*ssa.Call)
			if !ok {
				continue
			}
			if f, _ := calleeOf(cc.Common()); f != nil && FuncName(f) == "(*pkg/ignore.Rules).Ignore" {
				ignoreCalls = append(ignoreCalls, cc)
			}
		}
		if len(ignoreCalls) == 0 {
			continue
		}
		found = true
		r.Fn(FuncName(fn))
		// file append: builtin append of *BufferedFile
		var app ssa.Instruction
		for _, c := range callInstrs(fn) {
			if bi, ok := c.Common().Value.(*ssa.Builtin); ok && bi.Name() == "append" {
				app = c
			}
		}
		okKeep := false
		if app != nil {
			// some Ignore call's false edge dominates the append and the call dominates it
			for _, ic := range ignoreCalls {
				var fe []Edge
				for _, e := range condEdges(ic) {
					if !e.truth {
						fe = append(fe, e.Edge)
					}
				}
				if ex, _ := g.PathExists(entryPos(fn), posOf(app), Avoid{}.withEdges(fe...)); !ex && len(fe) > 0 {
					okKeep = true
					notIgnored = append(notIgnored, fe...)
				}
			}
		}
		r.Check(okKeep, "C15/IGNORE", "keep-only-not-ignored", w.Pos(fn.Pos()), "a file is kept only on the false edge of rules.Ignore", "a file can be kept although the ignore rules match it")
		// ignored directories return SkipDir
		okDir := false
		for _, ic := range ignoreCalls {
			for _, e := range condEdges(ic) {
				if !e.truth {
					continue
				}
				for _, in := range e.To().Instrs {
					if ret, ok := in.(*ssa.Return); ok {
						if ld2, ok := ret.Results[0].(*ssa.UnOp); ok {
							if gl, ok := ld2.X.(*ssa.Global); ok && gl.Name() == "SkipDir" {
								okDir = true
							}
						}
					}
				}
			}
		}
		r.Check(okDir, "C15/IGNORE", "skip-ignored-dirs", w.Pos(fn.Pos()), "an ignored directory is skipped as a whole", "an ignored directory is not skipped as a whole")
	}
	if !found {
		r.Bad("C15/IGNORE", "keep-only-not-ignored", w.Pos(ld.Pos()), "the directory loader does not consult the ignore rules")
	}
	// helm package loads through the loader
	pk := w.Fn("pkg/action", "Package.Run")
	if pk == nil {
		r.Unk("C15/IGNORE", "package/anchor", "-", "action.Package.Run not found")
		return
	}
	r.Fn(FuncName(pk))
	via := false
	for _, c := range callInstrs(pk) {
		if f, _ := calleeOf(c.Common()); f != nil && strings.HasPrefix(FuncName(f), "pkg/chart/v2/loader.Load") {
			via = true
		}
	}
	r.Check(via, "C15/IGNORE", "package-uses-loader", w.Pos(pk.Pos()), "helm package obtains the chart through the loader (ignore rules applied)", "helm package does not load the chart through the loader: ignore rules would not apply")
}

func c15Cleanup(w *World, r *Report) {
	save := w.Fn("pkg/chart/v2/util", "Save")
	if save == nil {
		return
	}
	g := FullGraph(save)
	// the deferred closure that removes the file
	var def *ssa.Defer
	var closure *ssa.Function
	var mc *ssa.MakeClosure
	for _, b := range save.Blocks {
		for _, in := range b.Instrs {
			d, ok := in.(*ssa.Defer)
			if !ok {
				continue
			}
			m, ok := d.Call.Value.(*ssa.MakeClosure)
			if !ok {
				continue
			}
			f := m.Fn.(*ssa.Function)
			for _, c := range callInstrs(f) {
				if cal, _ := calleeOf(c.Common()); cal != nil && fnPkgPath(cal) == "os" && cal.Name() == "Remove" {
					def, closure, mc = d, f, m
				}
			}
		}
	}
	if def == nil {
		r.Bad("C15/CLEANUP", "deferred-removal", w.Pos(save.Pos()), "Save has no deferred removal of a partial archive")
		return
	}
	// guard of the removal
	var rm ssa.CallInstruction
	for _, c := range callInstrs(closure) {
		if cal, _ := calleeOf(c.Common()); cal != nil && fnPkgPath(cal) == "os" && cal.Name() == "Remove" {
			rm = c
		}
	}
	cg := FullGraph(closure)
	var cond ssa.Value
	var fireOnTrue bool
	for _, b := range closure.Blocks {
		if ifi, ok := b.Instrs[len(b.Instrs)-1].(*ssa.If); ok {
			// the edge that leads to the removal
			for _, e := range condEdges(ifi.Cond) {
				if len(e.To().Instrs) > 0 {
					if reach, _ := cg.PathExists(IPos{e.To(), -1}, posOf(rm), Avoid{}); reach {
						other := Edge{From: e.From, Succ: 1 - e.Succ}
						if r2, _ := cg.PathExists(IPos{other.To(), -1}, posOf(rm), Avoid{}); !r2 {
							cond, fireOnTrue = ifi.Cond, e.truth
						}
					}
				}
			}
		}
	}
	if cond == nil {
		r.Bad("C15/CLEANUP", "deferred-removal", w.InstrPos(def), "the removal of the archive is unconditional or its guard was not understood: a successful save would delete its result")
		return
	}
	// cond: load of a free var (bool flag) or (load free var) != nil
	isErrForm := false
	var fv *ssa.FreeVar
	cv := cond
	if bo, ok := cv.(*ssa.BinOp); ok && (bo.Op == token.NEQ || bo.Op == token.EQL) && (isNilConst(bo.X) || isNilConst(bo.Y)) {
		isErrForm = true
		if bo.Op == token.EQL {
			fireOnTrue = !fireOnTrue
		}
		cv = bo.X
		if isNilConst(cv) {
			cv = bo.Y
		}
	}
	if ld, ok := cv.(*ssa.UnOp); ok && ld.Op == token.MUL {
		fv, _ = ld.X.(*ssa.FreeVar)
	}
	if fv == nil {
		r.Unk("C15/CLEANUP", "deferred-removal", w.InstrPos(def), "the guard of the removal is not a captured flag or error variable")
		return
	}
	idx := -1
	for i, f := range closure.FreeVars {
		if f == fv {
			idx = i
		}
	}
	slot, _ := mc.Bindings[idx].(*ssa.Alloc)
	if slot == nil {
		r.Unk("C15/CLEANUP", "deferred-removal", w.InstrPos(def), "captured variable is not a local")
		return
	}
	// last stores to slot before a position
	lastStores := func(to IPos) []ssa.Value {
		var out []ssa.Value
		seen := map[*ssa.BasicBlock]bool{}
		var back func(b *ssa.BasicBlock, from int)
		back = func(b *ssa.BasicBlock, from int) {
			for k := from; k >= 0; k-- {
				if st, ok := b.Instrs[k].(*ssa.Store); ok && st.Addr == ssa.Value(slot) {
					out = append(out, st.Val)
					return
				}
			}
			for _, p := range b.Preds {
				if !seen[p] {
					seen[p] = true
					back(p, len(p.Instrs)-1)
				}
			}
		}
		back(to.B, to.I)
		return out
	}
	n := 0
	for i, rp := range g.classifyReturns() {
		to := retPos(rp)
		if !g.DominatesInstr(def, to) {
			continue
		}
		n++
		vals := lastStores(to)
		ok := len(vals) > 0
		for _, v := range vals {
			var fires, known bool
			if isErrForm {
				if isNilConst(v) || g.knownNilAt(v, to.B) {
					fires, known = false, true
				} else if rp.Val != nil && (v == rp.Val || derivesFromValue(rp.Val, v)) && rp.Class == RetError {
					fires, known = true, true
				}
			} else if b, isC := constBool(v); isC {
				fires, known = b == fireOnTrue, true
			}
			want := rp.Class == RetError
			if !known || fires != want {
				ok = false
			}
		}
		cls := map[bool]string{true: "error", false: "success"}[rp.Class == RetError]
		r.Check(ok, "C15/CLEANUP", fmt.Sprintf("Save/return#%d:%s", i, cls), w.InstrPos(rp.Ret),
			map[bool]string{true: "the removal of the partial archive is armed at this error return", false: "the removal is disarmed at the success return"}[rp.Class == RetError],
			map[bool]string{true: "at this error return the deferred cleanup does not fire: a partial, loadable archive is left behind", false: "at the success return the deferred cleanup would delete the finished archive"}[rp.Class == RetError])
	}
	if n == 0 {
		r.Unk("C15/CLEANUP", "no-return-after-defer", w.InstrPos(def), "no return after the deferred removal")
	}
}

// baseNameCheckEdges: the edges of fn on which a name is known to equal its own filepath.Base (no path
// components): the direct comparison, or the ok-edges of a call to a helper whose every success return
// lies behind such a comparison of its parameter.
func baseNameCheckEdges(fn *ssa.Function, depth int) []Edge {
	var out []Edge
	isBaseOf := func(v, of ssa.Value) bool {
		c, ok := v.(*ssa.Call)
		if !ok {
			return false
		}
		f, _ := calleeOf(c.Common())
		if f == nil || fnPkgPath(f) != "path/filepath" || f.Name() != "Base" {
			return false
		}
		return c.Call.Args[0] == of || nf(c.Call.Args[0], 0) == nf(of, 0)
	}
	for _, b := range fn.Blocks {
		for _, in := range b.Instrs {
			bo, ok := in.(*ssa.BinOp)
			if !ok || (bo.Op != token.EQL && bo.Op != token.NEQ) {
				continue
			}
			if !(isBaseOf(bo.X, bo.Y) || isBaseOf(bo.Y, bo.X)) {
				continue
			}
			for _, e := range condEdges(bo) {
				if e.truth == (bo.Op == token.EQL) {
					out = append(out, e.Edge)
				}
			}
		}
	}
	if depth >= 2 {
		return out
	}
	for _, c := range callInstrs(fn) {
		h, _ := calleeOf(c.Common())
		if h == nil || !inHelm(h) || len(h.Blocks) == 0 || errResult(c) == nil {
			continue
		}
		he := baseNameCheckEdges(h, depth+1)
		if len(he) == 0 {
			continue
		}
		hg := FullGraph(h)
		all := true
		for _, rp := range hg.classifyReturns() {
			if rp.Class != RetSuccess {
				continue
			}
			if ex, _ := hg.PathExists(entryPos(h), retPos(rp), Avoid{}.withEdges(he...)); ex {
				all = false
			}
		}
		if all {
			out = append(out, okEdgesOfCall(c)...)
		}
	}
	return out
}

// c15IgnoreDefaults: the built-in ignore rules (templates/.?*) are in force whether or not the chart
// ships a .helmignore: AddDefaults runs on every path before the directory walk.
func c15IgnoreDefaults(w *World, r *Report) {
	ld := w.Fn("pkg/chart/v2/loader", "LoadDir")
	if ld == nil {
		r.Unk("C15/IGNORE", "defaults/anchor", "-", "loader.LoadDir not found")
		return
	}
	g := FullGraph(ld)
	var adds []ssa.Instruction
	var walk ssa.CallInstruction
	for _, c := range callInstrs(ld) {
		f, _ := calleeOf(c.Common())
		if f == nil {
			continue
		}
		if FuncName(f) == "(*pkg/ignore.Rules).AddDefaults" {
			adds = append(adds, c)
		}
		if strings.HasSuffix(fnPkgPath(f), "internal/sympath") && f.Name() == "Walk" || fnPkgPath(f) == "path/filepath" && (f.Name() == "Walk" || f.Name() == "WalkDir") {
			walk = c
		}
	}
	if walk == nil {
		r.Unk("C15/IGNORE", "defaults/walk", w.Pos(ld.Pos()), "the directory walk was not found in LoadDir")
		return
	}
	ok := len(adds) > 0
	if ok {
		ex, _ := g.PathExists(entryPos(ld), posOf(walk), avoidInstrs(adds...))
		ok = !ex
	}
	r.Check(ok, "C15/IGNORE", "defaults-always", w.InstrPos(walk), "the built-in ignore rules are added on every path before the walk", "the directory walk can start without the built-in ignore rules (for instance when a .helmignore exists): dot files under templates/ are loaded and packaged")
}

// c15APIVersionDefault: the loader decides where the legacy dependency files go by the chart's
// APIVersion; a chart without one is a v1 chart, so the default must be in place before those decisions.
func c15APIVersionDefault(w *World, r *Report) {
	r.Rule("C15/APIVERSION-DEFAULT", "in LoadFiles every read of Metadata.APIVersion that decides how a file is classified happens after the store that defaults an empty APIVersion to v1", 2)
	lf := w.Fn("pkg/chart/v2/loader", "LoadFiles")
	if lf == nil {
		r.Unk("C15/APIVERSION-DEFAULT", "anchor", "-", "loader.LoadFiles not found")
		return
	}
	r.Fn(FuncName(lf))
	g := FullGraph(lf)
	var defStores []ssa.Instruction
	type read struct {
		ld  *ssa.UnOp
		cmp *ssa.BinOp
	}
	var reads []read
	for _, b := range lf.Blocks {
		for _, in := range b.Instrs {
			switch x := in.(type) {
			case *ssa.Store:
				if _, t, f := fieldNameOf(x.Addr); t == "Metadata" && f == "APIVersion" {
					defStores = append(defStores, x)
				}
			case *ssa.UnOp:
				if x.Op != token.MUL {
					continue
				}
				if _, t, f := fieldNameOf(x.X); t == "Metadata" && f == "APIVersion" && x.Referrers() != nil {
					for _, rf := range *x.Referrers() {
						if bo, ok := rf.(*ssa.BinOp); ok && (bo.Op == token.EQL || bo.Op == token.NEQ) {
							reads = append(reads, read{x, bo})
						}
					}
				}
			}
		}
	}
	if len(defStores) == 0 {
		r.Bad("C15/APIVERSION-DEFAULT", "default", w.Pos(lf.Pos()), "an empty APIVersion is no longer defaulted to v1")
		return
	}
	// edges on which APIVersion is known to be set already (the defaulting test's other side)
	var nonEmpty []Edge
	for _, rd := range reads {
		other := rd.cmp.Y
		if other == ssa.Value(rd.ld) {
			other = rd.cmp.X
		}
		if s, ok := constString(other); ok && s == "" {
			for _, e := range condEdges(rd.cmp) {
				if e.truth == (rd.cmp.Op == token.NEQ) {
					nonEmpty = append(nonEmpty, e.Edge)
				}
			}
		}
	}
	n := 0
	for _, rd := range reads {
		other := rd.cmp.Y
		if other == ssa.Value(rd.ld) {
			other = rd.cmp.X
		}
		if s, ok := constString(other); ok && s == "" {
			continue // the defaulting test itself
		}
		n++
		// a Chart.yaml may be absent (then Metadata is created empty by the legacy files): only paths
		// on which Chart.yaml was decoded matter, i.e. paths through a decode into the metadata
		ex, _ := g.PathExists(entryPos(lf), posOf(rd.ld), avoidInstrs(defStores...).withEdges(nonEmpty...))
		viaDecode := false
		if ex {
			for _, c := range callInstrs(lf) {
				f, _ := calleeOf(c.Common())
				if f != nil && fnPkgPath(f) == "sigs.k8s.io/yaml" && strings.HasPrefix(f.Name(), "Unmarshal") {
					if k, isC := chartYamlGuard(lf, c); isC && k {
						if e1, _ := g.PathExists(posOf(c), posOf(rd.ld), avoidInstrs(defStores...).withEdges(nonEmpty...)); e1 {
							viaDecode = true
						}
					}
				}
			}
		}
		r.Check(!viaDecode, "C15/APIVERSION-DEFAULT", fmt.Sprintf("read#%d", n), w.InstrPos(rd.ld), "the classification reads APIVersion after it was defaulted", "after Chart.yaml was decoded, APIVersion can be read for classifying a file before the empty value was defaulted to v1: a Helm 2 chart's requirements files are dropped")
	}
	if n == 0 {
		r.OKTrivial("C15/APIVERSION-DEFAULT", "none", w.Pos(lf.Pos()), "no file classification depends on APIVersion")
	}
}

// chartYamlGuard: the decode call sits behind a test f.Name == "Chart.yaml".
func chartYamlGuard(fn *ssa.Function, c ssa.CallInstruction) (bool, bool) {
	g := FullGraph(fn)
	var guard []Edge
	for _, b := range fn.Blocks {
		for _, in := range b.Instrs {
			if bo, ok := in.(*ssa.BinOp); ok && bo.Op == token.EQL {
				if s, isC := constString(bo.Y); isC && s == "Chart.yaml" {
					for _, e := range condEdges(bo) {
						if e.truth {
							guard = append(guard, e.Edge)
						}
					}
				}
			}
		}
	}
	if len(guard) == 0 {
		return false, false
	}
	ex, _ := g.PathExists(entryPos(fn), posOf(c), Avoid{}.withEdges(guard...))
	return !ex, true
}

// recvFieldWrites: stores in fn (and closures) to fields of its receiver.
func recvFieldWrites(fn *ssa.Function) []ssa.Instruction {
	if fn.Signature.Recv() == nil || len(fn.Params) == 0 {
		return nil
	}
	recv := ssa.Value(fn.Params[0])
	var out []ssa.Instruction
	for _, f := range withAnon(fn) {
		for _, b := range f.Blocks {
			for _, in := range b.Instrs {
				st, ok := in.(*ssa.Store)
				if !ok {
					continue
				}
				fa, ok := st.Addr.(*ssa.FieldAddr)
				if !ok {
					continue
				}
				base := fa.X
				if fv, isFV := base.(*ssa.FreeVar); isFV && f != fn {
					_ = fv
					continue
				}
				if base == recv {
					out = append(out, st)
				}
			}
		}
	}
	return out
}

// c15SavePrefix: the writers of a chart tree descend with the path of where they are: the prefix
// handed to the recursive call for a dependency is built from the prefix the function was given.
func c15SavePrefix(w *World, r *Report) {
	r.Rule("C15/SAVE-PREFIX", "the recursive chart writers (archive and directory) build the location of a dependency from their own location: the recursive call's path argument depends on the path parameter", 1)
	n := 0
	for _, fn := range w.FuncsIn("pkg/chart/v2/util") {
		if fn.Parent() != nil || !strings.HasSuffix(w.FileOf(fn), "save.go") {
			continue
		}
		for _, c := range callInstrs(fn) {
			f, _ := calleeOf(c.Common())
			if f == nil || origin(f) != fn {
				continue
			}
			for i, p := range fn.Params {
				if !isStringType(p.Type()) || i >= len(c.Common().Args) {
					continue
				}
				n++
				r.Fn(FuncName(fn))
				dep := false
				backSlice(c.Common().Args[i], func(x ssa.Value) bool {
					if x == ssa.Value(p) {
						dep = true
					}
					return false
				})
				r.Check(dep, "C15/SAVE-PREFIX", fmt.Sprintf("%s/param:%s", FuncName(fn), p.Name()), w.InstrPos(c), "the recursive call's "+p.Name()+" is built from this call's "+p.Name(), "the recursive call's "+p.Name()+" does not depend on this call's "+p.Name()+": a dependency of a dependency is written as if it sat directly below the top chart, and loading the archive yields another tree")
			}
		}
	}
	if n == 0 {
		r.Unk("C15/SAVE-PREFIX", "no-site", "-", "no recursive writer with a path parameter found in save.go")
	}
}

// c15PackageStateless: `helm package A B` runs one Package action for all its arguments. What is decided
// for one chart (its version) is not written into the action's own options.
func c15PackageStateless(w *World, r *Report) {
	r.Rule("C15/PACKAGE-STATELESS", "Package.Run writes no field of its receiver: one action object packages several charts, and nothing of the first may stick to the second", 1)
	fn := w.Fn("pkg/action", "Package.Run")
	if fn == nil {
		r.Unk("C15/PACKAGE-STATELESS", "anchor", "-", "Package.Run not found")
		return
	}
	r.Fn(FuncName(fn))
	ws := recvFieldWrites(fn)
	pos := w.Pos(fn.Pos())
	what := ""
	if len(ws) > 0 {
		pos = w.InstrPos(ws[0])
		_, _, what = fieldNameOf(ws[0].(*ssa.Store).Addr)
	}
	r.Check(len(ws) == 0, "C15/PACKAGE-STATELESS", "Package.Run", pos, "no option of the action is assigned while packaging", "Package.Run assigns its own option "+what+": with several charts on one command line the value taken from the first chart is applied to the next (the second archive gets the first chart's version)")
}
