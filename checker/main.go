package main

import (
	"encoding/json"
	"flag"
	"fmt"
	"os"
	"os/exec"
	"path/filepath"
	"runtime/debug"
	"sort"
	"strconv"
	"strings"
	"time"
)

type propDef struct {
	ID      string
	Run     func(w *World, r *Report)
	NotDec  []string // clauses not decided
	Trusted []string
	Anchors []string // repo-relative files that must be part of the loaded build
}

var props = map[string]*propDef{}

func register(p *propDef) { props[p.ID] = p }

type config struct{ goos, goarch string }

var thoroughConfigs = []config{{"linux", "amd64"}, {"linux", "386"}, {"darwin", "arm64"}, {"windows", "amd64"}}

func main() {
	prop := flag.String("prop", "", "property id (C01..C20)")
	tier := flag.String("tier", "quick", "quick|thorough")
	repo := flag.String("repo", "/repo", "helm source tree")
	verif := flag.String("verif", "/verif", "verification directory")
	goos := flag.String("goos", "", "GOOS for a single-configuration run")
	goarch := flag.String("goarch", "", "GOARCH for a single-configuration run")
	emit := flag.String("emit", "", "write the raw report (JSON) to this file instead of finishing (used by the thorough driver)")
	list := flag.Bool("list", false, "list registered properties")
	emitRef := flag.Bool("emit-ref", false, "write reference/funcs.txt from -repo (developer: only on the reference tree)")
	flag.Parse()
	if *list {
		var ids []string
		for id := range props {
			ids = append(ids, id)
		}
		sort.Strings(ids)
		fmt.Println(strings.Join(ids, " "))
		return
	}
	if e := os.Getenv("VERIF_TIER"); e != "" && !isFlagSet("tier") {
		*tier = e
	}
	seed := int64(1)
	if s := os.Getenv("VERIF_SEED"); s != "" {
		if v, err := strconv.ParseInt(s, 10, 64); err == nil {
			seed = v
		}
	}
	verifDirGlobal = *verif
	refPath := filepath.Join(*verif, "reference", "funcs.txt")
	if _, err := os.Stat(refPath); err != nil {
		if exe, err := os.Executable(); err == nil {
			refPath = filepath.Join(filepath.Dir(exe), "..", "reference", "funcs.txt")
		}
	}
	if *emitRef {
		keys, err := refKeys(*repo)
		if err != nil || len(keys) < 1000 {
			fmt.Fprintf(os.Stderr, "emit-ref: %v (%d keys)\n", err, len(keys))
			os.Exit(2)
		}
		if err := writeRefList(filepath.Join(*verif, "reference", "funcs.txt"), keys); err != nil {
			fmt.Fprintln(os.Stderr, err)
			os.Exit(2)
		}
		fmt.Printf("%d keys\n", len(keys))
		// flag bindings need the typed program
		RefList = keys
		w, lerr := Load(*repo, "", "")
		if lerr != nil {
			fmt.Fprintln(os.Stderr, lerr)
			os.Exit(2)
		}
		fb := flagBindings(w)
		var lines []string
		for k, v := range fb {
			lines = append(lines, k+"\t"+v)
		}
		sort.Strings(lines)
		os.WriteFile(filepath.Join(*verif, "reference", "flags.txt"), []byte("# command-line flag bindings of the reference tree: StructType/flag-name<TAB>field (helmverif -emit-ref)\n"+strings.Join(lines, "\n")+"\n"), 0o644)
		fmt.Printf("%d flag bindings\n", len(lines))
		return
	}
	if rl, err := readRefList(refPath); err == nil && len(rl) > 0 {
		RefList = rl
	}
	if fr, err := readRefList(filepath.Join(filepath.Dir(refPath), "flags.txt")); err == nil && len(fr) > 0 {
		FlagRef = fr
	}
	if *prop == "all" || strings.Contains(*prop, ",") { // developer mode: several properties over one load (quick tier)
		known, _ := loadKnown(filepath.Join(*verif, "known_findings.json"))
		var ids []string
		if *prop == "all" {
			for id := range props {
				ids = append(ids, id)
			}
		} else {
			ids = strings.Split(*prop, ",")
		}
		sort.Strings(ids)
		rc := 0
		for _, id := range ids {
			t0 := time.Now()
			if c := runOne(props[id], *repo, "quick", seed, "", "").Finish(*verif, time.Since(t0), known); c != 0 {
				rc = c
			}
		}
		os.Exit(rc)
	}
	pd := props[*prop]
	if pd == nil {
		fmt.Fprintf(os.Stderr, "unknown property %q\n", *prop)
		os.Exit(2)
	}
	t0 := time.Now()
	known, kerr := loadKnown(filepath.Join(*verif, "known_findings.json"))
	if kerr != nil {
		fmt.Printf("cannot read known_findings.json: %v\n", kerr)
		fmt.Printf("VIOLATION property=%s replay=%s\n", *prop, filepath.Join(*verif, "known_findings.json"))
		os.Exit(1)
	}

	if *emit != "" || *tier != "thorough" {
		r := runOne(pd, *repo, *tier, seed, *goos, *goarch)
		if *emit != "" {
			b, _ := json.Marshal(r)
			os.WriteFile(*emit, b, 0o644)
			return
		}
		os.Exit(r.Finish(*verif, time.Since(t0), known))
	}

	// thorough: one process per build configuration, merged.
	self, _ := os.Executable()
	var merged *Report
	var cfgs []string
	for _, c := range thoroughConfigs {
		tmp, _ := os.CreateTemp("", "helmverif-*.json")
		tmp.Close()
		cmd := exec.Command(self, "-prop", *prop, "-tier", "thorough", "-repo", *repo, "-verif", *verif, "-goos", c.goos, "-goarch", c.goarch, "-emit", tmp.Name())
		cmd.Stderr = os.Stderr
		cmd.Stdout = os.Stderr
		err := cmd.Run()
		b, _ := os.ReadFile(tmp.Name())
		os.Remove(tmp.Name())
		var r Report
		if err != nil || json.Unmarshal(b, &r) != nil {
			r = *NewReport(pd.ID, "thorough", seed)
			r.Rule("LOAD", "the configuration loads and type-checks", 0)
			r.Config = c.goos + "/" + c.goarch
			r.Unk("LOAD", "config:"+c.goos+"/"+c.goarch, "-", fmt.Sprintf("sub-process failed: %v", err))
		}
		r.rorder = nil
		for name := range r.Rules {
			r.rorder = append(r.rorder, name)
		}
		sort.Strings(r.rorder)
		for _, o := range r.Obs { // restore verdicts lost by `json:"-"`
			switch o.VerdictS {
			case "discharged":
				o.Verdict = Discharged
			case "violated":
				o.Verdict = Violated
			default:
				o.Verdict = Undecided
			}
			o.Prop = pd.ID
		}
		cfgs = append(cfgs, c.goos+"/"+c.goarch)
		if merged == nil {
			merged = &r
			for _, ri := range merged.Rules {
				_ = ri
			}
		} else {
			merged.merge(&r)
		}
	}
	merged.Config = strings.Join(cfgs, ",")
	merged.Tier = "thorough"
	os.Exit(merged.Finish(*verif, time.Since(t0), known))
}

func isFlagSet(name string) bool {
	set := false
	flag.Visit(func(f *flag.Flag) {
		if f.Name == name {
			set = true
		}
	})
	return set
}

var verifDirGlobal = "/verif"
var worldCache = map[string]*World{}

func runOne(pd *propDef, repo, tier string, seed int64, goos, goarch string) (r *Report) {
	r = NewReport(pd.ID, tier, seed)
	r.NotDec = pd.NotDec
	r.Trusted = append([]string{"Go type checker and go/ssa construction (golang.org/x/tools v0.50.0)", "the checker's own CFG/dataflow code (fixtures under checker/testdata)", "idiom and exception tables in DESIGN.md"}, pd.Trusted...)
	r.Assumes = []string{"anchored functions are located by resolved package/receiver/name or by role (resolved callees); an unresolvable anchor fails the check",
		"interprocedural facts follow static callees, closures, go/defer and the enumerated interface slots only (no reflection, no function values stored in fields)"}
	if goos != "" {
		r.Config = goos + "/" + goarch
	}
	r.Rule("LOAD", "the repository loads, type-checks and every anchored file is part of the build", 1)
	defer func() {
		if x := recover(); x != nil {
			r.Unk("LOAD", "panic", "-", fmt.Sprintf("checker panic: %v\n%s", x, debug.Stack()))
		}
	}()
	wk := repo + "|" + goos + "|" + goarch
	w, err := worldCache[wk], error(nil)
	if w == nil {
		w, err = Load(repo, goos, goarch)
		if err == nil {
			worldCache[wk] = w
		}
	}
	if err != nil {
		r.Unk("LOAD", "packages", "-", "load failed: "+err.Error())
		return r
	}
	for _, l := range w.InlineLog {
		r.Assumes = append(r.Assumes, "normalisation (inline.go): "+l)
	}
	missing := []string{}
	for _, a := range pd.Anchors {
		if !w.HasFile(a) {
			missing = append(missing, a)
		}
	}
	if len(missing) > 0 {
		r.Unk("LOAD", "anchors", "-", "anchored files not in the loaded build: "+strings.Join(missing, ", "))
	} else {
		r.OKTrivial("LOAD", "packages", "-", fmt.Sprintf("%d root packages, %d total, %d helm functions in SSA form", len(w.Roots), len(w.All), len(w.helmFns)))
	}
	pd.Run(w, r)
	if goos == "" || goos == "linux" {
		selfTest(verifDirGlobal, r)
	}
	return r
}

// MarshalJSON support for Report in -emit mode: exported fields only (Rules map, Obs…).
