package main

import (
	"fmt"
	"golang.org/x/tools/go/packages"
	"golang.org/x/tools/go/ssa"
	"golang.org/x/tools/go/ssa/ssautil"
	"os"
	"time"
)

func main() {
	t0 := time.Now()
	cfg := &packages.Config{Mode: packages.LoadAllSyntax, Dir: "/repo", Tests: false, Env: append(os.Environ(), "GOWORK=off", "GOFLAGS=-mod=mod", "GOPROXY=off")}
	pkgs, err := packages.Load(cfg, "./...")
	if err != nil {
		panic(err)
	}
	n := 0
	packages.Visit(pkgs, nil, func(p *packages.Package) { n++; for _, e := range p.Errors { fmt.Println(e) } })
	fmt.Println(len(pkgs), n, time.Since(t0))
	prog, _ := ssautil.AllPackages(pkgs, ssa.InstantiateGenerics)
	prog.Build()
	fmt.Println(time.Since(t0))
}
