package main

// C10 — all storage backends behave as the same faithful key-value store (structural part).

import (
	"fmt"
	"go/types"
	"sort"
	"strings"

	"golang.org/x/tools/go/ssa"
)

func init() {
	register(&propDef{
		ID: "C10",
		Anchors: []string{"pkg/storage/driver/driver.go", "pkg/storage/driver/memory.go", "pkg/storage/driver/records.go", "pkg/storage/driver/labels.go", "pkg/storage/driver/secrets.go",
			"pkg/storage/driver/cfgmaps.go", "pkg/storage/driver/util.go", "pkg/storage/storage.go", "pkg/time/time.go"},
		NotDec: []string{"step-by-step equivalence of the backends with a reference map for arbitrary call sequences", "encode/decode round trip for every representable release content (JSON, gzip, base64 are trusted)",
			"label-selector semantics of the Kubernetes API server"},
		Run: runC10,
	})
}

var kvDrivers = []string{"Memory", "Secrets", "ConfigMaps"}

func runC10(w *World, r *Report) {
	r.Rule("C10/SENTINELS", "Get maps a missing key to ErrReleaseNotFound (Kubernetes drivers: exactly on the IsNotFound edge); Delete looks the release up first, deletes only after a successful lookup and returns the fetched release; the memory Update writes only on the exists edge and otherwise returns ErrReleaseNotFound; the Kubernetes Update uses the update verb", 9)
	r.Rule("C10/KEY-PARSE", "driver methods treat the key as opaque except for extracting the release name as what precedes the last \".v\" (no Split/Cut/Index on the key)", 1)
	r.Rule("C10/DECODE", "a decoded release is used only under the ok-edge of its decode error; list and query skip an undecodable record and never append it", 6)
	r.Rule("C10/LABELS", "write paths merge the release's user labels before setting the system labels (system keys win, nothing is written after them) and read paths set Labels of the decoded release from the stored object's labels before handing it out", 8)
	r.Rule("C10/QUERY-KEYS", "the label keys Storage queries by are keys every backend writes for each record", 3)
	r.Rule("C10/FULL-READ", "decoding reads the whole decompressed record (no limiting reader between the gzip stream and ReadAll)", 1)

	for _, d := range kvDrivers {
		c10Sentinels(w, r, d)
	}
	c10KeyParse(w, r)
	c10Decode(w, r)
	c10Labels(w, r)
	c10QueryKeys(w, r)
	c10FullRead(w, r)
	c10LabelsTotal(w, r)
	c10TimeLossless(w, r)
	c10SearchOrder(w, r)
	c10LabelSource(w, r)
	c10DecodePure(w, r)
}

func returnsGlobal(rp RetPath, name string) bool {
	v := rp.Val
	if v == nil {
		return false
	}
	if ld, ok := v.(*ssa.UnOp); ok {
		if gl, ok := ld.X.(*ssa.Global); ok && gl.Name() == name {
			return true
		}
	}
	return false
}

func c10Sentinels(w *World, r *Report, d string) {
	get := w.Fn("pkg/storage/driver", d+".Get")
	del := w.Fn("pkg/storage/driver", d+".Delete")
	upd := w.Fn("pkg/storage/driver", d+".Update")
	if get == nil || del == nil || upd == nil {
		r.Unk("C10/SENTINELS", d+"/anchor", "-", "Get/Delete/Update of driver "+d+" not found")
		return
	}
	for _, f := range []*ssa.Function{get, del, upd} {
		r.Fn(FuncName(f))
	}
	k8s := d != "Memory"
	// Get
	g := FullGraph(get)
	if k8s {
		ok, n := true, 0
		for _, c := range callInstrs(get) {
			cc, isCall := c.(*ssa.Call)
			if !isCall {
				continue
			}
			if f, _ := calleeOf(cc.Common()); f == nil || f.Name() != "IsNotFound" {
				continue
			}
			for _, e := range condEdges(cc) {
				if !e.truth {
					continue
				}
				for _, rp := range g.classifyReturns() {
					rb := rp.Ret.Block()
					if rp.Pred != nil {
						rb = rp.Pred
					}
					if edgeDominates(g, e.Edge, rb) {
						n++
						if !returnsGlobal(rp, "ErrReleaseNotFound") {
							ok = false
						}
					}
				}
			}
		}
		r.Check(ok && n > 0, "C10/SENTINELS", d+"/Get/not-found", w.Pos(get.Pos()), "on the IsNotFound edge Get returns ErrReleaseNotFound", "Get does not map the API's not-found to ErrReleaseNotFound")
	} else {
		ok := false
		for _, rp := range g.classifyReturns() {
			if returnsGlobal(rp, "ErrReleaseNotFound") {
				ok = true
			}
		}
		r.Check(ok, "C10/SENTINELS", d+"/Get/not-found", w.Pos(get.Pos()), "Get returns ErrReleaseNotFound for an absent record", "Get never returns ErrReleaseNotFound")
	}
	// Delete
	dg := FullGraph(del)
	if k8s {
		var lookup, prim ssa.CallInstruction
		for _, c := range callInstrs(del) {
			f, tf := calleeOf(c.Common())
			if f != nil && origin(f) == get {
				lookup = c
			}
			if tf != nil && c.Common().IsInvoke() && tf.Name() == "Delete" && tf.Pkg() != nil && strings.HasPrefix(tf.Pkg().Path(), "k8s.io/client-go/kubernetes/typed/") {
				prim = c
			}
		}
		ok := lookup != nil && prim != nil && dg.AfterOK(lookup, posOf(prim))
		// returns the fetched release
		if ok {
			got := resultN(lookup, 0)
			for _, rp := range dg.classifyReturns() {
				if rp.Class == RetSuccess || rp.Val != nil {
					rv := rp.Ret.Results[0]
					if isNilConst(rv) {
						continue
					}
					if !(rv == got || derivesFromValue(rv, got)) {
						ok = false
					}
				}
			}
		}
		pos := w.Pos(del.Pos())
		if prim != nil {
			pos = w.InstrPos(prim)
		}
		r.Check(ok, "C10/SENTINELS", d+"/Delete", pos, "Delete fetches the release with Get, deletes only after that succeeded and returns the fetched release", "Delete does not (look up first, delete only on success, return the stored release)")
	} else {
		ok := false
		for _, rp := range dg.classifyReturns() {
			if returnsGlobal(rp, "ErrReleaseNotFound") {
				ok = true
			}
		}
		// every success return's release comes from records.Remove(key) (the record found under that key)
		fromRemove := true
		nSucc := 0
		for _, rp := range dg.classifyReturns() {
			if rp.Class == RetSuccess {
				nSucc++
				one := false
				res0 := rp.Ret.Results[0]
				if rp.Pred != nil {
					if v, ok := spilledResults(rp.Ret, 0)[rp.Pred]; ok {
						res0 = v
					}
				}
				backSlice(res0, func(v ssa.Value) bool {
					if c, isC := v.(*ssa.Call); isC {
						if f, _ := calleeOf(c.Common()); f != nil && strings.HasSuffix(FuncName(f), "records).Remove") {
							one = true
						}
						return true
					}
					return false
				})
				if !one {
					fromRemove = false
				}
			}
		}
		if nSucc == 0 {
			fromRemove = false
		}
		r.Check(ok && fromRemove, "C10/SENTINELS", d+"/Delete", w.Pos(del.Pos()), "Delete returns the removed record's release, or ErrReleaseNotFound", "Delete does not return the removed release / ErrReleaseNotFound")
	}
	// Update
	ug := FullGraph(upd)
	if k8s {
		verb := ""
		for _, c := range callInstrs(upd) {
			_, tf := calleeOf(c.Common())
			if tf != nil && c.Common().IsInvoke() && tf.Pkg() != nil && strings.HasPrefix(tf.Pkg().Path(), "k8s.io/client-go/kubernetes/typed/") {
				switch tf.Name() {
				case "Update", "Create", "Patch", "Apply":
					verb += tf.Name()
				}
			}
		}
		r.Check(verb == "Update", "C10/SENTINELS", d+"/Update/verb", w.Pos(upd.Pos()), "Update uses the API's update verb (fails on a missing object, changes nothing)", "Update uses "+verb+": a missing key would be created instead of failing")
	} else {
		// the Replace call is reached only through the Exists true edge; other returns yield ErrReleaseNotFound
		var repl ssa.CallInstruction
		var existsTrue []Edge
		for _, c := range callInstrs(upd) {
			f, _ := calleeOf(c.Common())
			if f == nil {
				continue
			}
			if strings.HasSuffix(FuncName(f), "records).Replace") {
				repl = c
			}
			if strings.HasSuffix(FuncName(f), "records).Exists") {
				if cc, ok := c.(*ssa.Call); ok {
					for _, e := range condEdges(cc) {
						if e.truth {
							existsTrue = append(existsTrue, e.Edge)
						}
					}
				}
			}
		}
		ok := repl != nil && len(existsTrue) > 0
		if ok {
			ex, _ := ug.PathExists(entryPos(upd), posOf(repl), Avoid{}.withEdges(existsTrue...))
			ok = !ex
			for _, rp := range ug.classifyReturns() {
				if rp.Class == RetSuccess {
					if ex2, _ := ug.PathExists(entryPos(upd), retPos(rp), avoidInstrs(repl)); ex2 {
						ok = false
					}
				}
			}
		}
		r.Check(ok, "C10/SENTINELS", d+"/Update/exists-first", w.Pos(upd.Pos()), "Update replaces the record only where the key exists and otherwise reports not-found", "Update can write (or report success) for a key that does not exist")
	}
}

func c10KeyParse(w *World, r *Report) {
	allowed := map[string]bool{"TrimPrefix": true, "LastIndex": true, "HasPrefix": true, "HasSuffix": true, "TrimSuffix": true}
	for _, fn := range w.FuncsIn("pkg/storage/driver") {
		// functions with a parameter named key of type string, methods of the three drivers and their helpers
		var key ssa.Value
		for _, p := range fn.Params {
			if p.Name() == "key" {
				if b, ok := p.Type().Underlying().(*types.Basic); ok && b.Kind() == types.String {
					key = p
				}
			}
		}
		if key == nil {
			continue
		}
		rn := ""
		if fn.Signature.Recv() != nil {
			rn = fn.Signature.Recv().Type().String()
		}
		if strings.Contains(rn, "SQL") {
			continue
		}
		bad := ""
		n := 0
		for _, c := range callInstrs(fn) {
			f, _ := calleeOf(c.Common())
			if f == nil || fnPkgPath(f) != "strings" {
				continue
			}
			uses := false
			for _, a := range c.Common().Args {
				if derivesFromValue(a, key) {
					uses = true
				}
			}
			if !uses {
				continue
			}
			n++
			if !allowed[f.Name()] {
				bad = "strings." + f.Name() + " at " + w.InstrPos(c)
			}
		}
		if n == 0 {
			continue
		}
		r.Fn(FuncName(fn))
		r.Check(bad == "", "C10/KEY-PARSE", FuncName(fn), w.Pos(fn.Pos()), "the key is only trimmed and split at the last \".v\"", "the key is dissected with "+bad+": release names containing \".v\" are mis-parsed on this backend only")
	}
	// the memory driver's name extraction must exist (Get/Delete need the name) — counted by the rule minimum
}

func c10Decode(w *World, r *Report) {
	dec := w.Fn("pkg/storage/driver", "decodeRelease")
	if dec == nil {
		r.Unk("C10/DECODE", "anchor", "-", "decodeRelease not found")
		return
	}
	for _, fn := range w.FuncsIn("pkg/storage/driver") {
		g := FullGraph(fn)
		k := 0
		for _, c := range callInstrs(fn) {
			f, _ := calleeOf(c.Common())
			if f == nil || origin(f) != dec {
				continue
			}
			k++
			r.Fn(FuncName(fn))
			val := resultN(c, 0)
			bad := ""
			if val != nil && val.Referrers() != nil {
				for a := range forwardAliases(val) {
					if a.Referrers() == nil {
						continue
					}
					for _, u := range *a.Referrers() {
						switch u.(type) {
						case *ssa.Phi, *ssa.DebugRef:
							continue
						case *ssa.Return:
							continue // handed back together with the error
						}
						if !g.AfterOK(c, posOf(u)) {
							bad = w.InstrPos(u)
						}
					}
				}
			}
			key := FuncName(fn)
			if k > 1 {
				key = fmt.Sprintf("%s#%d", key, k)
			}
			r.Check(bad == "", "C10/DECODE", key, w.InstrPos(c), "the decoded release is touched only after its error was tested nil", "the decoded release is used at "+bad+" although decoding may have failed (nil dereference on a corrupt record)")
		}
	}
}

func c10Labels(w *World, r *Report) {
	// write paths: functions of the driver package that set system label keys through labels.set
	sys := map[string]bool{"name": true, "owner": true, "status": true, "version": true}
	n := 0
	for _, fn := range w.FuncsIn("pkg/storage/driver") {
		if fn.Parent() != nil {
			continue
		}
		rt := ""
		if fn.Signature.Results().Len() > 0 {
			rt = fn.Signature.Results().At(0).Type().String()
		}
		if !strings.HasSuffix(rt, "v1.Secret") && !strings.HasSuffix(rt, "v1.ConfigMap") {
			continue
		}
		n++
		r.Fn(FuncName(fn))
		g := FullGraph(fn)
		var sets []ssa.CallInstruction
		var fromMap []ssa.CallInstruction
		seen := map[string]bool{}
		for _, c := range callInstrs(fn) {
			f, _ := calleeOf(c.Common())
			if f == nil {
				continue
			}
			switch FuncName(f) {
			case "(pkg/storage/driver.labels).set":
				if k, ok := constString(c.Common().Args[1]); ok && sys[k] {
					sets = append(sets, c)
					seen[k] = true
				}
			case "(*pkg/storage/driver.labels).fromMap":
				// argument is the release's Labels
				if ld, ok := c.Common().Args[1].(*ssa.UnOp); ok {
					if _, t, fld := fieldNameOf(ld.X); t == "Release" && fld == "Labels" {
						fromMap = append(fromMap, c)
					}
				}
			}
		}
		ok := len(seen) == 4 && len(fromMap) > 0
		why := ""
		if len(seen) != 4 {
			why = "not all of name/owner/status/version are set"
		} else if len(fromMap) == 0 {
			why = "the release's user labels are not merged into the object's labels"
		}
		if ok {
			for _, s := range sets {
				dom := false
				for _, fm := range fromMap {
					if g.DominatesInstr(fm, posOf(s)) {
						dom = true
					}
					if back, _ := g.PathExists(posOf(s), posOf(fm), Avoid{}); back {
						ok, why = false, "user labels are merged after a system label was set: a user label named like a system key overrides it"
					}
				}
				if !dom {
					ok, why = false, "a system label is set before the user labels are merged"
				}
			}
		}
		r.Check(ok, "C10/LABELS", FuncName(fn)+"/write-order", w.Pos(fn.Pos()), "user labels are merged first, then name/owner/status/version are set (system keys win)", why)
	}
	if n == 0 {
		r.Unk("C10/LABELS", "no-object-builder", "-", "no function building the Secret/ConfigMap object found")
	}
	// read paths: after a successful decode the release's Labels field is stored from the object's labels before the value escapes
	dec := w.Fn("pkg/storage/driver", "decodeRelease")
	for _, fn := range w.FuncsIn("pkg/storage/driver") {
		rn := ""
		if fn.Signature.Recv() != nil {
			rn = fn.Signature.Recv().Type().String()
		}
		if !strings.Contains(rn, "Secrets") && !strings.Contains(rn, "ConfigMaps") {
			continue
		}
		g := FullGraph(fn)
		k := 0
		for _, c := range callInstrs(fn) {
			f, _ := calleeOf(c.Common())
			if f == nil || dec == nil || origin(f) != dec {
				continue
			}
			k++
			val := resultN(c, 0)
			// stores to val.Labels
			var stores []ssa.Instruction
			fromObj := true
			for a := range forwardAliases(val) {
				if a.Referrers() == nil {
					continue
				}
				for _, u := range *a.Referrers() {
					if fa, ok := u.(*ssa.FieldAddr); ok && isFieldOf(fa, relPkg, "Release", "Labels") && fa.Referrers() != nil {
						for _, uu := range *fa.Referrers() {
							if st, ok := uu.(*ssa.Store); ok && st.Addr == fa {
								stores = append(stores, st)
								src := false
								backSlice(st.Val, func(x ssa.Value) bool {
									if _, _, fld := fieldNameOf(x); fld == "Labels" {
										if p, t, _ := fieldNameOf(x); t == "ObjectMeta" || strings.HasPrefix(p, "k8s.io/") {
											src = true
										}
									}
									return false
								})
								if !src {
									fromObj = false
								}
							}
						}
					}
				}
			}
			// every escape (return of val, append of val, call passing val) follows a store
			okAll := len(stores) > 0 && fromObj
			if okAll {
				for a := range forwardAliases(val) {
					if a.Referrers() == nil {
						continue
					}
					for _, u := range *a.Referrers() {
						esc := false
						switch x := u.(type) {
						case *ssa.Return:
							// only success returns hand the value out
							for _, rp := range g.classifyReturns() {
								if rp.Ret == x && rp.Class == RetSuccess {
									esc = true
								}
							}
						case *ssa.Call:
							esc = true
						case *ssa.Store:
							if x.Val == a {
								esc = true
							}
						}
						if esc {
							if ex, _ := g.PathExists(posOf(c), posOf(u), avoidInstrs(stores...)); ex {
								okAll = false
							}
						}
					}
				}
			}
			key := FuncName(fn) + "/read-labels"
			if k > 1 {
				key = fmt.Sprintf("%s#%d", key, k)
			}
			r.Check(okAll, "C10/LABELS", key, w.InstrPos(c), "the decoded release gets its Labels from the stored object before it is handed out", "a decoded release can be handed out without its labels restored from the stored object")
		}
	}
}

func c10QueryKeys(w *World, r *Report) {
	// keys written by every backend: constants of labels.set calls in object builders and newRecord
	written := map[string]map[string]bool{}
	for _, fn := range w.FuncsIn("pkg/storage/driver") {
		name := FuncName(fn)
		if !(strings.HasSuffix(name, ".newSecretsObject") || strings.HasSuffix(name, ".newConfigMapsObject") || strings.HasSuffix(name, ".newRecord")) {
			// by role: builds labels with set("owner", …)
			isBuilder := false
			for _, c := range callInstrs(fn) {
				if f, _ := calleeOf(c.Common()); f != nil && FuncName(f) == "(pkg/storage/driver.labels).set" {
					if k, ok := constString(c.Common().Args[1]); ok && k == "owner" {
						isBuilder = true
					}
				}
			}
			if !isBuilder {
				continue
			}
		}
		ks := map[string]bool{}
		for _, c := range callInstrs(fn) {
			if f, _ := calleeOf(c.Common()); f != nil && FuncName(f) == "(pkg/storage/driver.labels).set" {
				if k, ok := constString(c.Common().Args[1]); ok {
					ks[k] = true
				}
			}
		}
		// or written straight into the label map (a map literal labels{"name": …})
		for _, b := range fn.Blocks {
			for _, in := range b.Instrs {
				if mu, ok := in.(*ssa.MapUpdate); ok {
					if n, isN := mu.Map.Type().(*types.Named); isN && refTypeName(n.Obj()) == "labels" {
						if k, ok := constString(mu.Key); ok {
							ks[k] = true
						}
					}
				}
			}
		}
		if len(ks) > 0 {
			written[name] = ks
		}
	}
	if len(written) < 3 {
		r.Unk("C10/QUERY-KEYS", "builders", "-", fmt.Sprintf("only %d label-writing builders found (memory, secrets, configmaps expected)", len(written)))
		return
	}
	for _, q := range []string{"Storage.History", "Storage.DeployedAll"} {
		fn := w.Fn("pkg/storage", q)
		if fn == nil {
			r.Unk("C10/QUERY-KEYS", q, "-", "function not found")
			continue
		}
		r.Fn(FuncName(fn))
		var keysUsed []string
		for _, b := range fn.Blocks {
			for _, in := range b.Instrs {
				if mu, ok := in.(*ssa.MapUpdate); ok {
					if k, ok := constString(mu.Key); ok {
						keysUsed = append(keysUsed, k)
					}
				}
			}
		}
		sort.Strings(keysUsed)
		bad := ""
		for _, k := range keysUsed {
			for b, ks := range written {
				if !ks[k] {
					bad = k + " is not written by " + b
				}
			}
		}
		r.Check(bad == "" && len(keysUsed) >= 2, "C10/QUERY-KEYS", q, w.Pos(fn.Pos()), "queries by "+strings.Join(keysUsed, ",")+", all written by every backend", "query key "+bad)
	}
	// status value agreement: DeployedAll's "deployed" equals release.StatusDeployed
	fn := w.Fn("pkg/storage", "Storage.DeployedAll")
	if fn != nil {
		ok := false
		for _, b := range fn.Blocks {
			for _, in := range b.Instrs {
				if mu, isMu := in.(*ssa.MapUpdate); isMu {
					if k, _ := constString(mu.Key); k == "status" {
						if v, _ := constString(mu.Value); v == "deployed" {
							ok = true
						}
					}
				}
			}
		}
		r.Check(ok, "C10/QUERY-KEYS", "deployed-value", w.Pos(fn.Pos()), "the deployed query uses the value written for StatusDeployed", "the deployed query does not use the status value written by the backends")
	}
}

func c10FullRead(w *World, r *Report) {
	dec := w.Fn("pkg/storage/driver", "decodeRelease")
	if dec == nil {
		return
	}
	r.Fn(FuncName(dec))
	ok, n := true, 0
	var calls []ssa.CallInstruction
	for _, f := range withAnon(dec) {
		calls = append(calls, callInstrs(f)...)
	}
	for _, c := range calls {
		f, _ := calleeOf(c.Common())
		if f == nil || !(fnPkgPath(f) == "io" && f.Name() == "ReadAll") {
			continue
		}
		n++
		backSlice(c.Common().Args[0], func(v ssa.Value) bool {
			if cc, isC := v.(*ssa.Call); isC {
				if ff, _ := calleeOf(cc.Common()); ff != nil && fnPkgPath(ff) == "io" && (ff.Name() == "LimitReader" || ff.Name() == "NewSectionReader") {
					ok = false
				}
				return false
			}
			if al, isA := v.(*ssa.Alloc); isA {
				if strings.Contains(al.Type().String(), "LimitedReader") {
					ok = false
				}
			}
			return false
		})
	}
	r.Check(ok && n > 0, "C10/FULL-READ", "decodeRelease", w.Pos(dec.Pos()), "the whole decompressed stream is read", "the decompressed stream is read through a limiting reader: large releases are truncated on read and become undecodable")
}
