package main

// C18 — version queries return the best matching chart from a well-formed index (structural part).

import (
	"fmt"
	"go/token"
	"go/types"
	"strings"

	"golang.org/x/tools/go/ssa"
)

func init() {
	register(&propDef{
		ID:      "C18",
		Anchors: []string{"pkg/repo/index.go", "internal/resolver/resolver.go", "pkg/registry/util.go", "pkg/downloader/chart_downloader.go", "pkg/downloader/manager.go"},
		NotDec:  []string{"that first-hit on the descending-sorted list equals 'highest satisfying version' (needs the semantics of semver ordering)", "semantic-version precedence itself (Masterminds/semver is trusted)", "constraint-expression semantics"},
		Trusted: []string{"github.com/Masterminds/semver/v3"},
		Run:     runC18,
	})
}

const repoPkg = helmMod + "/pkg/repo"

func runC18(w *World, r *Report) {
	r.Rule("C18/FILTER", "while loading an index every pass through the per-entry loop either removes the entry or has passed both the not-nil edge and the validation-ok edge; in-place removal goes with a downward index; the filtered list is stored back", 4)
	r.Rule("C18/SORTED", "every index handed out by the loaders went through loadIndex, whose success returns all follow SortEntries; SortEntries sorts each list with sort.Reverse over a Less that compares semantic versions a < b", 4)
	r.Rule("C18/EXACT-FIRST", "in the version lookups the identical-string scan is complete before any constraint is evaluated, both scans run from index 0 and return at the first hit", 4)
	r.Rule("C18/RESOLVE", "once the cached index was consulted, the version locked for a dependency comes from an index entry that passed the constraint on that very iteration (never the requested string), entries without URLs are skipped, and the scan starts at index 0 and stops at the first hit", 2)
	c18Filter(w, r, "C18/FILTER")
	c18Sorted(w, r)
	c18ExactFirst(w, r)
	c18ToleratedLast(w, r)
	c18TagsSorted(w, r)
	c18SameParser(w, r)
	c18Resolve(w, r)
	c18FreshRead(w, r)
	c18ResolveAlways(w, r)
	c18GetAny(w, r)
}

// c18Filter is shared with C20/NIL-ELEM (rule name passed in).
func c18Filter(w *World, r *Report, rule string) {
	fn := w.Fn("pkg/repo", "loadIndex")
	if fn == nil {
		r.Unk(rule, "anchor", "-", "repo.loadIndex not found")
		return
	}
	r.Fn(FuncName(fn))
	g := FullGraph(fn)
	// removal: append(cvs[:idx], cvs[idx+1:]...) — a builtin append whose operands are slices of the same list
	var removals []ssa.Instruction
	for _, c := range callInstrs(fn) {
		cc, ok := c.(*ssa.Call)
		if !ok {
			continue
		}
		if bi, ok := cc.Call.Value.(*ssa.Builtin); ok && bi.Name() == "append" && len(cc.Call.Args) == 2 {
			_, s1 := unwrapIface(cc.Call.Args[0]).(*ssa.Slice)
			_, s2 := unwrapIface(cc.Call.Args[1]).(*ssa.Slice)
			if s1 && s2 {
				removals = append(removals, cc)
			}
		}
	}
	if len(removals) == 0 {
		r.Bad(rule, "loadIndex/removal", w.Pos(fn.Pos()), "invalid entries are never removed from the loaded index")
		return
	}
	// the element value cvs[idx]: nil test and Validate on it
	var nonNil, valid []Edge
	var elemLoads []ssa.Instruction
	for _, b := range fn.Blocks {
		for _, in := range b.Instrs {
			switch x := in.(type) {
			case *ssa.BinOp:
				if (x.Op == token.EQL || x.Op == token.NEQ) && (isNilConst(x.X) || isNilConst(x.Y)) {
					v := x.X
					if isNilConst(v) {
						v = x.Y
					}
					if isNamedPtr(v.Type(), repoPkg, "ChartVersion") {
						for _, e := range condEdges(x) {
							if e.truth == (x.Op == token.NEQ) {
								nonNil = append(nonNil, e.Edge)
							}
						}
					}
				}
			case *ssa.Call:
				f, _ := calleeOf(x.Common())
				if f == nil {
					continue
				}
				// Validate() on the element, possibly filtered through a helm function that maps some errors to nil
				if strings.HasSuffix(FuncName(f), ".Validate") && len(x.Call.Args) > 0 {
					ev := ssa.Value(x)
					// a wrapper taking this error
					if x.Referrers() != nil {
						for _, rf := range *x.Referrers() {
							if wc, ok := rf.(*ssa.Call); ok {
								if wf, _ := calleeOf(wc.Common()); wf != nil && inHelm(wf) && isErrorType(wc.Type()) {
									ev = wc
								}
							}
						}
					}
					ok, _ := nilTestEdges(ev)
					valid = append(valid, ok...)
				}
			case *ssa.UnOp:
				if x.Op == token.MUL {
					if ia, ok := x.X.(*ssa.IndexAddr); ok && isNamedPtr(x.Type(), repoPkg, "ChartVersion") {
						_ = ia
						elemLoads = append(elemLoads, x)
					}
				}
			}
		}
	}
	// the inner loop header: the phi of the index used by the removal's slices
	var idx *ssa.Phi
	if sl, ok := unwrapIface(removals[0].(*ssa.Call).Call.Args[0]).(*ssa.Slice); ok && sl.High != nil {
		idx, _ = sl.High.(*ssa.Phi)
	}
	if idx == nil {
		r.Unk(rule, "loadIndex/index", w.InstrPos(removals[0]), "cannot identify the loop index of the in-place removal")
		return
	}
	hdr := idx.Block()
	// cycles hdr → … → hdr
	// only cycles through the loop body count (the enclosing loop over chart names re-enters the header too)
	if len(hdr.Succs) != 2 {
		r.Unk(rule, "loadIndex/loop", w.InstrPos(idx), "unexpected loop shape")
		return
	}
	body := hdr.Succs[0]
	from := IPos{body, -1}
	to := IPos{hdr, 0}
	c1, _ := g.PathExists(from, to, Avoid{}.withInstrs(removals...).withEdges(nonNil...))
	c2, _ := g.PathExists(from, to, Avoid{}.withInstrs(removals...).withEdges(valid...))
	r.Check(!c1 && len(nonNil) > 0, rule, "loadIndex/nil-entry", w.InstrPos(removals[0]), "an entry stays in the list only after it was tested not nil", "a null entry can stay in the loaded index (it is neither removed nor rejected): later sorting and lookups dereference it")
	r.Check(!c2 && len(valid) > 0, rule, "loadIndex/invalid-entry", w.InstrPos(removals[0]), "an entry stays in the list only after its validation succeeded", "an invalid entry can stay in the loaded index")
	// downward index with in-place removal
	down := false
	for _, e := range idx.Edges {
		if bo, ok := e.(*ssa.BinOp); ok && bo.X == ssa.Value(idx) {
			if one, isC := constInt(bo.Y); isC && one == 1 && bo.Op == token.SUB {
				down = true
			}
		}
	}
	r.Check(down, rule, "loadIndex/downward-index", w.InstrPos(idx), "entries are removed in place while the index runs downward (no element is skipped)", "entries are removed in place while the index runs upward: the element that slides into the freed slot is never checked")
	// stored back into Entries
	stored := false
	for _, b := range fn.Blocks {
		for _, in := range b.Instrs {
			if mu, ok := in.(*ssa.MapUpdate); ok {
				if sl, ok := mu.Value.Type().Underlying().(*types.Slice); ok && isNamedPtr(sl.Elem(), repoPkg, "ChartVersion") {
					if _, isPhi := mu.Value.(*ssa.Phi); isPhi {
						stored = true
					}
				}
			}
		}
	}
	r.Check(stored, rule, "loadIndex/stored-back", w.Pos(fn.Pos()), "the filtered list replaces the entry's list in the index", "the filtered list is not stored back into the index")
}

func c18Sorted(w *World, r *Report) {
	li := w.Fn("pkg/repo", "loadIndex")
	se := w.Fn("pkg/repo", "IndexFile.SortEntries")
	if li == nil || se == nil {
		r.Unk("C18/SORTED", "anchor", "-", "loadIndex / SortEntries not found")
		return
	}
	g := FullGraph(li)
	var sortCalls []ssa.Instruction
	for _, c := range callInstrs(li) {
		if f, _ := calleeOf(c.Common()); f != nil && origin(f) == se {
			sortCalls = append(sortCalls, c)
		}
	}
	okAll := len(sortCalls) > 0
	for _, rp := range g.classifyReturns() {
		if rp.Class != RetSuccess {
			continue
		}
		if ex, _ := g.PathExists(entryPos(li), retPos(rp), avoidInstrs(sortCalls...)); ex {
			okAll = false
		}
	}
	r.Check(okAll, "C18/SORTED", "loadIndex/sorts", w.Pos(li.Pos()), "every success return of loadIndex follows SortEntries", "loadIndex can return an index that was not sorted")
	// loaders go through loadIndex: functions of pkg/repo that decode an IndexFile themselves
	bad := ""
	for _, fn := range w.FuncsIn("pkg/repo") {
		if fn == li || strings.Contains(FuncName(fn), "$") {
			continue
		}
		for _, c := range callInstrs(fn) {
			f, _ := calleeOf(c.Common())
			if f == nil {
				continue
			}
			n := FuncName(f)
			if n == "pkg/repo.jsonOrYamlUnmarshal" || ((fnPkgPath(f) == "sigs.k8s.io/yaml" || fnPkgPath(f) == "encoding/json") && strings.HasPrefix(f.Name(), "Unmarshal")) {
				for _, a := range c.Common().Args {
					if isNamedPtr(unwrapIface(a).Type(), repoPkg, "IndexFile") {
						bad = FuncName(fn)
					}
				}
			}
		}
	}
	r.Check(bad == "", "C18/SORTED", "single-decoder", w.Pos(li.Pos()), "only loadIndex decodes index files", bad+" decodes an index file without going through loadIndex (no filtering, no sorting)")
	// SortEntries: sort.Sort(sort.Reverse(versions))
	okRev := false
	var revSorts []ssa.Instruction
	for _, c := range callInstrs(se) {
		f, _ := calleeOf(c.Common())
		if f != nil && fnPkgPath(f) == "sort" && (f.Name() == "Sort" || f.Name() == "Stable") {
			if rc, ok := unwrapIface(c.Common().Args[0]).(*ssa.Call); ok {
				if rf, _ := calleeOf(rc.Common()); rf != nil && fnPkgPath(rf) == "sort" && rf.Name() == "Reverse" {
					okRev = true
					revSorts = append(revSorts, c)
				}
			}
		}
	}
	if okRev {
		// every list: no iteration of the loop over the entries gets round the sort (a "looks sorted
		// already" shortcut decides by something else than the version order)
		r.Check(loopBodyAlwaysCalls(FullGraph(se), revSorts), "C18/SORTED", "SortEntries/every-list", w.InstrPos(revSorts[0]), "every iteration over the entries sorts its list", "some iteration over the entries can skip the sort: a list that is left as it came from the file is not newest-first, and the lookups that take element 0 or stop at the first match return an older version")
	}
	r.Check(okRev, "C18/SORTED", "SortEntries/descending", w.Pos(se.Pos()), "each version list is sorted with sort.Reverse (newest first)", "version lists are not sorted in descending order")
	// ChartVersions.Less: semver(c[a]).LessThan(semver(c[b]))
	less := w.Fn("pkg/repo", "ChartVersions.Less")
	if less == nil {
		r.Unk("C18/SORTED", "Less", "-", "ChartVersions.Less not found")
		return
	}
	okLess := false
	for _, c := range callInstrs(less) {
		f, _ := calleeOf(c.Common())
		if f == nil || !strings.HasSuffix(FuncName(f), "semver/v3.Version).LessThan") {
			continue
		}
		// receiver from element a (param 1), argument from element b (param 2)
		usesIdx := func(v ssa.Value, p ssa.Value) bool {
			found := false
			backSliceIdx(v, func(x ssa.Value) bool {
				if x == p {
					found = true
				}
				return found
			})
			return found
		}
		ra := usesIdx(c.Common().Args[0], less.Params[1]) && !usesIdx(c.Common().Args[0], less.Params[2])
		rb := usesIdx(c.Common().Args[1], less.Params[2]) && !usesIdx(c.Common().Args[1], less.Params[1])
		okLess = ra && rb
	}
	// every result of Less is that comparison, or the constant chosen on the parse-error edge of one of the versions
	lg := FullGraph(less)
	var parseBad []Edge
	for _, c := range callInstrs(less) {
		if f, _ := calleeOf(c.Common()); f != nil && strings.HasSuffix(FuncName(f), "semver/v3.NewVersion") {
			_, bad := nilTestEdges(errResult(c))
			parseBad = append(parseBad, bad...)
		}
	}
	pure, impure := true, ""
	var judge func(v ssa.Value, at IPos, d int)
	judge = func(v ssa.Value, at IPos, d int) {
		switch x := v.(type) {
		case *ssa.Const:
			if ex, _ := lg.PathExists(entryPos(less), at, Avoid{}.withEdges(parseBad...)); ex {
				pure, impure = false, "a constant result is returned although both versions parsed"
			}
		case *ssa.Call:
			if f, _ := calleeOf(x.Common()); f == nil || !strings.HasSuffix(FuncName(f), "semver/v3.Version).LessThan") {
				pure, impure = false, "the result of "+describeCall(x.Common())+" decides the order"
			}
		case *ssa.Phi:
			if d > 3 {
				pure, impure = false, "result too indirect"
				return
			}
			for i, e := range x.Edges {
				p := x.Block().Preds[i]
				if len(p.Instrs) > 0 {
					judge(e, IPos{p, len(p.Instrs) - 1}, d+1)
				}
			}
		default:
			pure, impure = false, "something other than the version comparison decides the order"
		}
	}
	for _, b := range less.Blocks {
		if len(b.Instrs) == 0 {
			continue
		}
		if ret, ok := b.Instrs[len(b.Instrs)-1].(*ssa.Return); ok && lg.Reachable()[b] {
			judge(ret.Results[0], posOf(ret), 0)
		}
	}
	r.Check(pure, "C18/SORTED", "Less/only-version-order", w.Pos(less.Pos()), "every result of Less is version(a) < version(b), or the constant chosen where a version does not parse", "Less does not order by semantic-version precedence alone: "+impure)
	r.Check(okLess, "C18/SORTED", "Less/operands", w.Pos(less.Pos()), "Less(a, b) is version(a).LessThan(version(b))", "Less(a, b) is not version(a) < version(b): the sort direction or key is wrong")
}

func c18ExactFirst(w *World, r *Report) {
	for _, e := range [][2]string{{"pkg/repo", "IndexFile.Get"}, {"pkg/registry", "GetTagMatchingVersionOrConstraint"}} {
		fn := w.Fn(e[0], e[1])
		if fn == nil {
			r.Unk("C18/EXACT-FIRST", e[1], "-", "function not found")
			continue
		}
		r.Fn(FuncName(fn))
		g := FullGraph(fn)
		// events of fn: the identical-string scan (a string equality between the requested version — a
		// string parameter — and an element, written as a loop, as slices.Contains/Index, as a predicate
		// handed to slices.IndexFunc/ContainsFunc, or inside a small helper) and the constraint scan
		var eqs []ssa.Instruction
		var checks []ssa.Instruction
		hasParamEq := func(f *ssa.Function, params map[ssa.Value]bool) bool {
			for _, b := range f.Blocks {
				for _, in := range b.Instrs {
					if x, ok := in.(*ssa.BinOp); ok && x.Op == token.EQL && isStringType(x.X.Type()) {
						px, py := params[resolveToParam(x.X)] || params[x.X], params[resolveToParam(x.Y)] || params[x.Y]
						if px != py {
							other := x.Y
							if py {
								other = x.X
							}
							if _, isC := other.(*ssa.Const); !isC {
								return true
							}
						}
					}
				}
			}
			return false
		}
		hasCheck := func(f *ssa.Function) bool {
			for _, c := range callInstrs(f) {
				if cf, _ := calleeOf(c.Common()); cf != nil && strings.HasSuffix(FuncName(cf), "semver/v3.Constraints).Check") {
					return true
				}
			}
			return false
		}
		fnParams := map[ssa.Value]bool{}
		for _, p := range fn.Params {
			if isStringType(p.Type()) {
				fnParams[p] = true
			}
		}
		closureOf := func(v ssa.Value) *ssa.Function {
			switch x := v.(type) {
			case *ssa.MakeClosure:
				f, _ := x.Fn.(*ssa.Function)
				return f
			case *ssa.Function:
				return x
			}
			return nil
		}
		for _, b := range fn.Blocks {
			for _, in := range b.Instrs {
				switch x := in.(type) {
				case *ssa.BinOp:
					if x.Op == token.EQL && isStringType(x.X.Type()) {
						px, py := fnParams[x.X], fnParams[x.Y]
						if px != py {
							other := x.Y
							if py {
								other = x.X
							}
							if _, isC := other.(*ssa.Const); !isC {
								eqs = append(eqs, x)
							}
						}
					}
				case *ssa.Call:
					f, _ := calleeOf(x.Common())
					if f == nil {
						continue
					}
					switch {
					case strings.HasSuffix(FuncName(f), "semver/v3.Constraints).Check"):
						checks = append(checks, x)
					case fnPkgPath(f) == "slices" && (genericName(f) == "Contains" || genericName(f) == "Index"):
						if len(x.Call.Args) == 2 && fnParams[x.Call.Args[1]] {
							eqs = append(eqs, x)
						}
					case fnPkgPath(f) == "slices" && (genericName(f) == "IndexFunc" || genericName(f) == "ContainsFunc"):
						if cl := closureOf(x.Call.Args[1]); cl != nil {
							if hasParamEq(cl, fnParams) {
								eqs = append(eqs, x)
							}
							if hasCheck(cl) {
								checks = append(checks, x)
							}
						}
					case inHelm(f) && len(f.Blocks) > 0 && len(f.Blocks) <= 6:
						// a small helper given the requested version: its own string parameter compared with elements
						hp := map[ssa.Value]bool{}
						for i, a := range x.Call.Args {
							if fnParams[a] && i < len(f.Params) {
								hp[f.Params[i]] = true
							}
						}
						if len(hp) > 0 {
							found := hasParamEq(f, hp)
							for _, c := range callInstrs(f) {
								if cf, _ := calleeOf(c.Common()); cf != nil && fnPkgPath(cf) == "slices" && (genericName(cf) == "Contains" || genericName(cf) == "Index") && len(c.Common().Args) == 2 && hp[c.Common().Args[1]] {
									found = true
								}
							}
							if found {
								eqs = append(eqs, x)
							}
						}
					}
				}
			}
		}
		if len(eqs) == 0 || len(checks) == 0 {
			r.Bad("C18/EXACT-FIRST", e[1]+"/two-phase", w.Pos(fn.Pos()), "the lookup lacks the identical-string scan or the constraint scan")
			continue
		}
		back := false
		for _, c := range checks {
			for _, q := range eqs {
				if reach, _ := g.PathExists(posOf(c), posOf(q), Avoid{}); reach {
					back = true
				}
			}
		}
		r.Check(!back, "C18/EXACT-FIRST", e[1]+"/two-phase", w.InstrPos(eqs[0]), "no constraint is evaluated before the identical-string scan is complete", "a constraint can be evaluated while the identical-string scan is still going on: a higher version that merely satisfies the string as a constraint wins over the identical entry")
		// every element handed out passed the identity test or the constraint check
		var guards []Edge
		for _, q := range eqs {
			qv, _ := q.(ssa.Value)
			if qv == nil {
				continue
			}
			if c, isCall := q.(*ssa.Call); isCall {
				if cf, _ := calleeOf(c.Common()); cf != nil && fnPkgPath(cf) == "slices" && strings.HasPrefix(genericName(cf), "Index") {
					for _, e := range relEdges(fn, func(v ssa.Value) bool { return v == qv }, func(v ssa.Value) bool { _, k := constInt(v); return k }) {
						k, _ := constInt(e.B)
						if (e.Rel == token.GEQ && k == 0) || (e.Rel == token.GTR && k == -1) || (e.Rel == token.NEQ && k == -1) {
							guards = append(guards, e.Edge)
						}
					}
					continue
				}
			}
			for _, e := range condEdges(qv) {
				if e.truth {
					guards = append(guards, e.Edge)
				}
			}
		}
		for _, c := range checks {
			cv, _ := c.(ssa.Value)
			if cv == nil {
				continue
			}
			if cc, isCall := c.(*ssa.Call); isCall {
				if cf, _ := calleeOf(cc.Common()); cf != nil && fnPkgPath(cf) == "slices" && strings.HasPrefix(genericName(cf), "Index") {
					for _, e := range relEdges(fn, func(v ssa.Value) bool { return v == cv }, func(v ssa.Value) bool { _, k := constInt(v); return k }) {
						k, _ := constInt(e.B)
						if (e.Rel == token.GEQ && k == 0) || (e.Rel == token.GTR && k == -1) || (e.Rel == token.NEQ && k == -1) {
							guards = append(guards, e.Edge)
						}
					}
					continue
				}
			}
			for _, e := range condEdges(cv) {
				if e.truth {
					guards = append(guards, e.Edge)
				}
			}
		}
		okRet, badRet := true, ""
		for _, rp := range g.classifyReturns() {
			if rp.Class != RetSuccess {
				continue
			}
			if ex, _ := g.PathExists(entryPos(fn), retPos(rp), Avoid{}.withEdges(guards...)); ex {
				okRet, badRet = false, w.InstrPos(rp.Ret)
			}
		}
		r.Check(okRet && len(guards) > 0, "C18/EXACT-FIRST", e[1]+"/result-passed-a-test", w.Pos(fn.Pos()), "an element is returned only where it equalled the requested string or satisfied the constraint", "the success return at "+badRet+" hands out an element that passed neither the identity test nor the constraint check")
		// both scans from index 0 upward, first hit returns
		okUp := true
		for _, b := range fn.Blocks {
			for _, in := range b.Instrs {
				if ia, ok := in.(*ssa.IndexAddr); ok {
					if _, isSlice := ia.X.Type().Underlying().(*types.Slice); isSlice && !phiCountsUp(ia.Index) {
						_, isC := ia.Index.(*ssa.Const)
						fromSearch := false // the index found by a front-to-back library search
						if c, ok := ia.Index.(*ssa.Call); ok {
							if f, _ := calleeOf(c.Common()); f != nil && fnPkgPath(f) == "slices" && strings.HasPrefix(genericName(f), "Index") {
								fromSearch = true
							}
						}
						if !isC && !fromSearch {
							okUp = false
						}
					}
				}
			}
		}
		r.Check(okUp, "C18/EXACT-FIRST", e[1]+"/from-front", w.Pos(fn.Pos()), "the scans run from index 0 upward", "a scan does not run from the front of the (descending) list")
	}
}

func isStringType(t types.Type) bool {
	b, ok := t.Underlying().(*types.Basic)
	return ok && b.Kind() == types.String
}

func c18Resolve(w *World, r *Report) {
	fn := w.Fn("internal/resolver", "Resolver.Resolve")
	if fn == nil {
		r.Unk("C18/RESOLVE", "anchor", "-", "resolver.Resolve not found")
		return
	}
	r.Fn(FuncName(fn))
	g := FullGraph(fn)
	var load ssa.CallInstruction
	var checks []*ssa.Call
	for _, c := range callInstrs(fn) {
		f, _ := calleeOf(c.Common())
		if f == nil {
			continue
		}
		if FuncName(f) == "pkg/repo.LoadIndexFile" {
			load = c
		}
		if strings.HasSuffix(FuncName(f), "semver/v3.Constraints).Check") {
			if cc, ok := c.(*ssa.Call); ok {
				checks = append(checks, cc)
			}
		}
	}
	if load == nil {
		r.Bad("C18/RESOLVE", "index", w.Pos(fn.Pos()), "the resolver does not consult the cached index")
		return
	}
	// stores to Dependency.Version dominated by the index load
	n := 0
	for _, b := range fn.Blocks {
		for _, in := range b.Instrs {
			st, ok := in.(*ssa.Store)
			if !ok {
				continue
			}
			if _, t, f := fieldNameOf(st.Addr); t != "Dependency" || f != "Version" {
				continue
			}
			if !g.AfterOK(load, posOf(st)) {
				continue
			}
			n++
			// must not derive from the requested dependency's own Version
			fromReq := false
			backSlice(st.Val, func(v ssa.Value) bool {
				if ld, ok := v.(*ssa.UnOp); ok {
					if _, t, f := fieldNameOf(ld.X); t == "Dependency" && f == "Version" {
						fromReq = true
					}
				}
				_, isCall := v.(*ssa.Call)
				return isCall && false
			})
			r.Check(!fromReq, "C18/RESOLVE", fmt.Sprintf("lock-after-index#%d", n), w.InstrPos(st), "the version locked after consulting the index is not the requested string", "after consulting the index the requested version string itself is locked: it need not be an indexed version (nor the highest match, nor one with URLs)")
		}
	}
	// the store in the scan loop: on the Check true edge, value from the scanned element
	okScan := false
	var scanStore *ssa.Store
	for _, b := range fn.Blocks {
		for _, in := range b.Instrs {
			st, ok := in.(*ssa.Store)
			if !ok {
				continue
			}
			if _, t, f := fieldNameOf(st.Addr); t != "Dependency" || f != "Version" {
				continue
			}
			for _, ck := range checks {
				var tr []Edge
				for _, e := range condEdges(ck) {
					if e.truth {
						tr = append(tr, e.Edge)
					}
				}
				for _, e := range tr {
					if edgeDominates(g, e, st.Block()) && derivesFromValue(st.Val, ck.Call.Args[1]) {
						okScan = true
						scanStore = st
					}
				}
			}
		}
	}
	pos := w.Pos(fn.Pos())
	if scanStore != nil {
		pos = w.InstrPos(scanStore)
	}
	r.Check(okScan, "C18/RESOLVE", "scan/locks-checked-entry", pos, "the locked version is the very version value that passed the constraint", "the version locked in the scan is not the value that passed the constraint")
	// entries without URLs are skipped: a len(ver.URLs) == 0 test whose true edge bypasses the Check
	urlSkip := false
	for _, b := range fn.Blocks {
		for _, in := range b.Instrs {
			if bo, ok := in.(*ssa.BinOp); ok && bo.Op == token.EQL {
				if c, ok := bo.X.(*ssa.Call); ok {
					if bi, ok := c.Call.Value.(*ssa.Builtin); ok && bi.Name() == "len" {
						if ld, ok := c.Call.Args[0].(*ssa.UnOp); ok {
							if _, t, f := fieldNameOf(ld.X); t == "ChartVersion" && f == "URLs" {
								for _, e := range condEdges(bo) {
									if e.truth && len(e.To().Instrs) > 0 {
										reach := false
										for _, ck := range checks {
											if rr, _ := g.PathExists(IPos{e.To(), -1}, posOf(ck), Avoid{}.withInstrs(loopNextOf(fn)...)); rr {
												reach = true
											}
										}
										if !reach {
											urlSkip = true
										}
									}
								}
							}
						}
					}
				}
			}
		}
	}
	r.Check(urlSkip, "C18/RESOLVE", "scan/skips-url-less", w.Pos(fn.Pos()), "index entries without download URLs are skipped before the constraint is tried", "index entries without download URLs can be locked")
}

// loopNextOf: the element accesses that start a new iteration of a slice range (IndexAddr with an induction index).
func loopNextOf(fn *ssa.Function) []ssa.Instruction {
	var out []ssa.Instruction
	for _, b := range fn.Blocks {
		for _, in := range b.Instrs {
			if ia, ok := in.(*ssa.IndexAddr); ok && phiCountsUp(ia.Index) {
				out = append(out, ia)
			}
		}
	}
	return out
}

// c18ToleratedLast: loadIndex tolerates one class of validation error (duplicate dependency names, which
// some repository software produces). Metadata.Validate reports only the first error it meets, so the
// tolerated error must be reported last: where it is returned, no other validation test may still be
// ahead (otherwise an entry that is invalid in another way stays in the index).
func c18ToleratedLast(w *World, r *Report) {
	r.Rule("C18/TOLERATED-LAST", "Metadata.Validate returns the one validation error that the index loader tolerates only after every other validation has run: from the decision to return it, no other validation failure can still be reached (except by having completed the loop the decision sits behind)", 1)
	ign := w.Fn("pkg/repo", "ignoreSkippableChartValidationError")
	val := w.Fn("pkg/chart/v2", "Metadata.Validate")
	if ign == nil || val == nil {
		r.Unk("C18/TOLERATED-LAST", "anchor", "-", "ignoreSkippableChartValidationError / Metadata.Validate not found")
		return
	}
	// the tolerated message prefixes
	var prefixes []string
	for _, c := range callInstrs(ign) {
		if f, _ := calleeOf(c.Common()); f != nil && fnPkgPath(f) == "strings" && f.Name() == "HasPrefix" {
			if s, ok := constString(c.Common().Args[1]); ok {
				prefixes = append(prefixes, strings.TrimPrefix(s, "validation: "))
			}
		}
	}
	if len(prefixes) == 0 {
		r.OKTrivial("C18/TOLERATED-LAST", "none", w.Pos(ign.Pos()), "the index loader tolerates no validation error")
		return
	}
	r.Fn(FuncName(val))
	g := FullGraph(val)
	isTolerated := func(v ssa.Value) bool {
		found := false
		backSlice(v, func(x ssa.Value) bool {
			if c, ok := x.(*ssa.Call); ok {
				for _, a := range c.Call.Args {
					if s, ok := constString(a); ok {
						for _, p := range prefixes {
							if strings.HasPrefix(s, p) {
								found = true
							}
						}
					}
				}
			}
			return found
		})
		return found
	}
	// strongly connected components of the CFG (loops)
	scc := sccOf(val)
	decideOf := func(retBlock *ssa.BasicBlock) *ssa.BasicBlock {
		cur := retBlock
		for d := 0; d < 6; d++ {
			if len(cur.Preds) != 1 {
				return nil
			}
			p := cur.Preds[0]
			if _, isIf := p.Instrs[len(p.Instrs)-1].(*ssa.If); isIf {
				return p
			}
			cur = p
		}
		return nil
	}
	rets := g.classifyReturns()
	n := 0
	seenRet := map[*ssa.Return]bool{}
	for _, rs := range rets {
		if rs.Class != RetError || !isTolerated(rs.Val) || seenRet[rs.Ret] {
			continue
		}
		seenRet[rs.Ret] = true
		n++
		rsb := rs.Ret.Block()
		bad := ""
		for _, rp := range rets {
			if rp.Class != RetError || isTolerated(rp.Val) || rp.Ret == rs.Ret {
				continue
			}
			t := decideOf(rp.Ret.Block())
			if t == nil {
				t = rp.Ret.Block()
			}
			if comp := scc[t]; len(comp) > 1 {
				// (a return block is on no cycle itself: look at the blocks that lead into it)
				// leaving through the loop header's exit edge means every iteration was completed
				inComp := func(b *ssa.BasicBlock) bool {
					for _, x := range comp {
						if x == b {
							return true
						}
					}
					return false
				}
				isHeader := func(b *ssa.BasicBlock) bool {
					for _, p := range b.Preds {
						if !inComp(p) {
							return true
						}
					}
					return false
				}
				inSame := inComp(rsb)
				for _, p := range rsb.Preds {
					if inComp(p) && !isHeader(p) {
						inSame = true
					}
				}
				if d := decideOf(rsb); d != nil && inComp(d) && !isHeader(d) {
					inSame = true
				}
				if inSame {
					bad = "it is returned from inside the loop that also validates the other elements (" + w.InstrPos(rp.Ret) + "): later elements are never looked at"
					continue
				}
				// the loop must have been entered (and so completed) before: its header dominates the return
				okHdr := false
				for _, x := range comp {
					for _, p := range x.Preds {
						outside := true
						for _, y := range comp {
							if y == p {
								outside = false
							}
						}
						if outside && x.Dominates(rsb) {
							okHdr = true
						}
					}
				}
				if !okHdr {
					bad = "the validation at " + w.InstrPos(rp.Ret) + " has not run yet"
				}
				continue
			}
			if !t.Dominates(rsb) {
				bad = "the validation at " + w.InstrPos(rp.Ret) + " has not run yet"
			}
		}
		r.Check(bad == "", "C18/TOLERATED-LAST", "Validate/return#"+fmt.Sprint(n), w.InstrPos(rs.Ret), "every other validation has run where the tolerated error is returned", "the tolerated error can be returned before the rest was validated: "+bad+" — an entry that is invalid in that way is kept by the index loader")
	}
	if n == 0 {
		r.Unk("C18/TOLERATED-LAST", "no-site", w.Pos(val.Pos()), "Metadata.Validate never returns the error the index loader tolerates")
	}
}

// sccOf: block -> members of its strongly connected component (Tarjan).
func sccOf(fn *ssa.Function) map[*ssa.BasicBlock][]*ssa.BasicBlock {
	index := map[*ssa.BasicBlock]int{}
	low := map[*ssa.BasicBlock]int{}
	on := map[*ssa.BasicBlock]bool{}
	var stack []*ssa.BasicBlock
	out := map[*ssa.BasicBlock][]*ssa.BasicBlock{}
	next := 0
	var visit func(b *ssa.BasicBlock)
	visit = func(b *ssa.BasicBlock) {
		index[b], low[b] = next, next
		next++
		stack = append(stack, b)
		on[b] = true
		for _, s := range b.Succs {
			if _, seen := index[s]; !seen {
				visit(s)
				if low[s] < low[b] {
					low[b] = low[s]
				}
			} else if on[s] && index[s] < low[b] {
				low[b] = index[s]
			}
		}
		if low[b] == index[b] {
			var comp []*ssa.BasicBlock
			for {
				x := stack[len(stack)-1]
				stack = stack[:len(stack)-1]
				on[x] = false
				comp = append(comp, x)
				if x == b {
					break
				}
			}
			for _, x := range comp {
				out[x] = comp
			}
		}
	}
	for _, b := range fn.Blocks {
		if _, seen := index[b]; !seen {
			visit(b)
		}
	}
	return out
}

func isErrorLike(t types.Type) bool {
	if isErrorType(t) {
		return true
	}
	if n, ok := t.(*types.Named); ok && n.Obj().Name() == "ValidationError" {
		return true
	}
	return false
}

// c18TagsSorted: the registry tag list is sorted as a whole, newest first, after the last page was
// received (the callers take the first tag that satisfies a constraint).
func c18TagsSorted(w *World, r *Report) {
	r.Rule("C18/TAGS-SORTED", "registry.Client.Tags sorts the complete list descending (sort.Reverse) in the function itself, after the paginated listing returned and before every success return", 1)
	fn := w.Fn("pkg/registry", "Client.Tags")
	if fn == nil {
		r.Unk("C18/TAGS-SORTED", "anchor", "-", "registry.Client.Tags not found")
		return
	}
	r.Fn(FuncName(fn))
	g := FullGraph(fn)
	var listing, sorts []ssa.Instruction
	for _, c := range callInstrs(fn) {
		f, tf := calleeOf(c.Common())
		if tf != nil && tf.Name() == "Tags" && tf.Pkg() != nil && strings.Contains(tf.Pkg().Path(), "oras") {
			listing = append(listing, c)
		}
		if f == nil {
			continue
		}
		if fnPkgPath(f) == "sort" && (f.Name() == "Sort" || f.Name() == "Stable") {
			if rc, ok := unwrapIface(c.Common().Args[0]).(*ssa.Call); ok {
				if rf, _ := calleeOf(rc.Common()); rf != nil && fnPkgPath(rf) == "sort" && rf.Name() == "Reverse" {
					sorts = append(sorts, c)
				}
			}
		}
	}
	ok, why := len(sorts) > 0 && len(listing) > 0, "the complete list is not sorted descending in Tags itself (a sort inside the per-page callback orders each page separately)"
	if ok {
		for _, rp := range g.classifyReturns() {
			if rp.Class != RetSuccess {
				continue
			}
			if ex, _ := g.PathExists(entryPos(fn), retPos(rp), avoidInstrs(sorts...)); ex {
				ok, why = false, "a success return is reachable without the sort"
			}
		}
		for _, s := range sorts {
			for _, l := range listing {
				if ex, _ := g.PathExists(posOf(s), posOf(l), Avoid{}); ex {
					ok, why = false, "tags can still be received after the list was sorted"
				}
			}
		}
	}
	r.Check(ok, "C18/TAGS-SORTED", "Tags", w.Pos(fn.Pos()), "the whole tag list is sorted newest first before it is returned", why)
}

// c18SameParser: entries of a repository index are parsed with semver.NewVersion everywhere (the
// index loader accepts what that parser accepts: "v1.2.0", "1.3"); a stricter parser in the resolver
// would silently skip valid entries.
func c18SameParser(w *World, r *Report) {
	r.Rule("C18/SAME-PARSER", "version strings of index entries (ChartVersion / Metadata .Version) are parsed with semver.NewVersion in the index, resolver and downloader code (never with StrictNewVersion)", 1)
	n, bad := 0, ""
	for _, rel := range []string{"pkg/repo", "internal/resolver", "pkg/downloader"} {
		for _, fn := range w.FuncsIn(rel) {
			for _, c := range callInstrs(fn) {
				f, _ := calleeOf(c.Common())
				if f == nil || !strings.HasSuffix(fnPkgPath(f), "Masterminds/semver/v3") || (f.Name() != "NewVersion" && f.Name() != "StrictNewVersion") {
					continue
				}
				isEntryVersion := false
				backSlice(c.Common().Args[0], func(v ssa.Value) bool {
					if ld, ok := v.(*ssa.UnOp); ok && ld.Op == token.MUL {
						if _, t, fld := fieldNameOf(ld.X); fld == "Version" && (t == "Metadata" || t == "ChartVersion") {
							isEntryVersion = true
							return true
						}
					}
					_, isCall := v.(*ssa.Call)
					return isCall
				})
				if !isEntryVersion {
					continue
				}
				n++
				r.Fn(FuncName(fn))
				if f.Name() == "StrictNewVersion" {
					bad = w.InstrPos(c)
				}
			}
		}
	}
	r.Check(bad == "" && n > 0, "C18/SAME-PARSER", "entry-versions", "-", "every parse of an index entry's version uses semver.NewVersion", "an index entry's version is parsed with StrictNewVersion at "+bad+": entries the index loader accepted ('v1.2.0', '1.3') are skipped there, so a lower version wins")
}

// c18FreshRead: what the index loader returns is what the file holds now: every success return of
// LoadIndexFile lies behind a read of the file in this call (no memo keyed by size or time stamp).
func c18FreshRead(w *World, r *Report) {
	r.Rule("C18/FRESH-READ", "LoadIndexFile reads the index file on every call before it hands out an index", 1)
	fn := w.Fn("pkg/repo", "LoadIndexFile")
	if fn == nil {
		r.Unk("C18/FRESH-READ", "anchor", "-", "repo.LoadIndexFile not found")
		return
	}
	r.Fn(FuncName(fn))
	g := FullGraph(fn)
	var reads []ssa.Instruction
	for _, f := range withAnon(fn) {
		if f != fn {
			continue
		}
		for _, c := range callInstrs(f) {
			if cf, _ := calleeOf(c.Common()); cf != nil && fnPkgPath(cf) == "os" && (cf.Name() == "ReadFile" || cf.Name() == "Open") {
				reads = append(reads, c)
			}
		}
	}
	n := 0
	for i, rp := range g.classifyReturns() {
		if rp.Class != RetSuccess {
			continue
		}
		n++
		ex, _ := g.PathExists(entryPos(fn), retPos(rp), avoidInstrs(reads...))
		r.Check(!ex && len(reads) > 0, "C18/FRESH-READ", fmt.Sprintf("return#%d", i), w.InstrPos(rp.Ret), "the index handed out was read from the file in this call", "an index can be handed out without reading the file in this call (a cached parse): entries that were removed from the file are still offered and new versions are missing")
	}
	if n == 0 {
		r.Unk("C18/FRESH-READ", "no-success", w.Pos(fn.Pos()), "no success return found")
	}
}

// c18ResolveAlways: `helm dependency update` picks versions by resolving the declared ranges against
// the index now: the download step is reached only through the resolver.
func c18ResolveAlways(w *World, r *Report) {
	r.Rule("C18/RESOLVE-ALWAYS", "Manager.Update reaches the download of dependencies only after resolving the declared version ranges (the resolver's ok-edge)", 1)
	fn := w.Fn("pkg/downloader", "Manager.Update")
	if fn == nil {
		r.Unk("C18/RESOLVE-ALWAYS", "anchor", "-", "Manager.Update not found")
		return
	}
	r.Fn(FuncName(fn))
	g := FullGraph(fn)
	ef := func(f *ssa.Function, name string, depth int) bool { return false }
	_ = ef
	var reaches func(f *ssa.Function, depth int, seen map[*ssa.Function]bool) bool
	reaches = func(f *ssa.Function, depth int, seen map[*ssa.Function]bool) bool {
		f = origin(f)
		if f == nil || seen[f] || depth > 3 || len(f.Blocks) == 0 {
			return false
		}
		seen[f] = true
		if FuncName(f) == "(*internal/resolver.Resolver).Resolve" {
			return true
		}
		for _, c := range callInstrs(f) {
			if cf, _ := calleeOf(c.Common()); cf != nil && inHelm(cf) && reaches(cf, depth+1, seen) {
				return true
			}
		}
		return false
	}
	var resolves, downloads []ssa.CallInstruction
	for _, c := range callInstrs(fn) {
		cf, _ := calleeOf(c.Common())
		if cf == nil || !inHelm(cf) {
			continue
		}
		if reaches(cf, 0, map[*ssa.Function]bool{}) {
			resolves = append(resolves, c)
		}
		if FuncName(origin(cf)) == "(*pkg/downloader.Manager).downloadAll" {
			downloads = append(downloads, c)
		}
	}
	if len(downloads) == 0 {
		r.Unk("C18/RESOLVE-ALWAYS", "no-download", w.Pos(fn.Pos()), "Manager.Update does not call downloadAll")
		return
	}
	for i, d := range downloads {
		ok := false
		for _, rs := range resolves {
			if g.AfterOK(rs, posOf(d)) {
				ok = true
			}
		}
		r.Check(ok, "C18/RESOLVE-ALWAYS", fmt.Sprintf("download#%d", i+1), w.InstrPos(d), "the dependencies are downloaded only after the ranges were resolved", "dependencies can be downloaded without resolving the declared ranges in this run (versions reused from the lock file): a higher version that satisfies the range and is in the index is not picked")
	}
}

// c18GetAny: an empty version means "the best stable version": the constraint used for it is "*"
// (every released version, including 0.0.0), and nothing narrower.
func c18GetAny(w *World, r *Report) {
	r.Rule("C18/GET-ANY", "in IndexFile.Get every constant constraint string handed to semver.NewConstraint is \"*\" (the empty version matches every stable version)", 1)
	fn := w.Fn("pkg/repo", "IndexFile.Get")
	if fn == nil {
		r.Unk("C18/GET-ANY", "anchor", "-", "IndexFile.Get not found")
		return
	}
	r.Fn(FuncName(fn))
	n := 0
	for _, c := range callInstrs(fn) {
		f, _ := calleeOf(c.Common())
		if f == nil || FuncName(f) != "github.com/Masterminds/semver/v3.NewConstraint" {
			continue
		}
		var consts []string
		var walk func(v ssa.Value, d int)
		seen := map[ssa.Value]bool{}
		walk = func(v ssa.Value, d int) {
			if seen[v] || d > 6 {
				return
			}
			seen[v] = true
			if s, ok := constString(v); ok {
				consts = append(consts, s)
				return
			}
			switch x := v.(type) {
			case *ssa.Phi:
				for _, e := range x.Edges {
					walk(e, d+1)
				}
			case *ssa.UnOp:
				if gl, ok := x.X.(*ssa.Global); ok {
					_ = gl
				}
			}
		}
		walk(c.Common().Args[0], 0)
		for _, s := range consts {
			n++
			r.Check(s == "*", "C18/GET-ANY", fmt.Sprintf("constraint:%q", s), w.InstrPos(c), "the default constraint is \"*\"", fmt.Sprintf("the constraint used when no version was asked for is %q, which is narrower than \"*\": a chart whose only (or highest) stable version it excludes is reported as not found", s))
		}
	}
	if n == 0 {
		r.Unk("C18/GET-ANY", "no-const", w.Pos(fn.Pos()), "IndexFile.Get hands no constant constraint to semver.NewConstraint")
	}
}
