package main

// report.go — obligations, verdicts, evidence files, known findings.

import (
	"encoding/json"
	"fmt"
	"math/rand"
	"os"
	"path/filepath"
	"sort"
	"strings"
	"time"
)

type Verdict int

const (
	Discharged Verdict = iota
	Violated
	Undecided
)

func (v Verdict) String() string {
	return [...]string{"discharged", "violated", "undecided"}[v]
}

// Obligation is one filled rule instance. Key is semantic (never a line number).
type Obligation struct {
	Prop       string  `json:"-"`
	Rule       string  `json:"rule"`
	Key        string  `json:"key"`
	Pos        string  `json:"at"`
	Verdict    Verdict `json:"-"`
	VerdictS   string  `json:"verdict"`
	Detail     string  `json:"detail"`
	NonTrivial bool    `json:"nontrivial"` // discharge needed a path / dataflow argument
}

type RuleInfo struct {
	Rule      string `json:"rule"`
	Statement string `json:"statement"`
	Min       int    `json:"expected_min_instances"`
	Count     int    `json:"instances"`
}

type Report struct {
	Prop    string
	Tier    string
	Seed    int64
	Obs     []*Obligation
	Rules   map[string]*RuleInfo
	rorder  []string
	Notes   []string
	Funcs   map[string]bool // functions analysed
	Config  string          // GOOS/GOARCH
	Assumes []string
	Trusted []string
	NotDec  []string
	Remap   func(rule string) string `json:"-"` // lets one property reuse another's rule functions under its own rule ids
}

func NewReport(prop, tier string, seed int64) *Report {
	return &Report{Prop: prop, Tier: tier, Seed: seed, Rules: map[string]*RuleInfo{}, Funcs: map[string]bool{}}
}

// Rule declares a rule with its statement and the minimum number of instances confirmed by hand.
func (r *Report) Rule(rule, statement string, min int) {
	if r.Remap != nil {
		rule = r.Remap(rule)
	}
	if _, ok := r.Rules[rule]; !ok {
		r.Rules[rule] = &RuleInfo{Rule: rule, Statement: statement, Min: min}
		r.rorder = append(r.rorder, rule)
	}
}

func (r *Report) add(rule, key, pos string, v Verdict, nontrivial bool, detail string) *Obligation {
	if r.Remap != nil {
		rule = r.Remap(rule)
	}
	if _, ok := r.Rules[rule]; !ok {
		panic("obligation for undeclared rule " + rule)
	}
	if r.Config != "" {
		detail = "[" + r.Config + "] " + detail
	}
	o := &Obligation{Prop: r.Prop, Rule: rule, Key: rule + "/" + key, Pos: pos, Verdict: v, VerdictS: v.String(), Detail: detail, NonTrivial: nontrivial}
	r.Obs = append(r.Obs, o)
	r.Rules[rule].Count++
	return o
}

func (r *Report) OK(rule, key, pos, detail string) { r.add(rule, key, pos, Discharged, true, detail) }
func (r *Report) OKTrivial(rule, key, pos, detail string) {
	r.add(rule, key, pos, Discharged, false, detail)
}
func (r *Report) Bad(rule, key, pos, detail string) { r.add(rule, key, pos, Violated, true, detail) }
func (r *Report) Unk(rule, key, pos, detail string) { r.add(rule, key, pos, Undecided, true, detail) }

// Check is a convenience: ok → discharged else violated.
func (r *Report) Check(ok bool, rule, key, pos, okDetail, badDetail string) bool {
	if ok {
		r.OK(rule, key, pos, okDetail)
	} else {
		r.Bad(rule, key, pos, badDetail)
	}
	return ok
}

func (r *Report) Fn(name string) { r.Funcs[name] = true }

// merge folds the obligations of another configuration's report into this one (thorough tier).
func (r *Report) merge(o *Report) {
	seen := map[string]*Obligation{}
	for _, x := range r.Obs {
		seen[x.Key] = x
	}
	for _, x := range o.Obs {
		if y, ok := seen[x.Key]; ok {
			if x.Verdict != Discharged && y.Verdict == Discharged {
				*y = *x
			}
			continue
		}
		r.Obs = append(r.Obs, x)
		if ri, ok := r.Rules[x.Rule]; ok {
			ri.Count++
		}
	}
	for k := range o.Funcs {
		r.Funcs[k] = true
	}
	r.Notes = append(r.Notes, o.Notes...)
}

// ---- known findings ----

type KnownFinding struct {
	Property string `json:"property"`
	Key      string `json:"key"`
	What     string `json:"what"`
}
type FixedFinding struct {
	Property string `json:"property"`
	Commit   string `json:"commit"`
	Key      string `json:"key"`
	What     string `json:"what"`
}
type KnownFile struct {
	Known []KnownFinding `json:"known"`
	Fixed []FixedFinding `json:"fixed"`
}

func loadKnown(path string) (*KnownFile, error) {
	b, err := os.ReadFile(path)
	if err != nil {
		return nil, err
	}
	var k KnownFile
	if err := json.Unmarshal(b, &k); err != nil {
		return nil, err
	}
	return &k, nil
}

// Finish applies coverage floors, writes the evidence file and the human report, prints the verdict
// lines and returns the process exit code.
func (r *Report) Finish(verifDir string, wall time.Duration, known *KnownFile) int {
	// coverage floors: a rule that lost its subjects fails
	for _, name := range r.rorder {
		ri := r.Rules[name]
		if ri.Count < ri.Min {
			r.Obs = append(r.Obs, &Obligation{Prop: r.Prop, Rule: name, Key: name + "/coverage", Pos: "-", Verdict: Undecided, VerdictS: "undecided",
				Detail: fmt.Sprintf("coverage-regressed: %d instances found, at least %d were confirmed by hand on the reference tree — the rule lost its subjects", ri.Count, ri.Min), NonTrivial: true})
		}
	}
	sort.SliceStable(r.Obs, func(i, j int) bool { return r.Obs[i].Key < r.Obs[j].Key })
	knownKeys := map[string]string{}
	if known != nil {
		for _, k := range known.Known {
			if k.Property == r.Prop {
				knownKeys[k.Key] = k.What
			}
		}
	}
	var viol, knownHit, disch, nontriv []*Obligation
	for _, o := range r.Obs {
		switch o.Verdict {
		case Discharged:
			disch = append(disch, o)
			if o.NonTrivial {
				nontriv = append(nontriv, o)
			}
		default:
			if _, ok := knownKeys[o.Key]; ok && o.Verdict == Violated {
				knownHit = append(knownHit, o)
			} else {
				viol = append(viol, o)
			}
		}
	}
	// human report
	repDir := filepath.Join(verifDir, "reports")
	os.MkdirAll(repDir, 0o755)
	repPath := filepath.Join(repDir, r.Prop+".txt")
	var sb strings.Builder
	fmt.Fprintf(&sb, "property %s  tier %s  obligations %d  discharged %d  violated/undecided %d  known %d\n\n", r.Prop, r.Tier, len(r.Obs), len(disch), len(viol), len(knownHit))
	for _, o := range viol {
		fmt.Fprintf(&sb, "%s  %s\n    at %s\n    %s\n", strings.ToUpper(o.Verdict.String()), o.Key, o.Pos, o.Detail)
	}
	for _, o := range knownHit {
		fmt.Fprintf(&sb, "KNOWN  %s\n    at %s\n    %s\n", o.Key, o.Pos, o.Detail)
	}
	sb.WriteString("\n-- rules --\n")
	for _, name := range r.rorder {
		ri := r.Rules[name]
		fmt.Fprintf(&sb, "%s  instances=%d (min %d)\n    %s\n", ri.Rule, ri.Count, ri.Min, ri.Statement)
	}
	sb.WriteString("\n-- discharged --\n")
	for _, o := range disch {
		fmt.Fprintf(&sb, "ok  %s  @%s  %s\n", o.Key, o.Pos, o.Detail)
	}
	os.WriteFile(repPath, []byte(sb.String()), 0o644)

	// evidence
	rng := rand.New(rand.NewSource(r.Seed))
	var samples []any
	pick := func(list []*Obligation, n int) {
		idx := rng.Perm(len(list))
		for i := 0; i < n && i < len(idx); i++ {
			samples = append(samples, list[idx[i]])
		}
	}
	for _, o := range viol {
		samples = append(samples, o)
	}
	for _, o := range knownHit {
		samples = append(samples, o)
	}
	pick(nontriv, 8)
	if len(samples) == 0 {
		pick(disch, 5)
	}
	var rules []*RuleInfo
	for _, n := range r.rorder {
		rules = append(rules, r.Rules[n])
	}
	var fns []string
	for f := range r.Funcs {
		fns = append(fns, f)
	}
	sort.Strings(fns)
	distinct := map[string]bool{}
	for _, o := range nontriv {
		distinct[o.Key] = true
	}
	ev := map[string]any{
		"property_id": r.Prop,
		"tier":        r.Tier,
		"seed":        r.Seed,
		"level":       "other",
		"wall_s":      wall.Seconds(),
		"violations":  len(viol),
		"assumptions": r.Assumes,
		"coverage": map[string]any{
			"explanation": "Static analysis of /repo's current sources (go/packages type-checked syntax + go/ssa form, no helm code executed). " +
				"Each obligation is one rule instance filled from the repository (resolved call site, CFG path set, table literal, value provenance) and is decided for all paths at once. " +
				"Decides only the structural clauses listed under 'rules'; does not decide: " + strings.Join(r.NotDec, "; "),
			"obligations":         len(r.Obs),
			"discharged":          len(disch),
			"evaluations":         len(r.Obs),
			"distinct_nontrivial": len(distinct),
			"rule":                "an obligation is non-trivial when discharging it needed a path, dominance, dataflow or provenance argument (not a mere presence test); distinct = distinct obligation keys",
			"samples":             samples,
			"rules":               rules,
			"functions_analysed":  fns,
			"known_findings_hit":  len(knownHit),
			"configurations":      r.Config,
			"notes":               r.Notes,
			"trusted_base":        r.Trusted,
			"checker_cmd":         "bin/helmverif -prop " + r.Prop + " -tier " + r.Tier,
			"exhaustive":          false,
		},
	}
	evDir := filepath.Join(verifDir, "evidence")
	os.MkdirAll(evDir, 0o755)
	b, _ := json.MarshalIndent(ev, "", " ")
	os.WriteFile(filepath.Join(evDir, r.Prop+".json"), b, 0o644)

	fmt.Printf("property=%s tier=%s obligations=%d discharged=%d violations=%d known=%d functions=%d wall=%.1fs\n", r.Prop, r.Tier, len(r.Obs), len(disch), len(viol), len(knownHit), len(fns), wall.Seconds())
	for _, o := range knownHit {
		fmt.Printf("KNOWN-FINDING: property=%s %s %s\n", r.Prop, o.Key, knownKeys[o.Key])
	}
	if len(viol) > 0 {
		for _, o := range viol {
			fmt.Printf("  %s %s @%s: %s\n", o.Verdict, o.Key, o.Pos, o.Detail)
		}
		fmt.Printf("VIOLATION property=%s replay=%s\n", r.Prop, repPath)
		return 1
	}
	return 0
}
