package main

// cone.go — walking the static call cone of an entry point under a specialisation.

import (
	"fmt"
	"sort"

	"golang.org/x/tools/go/ssa"
)

// ConeSite is a leaf effect site found in the cone together with the call chain that reaches it.
type ConeSite struct {
	Site
	Eff   Eff
	Chain []*ssa.Function // entry … enclosing function
}

func (c ConeSite) ChainString() string {
	s := ""
	for i, f := range c.Chain {
		if i > 0 {
			s += " → "
		}
		s += FuncName(f)
	}
	return s
}

// Cone enumerates leaf effect sites (mask) reachable from entry through helm-module static callees,
// closures (created ⇒ assumed invoked), go and defer, where each function is walked on graph(fn)
// (a specialised or full CFG) and only feasible blocks are visited.
type Cone struct {
	W     *World
	Ef    *Effects
	Graph func(fn *ssa.Function) *Graph
	Mask  Eff
	Funcs map[*ssa.Function]bool
	Sites []ConeSite
	Skip  func(fn *ssa.Function) bool // functions not to descend into (nested operations)
	seen  map[*ssa.Function]bool
}

func WalkCone(w *World, ef *Effects, entry *ssa.Function, graph func(*ssa.Function) *Graph, mask Eff) *Cone {
	return WalkConeSkip(w, ef, entry, graph, mask, nil)
}

func WalkConeSkip(w *World, ef *Effects, entry *ssa.Function, graph func(*ssa.Function) *Graph, mask Eff, skip func(*ssa.Function) bool) *Cone {
	c := &Cone{W: w, Ef: ef, Graph: graph, Mask: mask, Funcs: map[*ssa.Function]bool{}, seen: map[*ssa.Function]bool{}, Skip: skip}
	c.walk(entry, nil)
	return c
}

func (c *Cone) walk(fn *ssa.Function, chain []*ssa.Function) {
	fn = origin(fn)
	if c.seen[fn] || len(fn.Blocks) == 0 {
		return
	}
	if c.Skip != nil && len(chain) > 0 && c.Skip(fn) {
		return
	}
	c.seen[fn] = true
	c.Funcs[fn] = true
	chain = append(append([]*ssa.Function{}, chain...), fn)
	g := c.Graph(fn)
	reach := g.Reachable()
	for _, b := range fn.Blocks {
		if !reach[b] {
			continue
		}
		for _, in := range b.Instrs {
			switch in := in.(type) {
			case ssa.CallInstruction:
				cc := in.Common()
				if e := c.Ef.Leaf(cc) & c.Mask; e != 0 {
					c.Sites = append(c.Sites, ConeSite{Site{fn, in, posOf(in)}, e, chain})
				}
				if callee, _ := calleeOf(cc); callee != nil && inHelm(callee) {
					c.walk(callee, chain)
				}
				for _, a := range cc.Args {
					if mc, ok := a.(*ssa.MakeClosure); ok {
						if f, ok := mc.Fn.(*ssa.Function); ok {
							c.walk(f, chain)
						}
					}
				}
			case *ssa.MakeClosure:
				if f, ok := in.Fn.(*ssa.Function); ok {
					c.walk(f, chain)
				}
			}
		}
	}
}

// siteKey names a call site semantically: enclosing function + resolved callee + ordinal among the
// calls of that callee in the function (source order).
func siteKey(s Site) string {
	desc := describeCall(s.Common())
	n, k := 0, 0
	for _, c := range callInstrs(s.Fn) {
		if describeCall(c.Common()) == desc {
			n++
			if c == s.Instr {
				k = n
			}
		}
	}
	if n > 1 {
		return fmt.Sprintf("%s/call:%s#%d", FuncName(s.Fn), desc, k)
	}
	return fmt.Sprintf("%s/call:%s", FuncName(s.Fn), desc)
}

func sortSites(ss []ConeSite) {
	sort.Slice(ss, func(i, j int) bool { return ss[i].Instr.Pos() < ss[j].Instr.Pos() })
}

// storesToField lists Store instructions in fns whose address is field `field` of an object of the
// named struct type obj.
func storesToField(fns map[*ssa.Function]bool, spec *Spec, field string) []*ssa.Store {
	var out []*ssa.Store
	for fn := range fns {
		for _, b := range fn.Blocks {
			for _, in := range b.Instrs {
				st, ok := in.(*ssa.Store)
				if !ok {
					continue
				}
				fa, ok := st.Addr.(*ssa.FieldAddr)
				if !ok || !spec.isObjPtr(fa.X.Type()) {
					continue
				}
				ev := &evaluator{s: spec}
				if ev.fieldName(fa.X, fa.Field) == field {
					out = append(out, st)
				}
			}
		}
	}
	return out
}

// SpecCallEffect: the effects a call may have when its callee's cone is walked under graph().
func SpecCallEffect(w *World, ef *Effects, graph func(*ssa.Function) *Graph, c *ssa.CallCommon, mask Eff) Eff {
	e := ef.Leaf(c) & mask
	add := func(f *ssa.Function) {
		if f == nil || !inHelm(f) {
			return
		}
		for _, s := range WalkCone(w, ef, f, graph, mask).Sites {
			e |= s.Eff
		}
	}
	callee, _ := calleeOf(c)
	add(callee)
	for _, a := range c.Args {
		if mc, ok := a.(*ssa.MakeClosure); ok {
			if f, ok := mc.Fn.(*ssa.Function); ok {
				add(f)
			}
		}
	}
	return e
}
