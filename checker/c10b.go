package main

// c10b.go — further C10 rules: lossless timestamps, search order agrees with sort order.

import (
	"fmt"
	"go/token"
	"go/types"
	"strings"

	"golang.org/x/tools/go/ssa"
)

// c10TimeLossless: helm's Time type is what every timestamp of a stored release is encoded with. The
// encoding must be the standard library's own (RFC 3339 with nanoseconds and zone offset) applied to the
// value as it is: no conversion to UTC, no truncation or rounding, no coarser layout.
func c10TimeLossless(w *World, r *Report) {
	r.Rule("C10/TIME-LOSSLESS", "the JSON encoding of helm's Time delegates to time.Time.MarshalJSON (or formats with RFC3339Nano) on the embedded value itself, and decoding delegates to time.Time.UnmarshalJSON: no UTC/Truncate/Round/In/Local and no coarser layout on the way", 2)
	lossy := map[string]bool{"UTC": true, "Truncate": true, "Round": true, "In": true, "Local": true, "Unix": true, "UnixMilli": true, "UnixMicro": true, "UnixNano": true, "Add": true, "AddDate": true}
	m := w.Fn("pkg/time", "Time.MarshalJSON")
	u := w.Fn("pkg/time", "Time.UnmarshalJSON")
	if m == nil || u == nil {
		r.Unk("C10/TIME-LOSSLESS", "anchor", "-", "pkg/time Time.MarshalJSON / UnmarshalJSON not found")
		return
	}
	check := func(fn *ssa.Function, key, delegate string) {
		r.Fn(FuncName(fn))
		bad := ""
		delegated := false
		for _, c := range callInstrs(fn) {
			f, _ := calleeOf(c.Common())
			if f == nil || fnPkgPath(f) != "time" {
				continue
			}
			recvIsEmbedded := false
			if len(c.Common().Args) > 0 {
				a := c.Common().Args[0]
				if ld, ok := a.(*ssa.UnOp); ok && ld.Op == token.MUL {
					a = ld.X
				}
				if _, _, fld := fieldNameOf(a); fld == "Time" {
					recvIsEmbedded = true
				}
				if fd, ok := a.(*ssa.Field); ok {
					if _, _, fld := fieldNameOf(fd); fld == "Time" {
						recvIsEmbedded = true
					}
				}
			}
			switch {
			case f.Name() == delegate:
				if recvIsEmbedded {
					delegated = true
				} else {
					bad = "the standard encoding is applied to a transformed copy of the time value"
				}
			case f.Name() == "Format" || f.Name() == "AppendFormat":
				lay := c.Common().Args[len(c.Common().Args)-1]
				if s, ok := constString(lay); ok && s == "2006-01-02T15:04:05.999999999Z07:00" && recvIsEmbedded {
					delegated = true
				} else {
					bad = "the time is formatted with a layout coarser than RFC3339Nano"
				}
			case lossy[f.Name()] && f.Signature.Recv() != nil:
				bad = "the time value passes through time.Time." + f.Name() + " before it is encoded"
			case f.Name() == "Parse" || f.Name() == "ParseInLocation":
				if s, ok := constString(c.Common().Args[0]); !ok || s != "2006-01-02T15:04:05.999999999Z07:00" {
					bad = "the time is parsed with a layout other than RFC3339Nano"
				} else {
					delegated = true
				}
			}
		}
		if bad == "" && !delegated {
			bad = "the encoding no longer delegates to time.Time." + delegate
		}
		r.Check(bad == "", "C10/TIME-LOSSLESS", key, w.Pos(fn.Pos()), "delegates to time.Time."+delegate+" on the embedded value", bad+": a stored release's timestamps (fraction of a second, zone offset) do not read back as stored")
	}
	check(m, "marshal", "MarshalJSON")
	check(u, "unmarshal", "UnmarshalJSON")
}

// c10SearchOrder: the in-memory backend keeps its records sorted by (revision) for listing; a lookup by
// key must not assume the list is sorted by key. A binary search is acceptable only on the sort key.
func c10SearchOrder(w *World, r *Report) {
	r.Rule("C10/SEARCH-ORDER", "the in-memory record list is searched by key with a scan of every record; a binary search (sort.Search*, slices.BinarySearch*) is used only with the comparison the list is sorted by", 1)
	less := w.Fn("pkg/storage/driver", "records.Less")
	sortKey := ""
	if less != nil {
		for _, b := range less.Blocks {
			for _, in := range b.Instrs {
				if bo, ok := in.(*ssa.BinOp); ok && isOrdering(bo.Op) {
					sortKey = fieldChain(bo.X)
				}
			}
		}
	}
	n := 0
	for _, fn := range w.FuncsIn("pkg/storage/driver") {
		recv := fn.Signature.Recv()
		if fn.Parent() == nil && (recv == nil || !strings.Contains(recv.Type().String(), "records")) {
			continue
		}
		for _, f2 := range withAnon(fn) {
			for _, c := range callInstrs(f2) {
				f, _ := calleeOf(c.Common())
				if f == nil {
					continue
				}
				isBS := (fnPkgPath(f) == "sort" && strings.HasPrefix(f.Name(), "Search")) || (fnPkgPath(f) == "slices" && strings.HasPrefix(genericName(f), "BinarySearch"))
				if !isBS {
					continue
				}
				n++
				r.Fn(FuncName(fn))
				// the comparison inside the predicate
				key := ""
				for _, a := range c.Common().Args {
					var cl *ssa.Function
					if mc, ok := a.(*ssa.MakeClosure); ok {
						cl, _ = mc.Fn.(*ssa.Function)
					}
					if cl == nil {
						continue
					}
					for _, b := range cl.Blocks {
						for _, in := range b.Instrs {
							if bo, ok := in.(*ssa.BinOp); ok && isOrdering(bo.Op) {
								if k := fieldChain(bo.X); k != "" {
									key = k
								} else if k := fieldChain(bo.Y); k != "" {
									key = k
								}
							}
						}
					}
				}
				r.Check(key != "" && key == sortKey, "C10/SEARCH-ORDER", fmt.Sprintf("%s/%s", FuncName(fn), describeCall(c.Common())), w.InstrPos(c),
					"the binary search compares the field the list is sorted by", fmt.Sprintf("binary search on %q over a list sorted by %q: records are missed (…v10 sorts before …v2 as a string), so an existing key looks absent", key, sortKey))
			}
		}
	}
	if n == 0 {
		r.OKTrivial("C10/SEARCH-ORDER", "linear", "-", "no binary search over the record list")
	}
}

// fieldChain: the names of the fields read to obtain v from a list element ("rls.Version"), or "".
func fieldChain(v ssa.Value) string {
	var names []string
	for d := 0; d < 6; d++ {
		ld, ok := v.(*ssa.UnOp)
		if !ok || ld.Op != token.MUL {
			break
		}
		fa, ok := ld.X.(*ssa.FieldAddr)
		if !ok {
			break
		}
		_, _, f := fieldNameOf(fa)
		names = append([]string{f}, names...)
		v = fa.X
	}
	return strings.Join(names, ".")
}

// c10LabelsTotal: the helpers that move label sets between the drivers and the stored objects copy every
// entry: the copy loop stores on every path through its body (no entry — an empty value, say — is left out).
func c10LabelsTotal(w *World, r *Report) {
	fn := w.Fn("pkg/storage/driver", "labels.fromMap")
	if fn == nil {
		r.Unk("C10/LABELS", "fromMap/anchor", "-", "labels.fromMap not found")
		return
	}
	r.Fn(FuncName(fn))
	// the map range and the writes (map updates here or in the set helper)
	var writes []ssa.Instruction
	for _, b := range fn.Blocks {
		for _, in := range b.Instrs {
			switch x := in.(type) {
			case *ssa.MapUpdate:
				writes = append(writes, x)
			case ssa.CallInstruction:
				if f, _ := calleeOf(x.Common()); f != nil && strings.HasSuffix(FuncName(f), "labels).set") {
					writes = append(writes, x)
				}
			}
		}
	}
	// maps.Copy(dst, src) copies every entry by definition
	for _, c := range callInstrs(fn) {
		if f, _ := calleeOf(c.Common()); f != nil && fnPkgPath(f) == "maps" && genericName(f) == "Copy" && len(c.Common().Args) == 2 {
			if p, isP := resolveToParam(unwrapIface(c.Common().Args[1])).(*ssa.Parameter); isP && p.Parent() == fn {
				g0 := FullGraph(fn)
				all := true
				for _, rp := range g0.classifyReturns() {
					if ex, _ := g0.PathExists(entryPos(fn), posOf(rp.Ret), avoidInstrs(c)); ex {
						all = false
					}
				}
				r.Check(all, "C10/LABELS", "fromMap/copies-every-entry", w.Pos(fn.Pos()), "every entry of the given map is stored (maps.Copy)", "the copy of the given label map can be skipped")
				return
			}
		}
	}
	loops := mapLoops(fn)
	if len(loops) != 1 || len(writes) == 0 {
		r.Bad("C10/LABELS", "fromMap/copies-every-entry", w.Pos(fn.Pos()), "fromMap is no longer a plain copy loop over its argument")
		return
	}
	g := FullGraph(fn)
	l := loops[0]
	hdr := l.Header
	var body *ssa.BasicBlock
	for _, sb := range hdr.Succs {
		if l.Body[sb] {
			body = sb
		}
	}
	if body == nil {
		r.Bad("C10/LABELS", "fromMap/copies-every-entry", w.Pos(fn.Pos()), "fromMap's loop has no body")
		return
	}
	ex, _ := g.PathExists(IPos{body, -1}, posOf(l.Next), avoidInstrs(writes...))
	r.Check(!ex, "C10/LABELS", "fromMap/copies-every-entry", w.Pos(fn.Pos()), "every entry of the given map is stored", "an entry of the given label map can be skipped: labels written through the Kubernetes backends differ from what was given (the memory backend keeps them)")
}

// c10LabelSource: what the Kubernetes backends write as the labels of a record comes from the release
// being written (its user labels) and from the fixed system keys — never from the object stored
// before. The memory backend replaces the record wholesale; a label dropped from the release must be
// gone from the stored record too.
func c10LabelSource(w *World, r *Report) {
	r.Rule("C10/LABEL-SOURCE", "on the write paths of the Secret and ConfigMap backends every map poured into the label set (labels.fromMap) is the Labels field of the release being written", 6)
	fm := w.Fn("pkg/storage/driver", "labels.fromMap")
	if fm == nil {
		r.Unk("C10/LABEL-SOURCE", "anchor", "-", "labels.fromMap not found")
		return
	}
	n := 0
	seen := map[string]int{}
	for _, fn := range w.FuncsIn("pkg/storage/driver") {
		file := w.FileOf(fn)
		if !strings.HasSuffix(file, "secrets.go") && !strings.HasSuffix(file, "cfgmaps.go") {
			continue
		}
		for _, c := range callInstrs(fn) {
			f, _ := calleeOf(c.Common())
			if f == nil || origin(f) != fm {
				continue
			}
			n++
			r.Fn(FuncName(fn))
			arg := stripConv(c.Common().Args[len(c.Common().Args)-1])
			ok := false
			if ld, isLd := arg.(*ssa.UnOp); isLd && ld.Op == token.MUL {
				if fa, isFA := ld.X.(*ssa.FieldAddr); isFA && isFieldOf(fa, relPkg, "Release", "Labels") {
					if _, isParam := fa.X.(*ssa.Parameter); isParam {
						ok = true
					}
				}
			}
			key := siteKey(Site{fn, c, posOf(c)})
			seen[key]++
			if seen[key] > 1 {
				key = fmt.Sprintf("%s@%d", key, seen[key])
			}
			r.Check(ok, "C10/LABEL-SOURCE", key, w.InstrPos(c), "the label set is filled from the Labels of the release being written", "the label set of the object being written is filled from something else than the release's own Labels (for instance the labels of the object stored before): a user label removed from the release survives in the stored record, while the memory backend returns exactly the labels last written")
		}
	}
	if n == 0 {
		r.Unk("C10/LABEL-SOURCE", "no-site", "-", "no labels.fromMap call in the Kubernetes backends")
	}
}

// writesThroughParams: fn (or a helm function it hands its parameters to) stores into memory reached
// from one of its parameters.
func writesThroughParams(fn *ssa.Function, depth int, seen map[*ssa.Function]bool) bool {
	fn = origin(fn)
	if fn == nil || len(fn.Blocks) == 0 || seen[fn] || depth > 4 {
		return false
	}
	seen[fn] = true
	var fromParam func(v ssa.Value, d int) bool
	fromParam = func(v ssa.Value, d int) bool {
		if d > 8 {
			return false
		}
		switch x := v.(type) {
		case *ssa.Parameter:
			_, isPtr := x.Type().Underlying().(*types.Pointer)
			_, isMap := x.Type().Underlying().(*types.Map)
			_, isSl := x.Type().Underlying().(*types.Slice)
			return isPtr || isMap || isSl
		case *ssa.FieldAddr:
			return fromParam(x.X, d+1)
		case *ssa.IndexAddr:
			return fromParam(x.X, d+1)
		case *ssa.UnOp:
			return x.Op == token.MUL && fromParam(x.X, d+1)
		case *ssa.Phi:
			for _, e := range x.Edges {
				if fromParam(e, d+1) {
					return true
				}
			}
		case *ssa.Extract:
			if nx, ok := x.Tuple.(*ssa.Next); ok { // range element of a parameter's slice/map
				if rg, ok := nx.Iter.(*ssa.Range); ok {
					return fromParam(rg.X, d+1)
				}
			}
		}
		return false
	}
	for _, b := range fn.Blocks {
		for _, in := range b.Instrs {
			switch x := in.(type) {
			case *ssa.Store:
				if _, local := x.Addr.(*ssa.Alloc); !local && fromParam(x.Addr, 0) {
					return true
				}
			case *ssa.MapUpdate:
				if fromParam(x.Map, 0) {
					return true
				}
			case ssa.CallInstruction:
				g, _ := calleeOf(x.Common())
				if g == nil || !inHelm(g) {
					continue
				}
				for _, a := range x.Common().Args {
					if fromParam(a, 0) && writesThroughParams(g, depth+1, seen) {
						return true
					}
				}
			}
		}
	}
	return false
}

// c10DecodePure: what decodeRelease returns is what was stored: nothing that can modify the decoded
// release is called on it on the way out (a validator that also "sanitises" would make the Kubernetes
// backends return something else than was written, and else than the memory backend returns).
func c10DecodePure(w *World, r *Report) {
	r.Rule("C10/DECODE-PURE", "decodeRelease hands the decoded release (or a part of it) to no helm function that writes through its arguments", 1)
	dec := w.Fn("pkg/storage/driver", "decodeRelease")
	if dec == nil {
		r.Unk("C10/DECODE-PURE", "anchor", "-", "decodeRelease not found")
		return
	}
	r.Fn(FuncName(dec))
	bad := ""
	n := 0
	for _, fn := range withAnon(dec) {
		for _, c := range callInstrs(fn) {
			g, _ := calleeOf(c.Common())
			if g == nil || !inHelm(g) {
				continue
			}
			for _, a := range c.Common().Args {
				isRel := false
				backSlice(a, func(x ssa.Value) bool {
					if al, ok := x.(*ssa.Alloc); ok {
						if p, ok := al.Type().Underlying().(*types.Pointer); ok && isReleasePtr(types.NewPointer(p.Elem())) {
							isRel = true
						}
					}
					return false
				})
				if !isRel {
					continue
				}
				n++
				if writesThroughParams(g, 0, map[*ssa.Function]bool{}) {
					bad = w.InstrPos(c) + " (" + FuncName(g) + ")"
				}
			}
		}
	}
	r.Check(bad == "", "C10/DECODE-PURE", "decodeRelease", w.Pos(dec.Pos()), fmt.Sprintf("%d helm calls on the decoded release, none writes through its arguments", n), "the decoded release is handed to a function that modifies it at "+bad+": a record read back from a Secret or ConfigMap no longer equals what was stored")
}
