package main

// C08 — every rendered document is applied exactly once, in dependency order (structural part).

import (
	"fmt"
	"go/ast"
	"go/constant"
	"go/token"
	"go/types"
	"strings"

	"golang.org/x/tools/go/ssa"
)

func init() {
	register(&propDef{
		ID:      "C08",
		Anchors: []string{"pkg/release/util/manifest.go", "pkg/release/util/manifest_sorter.go", "pkg/release/util/kind_sorter.go", "pkg/action/action.go", "pkg/kube/client.go", "pkg/kube/wait.go"},
		NotDec:  []string{"document-level equality of the split for all YAML streams (semantics of the separator regular expression)", "timing of requests at the API server", "content equality of what is sent"},
		Run:     runC08,
	})
}

const relutilPkg = helmMod + "/pkg/release/util"

// edgeSensitiveReach: is `to` reachable from the start of block `start` (entered from predecessor
// pred), where a branch on a phi whose incoming value along the edge just taken is a boolean constant
// follows only the matching successor? (Flags set right before a break/continue fold on that path.)
func edgeSensitiveReach(fn *ssa.Function, pred, start *ssa.BasicBlock, to ssa.Instruction, stopAt map[*ssa.BasicBlock]bool) bool {
	type st struct{ p, b *ssa.BasicBlock }
	seen := map[st]bool{}
	var walk func(p, b *ssa.BasicBlock) bool
	walk = func(p, b *ssa.BasicBlock) bool {
		if seen[st{p, b}] {
			return false
		}
		seen[st{p, b}] = true
		for _, in := range b.Instrs {
			if in == to {
				return true
			}
		}
		if stopAt[b] {
			return false
		}
		succs := b.Succs
		if ifi, ok := b.Instrs[len(b.Instrs)-1].(*ssa.If); ok && len(succs) == 2 {
			if v, known := phiConstAlong(ifi.Cond, p, b); known {
				if v {
					return walk(b, succs[0])
				}
				return walk(b, succs[1])
			}
		}
		for _, s := range succs {
			if walk(b, s) {
				return true
			}
		}
		return false
	}
	return walk(pred, start)
}

// phiConstAlong: cond is a phi of block b (or the negation of one) whose incoming value from pred p is a bool constant.
func phiConstAlong(cond ssa.Value, p, b *ssa.BasicBlock) (bool, bool) {
	neg := false
	if u, ok := cond.(*ssa.UnOp); ok && u.Op == token.NOT {
		cond, neg = u.X, true
	}
	phi, ok := cond.(*ssa.Phi)
	if !ok || phi.Block() != b {
		return false, false
	}
	for i, pr := range b.Preds {
		if pr == p {
			if c, isC := constBool(phi.Edges[i]); isC {
				return c != neg, true
			}
		}
	}
	return false, false
}

func runC08(w *World, r *Report) {
	r.Rule("C08/PARTITION", "while classifying the documents of a file every iteration appends the document to exactly one of the manifest list and the hook list, or drops it on the unknown-event edge; the hook list is unreachable once an event name was not found in the table; the document text stored is the entry itself", 4)
	r.Rule("C08/SPLIT", "SortManifests skips only partials (base name starting with _) and blank files; every *NOTES.txt key is deleted from the rendered files before sorting; the document splitter uses no size-limited line scanner", 3)
	r.Rule("C08/TABLES", "the install and uninstall kind tables are duplicate-free permutations of each other; every hook event constant is a key of the event table under its own string value", 3)
	r.Rule("C08/KIND-SORT", "manifests and hooks are sorted by kind with a stable sort; the comparator orders by table index with unknown kinds last", 4)
	r.Rule("C08/BARRIER", "in the batched resource operation a new kind starts only after wg.Wait() on the group every spawned worker signals after delivering its result; the collector receives one result per resource", 3)
	c08Partition(w, r)
	c08Split(w, r)
	c08Tables(w, r)
	c08KindSort(w, r)
	c08Barrier(w, r)
	c08ContentWritten(w, r)
	r.Rule("C08/WIRING", "HideSecret, SubNotes, IncludeCRDs and SkipCRDs are fed only from the options of the same name and bound to their own command-line flags", 3)
	checkWiring(w, r, "C08/WIRING", map[string]bool{"HideSecret": true, "SubNotes": true, "IncludeCRDs": true, "SkipCRDs": true})
	checkFlagBinding(w, r, "C08/WIRING", map[string]bool{"HideSecret": true, "SubNotes": true, "IncludeCRDs": true, "SkipCRDs": true})
}

// c08Classifier: the function that sorts the documents of one file into hooks and generic manifests
// (manifestFile.sort on the reference tree; found by role if it was turned into a plain function).
func c08Classifier(w *World) *ssa.Function {
	if fn := w.Fn("pkg/release/util", "manifestFile.sort"); fn != nil {
		return fn
	}
	for _, f := range w.FuncsIn("pkg/release/util") {
		if f.Parent() != nil || strings.HasSuffix(w.FileOf(f), "_test.go") {
			continue
		}
		gen, hooks := false, false
		for _, b := range f.Blocks {
			for _, in := range b.Instrs {
				if st, ok := in.(*ssa.Store); ok {
					if _, t, fl := fieldNameOf(st.Addr); t == "result" {
						gen = gen || fl == "generic"
						hooks = hooks || fl == "hooks"
					}
				}
			}
		}
		if gen && hooks {
			return f
		}
	}
	return nil
}

func c08Partition(w *World, r *Report) {
	fn := c08Classifier(w)
	if fn == nil {
		r.Unk("C08/PARTITION", "anchor", "-", "manifestFile.sort not found")
		return
	}
	r.Fn(FuncName(fn))
	g := FullGraph(fn)
	// stores of append results into result.generic / result.hooks
	var gen, hooks []ssa.Instruction
	for _, b := range fn.Blocks {
		for _, in := range b.Instrs {
			st, ok := in.(*ssa.Store)
			if !ok {
				continue
			}
			if _, t, f := fieldNameOf(st.Addr); t == "result" {
				switch f {
				case "generic":
					gen = append(gen, st)
				case "hooks":
					hooks = append(hooks, st)
				}
			}
		}
	}
	if len(gen) == 0 || len(hooks) == 0 {
		r.Bad("C08/PARTITION", "buckets", w.Pos(fn.Pos()), "documents are no longer distributed over the manifest list and the hook list")
		return
	}
	// the per-entry loop: header = block of the slice range over the sorted keys (IndexAddr with an induction index)
	var next []ssa.Instruction
	var hdr *ssa.BasicBlock
	for _, in := range loopNextOf(fn) {
		ia := in.(*ssa.IndexAddr)
		if isStringType(ia.X.Type().Underlying().(*types.Slice).Elem()) {
			// the outer loop is the one whose body contains the bucket stores
			if reach, _ := g.PathExists(posOf(ia), posOf(gen[0]), Avoid{}); reach {
				next = append(next, ia)
				hdr = ia.Block()
			}
		}
	}
	if hdr == nil {
		r.Unk("C08/PARTITION", "loop", w.Pos(fn.Pos()), "per-entry loop not found")
		return
	}
	// the outermost candidate: the one that dominates the others
	outer := next[0]
	for _, n := range next {
		all := true
		for _, m := range next {
			if m != n && !g.DominatesInstr(n, posOf(m)) {
				all = false
			}
		}
		if all {
			outer = n
		}
	}
	// the loop over the documents is left only when the documents are exhausted (its header) or with an
	// error: a break out of it would drop every remaining document
	{
		comp := sccOf(fn)[outer.Block()]
		inComp := map[*ssa.BasicBlock]bool{}
		for _, b := range comp {
			inComp[b] = true
		}
		early := ""
		for _, b := range comp {
			isHeader := false
			for _, p := range b.Preds {
				if !inComp[p] {
					isHeader = true
				}
			}
			if isHeader {
				continue
			}
			for _, sb := range b.Succs {
				if inComp[sb] {
					continue
				}
				for _, rp := range g.classifyReturns() {
					if rp.Class != RetSuccess {
						continue
					}
					if ex, _ := g.PathExists(IPos{sb, -1}, retPos(rp), Avoid{}); ex {
						early = w.InstrPos(firstInstr(b))
					}
				}
			}
		}
		r.Check(early == "" && len(comp) > 1, "C08/PARTITION", "no-early-exit", w.InstrPos(outer), "the per-document loop ends only when every document was looked at (or with an error)", "the per-document loop can be left early without an error (from "+early+"): the documents that follow in the file are lost")
	}
	// no iteration appends to both
	both := false
	for _, a := range gen {
		for _, b := range hooks {
			if x, _ := g.PathExists(posOf(a), posOf(b), avoidInstrs(outer)); x {
				both = true
			}
			if x, _ := g.PathExists(posOf(b), posOf(a), avoidInstrs(outer)); x {
				both = true
			}
		}
	}
	for i, a := range gen {
		for j, b := range gen {
			if i != j {
				if x, _ := g.PathExists(posOf(a), posOf(b), avoidInstrs(outer)); x {
					both = true
				}
			}
		}
	}
	r.Check(!both, "C08/PARTITION", "at-most-one-bucket", w.InstrPos(gen[0]), "no iteration reaches two bucket appends", "one document can be appended to two buckets (or twice) in the same iteration")
	// unknown-event: lookups of the event table with comma-ok; from the !ok edge the hook append must be unreachable (edge-sensitively)
	evt := false
	okUnknown := true
	var dropEdges []Edge
	for _, b := range fn.Blocks {
		for _, in := range b.Instrs {
			lk, ok := in.(*ssa.Lookup)
			if !ok || !lk.CommaOk {
				continue
			}
			ld, isLd := lk.X.(*ssa.UnOp)
			if !isLd {
				continue
			}
			gl, isG := ld.X.(*ssa.Global)
			if !isG || gl.Name() != "events" {
				continue
			}
			evt = true
			for _, rf := range *lk.Referrers() {
				ex, ok := rf.(*ssa.Extract)
				if !ok || ex.Index != 1 {
					continue
				}
				for _, e := range condEdges(ex) {
					if e.truth {
						continue
					}
					dropEdges = append(dropEdges, e.Edge)
					for _, h := range hooks {
						if edgeSensitiveReach(fn, e.From, e.To(), h, map[*ssa.BasicBlock]bool{outer.Block(): true}) {
							okUnknown = false
						}
					}
				}
			}
		}
	}
	r.Check(evt && okUnknown, "C08/PARTITION", "unknown-event-drops", w.InstrPos(hooks[0]), "once an event name is not in the table the document cannot reach the hook list", "a document naming an unknown hook event can still be added to the hook list (with its known events only)")
	// every iteration ends in a bucket or on the unknown-event edge
	var all []ssa.Instruction
	all = append(all, gen...)
	all = append(all, hooks...)
	av := Avoid{EdgeSensitive: true}.withInstrs(all...).withEdges(dropEdges...)
	cyc, _ := g.PathExists(posOf(outer), posOf(outer), av)
	r.Check(!cyc, "C08/PARTITION", "at-least-one-bucket", w.InstrPos(outer), "every iteration appends the document somewhere or leaves through the unknown-event edge", "a document can be dropped without being a hook with an unknown event")
	// content is the entry itself: the Content / Manifest fields are stored from the map lookup of the entry key
	okContent, n := true, 0
	for _, b := range fn.Blocks {
		for _, in := range b.Instrs {
			st, ok := in.(*ssa.Store)
			if !ok {
				continue
			}
			_, t, f := fieldNameOf(st.Addr)
			if (t == "Manifest" && f == "Content") || (t == "Hook" && f == "Manifest") {
				n++
				src := unwrapIface(st.Val)
				if lk, isLk := src.(*ssa.Lookup); !isLk || lk.CommaOk {
					if ex, isEx := src.(*ssa.Extract); isEx {
						_, isLk2 := ex.Tuple.(*ssa.Lookup)
						okContent = okContent && isLk2
					} else {
						okContent = false
					}
				}
			}
		}
	}
	r.Check(okContent && n >= 2, "C08/PARTITION", "content-verbatim", w.Pos(fn.Pos()), "the stored document text is the split entry itself", "the stored document text is transformed before it is stored")
}

func c08Split(w *World, r *Report) {
	sm := w.Fn("pkg/release/util", "SortManifests")
	if sm == nil {
		r.Unk("C08/SPLIT", "anchor", "-", "SortManifests not found")
		return
	}
	r.Fn(FuncName(sm))
	g := FullGraph(sm)
	// the call to manifestFile.sort per file; skips allowed only: HasPrefix(path.Base(p), "_") true, TrimSpace(content) == "" true
	var sortCall ssa.CallInstruction
	cls := c08Classifier(w)
	for _, c := range callInstrs(sm) {
		if f, _ := calleeOf(c.Common()); f != nil && (strings.HasSuffix(FuncName(f), "manifestFile).sort") || (cls != nil && origin(f) == cls)) {
			sortCall = c
		}
	}
	if sortCall == nil && cls == sm {
		// the classification was folded into SortManifests itself: the per-file step starts with the split
		for _, c := range callInstrs(sm) {
			if f, _ := calleeOf(c.Common()); f != nil && FuncName(f) == "pkg/release/util.SplitManifests" {
				sortCall = c
			}
		}
	}
	if sortCall == nil {
		r.Bad("C08/SPLIT", "per-file", w.Pos(sm.Pos()), "SortManifests does not classify each file")
		return
	}
	var skipEdges []Edge
	nSkip := 0
	for _, b := range sm.Blocks {
		for _, in := range b.Instrs {
			switch x := in.(type) {
			case *ssa.Call:
				f, _ := calleeOf(x.Common())
				if f != nil && fnPkgPath(f) == "strings" && f.Name() == "HasPrefix" {
					if s, _ := constString(x.Call.Args[1]); s == "_" {
						if bc, ok := x.Call.Args[0].(*ssa.Call); ok {
							if bf, _ := calleeOf(bc.Common()); bf != nil && bf.Name() == "Base" {
								nSkip++
								for _, e := range condEdges(x) {
									if e.truth {
										skipEdges = append(skipEdges, e.Edge)
									}
								}
							}
						}
					}
				}
			case *ssa.BinOp:
				if x.Op == token.EQL {
					if s, ok := constString(x.Y); ok && s == "" {
						if tc, ok := x.X.(*ssa.Call); ok {
							if tf, _ := calleeOf(tc.Common()); tf != nil && tf.Name() == "TrimSpace" {
								nSkip++
								for _, e := range condEdges(x) {
									if e.truth {
										skipEdges = append(skipEdges, e.Edge)
									}
								}
							}
						}
					}
				}
			}
		}
	}
	// each iteration over the sorted paths passes the classification or one of the two skip edges
	okIter := false
	for _, in := range loopNextOf(sm) {
		if reach, _ := g.PathExists(posOf(in), posOf(sortCall), Avoid{}); reach {
			cyc, _ := g.PathExists(posOf(in), posOf(in), Avoid{}.withInstrs(sortCall).withEdges(skipEdges...))
			okIter = !cyc
		}
	}
	r.Check(okIter && nSkip == 2, "C08/SPLIT", "skips-only-partials-and-blank", w.InstrPos(sortCall), "every file is classified unless its base name starts with _ or it is blank", "a rendered file can be skipped for another reason than being a partial or blank (or partials are no longer skipped)")
	// renderResources: delete(files, k) on every path of the NOTES suffix branch
	rr := w.Fn("pkg/action", "Configuration.renderResources")
	if rr == nil {
		r.Unk("C08/SPLIT", "notes/anchor", "-", "renderResources not found")
	} else {
		r.Fn(FuncName(rr))
		rg := FullGraph(rr)
		var suffixTrue []Edge
		var suffixCall *ssa.Call
		for _, c := range callInstrs(rr) {
			cc, ok := c.(*ssa.Call)
			if !ok {
				continue
			}
			if f, _ := calleeOf(cc.Common()); f != nil && fnPkgPath(f) == "strings" && f.Name() == "HasSuffix" {
				suffixCall = cc
				for _, e := range condEdges(cc) {
					if e.truth {
						suffixTrue = append(suffixTrue, e.Edge)
					}
				}
			}
		}
		var dels []ssa.Instruction
		for _, c := range callInstrs(rr) {
			if bi, ok := c.Common().Value.(*ssa.Builtin); ok && bi.Name() == "delete" {
				dels = append(dels, c)
			}
		}
		ok := suffixCall != nil && len(dels) > 0
		if ok {
			// from the true edge, the next iteration / loop exit is reached only through the delete
			for _, e := range suffixTrue {
				for _, in := range loopNextOf(rr) {
					if len(e.To().Instrs) > 0 {
						if x, _ := rg.PathExists(IPos{e.To(), -1}, posOf(in), avoidInstrs(dels...)); x {
							if back, _ := rg.PathExists(posOf(in), posOf(suffixCall), Avoid{}); back {
								ok = false
							}
						}
					}
				}
			}
			// sorted before SortManifests: the delete loop dominates the SortManifests call
		}
		r.Check(ok, "C08/SPLIT", "notes-removed", w.Pos(rr.Pos()), "every key ending in NOTES.txt is deleted from the rendered files on all paths of that branch", "a NOTES.txt file can stay among the rendered files and be applied as a manifest")
	}
	// splitter: no bufio.Scanner without error check / size limit
	sp := w.Fn("pkg/release/util", "SplitManifests")
	if sp == nil {
		r.Unk("C08/SPLIT", "splitter/anchor", "-", "SplitManifests not found")
		return
	}
	r.Fn(FuncName(sp))
	usesScanner, checksErr := false, false
	usesRegexp := false
	for _, c := range callInstrs(sp) {
		f, _ := calleeOf(c.Common())
		if f == nil {
			continue
		}
		n := FuncName(f)
		if strings.HasPrefix(n, "(*bufio.Scanner)") || n == "bufio.NewScanner" {
			usesScanner = true
			if strings.HasSuffix(n, ".Err") {
				checksErr = true
			}
		}
		if strings.HasPrefix(n, "(*regexp.Regexp).Split") {
			usesRegexp = true
		}
	}
	r.Check(!usesScanner || checksErr, "C08/SPLIT", "splitter/no-silent-truncation", w.Pos(sp.Pos()), map[bool]string{true: "documents are split with the separator expression over the whole text", false: "a line scanner is used and its error is checked"}[usesRegexp],
		"documents are split with a bufio.Scanner whose error is never checked: a line beyond the scanner's buffer silently ends the stream and every later document is lost")
}

// stringSliceLiteral evaluates a package-level []string (or named slice of strings) composite literal.
func stringSliceLiteral(w *World, pkgRel, name string) ([]string, token.Pos) {
	p := w.HelmPkg(pkgRel)
	if p == nil {
		return nil, token.NoPos
	}
	for _, f := range p.Syntax {
		for _, d := range f.Decls {
			gd, ok := d.(*ast.GenDecl)
			if !ok {
				continue
			}
			for _, s := range gd.Specs {
				vs, ok := s.(*ast.ValueSpec)
				if !ok {
					continue
				}
				for i, n := range vs.Names {
					if n.Name != name || i >= len(vs.Values) {
						continue
					}
					cl, ok := vs.Values[i].(*ast.CompositeLit)
					if !ok {
						return nil, n.Pos()
					}
					var out []string
					for _, e := range cl.Elts {
						if tv, ok := p.TypesInfo.Types[e]; ok && tv.Value != nil && tv.Value.Kind() == constant.String {
							out = append(out, constant.StringVal(tv.Value))
						} else {
							return nil, n.Pos()
						}
					}
					return out, n.Pos()
				}
			}
		}
	}
	return nil, token.NoPos
}

func c08Tables(w *World, r *Report) {
	inst, p1 := stringSliceLiteral(w, "pkg/release/util", "InstallOrder")
	unin, _ := stringSliceLiteral(w, "pkg/release/util", "UninstallOrder")
	if len(inst) == 0 || len(unin) == 0 {
		r.Unk("C08/TABLES", "orders", "-", "InstallOrder / UninstallOrder are not constant string tables")
	} else {
		dup := ""
		seen := map[string]bool{}
		for _, k := range inst {
			if seen[k] {
				dup = k
			}
			seen[k] = true
		}
		seen2 := map[string]bool{}
		for _, k := range unin {
			if seen2[k] {
				dup = k
			}
			seen2[k] = true
		}
		miss := ""
		for k := range seen {
			if !seen2[k] {
				miss = k + " (install only)"
			}
		}
		for k := range seen2 {
			if !seen[k] {
				miss = k + " (uninstall only)"
			}
		}
		r.Check(dup == "" && miss == "", "C08/TABLES", "kind-orders", w.Pos(p1), fmt.Sprintf("%d kinds, no duplicates, both tables list the same kinds", len(inst)), "kind tables disagree: duplicate "+dup+" missing "+miss)
		rev := true
		for i := range inst {
			if i < len(unin) && inst[i] != unin[len(unin)-1-i] {
				rev = false
			}
		}
		_ = rev
	}
	// hook events: every constant of type release.HookEvent is a key of the events table with itself as value
	rel := w.Pkg(relPkg)
	util := w.HelmPkg("pkg/release/util")
	if rel == nil || util == nil {
		return
	}
	consts := map[string]string{} // const name → value
	for _, name := range rel.Types.Scope().Names() {
		if c, ok := rel.Types.Scope().Lookup(name).(*types.Const); ok {
			if n, ok := c.Type().(*types.Named); ok && n.Obj().Name() == "HookEvent" {
				consts[name] = constant.StringVal(c.Val())
			}
		}
	}
	table := map[string]string{}
	var pos token.Pos
	if up := w.Prog.ImportedPackage(relutilPkg); up != nil {
		if gl, ok := up.Members["events"].(*ssa.Global); ok {
			pos = gl.Pos()
			if initFn := up.Func("init"); initFn != nil {
				for _, b := range initFn.Blocks {
					for _, in := range b.Instrs {
						mu, ok := in.(*ssa.MapUpdate)
						if !ok {
							continue
						}
						isEv := false
						if refs := mu.Map.Referrers(); refs != nil {
							for _, rf := range *refs {
								if st, ok := rf.(*ssa.Store); ok && st.Addr == ssa.Value(gl) {
									isEv = true
								}
							}
						}
						if !isEv {
							continue
						}
						key, kok := constString(mu.Key)
						if !kok {
							// HookEvent.String() of a constant
							if c, ok := mu.Key.(*ssa.Call); ok && len(c.Call.Args) == 1 {
								if f, _ := calleeOf(c.Common()); f != nil && FuncName(f) == "(pkg/release/v1.HookEvent).String" {
									key, kok = constString(c.Call.Args[0])
								}
							}
						}
						val, vok := constString(mu.Value)
						if kok && vok {
							table[key] = val
						}
					}
				}
			}
		}
	}
	_ = util
	bad := ""
	for name, val := range consts {
		if got, ok := table[val]; !ok {
			bad = name + " (" + val + ") has no row"
		} else if got != val {
			bad = "row " + val + " maps to " + got
		}
	}
	r.Check(bad == "" && len(consts) >= 9 && len(table) >= len(consts), "C08/TABLES", "hook-events", w.Pos(pos), fmt.Sprintf("all %d hook event constants are keys of the event table under their own value", len(consts)), "hook event table: "+bad)
	extraBad := ""
	declared := map[string]bool{}
	for _, v := range consts {
		declared[v] = true
	}
	for k, v := range table {
		if !declared[v] {
			extraBad = k + " maps to undeclared event " + v
		}
	}
	r.Check(extraBad == "", "C08/TABLES", "hook-events/values-declared", w.Pos(pos), "every row of the event table maps to a declared hook event", "event table row "+extraBad)
}

func c08KindSort(w *World, r *Report) {
	for _, name := range []string{"sortManifestsByKind", "sortHooksByKind"} {
		fn := w.Fn("pkg/release/util", name)
		if fn == nil {
			r.Unk("C08/KIND-SORT", name, "-", "function not found")
			continue
		}
		r.Fn(FuncName(fn))
		sortName := ""
		for _, c := range callInstrs(fn) {
			if f, _ := calleeOf(c.Common()); f != nil && (fnPkgPath(f) == "sort" || fnPkgPath(f) == "slices") {
				sortName = fnPkgPath(f) + "." + origin(f).Name()
			}
		}
		stable := sortName == "sort.SliceStable" || sortName == "sort.Stable" || sortName == "slices.SortStableFunc"
		r.Check(stable, "C08/KIND-SORT", name, w.Pos(fn.Pos()), "uses "+sortName+" (original order kept within a kind)", "uses "+sortName+": documents of one kind may be reordered")
	}
	// the comparator, by role: a function (or closure) of the package that looks two kind names up
	// (comma-ok) in one rank table and returns a bool
	type cand struct {
		fn                      *ssa.Function
		aok, bok, first, second ssa.Value
	}
	var cands []cand
	for _, f := range w.FuncsIn("pkg/release/util") {
		if strings.HasSuffix(w.FileOf(f), "_test.go") || f.Signature.Results().Len() != 1 || !isBoolType(f.Signature.Results().At(0).Type()) {
			continue
		}
		var lks []*ssa.Lookup
		for _, b := range f.Blocks {
			for _, in := range b.Instrs {
				if l, ok := in.(*ssa.Lookup); ok && l.CommaOk {
					if mp, ok := l.X.Type().Underlying().(*types.Map); ok && isStringType(mp.Key()) {
						if bt, ok := mp.Elem().Underlying().(*types.Basic); ok && bt.Info()&types.IsInteger != 0 {
							lks = append(lks, l)
						}
					}
				}
			}
		}
		if len(lks) != 2 || lks[0].X != lks[1].X || lks[0].Index == lks[1].Index || lks[0].Referrers() == nil || lks[1].Referrers() == nil {
			continue
		}
		c := cand{fn: f}
		for i, l := range lks {
			for _, rf := range *l.Referrers() {
				if ex, ok := rf.(*ssa.Extract); ok {
					switch {
					case i == 0 && ex.Index == 0:
						c.first = ex
					case i == 0:
						c.aok = ex
					case ex.Index == 0:
						c.second = ex
					default:
						c.bok = ex
					}
				}
			}
		}
		if c.aok != nil && c.bok != nil && c.first != nil && c.second != nil {
			cands = append(cands, c)
		}
	}
	if len(cands) == 0 {
		r.Unk("C08/KIND-SORT", "lessByKind/shape", "-", "no comparator that looks both kinds up in the order table was found")
		return
	}
	edges := func(v ssa.Value, truth bool) []Edge {
		var out []Edge
		for _, e := range condEdges(v) {
			if e.truth == truth {
				out = append(out, e.Edge)
			}
		}
		return out
	}
	for ci, c := range cands {
		lk := c.fn
		r.Fn(FuncName(lk))
		g := FullGraph(lk)
		okIdx, okUnknownLast := false, true
		// the answers: returned values, or — where the answer is collected in one variable — the values flowing into it
		type answer struct {
			v  ssa.Value
			at IPos
		}
		var answers []answer
		var expand func(v ssa.Value, at IPos, d int)
		expand = func(v ssa.Value, at IPos, d int) {
			if phi, ok := v.(*ssa.Phi); ok && d < 4 {
				for i, e := range phi.Edges {
					pb := phi.Block().Preds[i]
					expand(e, IPos{pb, len(pb.Instrs) - 1}, d+1)
				}
				return
			}
			answers = append(answers, answer{v, at})
		}
		for _, b := range lk.Blocks {
			if len(b.Instrs) == 0 {
				continue
			}
			if ret, isRet := b.Instrs[len(b.Instrs)-1].(*ssa.Return); isRet {
				expand(ret.Results[0], posOf(ret), 0)
			}
		}
		for _, a := range answers {
			if bo, isBo := a.v.(*ssa.BinOp); isBo && bo.Op == token.LSS && bo.X == c.first && bo.Y == c.second {
				okIdx = true
			}
			if cb, isC := constBool(a.v); isC {
				// false only where A is unknown; true only where B is unknown
				if cb {
					if ex, _ := g.PathExists(entryPos(lk), a.at, Avoid{}.withEdges(edges(c.bok, false)...)); ex {
						okUnknownLast = false
					}
				} else {
					if ex, _ := g.PathExists(entryPos(lk), a.at, Avoid{}.withEdges(edges(c.aok, false)...)); ex {
						okUnknownLast = false
					}
				}
			}
		}
		suffix := ""
		if ci > 0 {
			suffix = fmt.Sprintf("#%d", ci+1)
		}
		r.Check(okIdx, "C08/KIND-SORT", "lessByKind/by-index"+suffix, w.Pos(lk.Pos()), "known kinds are ordered by their table index", "known kinds are not ordered by their index in the table")
		r.Check(okUnknownLast, "C08/KIND-SORT", "lessByKind/unknown-last"+suffix, w.Pos(lk.Pos()), "a kind missing from the table sorts after every known kind", "unknown kinds are not kept after the known ones")
	}
}

func c08Barrier(w *World, r *Report) {
	bp := w.Fn("pkg/kube", "batchPerform")
	pf := w.Fn("pkg/kube", "perform")
	if bp == nil || pf == nil {
		r.Unk("C08/BARRIER", "anchor", "-", "kube.batchPerform / perform not found")
		return
	}
	r.Fn(FuncName(bp))
	r.Fn(FuncName(pf))
	g := FullGraph(bp)
	var goI *ssa.Go
	var waits []ssa.Instruction
	var addC ssa.Instruction
	for _, b := range bp.Blocks {
		for _, in := range b.Instrs {
			switch x := in.(type) {
			case *ssa.Go:
				goI = x
			case ssa.CallInstruction:
				if f, _ := calleeOf(x.Common()); f != nil {
					switch FuncName(f) {
					case "(*sync.WaitGroup).Wait":
						waits = append(waits, x)
					case "(*sync.WaitGroup).Add":
						addC = x
					}
				}
			}
		}
	}
	if goI == nil {
		r.Bad("C08/BARRIER", "spawn", w.Pos(bp.Pos()), "batchPerform no longer spawns workers")
		return
	}
	// kind change edge: kind != currentKind true
	var change []Edge
	for _, b := range bp.Blocks {
		for _, in := range b.Instrs {
			if bo, ok := in.(*ssa.BinOp); ok && bo.Op == token.NEQ && isStringType(bo.X.Type()) {
				for _, e := range condEdges(bo) {
					if e.truth {
						change = append(change, e.Edge)
					}
				}
			}
		}
	}
	ok := len(change) > 0 && len(waits) > 0
	for _, e := range change {
		if len(e.To().Instrs) > 0 {
			if x, _ := g.PathExists(IPos{e.To(), -1}, posOf(goI), avoidInstrs(waits...)); x {
				ok = false
			}
		}
	}
	// and the kind test is evaluated before every spawn: within an iteration the comparison precedes the go statement
	var cmps []ssa.Instruction
	for _, b := range bp.Blocks {
		for _, in := range b.Instrs {
			if bo, isBo := in.(*ssa.BinOp); isBo && bo.Op == token.NEQ && isStringType(bo.X.Type()) {
				cmps = append(cmps, bo)
			}
		}
	}
	for _, nx := range loopNextOf(bp) {
		if x, _ := g.PathExists(posOf(nx), posOf(goI), avoidInstrs(cmps...)); x {
			ok = false
		}
	}
	r.Check(ok, "C08/BARRIER", "wait-before-new-kind", w.InstrPos(goI), "on the kind-change edge the next worker is spawned only after wg.Wait()", "a worker for a new kind can be spawned before the previous kind's workers were waited for")
	// Add before go; Done after the send in the worker
	okAdd := addC != nil && g.DominatesInstr(addC, posOf(goI))
	okDone := false
	var workerFn *ssa.Function
	if mc, isMC := goI.Call.Value.(*ssa.MakeClosure); isMC {
		workerFn, _ = mc.Fn.(*ssa.Function)
	} else if sf := goI.Call.StaticCallee(); sf != nil && inHelm(sf) {
		workerFn = sf // the worker is a named function
	}
	if workerFn != nil {
		if wf := workerFn; len(wf.Blocks) > 0 {
			wg := FullGraph(wf)
			var send ssa.Instruction
			var done ssa.Instruction
			for _, b := range wf.Blocks {
				for _, in := range b.Instrs {
					if s, isS := in.(*ssa.Send); isS {
						send = s
					}
					if c, isC := in.(ssa.CallInstruction); isC {
						if f, _ := calleeOf(c.Common()); f != nil && FuncName(f) == "(*sync.WaitGroup).Done" {
							done = c
						}
					}
				}
			}
			okDone = send != nil && done != nil && wg.DominatesInstr(send, posOf(done))
		}
	}
	r.Check(okAdd && okDone, "C08/BARRIER", "group-accounting", w.InstrPos(goI), "wg.Add precedes each spawn and each worker signals Done after delivering its result", "the wait group does not account for every worker (Add before spawn / Done after result)")
	// perform: receives exactly len(infos) results
	okRecv := false
	for _, b := range pf.Blocks {
		for _, in := range b.Instrs {
			if bo, isBo := in.(*ssa.BinOp); isBo && bo.Op == token.LSS {
				if c, isC := bo.Y.(*ssa.Call); isC {
					if bi, isB := c.Call.Value.(*ssa.Builtin); isB && bi.Name() == "len" {
						okRecv = true
					}
				}
			}
		}
	}
	r.Check(okRecv, "C08/BARRIER", "collector-count", w.Pos(pf.Pos()), "the collector loops over len(infos) results", "the collector does not receive one result per resource")
}

// c08ContentWritten: while the release manifest is assembled, every sorted manifest's content is
// written to the buffer (or file) in its iteration; the only edge on which a document's content may be
// replaced by a placeholder is the one where the caller asked to hide secrets.
func c08ContentWritten(w *World, r *Report) {
	r.Rule("C08/CONTENT-WRITTEN", "in the loop that assembles the manifest from the sorted documents every iteration writes the document's content, except on the edge where the hide-secret option is true", 1)
	fn := w.Fn("pkg/action", "Configuration.renderResources")
	if fn == nil {
		r.Unk("C08/CONTENT-WRITTEN", "anchor", "-", "renderResources not found")
		return
	}
	r.Fn(FuncName(fn))
	g := FullGraph(fn)
	var writes []ssa.Instruction
	for _, c := range callInstrs(fn) {
		uses := false
		for _, a := range c.Common().Args {
			backSlice(a, func(v ssa.Value) bool {
				if ld, ok := v.(*ssa.UnOp); ok && ld.Op == token.MUL {
					if _, t, f := fieldNameOf(ld.X); t == "Manifest" && f == "Content" {
						uses = true
					}
				}
				_, isCall := v.(*ssa.Call)
				return uses || isCall
			})
		}
		if uses {
			writes = append(writes, c)
		}
	}
	if len(writes) == 0 {
		r.Bad("C08/CONTENT-WRITTEN", "loop", w.Pos(fn.Pos()), "no statement writes the documents' content")
		return
	}
	scc := sccOf(fn)
	comp := scc[writes[0].Block()]
	var hdr *ssa.BasicBlock
	for _, b := range comp {
		for _, p := range b.Preds {
			in := false
			for _, x := range comp {
				if x == p {
					in = true
				}
			}
			if !in {
				hdr = b
			}
		}
	}
	if hdr == nil || len(comp) < 2 || len(hdr.Succs) != 2 {
		r.Unk("C08/CONTENT-WRITTEN", "loop", w.InstrPos(writes[0]), "the content is not written inside a loop over the documents")
		return
	}
	var hide []Edge
	for _, p := range fn.Params {
		if strings.Contains(strings.ToLower(p.Name()), "hidesecret") {
			for _, e := range condEdges(p) {
				if e.truth {
					hide = append(hide, e.Edge)
				}
			}
		}
	}
	ex, path := g.PathExists(IPos{hdr.Succs[0], -1}, IPos{hdr, 0}, avoidInstrs(writes...).withEdges(hide...))
	where := ""
	if ex && len(path) > 1 {
		where = w.InstrPos(path[len(path)-2].Instrs[0])
	}
	r.Check(!ex, "C08/CONTENT-WRITTEN", "loop", w.InstrPos(writes[0]), "every iteration writes its document unless secrets are to be hidden", "an iteration can end without writing the document's content although hide-secret is off (via "+where+"): the document is lost from the release manifest")
}
