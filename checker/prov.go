package main

// prov.go — PROV: value provenance on SSA (backward slices, release-status typestate).

import (
	"go/token"
	"go/types"
	"sort"
	"strings"

	"golang.org/x/tools/go/ssa"
)

// backSlice visits the values v may be computed from (operands, transitively): through calls'
// arguments, phis, extracts, loads of local allocs (via the stores into them), field/index
// addressing, closures' bindings. visit returns true to stop descending at that value.
type slicer struct {
	seen      map[ssa.Value]bool
	visit     func(v ssa.Value) (stop bool)
	depth     int
	withIndex bool // also follow index / key operands of element accesses
}

// backSliceIdx is backSlice that also follows the index operands of element accesses.
func backSliceIdx(v ssa.Value, visit func(ssa.Value) bool) {
	s := &slicer{seen: map[ssa.Value]bool{}, visit: visit, withIndex: true}
	s.walk(v, 0)
}

func backSlice(v ssa.Value, visit func(ssa.Value) bool) {
	s := &slicer{seen: map[ssa.Value]bool{}, visit: visit}
	s.walk(v, 0)
}

func (s *slicer) walk(v ssa.Value, d int) {
	if v == nil || s.seen[v] || d > 60 {
		return
	}
	s.seen[v] = true
	if s.visit(v) {
		return
	}
	switch v := v.(type) {
	case *ssa.Call:
		for _, a := range v.Call.Args {
			s.walk(a, d+1)
		}
		if !v.Call.IsInvoke() {
			if _, isFn := v.Call.Value.(*ssa.Function); !isFn {
				s.walk(v.Call.Value, d+1)
			}
		} else {
			s.walk(v.Call.Value, d+1)
		}
	case *ssa.Phi:
		for _, e := range v.Edges {
			s.walk(e, d+1)
		}
	case *ssa.Extract:
		s.walk(v.Tuple, d+1)
	case *ssa.UnOp:
		s.walk(v.X, d+1)
	case *ssa.BinOp:
		s.walk(v.X, d+1)
		s.walk(v.Y, d+1)
	case *ssa.FieldAddr:
		s.walk(v.X, d+1)
	case *ssa.Field:
		s.walk(v.X, d+1)
	case *ssa.IndexAddr:
		s.walk(v.X, d+1)
		if s.withIndex {
			s.walk(v.Index, d+1)
		}
	case *ssa.Index:
		s.walk(v.X, d+1)
		if s.withIndex {
			s.walk(v.Index, d+1)
		}
	case *ssa.Lookup:
		s.walk(v.X, d+1)
		if s.withIndex {
			s.walk(v.Index, d+1)
		}
	case *ssa.Slice:
		s.walk(v.X, d+1)
	case *ssa.MakeInterface:
		s.walk(v.X, d+1)
	case *ssa.ChangeType:
		s.walk(v.X, d+1)
	case *ssa.ChangeInterface:
		s.walk(v.X, d+1)
	case *ssa.Convert:
		s.walk(v.X, d+1)
	case *ssa.TypeAssert:
		s.walk(v.X, d+1)
	case *ssa.MakeClosure:
		for _, b := range v.Bindings {
			s.walk(b, d+1)
		}
	case *ssa.Next:
		s.walk(v.Iter, d+1)
	case *ssa.Range:
		s.walk(v.X, d+1)
	case *ssa.Alloc:
		// values stored into the alloc (or into its fields / elements)
		s.storesInto(v, d)
	case *ssa.MakeSlice, *ssa.MakeMap:
		// contents come from stores through IndexAddr / MapUpdate referrers
		s.storesInto(v.(ssa.Value), d)
	case *ssa.FreeVar:
		// binding in the parent closure creation
		fn := v.Parent()
		idx := -1
		for i, fv := range fn.FreeVars {
			if fv == v {
				idx = i
			}
		}
		if p := fn.Parent(); p != nil && idx >= 0 {
			for _, b := range p.Blocks {
				for _, in := range b.Instrs {
					if mc, ok := in.(*ssa.MakeClosure); ok && mc.Fn == fn && idx < len(mc.Bindings) {
						s.walk(mc.Bindings[idx], d+1)
					}
				}
			}
		}
	}
}

func (s *slicer) storesInto(a ssa.Value, d int) {
	refs := a.Referrers()
	if refs == nil {
		return
	}
	for _, r := range *refs {
		switch r := r.(type) {
		case *ssa.Store:
			if r.Addr == a {
				s.walk(r.Val, d+1)
			}
		case *ssa.FieldAddr:
			s.storesInto(r, d+1)
		case *ssa.IndexAddr:
			s.storesInto(r, d+1)
		case *ssa.MapUpdate:
			if r.Map == a {
				s.walk(r.Value, d+1)
			}
		case *ssa.Slice:
			s.storesInto(r, d+1)
		case ssa.CallInstruction:
			// the object is handed (by address) to a call: what the call is given may end up inside it
			// (builder.WriteString(x), list.Append(x))
			cc := r.Common()
			if len(cc.Args) > 0 && cc.Args[0] == a {
				for _, other := range cc.Args[1:] {
					s.walk(other, d+1)
				}
			}
		}
	}
}

// fieldOfNamed reports whether v is an address or load of field `field` of named struct pkg.typ.
func isFieldOf(v ssa.Value, pkgPath, typ, field string) bool {
	var base types.Type
	var idx int
	switch v := v.(type) {
	case *ssa.FieldAddr:
		base, idx = v.X.Type(), v.Field
	case *ssa.Field:
		base, idx = v.X.Type(), v.Field
	default:
		return false
	}
	if p, ok := base.Underlying().(*types.Pointer); ok {
		base = p.Elem()
	}
	n, ok := base.(*types.Named)
	if !ok || n.Obj().Pkg() == nil || n.Obj().Pkg().Path() != pkgPath || refTypeName(n.Obj()) != typ {
		return false
	}
	st, _ := n.Underlying().(*types.Struct)
	return st != nil && idx < st.NumFields() && st.Field(idx).Name() == field
}

func fieldNameOf(v ssa.Value) (pkgPath, typ, field string) {
	var base types.Type
	var idx int
	switch v := v.(type) {
	case *ssa.FieldAddr:
		base, idx = v.X.Type(), v.Field
	case *ssa.Field:
		base, idx = v.X.Type(), v.Field
	default:
		return
	}
	if p, ok := base.Underlying().(*types.Pointer); ok {
		base = p.Elem()
	}
	n, ok := base.(*types.Named)
	if !ok || n.Obj().Pkg() == nil {
		return
	}
	st, _ := n.Underlying().(*types.Struct)
	if st == nil || idx >= st.NumFields() {
		return
	}
	return n.Obj().Pkg().Path(), refTypeName(n.Obj()), st.Field(idx).Name()
}

const relPkg = helmMod + "/pkg/release/v1"

func isNamedPtr(t types.Type, pkgPath, name string) bool {
	if p, ok := t.Underlying().(*types.Pointer); ok {
		t = p.Elem()
	}
	n, ok := t.(*types.Named)
	return ok && n.Obj().Pkg() != nil && n.Obj().Pkg().Path() == pkgPath && refTypeName(n.Obj()) == name
}

func isReleasePtr(t types.Type) bool { return isNamedPtr(t, relPkg, "Release") }

// derivesFromRelease: the value is computed from a *release.Release (its manifest, hooks, or the
// record itself) — i.e. the call operates on release-owned resources.
func derivesFromRelease(args []ssa.Value) (bool, string) {
	found := ""
	for _, a := range args {
		backSlice(a, func(v ssa.Value) bool {
			if found != "" {
				return true
			}
			if p, t, f := fieldNameOf(v); p == relPkg && (t == "Release" && (f == "Manifest" || f == "Hooks")) || (p == relPkg && t == "Hook" && f == "Manifest") {
				found = t + "." + f
				return true
			}
			if isReleasePtr(v.Type()) {
				if _, isParam := v.(*ssa.Parameter); isParam {
					found = "release parameter " + v.Name()
					return true
				}
			}
			return false
		})
		if found == "" && isReleasePtr(a.Type()) {
			found = "release record"
		}
	}
	return found != "", found
}

// ---- release status typestate ---------------------------------------------------------------

// StatusStore is a point where the status of a release value is assigned.
type StatusStore struct {
	Instr  ssa.Instruction
	Status string // constant value, "" if not constant
	Val    ssa.Value
}

// sameRelease: conservative identity of release pointers inside one function (same SSA value, or
// both loads of the same local alloc).
func sameValue(a, b ssa.Value) bool {
	if a == b {
		return true
	}
	ua, ok1 := a.(*ssa.UnOp)
	ub, ok2 := b.(*ssa.UnOp)
	if ok1 && ok2 && ua.Op == token.MUL && ub.Op == token.MUL && ua.X == ub.X {
		if _, isAlloc := ua.X.(*ssa.Alloc); isAlloc {
			return true
		}
	}
	return false
}

// statusStores finds, in fn, the instructions that assign the status of release value rel:
// direct stores rel.Info.Status = X, rel.SetStatus(X, …), and the composite-literal form
// &Release{Info: &Info{Status: X}}.
func statusStores(fn *ssa.Function, rel ssa.Value) []StatusStore {
	var out []StatusStore
	// info pointers of rel: loads of rel.Info and values stored into rel.Info
	isInfoOfRel := func(v ssa.Value) bool {
		// load of FieldAddr(rel, Info)
		if u, ok := v.(*ssa.UnOp); ok && u.Op == token.MUL {
			if fa, ok := u.X.(*ssa.FieldAddr); ok && isFieldOf(fa, relPkg, "Release", "Info") && sameValue(fa.X, rel) {
				return true
			}
		}
		// value stored into rel.Info
		if refs := v.Referrers(); refs != nil {
			for _, r := range *refs {
				if st, ok := r.(*ssa.Store); ok && st.Val == v {
					if fa, ok := st.Addr.(*ssa.FieldAddr); ok && isFieldOf(fa, relPkg, "Release", "Info") && sameValue(fa.X, rel) {
						return true
					}
				}
			}
		}
		return false
	}
	for _, b := range fn.Blocks {
		for _, in := range b.Instrs {
			switch in := in.(type) {
			case *ssa.Store:
				fa, ok := in.Addr.(*ssa.FieldAddr)
				if !ok || !isFieldOf(fa, relPkg, "Info", "Status") {
					continue
				}
				if isInfoOfRel(fa.X) {
					s, _ := constString(in.Val)
					out = append(out, StatusStore{in, s, in.Val})
				}
			case ssa.CallInstruction:
				f, _ := calleeOf(in.Common())
				if f != nil && FuncName(f) == "(*pkg/release/v1.Release).SetStatus" && len(in.Common().Args) >= 2 && sameValue(in.Common().Args[0], rel) {
					s, _ := constString(in.Common().Args[1])
					out = append(out, StatusStore{in, s, in.Common().Args[1]})
				}
			}
		}
	}
	return out
}

// statusesAt computes the set of status constants the release value rel may have when control
// reaches position p in g.Fn: a backward walk over all paths to the nearest status store. If a path
// reaches the function entry (or rel's definition) without a store, "?" is included unless the
// provenance of rel can be followed (parameters to callers' arguments, call results into callees).
func statusesAt(w *World, g *Graph, rel ssa.Value, p IPos, depth int) map[string]bool {
	out := map[string]bool{}
	fn := g.Fn
	stores := map[ssa.Instruction]StatusStore{}
	for _, s := range statusStores(fn, rel) {
		stores[s.Instr] = s
	}
	type key struct {
		b *ssa.BasicBlock
	}
	seen := map[*ssa.BasicBlock]bool{}
	reachedTop := false
	var scanBack func(b *ssa.BasicBlock, from int)
	scanBack = func(b *ssa.BasicBlock, from int) {
		for k := from; k >= 0; k-- {
			if s, ok := stores[b.Instrs[k]]; ok {
				if s.Status == "" {
					out["?"] = true
				} else {
					out[s.Status] = true
				}
				return
			}
			if v, ok := b.Instrs[k].(ssa.Value); ok && v == rel {
				if _, isLit := rel.(*ssa.Alloc); isLit {
					// a composite literal: its Info may have been built (and given its status) in a
					// local before the literal itself — keep looking further back
					continue
				}
				reachedTop = true
				return
			}
		}
		if b == fn.Blocks[0] {
			reachedTop = true
			return
		}
		for _, pr := range b.Preds {
			if !g.edgeFeasible(pr, b) || seen[pr] {
				continue
			}
			seen[pr] = true
			scanBack(pr, len(pr.Instrs)-1)
		}
	}
	scanBack(p.B, p.I-1)
	if reachedTop {
		for s := range originStatuses(w, rel, depth) {
			out[s] = true
		}
	}
	return out
}

// originStatuses follows rel to where it was made: a parameter to all helm call sites' arguments; a
// call result into the callee's returns; a composite literal handled by statusStores (no entry → "?").
func originStatuses(w *World, rel ssa.Value, depth int) map[string]bool {
	out := map[string]bool{}
	if depth > 6 {
		out["?"] = true
		return out
	}
	switch v := rel.(type) {
	case *ssa.Parameter:
		fn := v.Parent()
		idx := -1
		for i, p := range fn.Params {
			if p == v {
				idx = i
			}
		}
		n := 0
		for _, caller := range w.HelmFuncs() {
			for _, c := range callInstrs(caller) {
				callee, _ := calleeOf(c.Common())
				if origin(callee) != fn || idx >= len(c.Common().Args) {
					continue
				}
				n++
				for s := range statusesAt(w, FullGraph(caller), c.Common().Args[idx], posOf(c), depth+1) {
					out[s] = true
				}
			}
		}
		if n == 0 {
			out["?"] = true
		}
	case *ssa.FreeVar:
		fn := v.Parent()
		idx := -1
		for i, fv := range fn.FreeVars {
			if fv == v {
				idx = i
			}
		}
		found := false
		if p := fn.Parent(); p != nil && idx >= 0 {
			for _, b := range p.Blocks {
				for _, in := range b.Instrs {
					if mc, ok := in.(*ssa.MakeClosure); ok && mc.Fn == fn && idx < len(mc.Bindings) {
						bv := mc.Bindings[idx]
						// captured by reference: binding is an alloc holding the pointer
						found = true
						for s := range statusesAt(w, FullGraph(p), derefBinding(bv), posOf(mc), depth+1) {
							out[s] = true
						}
					}
				}
			}
		}
		if !found {
			out["?"] = true
		}
	case *ssa.Extract:
		c, ok := v.Tuple.(*ssa.Call)
		if !ok {
			out["?"] = true
			break
		}
		for s := range resultStatuses(w, c, v.Index, depth) {
			out[s] = true
		}
	case *ssa.Call:
		for s := range resultStatuses(w, v, 0, depth) {
			out[s] = true
		}
	case *ssa.Phi:
		for _, e := range v.Edges {
			for s := range originStatuses(w, e, depth+1) {
				out[s] = true
			}
		}
	case *ssa.UnOp:
		// a parameter or local that lives in a slot because a closure captures it: what was stored there
		slot, isSlot := v.X.(*ssa.Alloc)
		n := 0
		if isSlot && v.Op == token.MUL && slot.Referrers() != nil {
			for _, rf := range *slot.Referrers() {
				if st, ok := rf.(*ssa.Store); ok && st.Addr == ssa.Value(slot) {
					n++
					for s := range originStatuses(w, st.Val, depth+1) {
						out[s] = true
					}
				}
			}
		}
		if n == 0 {
			out["?"] = true
		}
	default:
		out["?"] = true
	}
	return out
}

func derefBinding(b ssa.Value) ssa.Value { return b }

func resultStatuses(w *World, c *ssa.Call, idx int, depth int) map[string]bool {
	out := map[string]bool{}
	callee, _ := calleeOf(c.Common())
	if callee == nil || !inHelm(callee) || len(callee.Blocks) == 0 {
		out["?"] = true
		return out
	}
	g := FullGraph(callee)
	for _, b := range callee.Blocks {
		if len(b.Instrs) == 0 {
			continue
		}
		ret, ok := b.Instrs[len(b.Instrs)-1].(*ssa.Return)
		if !ok || idx >= len(ret.Results) {
			continue
		}
		rv := ret.Results[idx]
		if isNilConst(rv) {
			continue
		}
		for s := range statusesAt(w, g, rv, posOf(ret), depth+1) {
			out[s] = true
		}
	}
	if len(out) == 0 {
		out["?"] = true
	}
	return out
}

func setString(m map[string]bool) string {
	var ks []string
	for k := range m {
		ks = append(ks, k)
	}
	sort.Strings(ks)
	return "{" + strings.Join(ks, ",") + "}"
}
