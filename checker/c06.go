package main

// C06 — dry-run and template never change the cluster or the release history.

import (
	"fmt"
	"go/ast"
	"go/token"
	"go/types"
	"sort"
	"strings"

	"golang.org/x/tools/go/ssa"
)

const actionPkg = helmMod + "/pkg/action"

type opDef struct {
	Name     string
	Type     string // named type in pkg/action
	Entry    string // exported entry method
	HasOpt   bool   // has the DryRunOption string field
	Spelling []string
}

var actionOps = []opDef{
	{"install", "Install", "Install.RunWithContext", true, nil},
	{"upgrade", "Upgrade", "Upgrade.RunWithContext", true, nil},
	{"rollback", "Rollback", "Rollback.Run", false, nil},
	{"uninstall", "Uninstall", "Uninstall.Run", false, nil},
}

type modeDef struct {
	Name   string
	Fields map[string]aval
}

func dryRunModes(op opDef) []modeDef {
	ms := []modeDef{{"DryRun=true", map[string]aval{"DryRun": boolV(true)}}}
	if op.HasOpt {
		for _, s := range []string{"client", "server", "true"} {
			ms = append(ms, modeDef{"DryRunOption=" + s, map[string]aval{"DryRun": boolV(false), "DryRunOption": strV(s)}})
		}
	}
	return ms
}

func init() {
	register(&propDef{
		ID:      "C06",
		Anchors: []string{"pkg/action/install.go", "pkg/action/upgrade.go", "pkg/action/rollback.go", "pkg/action/uninstall.go", "pkg/cmd/template.go", "pkg/cmd/install.go"},
		NotDec:  []string{"the actual HTTP traffic of a run", "side effects of a user-supplied post-renderer", "cluster contact explicitly requested with --dry-run=server (lookup)"},
		Trusted: []string{"effect classification table in checker/effects.go (kube.Interface write methods, Storage writes, client-go typed clients, cli-runtime resource.Helper)"},
		Run:     runC06,
	})
}

func runC06(w *World, r *Report) {
	ef := NewEffects(w)
	r.Rule("C06/GUARDED", "no cluster-writing or storage-writing call site in the static call cone of install/upgrade/rollback/uninstall is reachable once the CFGs are specialised to a dry-run mode (each spelling)", 60)
	r.Rule("C06/FLAG-STABLE", "the dry-run fields of the operation object are not assigned anywhere in the operation's call cone", 4)
	r.Rule("C06/PREDICATE", "isDryRun() folds to true for DryRun and for each spelling client|server|true; the CLI flag validator accepts no spelling outside {client,server,true,none,false,\"\"}", 8)
	r.Rule("C06/TEMPLATE", "helm template stores DryRun=true into the install action on every path to runInstall", 1)
	r.Rule("C06/CLIENT-ONLY", "with ClientOnly, every cluster-client call in install is either unreachable or follows the replacement of the client by the printing fake and of the store by a private memory driver", 3)

	for _, op := range actionOps {
		entry := w.Fn("pkg/action", op.Entry)
		obj := w.Named(actionPkg, op.Type)
		if entry == nil || obj == nil {
			r.Unk("C06/GUARDED", op.Name+"/anchor", "-", "cannot resolve "+op.Entry)
			continue
		}
		full := WalkCone(w, ef, entry, func(f *ssa.Function) *Graph { return FullGraph(f) }, WCluster|WStore)
		for f := range full.Funcs {
			r.Fn(FuncName(f))
		}
		sortSites(full.Sites)
		if len(full.Sites) == 0 {
			r.Unk("C06/GUARDED", op.Name+"/no-sites", w.Pos(entry.Pos()), "no write site found in the cone of "+op.Entry+": the effect table lost its subjects")
		}
		for _, m := range dryRunModes(op) {
			spec := NewSpec(w, obj, m.Name, m.Fields)
			sc := WalkCone(w, ef, entry, spec.Graph, WCluster|WStore)
			live := map[ssa.Instruction]ConeSite{}
			for _, s := range sc.Sites {
				live[s.Instr] = s
			}
			for _, s := range full.Sites {
				key := fmt.Sprintf("%s/%s/%s", op.Name, m.Name, siteKey(s.Site))
				if ls, bad := live[s.Instr]; bad {
					r.Bad("C06/GUARDED", key, w.InstrPos(s.Instr), fmt.Sprintf("%s site %s is reachable with %s via %s", s.Eff, describeCall(s.Common()), m.Name, ls.ChainString()))
				} else {
					r.OK("C06/GUARDED", key, w.InstrPos(s.Instr), fmt.Sprintf("%s site unreachable after specialising %s to %s (cone of %d functions)", s.Eff, op.Entry, m.Name, len(sc.Funcs)))
				}
			}
		}
		// flag stability
		spec := NewSpec(w, obj, "", nil)
		fields := []string{"DryRun"}
		if op.HasOpt {
			fields = append(fields, "DryRunOption")
		}
		for _, f := range fields {
			sts := storesToField(full.Funcs, spec, f)
			key := op.Name + "/" + f
			if len(sts) == 0 {
				r.OK("C06/FLAG-STABLE", key, w.Pos(entry.Pos()), fmt.Sprintf("no store to %s.%s in the %d functions of the cone", op.Type, f, len(full.Funcs)))
			} else {
				r.Bad("C06/FLAG-STABLE", key, w.InstrPos(sts[0]), fmt.Sprintf("%s.%s is assigned inside the operation (%s): the dry-run guard may not hold for the whole run", op.Type, f, FuncName(sts[0].Parent())))
			}
		}
		// a second object of the mode type must not be created in the cone (the specialisation is by type)
		for f := range full.Funcs {
			for _, b := range f.Blocks {
				for _, in := range b.Instrs {
					if a, ok := in.(*ssa.Alloc); ok {
						if p, ok := a.Type().(*types.Pointer); ok && types.Identical(p.Elem(), obj) {
							r.Unk("C06/FLAG-STABLE", op.Name+"/second-object/"+FuncName(f), w.InstrPos(in), "a second "+op.Type+" object is created inside the operation; specialisation by type is not sound for it")
						}
					}
				}
			}
		}
		// predicate
		if op.HasOpt {
			pred := w.Fn("pkg/action", op.Type+".isDryRun")
			if pred == nil {
				r.Unk("C06/PREDICATE", op.Name+"/anchor", "-", "no isDryRun predicate on "+op.Type)
			} else {
				for _, m := range dryRunModes(op) {
					r.Check(predicateFolds(w, obj, pred, m, true), "C06/PREDICATE", op.Name+"/"+m.Name, w.Pos(pred.Pos()),
						"isDryRun() folds to true under "+m.Name, "isDryRun() does not fold to true under "+m.Name+": that spelling would be treated as a real run")
				}
			}
		}
	}
	r.Rule("C06/WIRING", "the dry-run options are never fed from a differently named option, and upgrade --install carries DryRun and DryRunOption over to the install it starts", 3)
	checkWiring(w, r, "C06/WIRING", map[string]bool{"DryRun": true, "DryRunOption": true, "ClientOnly": true})
	checkCarried(w, r, "C06/WIRING", []string{"DryRun", "DryRunOption"})
	checkFlagBinding(w, r, "C06/WIRING", map[string]bool{"DryRun": true, "DryRunOption": true, "ClientOnly": true})
	c06Validator(w, r)
	c06Template(w, r)
	c06ClientOnly(w, r, ef)
	c06CmdKeepsDryRun(w, r)
}

// predicateFolds: all feasible returns of pred evaluate to the wanted constant under the mode.
func predicateFolds(w *World, obj *types.Named, pred *ssa.Function, m modeDef, want bool) bool {
	spec := NewSpec(w, obj, m.Name, m.Fields)
	g := spec.Graph(pred)
	ev := &evaluator{s: spec, fn: pred, feasible: map[Edge]bool{}, reach: g.Reachable(), memo: map[ssa.Value]aval{}}
	for _, b := range pred.Blocks {
		for i := range b.Succs {
			if !g.Dead[Edge{From: b, Succ: i}] {
				ev.feasible[Edge{From: b, Succ: i}] = true
			}
		}
	}
	n := 0
	for _, b := range pred.Blocks {
		if !g.Reachable()[b] || len(b.Instrs) == 0 {
			continue
		}
		if ret, ok := b.Instrs[len(b.Instrs)-1].(*ssa.Return); ok {
			n++
			v := ev.eval(ret.Results[0], 0)
			if !v.isBool() || v.b != want {
				return false
			}
		}
	}
	return n > 0
}

// c06Validator: the CLI validator's accepted spellings ⊆ {client,server,true} ∪ {none,false,""}.
func c06Validator(w *World, r *Report) {
	fn := w.Fn("pkg/cmd", "validateDryRunOptionFlag")
	if fn == nil {
		r.Unk("C06/PREDICATE", "validator/anchor", "-", "pkg/cmd.validateDryRunOptionFlag not found")
		return
	}
	// collect string constants of composite literal []string in the function's syntax
	var lits []string
	if fd, ok := fn.Syntax().(*ast.FuncDecl); ok {
		ast.Inspect(fd, func(n ast.Node) bool {
			if cl, ok := n.(*ast.CompositeLit); ok {
				if at, ok := cl.Type.(*ast.ArrayType); ok {
					if id, ok := at.Elt.(*ast.Ident); ok && id.Name == "string" {
						for _, e := range cl.Elts {
							if bl, ok := e.(*ast.BasicLit); ok {
								lits = append(lits, strings.Trim(bl.Value, "\"`"))
							}
						}
					}
				}
			}
			return true
		})
	}
	// the table may also live in a package-level variable, or be handed to slices.Contains
	if len(lits) == 0 {
		seenTbl := map[ssa.Value]bool{}
		addTbl := func(v ssa.Value) {
			if seenTbl[v] {
				return
			}
			seenTbl[v] = true
			if el, ok := constStringSlice(w, v); ok {
				lits = append(lits, el...)
			}
		}
		for _, b := range fn.Blocks {
			for _, in := range b.Instrs {
				switch x := in.(type) {
				case *ssa.IndexAddr:
					addTbl(x.X)
				case *ssa.Call:
					if f, _ := calleeOf(x.Common()); f != nil && fnPkgPath(f) == "slices" && genericName(f) == "Contains" && len(x.Call.Args) == 2 {
						addTbl(x.Call.Args[0])
					}
				}
			}
		}
	}
	sort.Strings(lits)
	if len(lits) == 0 {
		r.Unk("C06/PREDICATE", "validator/table", w.Pos(fn.Pos()), "no literal table of accepted --dry-run spellings found")
		return
	}
	// the table is the only way to be accepted: every success return lies behind "the flag value equals an
	// element of the table" (a comparison in a loop over the table, or slices.Contains on it)
	g := FullGraph(fn)
	var match []Edge
	param := ssa.Value(fn.Params[0])
	for _, b := range fn.Blocks {
		for _, in := range b.Instrs {
			switch x := in.(type) {
			case *ssa.BinOp:
				if x.Op != token.EQL && x.Op != token.NEQ {
					continue
				}
				other := x.Y
				if x.Y == param {
					other = x.X
				} else if x.X != param {
					continue
				}
				isTable := false
				if ld, ok := other.(*ssa.UnOp); ok && ld.Op == token.MUL {
					if ia, ok := ld.X.(*ssa.IndexAddr); ok {
						_, isTable = constStringSlice(w, ia.X)
					}
				}
				_, isConst := constString(other)
				if !isTable && !isConst {
					continue
				}
				for _, e := range condEdges(x) {
					if e.truth == (x.Op == token.EQL) {
						match = append(match, e.Edge)
					}
				}
			case *ssa.Call:
				if f, _ := calleeOf(x.Common()); f != nil && fnPkgPath(f) == "slices" && genericName(f) == "Contains" && len(x.Call.Args) == 2 && x.Call.Args[1] == param {
					if _, ok := constStringSlice(w, x.Call.Args[0]); ok {
						for _, e := range condEdges(x) {
							if e.truth {
								match = append(match, e.Edge)
							}
						}
					}
				}
			}
		}
	}
	onlyTable := len(match) > 0
	for _, rp := range g.classifyReturns() {
		if rp.Class != RetSuccess {
			continue
		}
		if ex, _ := g.PathExists(entryPos(fn), retPos(rp), Avoid{}.withEdges(match...)); ex {
			onlyTable = false
		}
	}
	r.Check(onlyTable, "C06/PREDICATE", "validator/only-the-table", w.Pos(fn.Pos()), "a value is accepted only when it equals an element of the literal table", "the validator can accept a value that is not in its literal table (another acceptance path): such a spelling is not recognised by isDryRun() and a real run happens")
	real := map[string]bool{"none": true, "false": true, "": true}
	dry := map[string]bool{"client": true, "server": true, "true": true}
	for _, l := range lits {
		key := "validator/spelling:" + l
		switch {
		case dry[l]:
			r.OK("C06/PREDICATE", key, w.Pos(fn.Pos()), "accepted spelling is one isDryRun() recognises")
		case real[l]:
			r.OKTrivial("C06/PREDICATE", key, w.Pos(fn.Pos()), "spelling that explicitly requests a real run")
		default:
			r.Bad("C06/PREDICATE", key, w.Pos(fn.Pos()), "the CLI accepts --dry-run="+l+" but isDryRun() is not checked for it")
		}
	}
}

// c06Template: in pkg/cmd newTemplateCmd's RunE closure, a store of true into client.DryRun
// dominates the call to runInstall.
func c06Template(w *World, r *Report) {
	run := w.Fn("pkg/cmd", "runInstall")
	inst := w.Named(actionPkg, "Install")
	if run == nil || inst == nil {
		r.Unk("C06/TEMPLATE", "anchor", "-", "runInstall / action.Install not found")
		return
	}
	outer := w.Fn("pkg/cmd", "newTemplateCmd")
	if outer == nil {
		r.Unk("C06/TEMPLATE", "anchor", "-", "newTemplateCmd not found")
		return
	}
	spec := NewSpec(w, inst, "", nil)
	found := 0
	for _, fn := range withAnon(outer) {
		for _, s := range SitesOf([]*ssa.Function{fn}, run.Object().(*types.Func)) {
			found++
			g := FullGraph(fn)
			// stores of true to DryRun
			var stores []ssa.Instruction
			for _, st := range storesToField(map[*ssa.Function]bool{fn: true}, spec, "DryRun") {
				if b, ok := constBool(st.Val); ok && b {
					stores = append(stores, st)
				}
			}
			ok := false
			if len(stores) > 0 {
				ok, _ = g.MustPass(s.At, avoidInstrs(stores...))
			}
			// and no store of a non-true value between
			r.Check(ok, "C06/TEMPLATE", FuncName(fn)+"/call:runInstall", w.InstrPos(s.Instr),
				"client.DryRun = true dominates the call of runInstall", "some path reaches runInstall without client.DryRun = true")
		}
	}
	if found == 0 {
		r.Unk("C06/TEMPLATE", "no-call", w.Pos(outer.Pos()), "helm template no longer calls runInstall: rule lost its subject")
	}
}

// c06ClientOnly: specialise install with ClientOnly=true; every kube.Interface invocation that is
// still reachable in RunWithContext must be dominated by the store cfg.KubeClient = <printing fake>,
// every storage access by the store cfg.Releases = storage.Init(driver.NewMemory()).
func c06ClientOnly(w *World, r *Report, ef *Effects) {
	entry := w.Fn("pkg/action", "Install.RunWithContext")
	obj := w.Named(actionPkg, "Install")
	cfgT := w.Named(actionPkg, "Configuration")
	if entry == nil || obj == nil || cfgT == nil {
		r.Unk("C06/CLIENT-ONLY", "anchor", "-", "Install.RunWithContext / Configuration not found")
		return
	}
	for _, m := range []modeDef{
		{"ClientOnly+DryRun", map[string]aval{"ClientOnly": boolV(true), "DryRun": boolV(true)}},
	} {
		spec := NewSpec(w, obj, m.Name, m.Fields)
		g := spec.Graph(entry)
		cfgSpec := NewSpec(w, cfgT, "", nil)
		fns := map[*ssa.Function]bool{entry: true}
		find := func(field string) []ssa.Instruction {
			var out []ssa.Instruction
			for _, st := range storesToField(fns, cfgSpec, field) {
				if g.Reachable()[st.Block()] {
					out = append(out, st)
				}
			}
			return out
		}
		kcStores := find("KubeClient")
		relStores := find("Releases")
		// the stored client must be a type of pkg/kube/fake whose methods perform no cluster effect
		for _, st := range kcStores {
			ok, why := fakeClientValue(w, ef, st.(*ssa.Store).Val)
			r.Check(ok, "C06/CLIENT-ONLY", "install/replacement-client", w.InstrPos(st), "cfg.KubeClient is replaced by "+why, "cfg.KubeClient is replaced by "+why)
		}
		for _, st := range relStores {
			ok, why := memoryStoreValue(w, st.(*ssa.Store).Val)
			r.Check(ok, "C06/CLIENT-ONLY", "install/replacement-store", w.InstrPos(st), "cfg.Releases is replaced by "+why, "cfg.Releases is replaced by "+why)
		}
		if len(kcStores) == 0 {
			r.Bad("C06/CLIENT-ONLY", "install/replacement-client", w.Pos(entry.Pos()), "under ClientOnly no store to cfg.KubeClient is reachable in RunWithContext")
		}
		if len(relStores) == 0 {
			r.Bad("C06/CLIENT-ONLY", "install/replacement-store", w.Pos(entry.Pos()), "under ClientOnly no store to cfg.Releases is reachable in RunWithContext")
		}
		// sites in the entry function (callee effects summarised)
		for _, s := range ef.EffectSites(entry, WCluster|RCluster|WStore|RStore) {
			if !g.Reachable()[s.At.B] {
				continue
			}
			e := SpecCallEffect(w, ef, spec.Graph, s.Common(), WCluster|RCluster|WStore|RStore)
			if e == 0 {
				continue
			}
			key := fmt.Sprintf("install/%s/%s", m.Name, siteKey(s))
			okC, okS := true, true
			if e&(WCluster|RCluster) != 0 {
				okC, _ = g.MustPass(s.At, avoidInstrs(kcStores...))
				okC = okC && len(kcStores) > 0
			}
			if e&(WStore|RStore) != 0 {
				okS, _ = g.MustPass(s.At, avoidInstrs(relStores...))
				okS = okS && len(relStores) > 0
			}
			if okC && okS {
				r.OK("C06/CLIENT-ONLY", key, w.InstrPos(s.Instr), fmt.Sprintf("%s site follows the client/store replacement on every ClientOnly path", e))
			} else {
				r.Bad("C06/CLIENT-ONLY", key, w.InstrPos(s.Instr), fmt.Sprintf("%s site %s is reachable under ClientOnly before the real client/store is replaced", e, describeCall(s.Common())))
			}
		}
	}
}

// fakeClientValue: v is &T{…} (or T) with T declared in pkg/kube/fake and none of T's methods having a cluster effect.
func fakeClientValue(w *World, ef *Effects, v ssa.Value) (bool, string) {
	if mi, ok := v.(*ssa.MakeInterface); ok {
		v = mi.X
	}
	t := v.Type()
	if p, ok := t.(*types.Pointer); ok {
		t = p.Elem()
	}
	n, ok := t.(*types.Named)
	if !ok || n.Obj().Pkg() == nil {
		return false, "a value of unnamed type " + t.String()
	}
	name := n.Obj().Pkg().Path() + "." + n.Obj().Name()
	if n.Obj().Pkg().Path() != helmMod+"/pkg/kube/fake" {
		return false, name + " (not a fake client)"
	}
	ms := w.Prog.MethodSets.MethodSet(types.NewPointer(n))
	for i := 0; i < ms.Len(); i++ {
		f := w.Prog.MethodValue(ms.At(i))
		if f == nil {
			continue
		}
		if e := ef.May(f) & (WCluster | RCluster); e != 0 {
			return false, name + " whose method " + f.Name() + " has effect " + e.String()
		}
	}
	return true, strings.TrimPrefix(name, helmMod+"/") + " (no method reaches a cluster call)"
}

// memoryStoreValue: v is the result of storage.Init(x) where x comes from driver.NewMemory().
func memoryStoreValue(w *World, v ssa.Value) (bool, string) {
	c, ok := v.(*ssa.Call)
	if !ok {
		return false, "a value that is not a storage.Init(...) call"
	}
	f, _ := calleeOf(c.Common())
	if f == nil || FuncName(f) != "pkg/storage.Init" {
		return false, "a value that is not a storage.Init(...) call"
	}
	a := c.Call.Args[0]
	if mi, ok := a.(*ssa.MakeInterface); ok {
		a = mi.X
	}
	if ac, ok := a.(*ssa.Call); ok {
		if g, _ := calleeOf(ac.Common()); g != nil && FuncName(g) == "pkg/storage/driver.NewMemory" {
			return true, "storage.Init(driver.NewMemory())"
		}
	}
	return false, "storage.Init of something other than a fresh driver.NewMemory()"
}

// c06CmdKeepsDryRun: the command layer may force a dry run on (helm template), never off: once the
// flag was parsed into the action, nothing in pkg/cmd assigns the constant false to it.
func c06CmdKeepsDryRun(w *World, r *Report) {
	r.Rule("C06/CMD-KEEPS-DRY-RUN", "nothing in pkg/cmd assigns the constant false to the DryRun field of an action (a helper that borrows the flag puts back what it found)", 1)
	n, total := 0, 0
	for _, fn := range w.HelmFuncs() {
		if !strings.HasSuffix(fnPkgPath(fn), "/pkg/cmd") || strings.HasSuffix(w.FileOf(fn), "_test.go") {
			continue
		}
		total++
		for _, b := range fn.Blocks {
			for _, in := range b.Instrs {
				st, ok := in.(*ssa.Store)
				if !ok {
					continue
				}
				p, t, f := fieldNameOf(st.Addr)
				if p != actionPkg || f != "DryRun" {
					continue
				}
				if cb, isC := constBool(st.Val); isC && !cb {
					n++
					r.Bad("C06/CMD-KEEPS-DRY-RUN", fmt.Sprintf("%s/%s.DryRun#%d", FuncName(fn), t, n), w.InstrPos(st), "pkg/cmd assigns false to "+t+".DryRun: a --dry-run given on the command line is switched off for what runs afterwards")
				}
			}
		}
	}
	if n == 0 {
		r.OK("C06/CMD-KEEPS-DRY-RUN", "none", "-", fmt.Sprintf("%d functions of pkg/cmd scanned, none assigns false to a DryRun field", total))
	}
}
