package main

// C07 — Helm never takes over or deletes resources it does not own (structural part).

import (
	"fmt"
	"go/token"
	"go/types"
	"sort"
	"strings"

	"golang.org/x/tools/go/ssa"
)

func init() {
	register(&propDef{
		ID:      "C07",
		Anchors: []string{"pkg/action/validate.go", "pkg/action/install.go", "pkg/action/upgrade.go", "pkg/kube/client.go"},
		NotDec:  []string{"behaviour against real pre-existing objects (label/annotation values at run time)", "that the API server applies the stamped metadata"},
		Run:     runC07,
	})
}

func runC07(w *World, r *Report) {
	ef := NewEffects(w)
	r.Rule("C07/CHECK-FIRST", "in install and upgrade the ownership pre-flight (existingResourceConflict, or requireAdoption only under TakeOwnership) on the to-be-created resources precedes, through its ok-edge, Storage.Create and every cluster or storage write on release resources; it is bypassed only on the edge where the list is empty", 8)
	r.Rule("C07/CHECK-ARGS", "the pre-flight is given the new record's Name and Namespace unchanged, and forwards them unchanged to the ownership test", 3)
	r.Rule("C07/CHECK-CONTENT", "the ownership test compares the managed-by label and both release annotations against its parameters, each comparison precedes every success return and its failure is recorded", 3)
	r.Rule("C07/DIFF-BASE", "in upgrade the resource lists are built only from the manifests of the two records handed to the performer (the deployed revision and the new one), never from another stored revision", 2)
	r.Rule("C07/STAMPED", "the manifest resource list of the new revision is stamped with setMetadataVisitor(record.Name, record.Namespace) before any cluster write in install, upgrade and rollback", 3)
	r.Rule("C07/DELETE-PROVENANCE", "every list handed to a cluster Delete in pkg/action derives from a release/hook manifest of the operation, from the Created field of this operation's own update result, or (recreate) from its Updated field", 5)

	r.Rule("C07/WIRING", "TakeOwnership is never fed from a differently named option and upgrade --install carries it over", 2)
	checkWiring(w, r, "C07/WIRING", map[string]bool{"TakeOwnership": true})
	checkCarried(w, r, "C07/WIRING", []string{"TakeOwnership"})
	checkFlagBinding(w, r, "C07/WIRING", map[string]bool{"TakeOwnership": true})
	c07CheckFirst(w, r, ef)
	c07CheckContent(w, r)
	c07Preflight(w, r)
	c07IdentityKey(w, r)
	c07PatchNeedsOriginal(w, r)
	c07Stamped(w, r, ef)
	c07DeleteProv(w, r, ef)
	r.Rule("C07/LOOKUP-IDENTITY", "every lookup of a live object (resource.Helper.Get) in pkg/action and pkg/kube uses the Namespace and Name of the resource.Info it belongs to", 5)
	c07LookupIdentity(w, r, "C07/LOOKUP-IDENTITY")
	c07StampWins(w, r)
	r.Rule("C07/CREATE-ERROR-KEPT", "a non-nil error of the cluster create (resource.Helper.Create in pkg/kube) is handed back: no classification of it (AlreadyExists, …) leads to a return that reports something else", 1)
	c07CreateErrorKept(w, r, "C07/CREATE-ERROR-KEPT")
}

func lenZeroBypassEdges(fn *ssa.Function, list ssa.Value) []Edge {
	empty, _ := emptyEdges(fn, func(v ssa.Value) bool { return sameValue(v, list) })
	return empty
}

func c07CheckFirst(w *World, r *Report, ef *Effects) {
	erc := w.Fn("pkg/action", "existingResourceConflict")
	adopt := w.Fn("pkg/action", "requireAdoption")
	own := w.Fn("pkg/action", "checkOwnership")
	if erc == nil || adopt == nil || own == nil {
		r.Unk("C07/CHECK-FIRST", "anchor", "-", "existingResourceConflict / requireAdoption / checkOwnership not found in pkg/action")
		return
	}
	for _, op := range []opDef{actionOps[0], actionOps[1]} {
		for _, take := range []bool{false, true} {
			extra := map[string]aval{"TakeOwnership": boolV(take)}
			if op.Name == "install" {
				extra["ClientOnly"] = boolV(false)
			}
			o := newOpCtx(w, ef, op, extra)
			if o == nil {
				r.Unk("C07/CHECK-FIRST", op.Name+"/anchor", "-", "operation not resolved")
				continue
			}
			fns, _, leaf := o.creatorChain()
			if leaf == nil {
				r.Unk("C07/CHECK-FIRST", op.Name+"/no-create", "-", "no Storage.Create")
				continue
			}
			F := fns[len(fns)-1]
			g := o.real.Graph(F)
			r.Fn(FuncName(F))
			mode := fmt.Sprintf("%s/TakeOwnership=%v", op.Name, take)
			var check ssa.CallInstruction
			for _, c := range callInstrs(F) {
				f, _ := calleeOf(c.Common())
				if f == nil || !g.Reachable()[c.Block()] {
					continue
				}
				if origin(f) == erc {
					if take {
						r.Bad("C07/CHECK-FIRST", mode+"/wrong-arm", w.InstrPos(c), "existingResourceConflict is reachable under TakeOwnership")
					}
					check = c
				}
				if origin(f) == adopt {
					if !take {
						r.Bad("C07/CHECK-FIRST", mode+"/wrong-arm", w.InstrPos(c), "requireAdoption (no ownership test) is reachable without TakeOwnership")
					} else {
						check = c
					}
				}
			}
			// the pre-flight chosen first and called through a function value:
			//   find := func(l) { return existingResourceConflict(l, name, ns) }; if take { find = requireAdoption }; find(list)
			var viaClosure *ssa.MakeClosure // the wrapper through which existingResourceConflict is reached (CHECK-ARGS looks inside)
			if check == nil {
				for _, c := range callInstrs(F) {
					if c.Common().IsInvoke() || c.Common().StaticCallee() != nil || !g.Reachable()[c.Block()] {
						continue
					}
					phi, isPhi := c.Common().Value.(*ssa.Phi)
					var vals []ssa.Value
					var preds []*ssa.BasicBlock
					if isPhi {
						for i, e := range phi.Edges {
							vals = append(vals, e)
							preds = append(preds, phi.Block().Preds[i])
						}
					} else {
						vals = append(vals, c.Common().Value)
						preds = append(preds, nil)
					}
					for i, v := range vals {
						if preds[i] != nil && (!g.Reachable()[preds[i]] || !g.edgeFeasible(preds[i], phi.Block())) {
							continue
						}
						var target *ssa.Function
						var mc *ssa.MakeClosure
						switch x := v.(type) {
						case *ssa.Function:
							target = x
						case *ssa.MakeClosure:
							mc = x
							if cf, ok := x.Fn.(*ssa.Function); ok {
								for _, ic := range callInstrs(cf) {
									if f, _ := calleeOf(ic.Common()); f != nil && (origin(f) == erc || origin(f) == adopt) {
										target = f
									}
								}
							}
						}
						if target == nil {
							continue
						}
						switch origin(target) {
						case erc:
							if take {
								r.Bad("C07/CHECK-FIRST", mode+"/wrong-arm", w.InstrPos(c), "existingResourceConflict is reachable under TakeOwnership")
							}
							check = c
							viaClosure = mc
						case adopt:
							if !take {
								r.Bad("C07/CHECK-FIRST", mode+"/wrong-arm", w.InstrPos(c), "requireAdoption (no ownership test) is reachable without TakeOwnership")
							} else {
								check = c
							}
						}
					}
				}
			}
			if check == nil {
				r.Bad("C07/CHECK-FIRST", mode+"/no-check", w.Pos(F.Pos()), "no ownership pre-flight call is reachable in "+FuncName(F))
				continue
			}
			list := check.Common().Args[0]
			guard := append(okEdgesOfCall(check), lenZeroBypassEdges(F, list)...)
			after := func(to IPos) bool {
				ex, _ := g.PathExists(entryPos(F), to, Avoid{}.withEdges(guard...))
				return !ex
			}
			r.Check(after(posOf(leaf)), "C07/CHECK-FIRST", mode+"/before-record", w.InstrPos(leaf), "Storage.Create of the new record is reached only after the ownership pre-flight succeeded (or the list was empty)", "the new record can be created without the ownership pre-flight having succeeded")
			for _, c := range callInstrs(F) {
				if c == check || c == leaf || !g.Reachable()[c.Block()] {
					continue
				}
				e := SpecCallEffect(w, ef, o.real.Graph, c.Common(), WCluster|WStore)
				if e == 0 {
					continue
				}
				isRel, what := derivesFromRelease(c.Common().Args)
				key := fmt.Sprintf("%s/%s", mode, siteKey(Site{F, c, posOf(c)}))
				if !isRel {
					r.OKTrivial("C07/CHECK-FIRST", key, w.InstrPos(c), "write on objects outside the release manifest (CRDs / namespace)")
					continue
				}
				r.Check(after(posOf(c)), "C07/CHECK-FIRST", key, w.InstrPos(c), fmt.Sprintf("%s on %s follows the ownership pre-flight", e, what), fmt.Sprintf("%s on %s (%s) can happen before the ownership pre-flight succeeded: a refused operation would not leave cluster and history unchanged", e, what, describeCall(c.Common())))
			}
			// CHECK-ARGS at the call: name/namespace are the new record's fields
			if !take && viaClosure != nil {
				// the name and namespace are handed over inside the wrapper: fields of the captured new record
				rel := leaf.Common().Args[1]
				okN, okNS := false, false
				if cf, ok := viaClosure.Fn.(*ssa.Function); ok {
					for _, ic := range callInstrs(cf) {
						if f, _ := calleeOf(ic.Common()); f == nil || origin(f) != erc || len(ic.Common().Args) < 3 {
							continue
						}
						capt := func(v ssa.Value, field string) bool {
							ld, ok := v.(*ssa.UnOp)
							if !ok {
								return false
							}
							fa, ok := ld.X.(*ssa.FieldAddr)
							if !ok || !isFieldOf(fa, relPkg, "Release", field) {
								return false
							}
							base := fa.X
							if l2, ok := base.(*ssa.UnOp); ok { // captured by reference: *freevar
								base = l2.X
							}
							fv, ok := base.(*ssa.FreeVar)
							if !ok {
								return false
							}
							for k, x := range cf.FreeVars {
								if x == fv && k < len(viaClosure.Bindings) {
									b := viaClosure.Bindings[k]
									if sameValue(b, rel) {
										return true
									}
									if rl, ok := rel.(*ssa.UnOp); ok && rl.Op == token.MUL && rl.X == b {
										return true // the record lives in the captured slot itself
									}
									// bound slot holding the record
									if al, ok := b.(*ssa.Alloc); ok && al.Referrers() != nil {
										for _, rf := range *al.Referrers() {
											if st, ok := rf.(*ssa.Store); ok && st.Addr == ssa.Value(al) && sameValue(st.Val, rel) {
												return true
											}
										}
									}
								}
							}
							return false
						}
						okN = capt(ic.Common().Args[1], "Name")
						okNS = capt(ic.Common().Args[2], "Namespace")
					}
				}
				r.Check(okN && okNS, "C07/CHECK-ARGS", mode+"/call", w.InstrPos(check), "the pre-flight receives the new record's Name and Namespace", "the pre-flight is not given the new record's own Name and Namespace")
			} else if !take {
				rel := leaf.Common().Args[1]
				okN := fieldLoadOfValue(check.Common().Args[1], "Name", rel)
				okNS := fieldLoadOfValue(check.Common().Args[2], "Namespace", rel)
				r.Check(okN && okNS, "C07/CHECK-ARGS", mode+"/call", w.InstrPos(check), "the pre-flight receives the new record's Name and Namespace", "the pre-flight is not given the new record's own Name and Namespace")
			}
			// DIFF-BASE (upgrade)
			if op.Name == "upgrade" && !take {
				c07DiffBase(w, r, F, g)
			}
		}
	}
	// forwarding inside existingResourceConflict: checkOwnership(existing, releaseName, releaseNamespace) gets the parameters themselves
	n := 0
	for _, fn := range withAnon(erc) {
		for _, c := range callInstrs(fn) {
			f, _ := calleeOf(c.Common())
			if f == nil || origin(f) != own {
				continue
			}
			n++
			a1 := resolveToParam(c.Common().Args[1])
			a2 := resolveToParam(c.Common().Args[2])
			ok := a1 == ssa.Value(erc.Params[1]) && a2 == ssa.Value(erc.Params[2])
			r.Check(ok, "C07/CHECK-ARGS", "existingResourceConflict/forward", w.InstrPos(c), "release name and namespace reach the ownership test unchanged", "the ownership test is not given the caller's release name and namespace unchanged (a substituted value weakens the comparison)")
		}
	}
	if n == 0 {
		r.Bad("C07/CHECK-ARGS", "existingResourceConflict/forward", w.Pos(erc.Pos()), "existingResourceConflict no longer calls the ownership test")
	}
}

// fieldLoadOfValue: v is a load of rel.<field> (rel a *release.Release).
func fieldLoadOfValue(v ssa.Value, field string, rel ssa.Value) bool {
	ld, ok := v.(*ssa.UnOp)
	if !ok || ld.Op != token.MUL {
		return false
	}
	fa, ok := ld.X.(*ssa.FieldAddr)
	if !ok || !isFieldOf(fa, relPkg, "Release", field) {
		return false
	}
	return sameValue(fa.X, rel)
}

// resolveToParam follows a closure free variable (captured by value or by reference) to the
// enclosing function's parameter.
func resolveToParam(v ssa.Value) ssa.Value {
	for d := 0; d < 4; d++ {
		switch x := v.(type) {
		case *ssa.Parameter:
			return x
		case *ssa.UnOp:
			if x.Op != token.MUL {
				return v
			}
			v = x.X
		case *ssa.FreeVar:
			fn := x.Parent()
			idx := -1
			for i, fv := range fn.FreeVars {
				if fv == x {
					idx = i
				}
			}
			p := fn.Parent()
			var b ssa.Value
			for _, blk := range p.Blocks {
				for _, in := range blk.Instrs {
					if mc, ok := in.(*ssa.MakeClosure); ok && mc.Fn == fn {
						b = mc.Bindings[idx]
					}
				}
			}
			if b == nil {
				return v
			}
			v = b
		case *ssa.Alloc:
			var stored []ssa.Value
			for _, rf := range *x.Referrers() {
				if st, ok := rf.(*ssa.Store); ok && st.Addr == x {
					stored = append(stored, st.Val)
				}
			}
			if len(stored) != 1 {
				return v
			}
			v = stored[0]
		default:
			return v
		}
	}
	return v
}

func c07DiffBase(w *World, r *Report, F *ssa.Function, g *Graph) {
	build := w.TFunc(kubePkg, "Interface.Build")
	n := 0
	for _, s := range SitesOf([]*ssa.Function{F}, build) {
		if !g.Reachable()[s.At.B] {
			continue
		}
		n++
		srcs := map[string]bool{}
		backSlice(s.Common().Args[0], func(v ssa.Value) bool {
			switch v := v.(type) {
			case *ssa.Parameter:
				if isReleasePtr(v.Type()) {
					srcs["parameter "+v.Name()] = true
					return true
				}
			case *ssa.Call:
				f, tf := calleeOf(v.Common())
				if (f != nil && strings.Contains(FuncName(f), "pkg/storage")) || (tf != nil && tf.Pkg() != nil && strings.Contains(tf.Pkg().Path(), "pkg/storage")) {
					srcs["storage lookup "+describeCall(v.Common())] = true
					return true
				}
			}
			return false
		})
		var list []string
		bad := false
		for sname := range srcs {
			list = append(list, sname)
			if !strings.HasPrefix(sname, "parameter ") {
				bad = true
			}
		}
		sort.Strings(list)
		r.Check(!bad && len(list) == 1, "C07/DIFF-BASE", fmt.Sprintf("%s/Build#%d", FuncName(F), n), w.InstrPos(s.Instr),
			"resource list built from the manifest of "+strings.Join(list, ","), "resource list may be built from "+strings.Join(list, ",")+": the set of 'already owned' resources must come from the deployed revision handed to the performer only")
	}
}

func c07CheckContent(w *World, r *Report) {
	own := w.Fn("pkg/action", "checkOwnership")
	if own == nil {
		return
	}
	r.Fn(FuncName(own))
	g := FullGraph(own)
	want := map[string]int{"app.kubernetes.io/managed-by": 0, "meta.helm.sh/release-name": 1, "meta.helm.sh/release-namespace": 2}
	seen := map[string]bool{}
	for _, c := range callInstrs(own) {
		f, _ := calleeOf(c.Common())
		if f == nil || !inHelm(f) || len(c.Common().Args) != 3 {
			continue
		}
		key, ok := constString(c.Common().Args[1])
		if !ok {
			continue
		}
		idx, wanted := want[key]
		if !wanted {
			continue
		}
		seen[key] = true
		okAll := true
		why := ""
		// expected value
		if idx == 0 {
			if s, ok := constString(c.Common().Args[2]); !ok || s != "Helm" {
				okAll, why = false, "managed-by is not compared with the constant Helm"
			}
		} else if c.Common().Args[2] != ssa.Value(own.Params[idx]) {
			okAll, why = false, "the annotation is not compared with the function's parameter"
		}
		// dominates every success return
		for _, rp := range g.classifyReturns() {
			if rp.Class != RetSuccess {
				continue
			}
			if !g.DominatesInstr(c, retPos(rp)) {
				okAll, why = false, "a success return is reachable without this comparison"
			}
		}
		// its failure is recorded: the bad-edge block appends to a slice or returns an error
		_, bad := nilTestEdges(errResult(c))
		rec := false
		for _, e := range bad {
			for _, in := range e.To().Instrs {
				if cc, ok := in.(*ssa.Call); ok {
					if bi, ok := cc.Call.Value.(*ssa.Builtin); ok && bi.Name() == "append" {
						rec = true
					}
				}
				if _, ok := in.(*ssa.Return); ok {
					rec = true
				}
			}
		}
		if !rec {
			okAll, why = false, "a mismatch is not recorded"
		}
		r.Check(okAll, "C07/CHECK-CONTENT", "checkOwnership/"+key, w.InstrPos(c), "compared on every path to success, mismatch recorded", why)
	}
	for key := range want {
		if !seen[key] {
			r.Bad("C07/CHECK-CONTENT", "checkOwnership/"+key, w.Pos(own.Pos()), "the ownership test no longer compares "+key)
		}
	}
	// the final decision: success return only where the mismatch list is empty — the len(errs) > 0 test dominates the success return
	for i, rp := range g.classifyReturns() {
		if rp.Class != RetSuccess {
			continue
		}
		guarded := false
		empty, _ := emptyEdges(own, func(v ssa.Value) bool {
			_, isSlice := v.Type().Underlying().(*types.Slice)
			return isSlice
		})
		for _, e := range empty {
			// the return is reached only over an edge on which the mismatch list is empty
			if ex, _ := g.PathExists(entryPos(own), retPos(rp), Avoid{}.withEdges(e)); !ex {
				guarded = true
			}
		}
		if !guarded && len(empty) > 0 {
			if ex, _ := g.PathExists(entryPos(own), retPos(rp), Avoid{}.withEdges(empty...)); !ex {
				guarded = true
			}
		}
		r.Check(guarded, "C07/CHECK-CONTENT", fmt.Sprintf("checkOwnership/success-return#%d", i), w.InstrPos(rp.Ret), "success is returned only on the edge where no mismatch was recorded", "success can be returned although mismatches were recorded")
	}
}

func c07Stamped(w *World, r *Report, ef *Effects) {
	smv := w.Fn("pkg/action", "setMetadataVisitor")
	if smv == nil {
		r.Unk("C07/STAMPED", "anchor", "-", "setMetadataVisitor not found")
		return
	}
	for _, op := range mutatingOps {
		o := newOpCtx(w, ef, op, nil)
		if o == nil {
			continue
		}
		found := false
		for fn := range o.Cone(0).Funcs {
			if fnPkgPath(fn) != actionPkg {
				continue
			}
			g := o.real.Graph(fn)
			for _, c := range callInstrs(fn) {
				f, _ := calleeOf(c.Common())
				if f == nil || origin(f) != smv || !g.Reachable()[c.Block()] {
					continue
				}
				// the Visit call consuming it
				var visit ssa.CallInstruction
				if refs := c.Value().Referrers(); refs != nil {
					for _, rf := range *refs {
						if vc, ok := rf.(ssa.CallInstruction); ok {
							if vf, _ := calleeOf(vc.Common()); vf != nil && vf.Name() == "Visit" {
								visit = vc
							}
						}
					}
				}
				if visit == nil {
					continue
				}
				found = true
				r.Fn(FuncName(fn))
				key := fmt.Sprintf("%s/%s", op.Name, FuncName(fn))
				// args are Name / Namespace of one release value
				var relv ssa.Value
				okArgs := false
				if ld, ok := c.Common().Args[0].(*ssa.UnOp); ok {
					if fa, ok := ld.X.(*ssa.FieldAddr); ok && isFieldOf(fa, relPkg, "Release", "Name") {
						relv = fa.X
						okArgs = fieldLoadOfValue(c.Common().Args[1], "Namespace", relv)
					}
				}
				// the list stamped is the one built from that same record's manifest (not the other revision's)
				okList := false
				if !visit.Common().IsInvoke() && len(visit.Common().Args) > 0 && relv != nil {
					same, other := false, false
					backSlice(visit.Common().Args[0], func(v ssa.Value) bool {
						if ld, ok := v.(*ssa.UnOp); ok && ld.Op == token.MUL {
							if fa, ok := ld.X.(*ssa.FieldAddr); ok && isFieldOf(fa, relPkg, "Release", "Manifest") {
								if sameValue(fa.X, relv) {
									same = true
								} else {
									other = true
								}
								return true
							}
						}
						return false
					})
					okList = same && !other
				}
				if !okList {
					okArgs = false
				}
				// … and it is the list as built from that manifest (the whole of it, not a filtered part)
				if !visit.Common().IsInvoke() && len(visit.Common().Args) > 0 {
					lv := visit.Common().Args[0]
					for d := 0; d < 4; d++ {
						if ct, ok := lv.(*ssa.ChangeType); ok {
							lv = ct.X
							continue
						}
						break
					}
					whole := false
					if ex, ok := lv.(*ssa.Extract); ok && ex.Index == 0 {
						if bc, ok := ex.Tuple.(*ssa.Call); ok && bc.Call.IsInvoke() && bc.Call.Method.Name() == "Build" {
							whole = true
						}
					}
					if !whole {
						okArgs = false
					}
				}
				// cluster writes in fn on release resources follow the stamping's ok edge
				okOrder := true
				bad := ""
				for _, cc := range callInstrs(fn) {
					if cc == visit || !g.Reachable()[cc.Block()] {
						continue
					}
					if SpecCallEffect(w, ef, o.real.Graph, cc.Common(), WCluster) == 0 {
						continue
					}
					if isRel, _ := derivesFromRelease(cc.Common().Args); !isRel {
						continue
					}
					// hooks are separate objects stamped? (hooks are not part of the manifest): the pre-hook call may precede in rollback
					if ff, _ := calleeOf(cc.Common()); ff != nil && strings.HasSuffix(FuncName(ff), ".execHook") {
						continue
					}
					if !g.AfterOK(visit, posOf(cc)) {
						okOrder = false
						bad = describeCall(cc.Common()) + " at " + w.InstrPos(cc)
					}
				}
				r.Check(okArgs && okOrder, "C07/STAMPED", key, w.InstrPos(visit), "the target list is stamped with the record's own name/namespace before every cluster write on release resources",
					map[bool]string{true: "a cluster write on release resources (" + bad + ") can precede the stamping of ownership metadata", false: "the stamping does not use the record's own Name and Namespace"}[okArgs])
			}
		}
		if !found {
			r.Bad("C07/STAMPED", op.Name+"/missing", w.Pos(o.entry.Pos()), "no ownership stamping (setMetadataVisitor applied with Visit) in "+op.Entry)
		}
	}
}

func c07DeleteProv(w *World, r *Report, ef *Effects) {
	var fns []*ssa.Function
	fns = append(fns, w.FuncsIn("pkg/action")...)
	for _, name := range []string{"Interface.Delete", "InterfaceDeletionPropagation.DeleteWithPropagationPolicy"} {
		tf := w.TFunc(kubePkg, name)
		if tf == nil {
			r.Unk("C07/DELETE-PROVENANCE", "anchor/"+name, "-", "kube."+name+" not found")
			continue
		}
		for _, s := range SitesOf(fns, tf) {
			ok, why := deleteArgProvenance(w, s.Fn, s.Common().Args[0], 0)
			r.Fn(FuncName(s.Fn))
			r.Check(ok, "C07/DELETE-PROVENANCE", siteKey(s), w.InstrPos(s.Instr), "deleted list derives from "+why, "deleted list may derive from "+why)
		}
	}
}

func deleteArgProvenance(w *World, fn *ssa.Function, v ssa.Value, depth int) (bool, string) {
	srcs := map[string]bool{}
	okAll := true
	backSlice(v, func(x ssa.Value) bool {
		switch x := x.(type) {
		case *ssa.Call:
			f, tf := calleeOf(x.Common())
			name := describeCall(x.Common())
			if tf != nil && tf.Name() == "Build" && strings.HasSuffix(name, "Interface.Build") {
				isRel, what := derivesFromRelease(x.Call.Args)
				if isRel {
					srcs["Build("+what+")"] = true
				} else {
					srcs["Build(<not a release manifest>)"] = true
					okAll = false
				}
				return true
			}
			_ = f
			srcs[name] = true
			okAll = false
			return true
		case *ssa.FieldAddr, *ssa.Field:
			if p, t, f := fieldNameOf(x); p == kubePkg && t == "Result" && (f == "Created" || f == "Updated") {
				srcs["Result."+f] = true
				return true
			}
		case *ssa.Parameter:
			if _, isSlice := x.Type().Underlying().(*types.Slice); isSlice && depth < 2 {
				// follow to callers
				idx := -1
				for i, p := range x.Parent().Params {
					if p == x {
						idx = i
					}
				}
				n := 0
				for _, caller := range w.FuncsIn("pkg/action") {
					for _, c := range callInstrs(caller) {
						callee, _ := calleeOf(c.Common())
						if origin(callee) == x.Parent() && idx < len(c.Common().Args) {
							n++
							ok, why := deleteArgProvenance(w, caller, c.Common().Args[idx], depth+1)
							srcs[why] = true
							if !ok {
								okAll = false
							}
						}
					}
				}
				if n == 0 {
					srcs["parameter without callers"] = true
					okAll = false
				}
				return true
			}
		case *ssa.Const:
			return true
		}
		return false
	})
	var list []string
	for s := range srcs {
		if s != "" {
			list = append(list, s)
		}
	}
	sort.Strings(list)
	if len(list) == 0 {
		return true, "an empty list literal"
	}
	return okAll, strings.Join(list, " | ")
}

// c07IdentityKey: a string key computed for a resource (used to decide whether a target resource is
// "already part of the release") identifies the object: kind/version, namespace and name all enter it.
func c07IdentityKey(w *World, r *Report) {
	r.Rule("C07/IDENTITY-KEY", "a string key computed from a *resource.Info to compare resources of two manifests is built from the object's group/version/kind, its namespace and its name", 1)
	n := 0
	for _, rel := range []string{"pkg/action", "pkg/kube"} {
		for _, fn := range w.FuncsIn(rel) {
			if fn.Parent() != nil || len(fn.Params) != 1 || fn.Signature.Results().Len() != 1 {
				continue
			}
			if !isNamedPtr(fn.Params[0].Type(), "k8s.io/cli-runtime/pkg/resource", "Info") || !isStringType(fn.Signature.Results().At(0).Type()) {
				continue
			}
			n++
			r.Fn(FuncName(fn))
			reads := map[string]bool{}
			for _, b := range fn.Blocks {
				for _, in := range b.Instrs {
					switch x := in.(type) {
					case *ssa.FieldAddr:
						if x.X == ssa.Value(fn.Params[0]) {
							_, _, f := fieldNameOf(x)
							reads[f] = true
						}
					case ssa.CallInstruction:
						if x.Common().IsInvoke() && x.Common().Method.Name() == "GroupVersionKind" {
							reads["gvk"] = true
						}
						if f, _ := calleeOf(x.Common()); f != nil && f.Name() == "GroupVersionKind" {
							reads["gvk"] = true
						}
					}
				}
			}
			// Mapping.GroupVersionKind field
			for _, b := range fn.Blocks {
				for _, in := range b.Instrs {
					if fa, ok := in.(*ssa.FieldAddr); ok {
						if _, _, f := fieldNameOf(fa); f == "GroupVersionKind" {
							reads["gvk"] = true
						}
					}
				}
			}
			missing := ""
			for _, k := range []string{"Name", "Namespace", "gvk"} {
				if !reads[k] {
					missing += k + " "
				}
			}
			r.Check(missing == "", "C07/IDENTITY-KEY", FuncName(fn), w.Pos(fn.Pos()), "the key contains kind, namespace and name", "the key omits "+missing+": two different objects (e.g. the same name in another namespace) are taken for the same resource, so the ownership pre-flight is skipped for one of them")
		}
	}
	if n == 0 {
		r.OKTrivial("C07/IDENTITY-KEY", "none", "-", "no string key is computed from a resource")
	}
}

// c07PatchNeedsOriginal: the update visitor patches a live object only when the same object is part of
// the previous manifest; an object that exists in the cluster but is not in the previous manifest is
// refused (second line of defence behind the pre-flight).
func c07PatchNeedsOriginal(w *World, r *Report) {
	r.Rule("C07/PATCH-NEEDS-ORIGINAL", "in the update visitor an existing live object is patched only on the edge where the previous manifest contains it (original.Get(info) != nil); otherwise the visitor returns an error", 1)
	up := w.Fn("pkg/kube", "Client.update")
	if up == nil {
		r.Unk("C07/PATCH-NEEDS-ORIGINAL", "anchor", "-", "kube.Client.update not found")
		return
	}
	n := 0
	for _, fn := range withAnon(up) {
		g := FullGraph(fn)
		var lookups []ssa.CallInstruction
		var patches []ssa.CallInstruction
		for _, c := range callInstrs(fn) {
			f, _ := calleeOf(c.Common())
			if f == nil {
				continue
			}
			switch FuncName(f) {
			case "(pkg/kube.ResourceList).Get":
				lookups = append(lookups, c)
			case "pkg/kube.updateResource":
				patches = append(patches, c)
			}
		}
		for _, p := range patches {
			n++
			r.Fn(FuncName(fn))
			var nonNil []Edge
			for _, l := range lookups {
				_, bad := nilTestEdges(l.Value())
				nonNil = append(nonNil, bad...)
			}
			ok := false
			if len(nonNil) > 0 {
				ex, _ := g.PathExists(entryPos(fn), posOf(p), Avoid{}.withEdges(nonNil...))
				ok = !ex
			}
			// and the base handed to the patch is that previous object
			base := false
			for _, l := range lookups {
				for _, a := range p.Common().Args {
					if derivesFromValue(a, l.Value()) {
						base = true
					}
				}
			}
			r.Check(ok && base, "C07/PATCH-NEEDS-ORIGINAL", "update/patch", w.InstrPos(p), "the patch is reached only where the previous manifest contains the object, and is based on it", "a live object that is not in the previous manifest can be patched (taken over) — or the patch base is not the previous manifest's object")
		}
	}
	if n == 0 {
		r.Bad("C07/PATCH-NEEDS-ORIGINAL", "update/patch", w.Pos(up.Pos()), "the update visitor no longer patches through updateResource")
	}
}

// c07Preflight: the pre-flight visitors (existingResourceConflict, requireAdoption) (a) treat a resource
// as absent only on the API's not-found answer — any other failure of the lookup is an error — and
// (b) only read: they never refresh or overwrite the resource infos they are handed (those are the very
// objects that are sent to the cluster afterwards).
func c07Preflight(w *World, r *Report) {
	r.Rule("C07/PREFLIGHT", "in the ownership pre-flight a failed lookup counts as 'absent' only on the IsNotFound edge (any other lookup error is returned), and the pre-flight never calls Get/Refresh on the infos it inspects", 4)
	for _, name := range []string{"existingResourceConflict", "requireAdoption"} {
		outer := w.Fn("pkg/action", name)
		if outer == nil {
			r.Unk("C07/PREFLIGHT", name+"/anchor", "-", name+" not found")
			continue
		}
		r.Fn(FuncName(outer))
		nLookup := 0
		okAbsent, whyAbsent := true, ""
		mutates := ""
		for _, fn := range withAnon(outer) {
			g := FullGraph(fn)
			for _, c := range callInstrs(fn) {
				f, _ := calleeOf(c.Common())
				if f == nil {
					continue
				}
				switch FuncName(f) {
				case "(*k8s.io/cli-runtime/pkg/resource.Info).Get", "(*k8s.io/cli-runtime/pkg/resource.Info).Refresh":
					mutates = w.InstrPos(c)
				case "(*k8s.io/cli-runtime/pkg/resource.Helper).Get":
					nLookup++
					_, bad := nilTestEdges(errResult(c))
					// the not-found edges
					var nf []Edge
					for _, c2 := range callInstrs(fn) {
						cc, isCall := c2.(*ssa.Call)
						if !isCall {
							continue
						}
						if f2, _ := calleeOf(cc.Common()); f2 != nil && f2.Name() == "IsNotFound" && strings.HasSuffix(fnPkgPath(f2), "apimachinery/pkg/api/errors") {
							for _, e := range condEdges(cc) {
								if e.truth {
									nf = append(nf, e.Edge)
								}
							}
						}
					}
					// from the lookup's error edge a success return is reachable only over a not-found edge
					for _, e := range bad {
						for _, rp := range g.classifyReturns() {
							if rp.Class != RetSuccess {
								continue
							}
							if ex, _ := g.PathExists(IPos{e.To(), -1}, retPos(rp), Avoid{}.withEdges(nf...)); ex || len(nf) == 0 {
								okAbsent, whyAbsent = false, w.InstrPos(c)
							}
						}
					}
					if len(bad) == 0 {
						okAbsent, whyAbsent = false, w.InstrPos(c)
					}
				}
			}
		}
		r.Check(okAbsent && nLookup > 0, "C07/PREFLIGHT", name+"/absent-only-on-not-found", w.Pos(outer.Pos()), "a failed lookup passes as 'absent' only when the API says not-found", "a lookup that failed for another reason than not-found (forbidden, timeout) at "+whyAbsent+" lets the resource pass as absent: the check is skipped for an object that exists")
		r.Check(mutates == "", "C07/PREFLIGHT", name+"/read-only", w.Pos(outer.Pos()), "the pre-flight does not refresh the infos it inspects", "the pre-flight overwrites the inspected info with the live object (at "+mutates+"): the object sent to the cluster afterwards is no longer the manifest's")
	}
}

// c07LookupIdentity: an object is looked up in the cluster under the namespace and name of the
// resource.Info it was built from (a chart resource may carry its own metadata.namespace; the release
// namespace is only the default that the builder has already applied to the Info).
func c07LookupIdentity(w *World, r *Report, rule string) {
	n := 0
	seen := map[string]int{}
	var fieldOfInfo func(v ssa.Value, field string, d int) (ssa.Value, bool)
	fieldOfInfo = func(v ssa.Value, field string, d int) (ssa.Value, bool) {
		v = stripConv(v)
		switch x := v.(type) {
		case *ssa.UnOp:
			if fa, ok := x.X.(*ssa.FieldAddr); ok && x.Op == token.MUL {
				if _, t, f := fieldNameOf(fa); t == "Info" && f == field {
					return fa.X, true
				}
			}
		case *ssa.Parameter:
			// a helper that did not exist on the reference tree: every caller must pass the Info's field
			fn := x.Parent()
			if d > 2 || fn == nil || !isNewFunc(fn) {
				return nil, false
			}
			idx := paramIndex(fn, x)
			var holder ssa.Value
			calls := 0
			for _, cf := range w.HelmFuncs() {
				for _, c := range callInstrs(cf) {
					if f, _ := calleeOf(c.Common()); f == nil || origin(f) != fn || idx >= len(c.Common().Args) {
						continue
					}
					calls++
					h, ok := fieldOfInfo(c.Common().Args[idx], field, d+1)
					if !ok {
						return nil, false
					}
					holder = h
				}
			}
			return holder, calls > 0
		}
		return nil, false
	}
	for _, rel := range []string{"pkg/action", "pkg/kube"} {
		for _, fn := range w.FuncsIn(rel) {
			for _, c := range callInstrs(fn) {
				f, _ := calleeOf(c.Common())
				if f == nil || FuncName(f) != "(*k8s.io/cli-runtime/pkg/resource.Helper).Get" {
					continue
				}
				n++
				key := siteKey(Site{fn, c, posOf(c)})
				seen[key]++
				if seen[key] > 1 {
					key = fmt.Sprintf("%s@%d", key, seen[key])
				}
				args := c.Common().Args // receiver, namespace, name
				_, okNS := fieldOfInfo(args[1], "Namespace", 0)
				_, okName := fieldOfInfo(args[2], "Name", 0)
				r.Check(okNS && okName, rule, key, w.InstrPos(c), "the live object is fetched under the Info's own Namespace and Name", "the live object is fetched under a namespace or name that is not the resource's own (Info.Namespace / Info.Name): for a resource with its own metadata.namespace the pre-flight or the update looks in the wrong place")
			}
		}
	}
	if n == 0 {
		r.Unk(rule, "no-site", "-", "no resource.Helper.Get call found in pkg/action or pkg/kube")
	}
}

// c07StampWins: where Helm's ownership labels/annotations are merged with the ones a rendered object
// already carries, Helm's are in the winning position of the merge (a template that hard-codes a foreign
// managed-by label is still stamped).
func c07StampWins(w *World, r *Report) {
	r.Rule("C07/STAMP-WINS", "in the metadata stamping helpers the object's existing labels/annotations are never in the winning slot of the two-map merge: the stamping values overwrite them", 2)
	mg := w.Fn("pkg/action", "mergeStrStrMaps")
	if mg == nil {
		r.Unk("C07/STAMP-WINS", "anchor", "-", "mergeStrStrMaps not found")
		return
	}
	r.Fn(FuncName(mg))
	// the parameter copied last wins
	copyOf := map[int]ssa.Instruction{}
	for _, b := range mg.Blocks {
		for _, in := range b.Instrs {
			switch x := in.(type) {
			case *ssa.Range:
				if p, ok := stripConv(x.X).(*ssa.Parameter); ok {
					copyOf[paramIndex(mg, p)] = x
				}
			case ssa.CallInstruction:
				if f, _ := calleeOf(x.Common()); f != nil && fnPkgPath(f) == "maps" && genericName(f) == "Copy" && len(x.Common().Args) == 2 {
					if p, ok := stripConv(x.Common().Args[1]).(*ssa.Parameter); ok {
						copyOf[paramIndex(mg, p)] = x
					}
				}
			}
		}
	}
	g := FullGraph(mg)
	winner := -1
	if len(copyOf) == 2 {
		for i, ci := range copyOf {
			last := true
			for j, cj := range copyOf {
				if i != j && !g.DominatesInstr(cj, posOf(ci)) {
					last = false
				}
			}
			if last {
				winner = i
			}
		}
	}
	if winner < 0 {
		r.Unk("C07/STAMP-WINS", "merge-order", w.Pos(mg.Pos()), "the two-map merge does not copy its two parameters one after the other: the winning side is not decided")
		return
	}
	r.OK("C07/STAMP-WINS", "merge-order", w.Pos(mg.Pos()), fmt.Sprintf("parameter %d is copied last and wins", winner))
	n := 0
	for _, fn := range w.FuncsIn("pkg/action") {
		for _, c := range callInstrs(fn) {
			f, _ := calleeOf(c.Common())
			if f == nil || origin(f) != mg {
				continue
			}
			n++
			fromObject := false
			backSlice(c.Common().Args[winner], func(v ssa.Value) bool {
				if cc, ok := v.(*ssa.Call); ok {
					if cc.Call.IsInvoke() && (cc.Call.Method.Name() == "Labels" || cc.Call.Method.Name() == "Annotations") {
						fromObject = true
					}
					if cf, _ := calleeOf(cc.Common()); cf != nil && (cf.Name() == "GetLabels" || cf.Name() == "GetAnnotations" || cf.Name() == "Labels" || cf.Name() == "Annotations") {
						fromObject = true
					}
					return true
				}
				return false
			})
			r.Check(!fromObject, "C07/STAMP-WINS", FuncName(fn)+"/winning-slot", w.InstrPos(c), "the stamping values are in the winning slot", "the object's existing labels/annotations are in the winning slot of the merge: a rendered object that already carries a foreign managed-by label or release annotation is not stamped, yet recorded as part of the release")
		}
	}
	if n == 0 {
		r.Unk("C07/STAMP-WINS", "no-site", "-", "no caller of the two-map merge in pkg/action")
	}
}

// c07CreateErrorKept: the error of a cluster create is handed back whenever it is non-nil. In
// particular "already exists" is an error: it is what stops Helm when somebody else creates the same
// object between the ownership pre-flight and Helm's own create.
func c07CreateErrorKept(w *World, r *Report, rule string) {
	n := 0
	for _, fn := range w.FuncsIn("pkg/kube") {
		for _, c := range callInstrs(fn) {
			f, _ := calleeOf(c.Common())
			if f == nil || FuncName(f) != "(*k8s.io/cli-runtime/pkg/resource.Helper).Create" {
				continue
			}
			n++
			r.Fn(FuncName(fn))
			e := errResult(c)
			key := siteKey(Site{fn, c, posOf(c)})
			if e == nil || e.Referrers() == nil {
				r.Bad(rule, key, w.InstrPos(c), "the error of the cluster create is dropped")
				continue
			}
			g := FullGraph(fn)
			// direct nil tests of e (not of a phi it flows into)
			var okDirect []Edge
			for _, rf := range *e.Referrers() {
				if bo, ok := rf.(*ssa.BinOp); ok && (bo.Op == token.EQL || bo.Op == token.NEQ) && (isNilConst(bo.X) || isNilConst(bo.Y)) {
					for _, ce := range condEdges(bo) {
						if ce.truth == (bo.Op == token.EQL) {
							okDirect = append(okDirect, ce.Edge)
						}
					}
				}
			}
			derived := func(v ssa.Value) bool {
				only := true
				backSlice(v, func(x ssa.Value) bool {
					switch y := x.(type) {
					case *ssa.Phi:
						return false
					case *ssa.Call:
						if _, ok := nilPreservingArg(y); ok {
							return false
						}
					}
					if x == e {
						return true
					}
					if isNilConst(x) {
						return true
					}
					only = false
					return true
				})
				return only
			}
			bad := ""
			for _, rf := range *e.Referrers() {
				cls, ok := rf.(*ssa.Call)
				if !ok || !isBoolType(cls.Type()) {
					continue
				}
				for _, ce := range condEdges(cls) {
					if !ce.truth {
						continue
					}
					for _, b := range fn.Blocks {
						if len(b.Instrs) == 0 {
							continue
						}
						ret, isRet := b.Instrs[len(b.Instrs)-1].(*ssa.Return)
						if !isRet || len(ret.Results) == 0 {
							continue
						}
						ev := ret.Results[len(ret.Results)-1]
						if !isErrorType(ev.Type()) || derived(ev) {
							continue
						}
						if ex, _ := g.PathExists(IPos{ce.To(), -1}, posOf(ret), Avoid{StartPrev: ce.From}.withEdges(okDirect...)); ex {
							bad = w.InstrPos(cls)
						}
					}
				}
			}
			r.Check(bad == "", rule, key, w.InstrPos(c), "a non-nil error of the cluster create is returned as it is (only tested for nil, wrapped or returned)", "the error of the cluster create is classified at "+bad+" and a return that does not hand it back is reachable from there: a create rejected with that error (e.g. AlreadyExists for an object somebody else has just created) is reported as success")
		}
	}
	if n == 0 {
		r.Unk(rule, "no-site", "-", "no resource.Helper.Create call in pkg/kube")
	}
}
