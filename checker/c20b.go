package main

// c20b.go — further C20 rules: holes in pre-sized result slices, constant-index reads of decoded
// lists, validation after the last decoder write.

import (
	"fmt"
	"go/token"
	"go/types"
	"os"
	"sort"
	"strings"

	"golang.org/x/tools/go/ssa"
)

func nilable(t types.Type) bool {
	switch t.Underlying().(type) {
	case *types.Pointer, *types.Interface, *types.Map, *types.Slice, *types.Signature, *types.Chan:
		return true
	}
	return false
}

// loopOfIndex: for an index value that is a loop counter (range-over-slice counter or a classic
// `for i := …; i < n; i++` variable), the loop header and the entry block of the body.
func loopOfIndex(idx ssa.Value) (hdr, body *ssa.BasicBlock, ok bool) {
	switch x := idx.(type) {
	case *ssa.BinOp: // rangeindex: t3 = phi + 1 computed in the header
		phi, isPhi := x.X.(*ssa.Phi)
		if x.Op == token.ADD && isPhi && phi.Comment == "rangeindex" && phi.Block() == x.Block() && len(phi.Block().Succs) == 2 {
			return phi.Block(), phi.Block().Succs[0], true
		}
	case *ssa.Phi:
		b := x.Block()
		if len(b.Succs) == 2 {
			if _, isIf := b.Instrs[len(b.Instrs)-1].(*ssa.If); isIf {
				return b, b.Succs[0], true
			}
		}
	}
	return nil, nil, false
}

// c20NilHole: a result slice of nil-able elements created with a non-zero length and filled by index
// must be stored on every path of the filling loop's body; a `continue` that skips the store leaves a
// nil element that the callers (sorting, filtering, printing) dereference.
func c20NilHole(w *World, r *Report) {
	r.Rule("C20/NIL-HOLE", "a slice of pointers (or other nil-able elements) that is created with a non-zero length and filled by index is stored on every path through the filling loop: no skipped iteration leaves a nil element in a returned list", 1)
	n := 0
	for _, fn := range w.HelmFuncs() {
		if fn.Synthetic != "" {
			continue
		}
		var g *Graph
		for _, b := range fn.Blocks {
			for _, in := range b.Instrs {
				ms, ok := in.(*ssa.MakeSlice)
				if !ok {
					continue
				}
				if k, isC := constInt(ms.Len); isC && k == 0 {
					continue
				}
				sl, ok := ms.Type().Underlying().(*types.Slice)
				if !ok || !nilable(sl.Elem()) {
					continue
				}
				// index stores into it
				var stores []ssa.Instruction
				var idxs []ssa.Value
				if ms.Referrers() == nil {
					continue
				}
				for _, rf := range *ms.Referrers() {
					ia, ok := rf.(*ssa.IndexAddr)
					if !ok || ia.X != ssa.Value(ms) || ia.Referrers() == nil {
						continue
					}
					for _, rr := range *ia.Referrers() {
						if st, ok := rr.(*ssa.Store); ok && st.Addr == ssa.Value(ia) {
							stores = append(stores, st)
							idxs = append(idxs, ia.Index)
						}
					}
				}
				if len(stores) == 0 {
					continue
				}
				if g == nil {
					g = FullGraph(fn)
				}
				hdr, body, ok := loopOfIndex(idxs[0])
				if !ok {
					continue // not filled by a loop counter (fixed positions): out of this rule's reach
				}
				n++
				// a skipped iteration that records the miss in another list (reported as an error after the
				// loop), or that is the error edge of re-parsing an already validated chart version, is not a hole
				av := avoidInstrs(stores...)
				for _, c := range callInstrs(fn) {
					if bi, ok := c.Common().Value.(*ssa.Builtin); ok && bi.Name() == "append" {
						if cv := c.Value(); cv != nil && !types.Identical(cv.Type(), ms.Type()) {
							av = av.withInstrs(c)
						}
					}
				}
				av = av.withEdges(validatedSemverErrEdges(fn)...)
				ex, path := g.PathExists(IPos{body, -1}, IPos{hdr, 0}, av)
				where := ""
				if ex && len(path) > 0 {
					where = w.InstrPos(path[len(path)-1].Instrs[0])
				}
				r.Fn(FuncName(fn))
				r.Check(!ex, "C20/NIL-HOLE", FuncName(fn)+"/make:"+types.TypeString(ms.Type(), func(p *types.Package) string { return p.Name() }), w.InstrPos(ms),
					"every iteration of the filling loop stores its element", "an iteration can skip the store (path via "+where+"): the list keeps a nil element that callers dereference")
			}
		}
	}
	if n == 0 {
		r.OKTrivial("C20/NIL-HOLE", "none", "-", "no pre-sized nil-able slice is filled by a loop counter in helm")
	}
}

// validatedSemverErrEdges: the error edges of semver.NewVersion(x) where x is the Metadata.Version of a
// chart that came out of the chart loader: the loader's Metadata.Validate accepted that very string with
// the same parser (C20/VALIDATE-LAST), so the error edge is infeasible.
func validatedSemverErrEdges(fn *ssa.Function) []Edge {
	var out []Edge
	for _, c := range callInstrs(fn) {
		f, _ := calleeOf(c.Common())
		if f == nil || f.Name() != "NewVersion" || !strings.HasSuffix(fnPkgPath(f), "Masterminds/semver/v3") || len(c.Common().Args) != 1 {
			continue
		}
		fromLoader, isVersion := false, false
		backSlice(c.Common().Args[0], func(v ssa.Value) bool {
			if ld, ok := v.(*ssa.UnOp); ok && ld.Op == token.MUL {
				if fa, ok := ld.X.(*ssa.FieldAddr); ok {
					if _, t, f := fieldNameOf(fa); t == "Metadata" && f == "Version" {
						isVersion = true
					}
				}
			}
			if cc, ok := v.(*ssa.Call); ok {
				if g, _ := calleeOf(cc.Common()); g != nil && strings.HasSuffix(fnPkgPath(g), "/pkg/chart/v2/loader") {
					fromLoader = true
					return true
				}
			}
			return false
		})
		if !fromLoader || !isVersion {
			continue
		}
		_, bad := nilTestEdges(errResult(c))
		out = append(out, bad...)
	}
	return out
}

// returnsOnlyNonEmpty: every return of helm function h whose first result is not the nil constant is
// reached only where len(result.<field>) > k was established (the result is an element that passed the
// "legit entry" test).
func returnsOnlyNonEmpty(h *ssa.Function, fld string, k int64) bool {
	if h == nil || len(h.Blocks) == 0 || h.Signature.Results().Len() == 0 {
		return false
	}
	g := FullGraph(h)
	n := 0
	for _, b := range h.Blocks {
		if len(b.Instrs) == 0 {
			continue
		}
		ret, ok := b.Instrs[len(b.Instrs)-1].(*ssa.Return)
		if !ok || !g.Reachable()[b] {
			continue
		}
		for _, v := range spilledResults(ret, 0) {
			if isNilConst(v) {
				continue
			}
			n++
			want := "field(" + nf(v, 0) + "," + fld + ")"
			guard := lenAboveEdges(h, func(x ssa.Value) bool { return nf(x, 0) == want }, k)
			if len(guard) == 0 {
				return false
			}
			if ex, _ := g.PathExists(entryPos(h), posOf(ret), Avoid{}.withEdges(guard...)); ex {
				return false
			}
		}
	}
	return n > 0
}

// lenAboveEdges: edges on which len(x) > k holds for a value x satisfying isList.
func lenAboveEdges(fn *ssa.Function, isList func(ssa.Value) bool, k int64) []Edge {
	var guard []Edge
	isLen := func(v ssa.Value) bool {
		c, ok := v.(*ssa.Call)
		if !ok {
			return false
		}
		bi, ok := c.Call.Value.(*ssa.Builtin)
		return ok && bi.Name() == "len" && len(c.Call.Args) == 1 && isList(c.Call.Args[0])
	}
	for _, e := range relEdges(fn, isLen, func(v ssa.Value) bool { _, c := constInt(v); return c }) {
		c, _ := constInt(e.B)
		switch e.Rel {
		case token.GTR:
			if c >= k {
				guard = append(guard, e.Edge)
			}
		case token.GEQ, token.EQL:
			if c >= k+1 {
				guard = append(guard, e.Edge)
			}
		case token.NEQ:
			if c == 0 && k == 0 {
				guard = append(guard, e.Edge)
			}
		}
	}
	return guard
}

// callResultList: v is the slice result of a call to a function of the storage or repository layer
// (a list of stored releases or of index entries), possibly through a phi of such results.
func callResultList(v ssa.Value) (string, bool) {
	if ex, ok := v.(*ssa.Extract); ok {
		v = ex.Tuple
	}
	c, ok := v.(*ssa.Call)
	if !ok {
		return "", false
	}
	if _, isSlice := c.Common().Signature().Results().At(0).Type().Underlying().(*types.Slice); !isSlice {
		return "", false
	}
	// strings.Fields / FieldsFunc return an empty list for a blank input (strings.Split never does)
	if sf, _ := calleeOf(c.Common()); sf != nil && fnPkgPath(sf) == "strings" && (sf.Name() == "Fields" || sf.Name() == "FieldsFunc") {
		return "result of strings." + sf.Name(), true
	}
	var name string
	if c.Common().IsInvoke() {
		recv := c.Common().Value.Type().String()
		if !strings.Contains(recv, helmMod+"/pkg/storage") {
			return "", false
		}
		name = "driver." + c.Common().Method.Name()
	} else {
		f, _ := calleeOf(c.Common())
		if f == nil || !inHelm(f) {
			return "", false
		}
		p := fnPkgPath(f)
		if !strings.Contains(p, "/pkg/storage") && !strings.Contains(p, "/pkg/repo") {
			return "", false
		}
		name = FuncName(f)
	}
	return "result of " + name, true
}

// decodedListField: a slice-typed field of a struct type of helm that is decoded from external data
// (it carries a json or yaml tag).
func decodedListField(fa *ssa.FieldAddr) (string, bool) {
	pt, ok := fa.X.Type().Underlying().(*types.Pointer)
	if !ok {
		return "", false
	}
	st, ok := pt.Elem().Underlying().(*types.Struct)
	if !ok {
		return "", false
	}
	f := st.Field(fa.Field)
	if _, isSlice := f.Type().Underlying().(*types.Slice); !isSlice {
		return "", false
	}
	tag := st.Tag(fa.Field)
	if !strings.Contains(tag, "json:") && !strings.Contains(tag, "yaml:") {
		return "", false
	}
	named, _ := pt.Elem().(*types.Named)
	if named == nil || named.Obj().Pkg() == nil || !strings.HasPrefix(named.Obj().Pkg().Path(), helmMod) {
		return "", false
	}
	return refTypeName(named.Obj()) + "." + f.Name(), true
}

// c20IndexGuard: x.List[k] with a constant k on a decoded list needs len(x.List) > k on every path.
func c20IndexGuard(w *World, r *Report) {
	r.Rule("C20/INDEX-GUARD", "a constant-index read of a list decoded from external data (a json/yaml-tagged slice field of a helm type) happens only where a length test of the same field guarantees the element exists", 3)
	type site struct {
		fn  *ssa.Function
		ia  *ssa.IndexAddr
		fld string
		k   int64
	}
	var sites []site
	type sliceSite struct {
		fn  *ssa.Function
		sl  *ssa.Slice
		fld string
		k   int64
	}
	var sliceSites []sliceSite
	for _, fn := range w.HelmFuncs() {
		if strings.HasSuffix(w.FileOf(fn), "_test.go") {
			continue
		}
		for _, b := range fn.Blocks {
			for _, in := range b.Instrs {
				if sl, isSl := in.(*ssa.Slice); isSl && sl.Low != nil {
					// x[k:] with k >= 1 needs len(x) >= k, like a read of element k-1
					if k, isC := constInt(sl.Low); isC && k >= 1 {
						if fld, ok := callResultList(sl.X); ok {
							sliceSites = append(sliceSites, sliceSite{fn, sl, fld, k - 1})
						}
					}
					continue
				}
				ia, ok := in.(*ssa.IndexAddr)
				if !ok {
					continue
				}
				k, isC := constInt(ia.Index)
				if !isC {
					continue
				}
				// (b) a list returned by a helm function (a query result): its length is not known either
				if fld, ok := callResultList(ia.X); ok {
					sites = append(sites, site{fn, ia, fld, k})
					continue
				}
				ld, ok := ia.X.(*ssa.UnOp)
				if !ok || ld.Op != token.MUL {
					continue
				}
				fa, ok := ld.X.(*ssa.FieldAddr)
				if !ok {
					continue
				}
				if fld, ok := decodedListField(fa); ok {
					sites = append(sites, site{fn, ia, fld, k})
				}
			}
		}
	}
	sort.Slice(sites, func(i, j int) bool { return sites[i].ia.Pos() < sites[j].ia.Pos() })
	seen := map[string]int{}
	for _, s := range sites {
		g := FullGraph(s.fn)
		want := nf(s.ia.X, 0)
		guard := lenAboveEdges(s.fn, func(v ssa.Value) bool { return v == s.ia.X || nf(v, 0) == want }, s.k)
		ok := false
		if len(guard) > 0 {
			ex, _ := g.PathExists(entryPos(s.fn), posOf(s.ia), Avoid{}.withEdges(guard...))
			ok = !ex
		}
		if !ok {
			// the element comes from a helper that only hands out entries with a long enough list
			if ld, isLd := s.ia.X.(*ssa.UnOp); isLd {
				if fa, isFa := ld.X.(*ssa.FieldAddr); isFa {
					base := fa.X
					if ex, isEx := base.(*ssa.Extract); isEx && ex.Index == 0 {
						base = ex.Tuple
					}
					if c, isCall := base.(*ssa.Call); isCall {
						if h, _ := calleeOf(c.Common()); h != nil && inHelm(h) {
							_, _, fname := fieldNameOf(fa)
							tname := strings.SplitN(s.fld, ".", 2)[0]
							ok = returnsOnlyNonEmpty(origin(h), tname+"."+fname, s.k)
						}
					}
				}
			}
		}
		key := fmt.Sprintf("%s/%s[%d]", FuncName(s.fn), s.fld, s.k)
		seen[key]++
		if seen[key] > 1 {
			key = fmt.Sprintf("%s#%d", key, seen[key])
		}
		r.Fn(FuncName(s.fn))
		r.Check(ok, "C20/INDEX-GUARD", key, w.InstrPos(s.ia), "the read is reached only where the list is long enough", "element "+fmt.Sprint(s.k)+" of "+s.fld+" is read without a length test of that list on every path: an empty list in the input panics")
	}
	for _, s := range sliceSites {
		g := FullGraph(s.fn)
		want := nf(s.sl.X, 0)
		guard := lenAboveEdges(s.fn, func(v ssa.Value) bool { return v == s.sl.X || nf(v, 0) == want }, s.k)
		ok := false
		if len(guard) > 0 {
			ex, _ := g.PathExists(entryPos(s.fn), posOf(s.sl), Avoid{}.withEdges(guard...))
			ok = !ex
		}
		key := fmt.Sprintf("%s/%s[%d:]", FuncName(s.fn), s.fld, s.k+1)
		seen[key]++
		if seen[key] > 1 {
			key = fmt.Sprintf("%s#%d", key, seen[key])
		}
		r.Fn(FuncName(s.fn))
		r.Check(ok, "C20/INDEX-GUARD", key, w.InstrPos(s.sl), "the tail is taken only where the list is long enough", "the tail ["+fmt.Sprint(s.k+1)+":] of "+s.fld+" is taken without a length test of that list on every path: an empty list (a blank input) panics")
	}
}

// (slice sites are checked at the end of c20IndexGuard)

// c20ValidateLast: in the chart loader nothing decodes into the chart metadata after it was validated.
func c20ValidateLast(w *World, r *Report) {
	r.Rule("C20/VALIDATE-LAST", "the chart loader validates the metadata after the last decoder write into it: every yaml decode into (or store to a field of) the chart metadata is followed, on every path to a success return, by Chart.Validate", 2)
	fn := w.Fn("pkg/chart/v2/loader", "LoadFiles")
	if fn == nil {
		r.Unk("C20/VALIDATE-LAST", "anchor", "-", "loader.LoadFiles not found")
		return
	}
	r.Fn(FuncName(fn))
	g := FullGraph(fn)
	var validates []ssa.Instruction
	var writers []ssa.Instruction
	isMeta := func(v ssa.Value) bool {
		found := false
		backSlice(v, func(s ssa.Value) bool {
			if ld, ok := s.(*ssa.UnOp); ok && ld.Op == token.MUL {
				if fa, ok := ld.X.(*ssa.FieldAddr); ok {
					if _, t, f := fieldNameOf(fa); t == "Chart" && f == "Metadata" {
						found = true
					}
				}
			}
			return found
		})
		return found
	}
	for _, c := range callInstrs(fn) {
		f, _ := calleeOf(c.Common())
		if f == nil {
			continue
		}
		name := FuncName(f)
		if name == "(*pkg/chart/v2.Chart).Validate" || name == "(*pkg/chart/v2.Metadata).Validate" {
			validates = append(validates, c)
		}
		if (fnPkgPath(f) == "sigs.k8s.io/yaml" || fnPkgPath(f) == "encoding/json") && strings.HasPrefix(f.Name(), "Unmarshal") && len(c.Common().Args) >= 2 && isMeta(c.Common().Args[1]) {
			writers = append(writers, c)
		}
	}
	for _, b := range fn.Blocks {
		for _, in := range b.Instrs {
			st, ok := in.(*ssa.Store)
			if !ok {
				continue
			}
			if fa, ok := st.Addr.(*ssa.FieldAddr); ok {
				if _, t, f := fieldNameOf(fa); t == "Metadata" && f != "APIVersion" {
					writers = append(writers, st)
				}
			}
		}
	}
	if len(validates) == 0 {
		r.Bad("C20/VALIDATE-LAST", "validate-call", w.Pos(fn.Pos()), "LoadFiles no longer validates the chart metadata")
		return
	}
	if len(writers) == 0 {
		r.Unk("C20/VALIDATE-LAST", "writers", w.Pos(fn.Pos()), "no decoder write into the chart metadata found")
		return
	}
	rets := g.classifyReturns()
	for i, wr := range writers {
		bad := ""
		for _, rp := range rets {
			if rp.Class != RetSuccess {
				continue
			}
			if ex, _ := g.PathExists(posOf(wr), retPos(rp), avoidInstrs(validates...)); ex {
				bad = w.InstrPos(rp.Ret)
			}
		}
		r.Check(bad == "", "C20/VALIDATE-LAST", fmt.Sprintf("write#%d", i+1), w.InstrPos(wr), "the metadata written here is validated before the chart is returned", "metadata decoded here can reach the success return at "+bad+" without being validated: null list elements and invalid names survive loading")
	}
}

// c20DecodePtr — C20/DECODE-PTR. A decoder handed the address of a pointer variable (`var p *T;
// Unmarshal(data, &p)`) leaves p nil for an empty or `null` document and reports no error. Such a
// pointer is dereferenced, or returned next to a nil error, only where it was tested non-nil.
func isDecoderCall(cc *ssa.CallCommon) (dst ssa.Value, ok bool) {
	f, _ := calleeOf(cc)
	name := ""
	if f != nil {
		name = FuncName(origin(f))
	} else if cc.IsInvoke() {
		name = cc.Method.Name()
	}
	switch {
	case strings.HasSuffix(name, "yaml.Unmarshal"), strings.HasSuffix(name, "yaml.UnmarshalStrict"), strings.HasSuffix(name, "json.Unmarshal"), strings.HasSuffix(name, "toml.Unmarshal"):
		if len(cc.Args) >= 2 {
			return cc.Args[1], true
		}
	case strings.HasSuffix(name, "Decoder).Decode"), name == "Decode":
		if len(cc.Args) >= 1 {
			return cc.Args[len(cc.Args)-1], true
		}
	}
	return nil, false
}

// decodedPtrSlot: the local pointer variable whose address is the decoder's destination (nil if the
// destination is anything else).
func decodedPtrSlot(dst ssa.Value) *ssa.Alloc {
	if mi, isMI := dst.(*ssa.MakeInterface); isMI {
		dst = mi.X
	}
	slot, isAlloc := dst.(*ssa.Alloc)
	if !isAlloc {
		return nil
	}
	pt, isPtr := slot.Type().Underlying().(*types.Pointer)
	if !isPtr {
		return nil
	}
	if _, inner := pt.Elem().Underlying().(*types.Pointer); !inner {
		return nil
	}
	return slot
}

func c20DecodePtr(w *World, r *Report) {
	n := 0
	seen := map[string]int{}
	for _, fn := range w.HelmFuncs() {
		if strings.HasSuffix(w.FileOf(fn), "_test.go") {
			continue
		}
		for _, c := range callInstrs(fn) {
			dst, ok := isDecoderCall(c.Common())
			if !ok {
				continue
			}
			n++
			slot := decodedPtrSlot(dst)
			if slot == nil {
				continue
			}
			key := siteKey(Site{fn, c, posOf(c)})
			seen[key]++
			if seen[key] > 1 {
				key = fmt.Sprintf("%s@%d", key, seen[key])
			}
			g := FullGraph(fn)
			// every load of the slot; a later store of a fresh object makes the slot non-nil again (not followed: undecided)
			var loads []*ssa.UnOp
			otherStore := ""
			for _, rf := range *slot.Referrers() {
				switch x := rf.(type) {
				case *ssa.UnOp:
					if x.Op == token.MUL {
						loads = append(loads, x)
					}
				case *ssa.Store:
					if x.Addr == ssa.Value(slot) {
						if cst, isC := x.Val.(*ssa.Const); isC && cst.IsNil() {
							continue
						}
						if ex, _ := g.PathExists(posOf(c), posOf(x), Avoid{}); ex {
							otherStore = w.InstrPos(x)
						}
					}
				}
			}
			if otherStore != "" {
				r.Unk("C20/DECODE-PTR", key, w.InstrPos(c), "the decoded pointer variable is assigned again at "+otherStore+" after decoding: not followed")
				continue
			}
			var nonNil []Edge
			for _, ld := range loads {
				_, nn := nilTestEdges(ld)
				nonNil = append(nonNil, nn...)
			}
			bad := ""
			var errBad []Edge // edges on which the decoder reported an error: a nil pointer next to that error is fine
			if e := errResult(c); e != nil {
				_, errBad = nilTestEdges(e)
			}
			for _, ld := range loads {
				var uses []ssa.Instruction
				for a := range forwardAliases(ld) {
					uses = append(uses, derefsOf(a)...)
					if a.Referrers() == nil {
						continue
					}
					for _, rf := range *a.Referrers() {
						switch x := rf.(type) {
						case *ssa.Return:
							uses = append(uses, x)
						case *ssa.Store:
							if x.Val == a {
								if _, local := x.Addr.(*ssa.Alloc); !local || true {
									uses = append(uses, x) // handed on (result slot, field): the holder sees a nil
								}
							}
						case ssa.CallInstruction:
							for _, arg := range x.Common().Args {
								if arg == a {
									uses = append(uses, x)
								}
							}
						case *ssa.MakeInterface:
							uses = append(uses, x)
						}
					}
				}
				for _, u := range uses {
					if ex, _ := g.PathExists(posOf(c), posOf(u), Avoid{}.withEdges(nonNil...).withEdges(errBad...)); ex {
						bad = w.InstrPos(u)
					}
				}
			}
			r.Check(bad == "", "C20/DECODE-PTR", key, w.InstrPos(c), "the pointer filled by decoding into its address is used only where it was tested non-nil", "a pointer filled by decoding into its address (nil after an empty or null document, without an error) is used or handed on untested at "+bad)
		}
	}
	r.Check(n >= 10, "C20/DECODE-PTR", "decoder-calls-seen", "-", fmt.Sprintf("%d decoder calls examined", n), fmt.Sprintf("only %d decoder calls recognised (expected at least 10): the matcher lost its anchors", n))
}

// c20RegularOnly: the directory loader opens only regular files. Reading a FIFO blocks for ever, a
// device can be endless: "not one of the kinds I know to refuse" is not the same as "regular".
func c20RegularOnly(w *World, r *Report) {
	r.Rule("C20/REGULAR-ONLY", "the chart directory loader reads a file only behind the test that its mode is regular (FileMode.IsRegular, or mode&os.ModeType == 0)", 1)
	ld := w.Fn("pkg/chart/v2/loader", "LoadDir")
	if ld == nil {
		r.Unk("C20/REGULAR-ONLY", "anchor", "-", "loader.LoadDir not found")
		return
	}
	n := 0
	for _, fn := range withAnon(ld) {
		g := FullGraph(fn)
		var regular []Edge
		for _, b := range fn.Blocks {
			for _, in := range b.Instrs {
				switch x := in.(type) {
				case *ssa.Call:
					if f, _ := calleeOf(x.Common()); f != nil && FuncName(f) == "(io/fs.FileMode).IsRegular" {
						for _, e := range condEdges(x) {
							if e.truth {
								regular = append(regular, e.Edge)
							}
						}
					}
				case *ssa.BinOp:
					if x.Op != token.EQL && x.Op != token.NEQ {
						continue
					}
					var and ssa.Value
					if z, ok := constInt(x.Y); ok && z == 0 {
						and = x.X
					} else if z, ok := constInt(x.X); ok && z == 0 {
						and = x.Y
					}
					ab, ok := and.(*ssa.BinOp)
					if and == nil || !ok || ab.Op != token.AND {
						continue
					}
					mt := int64(os.ModeType)
					m1, ok1 := constInt(ab.X)
					m2, ok2 := constInt(ab.Y)
					if (ok1 && m1 == mt) || (ok2 && m2 == mt) {
						for _, e := range condEdges(x) {
							if e.truth == (x.Op == token.EQL) {
								regular = append(regular, e.Edge)
							}
						}
					}
				}
			}
		}
		for _, c := range callInstrs(fn) {
			f, _ := calleeOf(c.Common())
			if f == nil || fnPkgPath(f) != "os" || (f.Name() != "ReadFile" && f.Name() != "Open" && f.Name() != "OpenFile") {
				continue
			}
			n++
			r.Fn(FuncName(fn))
			ex, _ := g.PathExists(entryPos(fn), posOf(c), Avoid{}.withEdges(regular...))
			r.Check(!ex && len(regular) > 0, "C20/REGULAR-ONLY", siteKey(Site{fn, c, posOf(c)}), w.InstrPos(c), "the file is read only after its mode was found regular", "a file of the chart directory can be read without its mode having been found regular: a named pipe in the directory makes loading (lint, template, install, package) hang for ever instead of failing with an error")
		}
	}
	if n == 0 {
		r.Unk("C20/REGULAR-ONLY", "no-site", w.Pos(ld.Pos()), "the directory loader reads no file")
	}
}

// c20HeaderSlice: the record decoder looks at the first bytes of a stored body only where the body is
// known to be that long: a prefix b[:n] of the decoded bytes lies behind a test of len(b).
func c20HeaderSlice(w *World, r *Report) {
	r.Rule("C20/HEADER-SLICE", "in the release record decoder a fixed prefix of the decoded bytes (b[:n], b[0:n]) is taken only behind a test that len(b) is large enough", 0)
	dec := w.Fn("pkg/storage/driver", "decodeRelease")
	if dec == nil {
		r.Unk("C20/HEADER-SLICE", "anchor", "-", "decodeRelease not found")
		return
	}
	n := 0
	for _, fn := range withAnon(dec) {
		g := FullGraph(fn)
		for _, b := range fn.Blocks {
			for _, in := range b.Instrs {
				sl, ok := in.(*ssa.Slice)
				if !ok || sl.High == nil {
					continue
				}
				st, isSl := sl.X.Type().Underlying().(*types.Slice)
				if !isSl {
					continue
				}
				if bt, ok := st.Elem().Underlying().(*types.Basic); !ok || bt.Kind() != types.Uint8 {
					continue
				}
				n++
				r.Fn(FuncName(fn))
				want := nf(sl.X, 0)
				isLen := func(v ssa.Value) bool {
					c, ok := v.(*ssa.Call)
					if !ok {
						return false
					}
					bi, ok := c.Call.Value.(*ssa.Builtin)
					return ok && bi.Name() == "len" && len(c.Call.Args) == 1 && (c.Call.Args[0] == sl.X || nf(c.Call.Args[0], 0) == want)
				}
				var guard []Edge
				for _, e := range relEdges(fn, isLen, func(ssa.Value) bool { return true }) {
					if e.Rel == token.GTR || e.Rel == token.GEQ {
						guard = append(guard, e.Edge)
					}
				}
				okG := false
				if len(guard) > 0 {
					ex, _ := g.PathExists(entryPos(fn), posOf(sl), Avoid{}.withEdges(guard...))
					okG = !ex
				}
				r.Check(okG, "C20/HEADER-SLICE", fmt.Sprintf("%s/prefix#%d", FuncName(fn), n), w.InstrPos(sl), "the prefix is taken only behind a length test", "a prefix of the decoded record body is taken without a test of its length: an empty body (a stored object without the release entry) makes every read of that record panic instead of failing or being skipped")
			}
		}
	}
	if n == 0 {
		r.OKTrivial("C20/HEADER-SLICE", "none", w.Pos(dec.Pos()), "the decoder takes no prefix of the decoded bytes")
	}
}
