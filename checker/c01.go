package main

// C01 — release revision ledger well-formed (structural necessary conditions).

import (
	"fmt"
	"go/token"
	"go/types"
	"strings"

	"golang.org/x/tools/go/ssa"
)

func init() {
	register(&propDef{
		ID: "C01",
		Anchors: []string{"pkg/action/install.go", "pkg/action/upgrade.go", "pkg/action/rollback.go", "pkg/action/uninstall.go", "pkg/action/action.go",
			"pkg/storage/storage.go", "pkg/storage/driver/memory.go", "pkg/storage/driver/secrets.go", "pkg/storage/driver/cfgmaps.go", "pkg/release/v1/status.go"},
		NotDec: []string{"the invariants as evaluated on stored histories after arbitrary operation sequences", "storage-write faults and process death between calls", "that pruning leaves at most N revisions (a count)"},
		Run:    runC01,
	})
}

var mutatingOps = []opDef{actionOps[0], actionOps[1], actionOps[2]}

func runC01(w *World, r *Report) {
	ef := NewEffects(w)
	r.Rule("C01/REV", "every value stored into a release record's Version inside an operation is the constant 1 or X.Version+1 with X obtained only from Storage.Last or from element 0 of Storage.History after Reverse(SortByRevision)", 4)
	r.Rule("C01/CREATE-VERB", "Storage.Create reaches the driver's Create (never Update) on every success path; each driver's Create uses a create-if-absent primitive and maps already-exists to ErrReleaseExists", 4)
	r.Rule("C01/PENDING-STATUS", "the record passed to Storage.Create carries a pending-* status constant on every path", 3)
	r.Rule("C01/PENDING-FIRST", "every cluster-mutating call on release resources in install/upgrade/rollback happens after the ok-edge of Storage.Create of the new record", 7)
	r.Rule("C01/DEPLOYED", "in the function that marks the new record deployed, the record is the one created, has status deployed at every success exit and never at an error exit; the operation persists it afterwards", 9)
	r.Rule("C01/SUPERSEDE", "the store of StatusDeployed is preceded by superseding (and recording) the previously deployed revision(s)", 3)
	r.Rule("C01/CURRENT-SOURCE", "the revision an upgrade treats as currently deployed (and later supersedes) is Storage.Deployed's result, or Storage.Last's result only on edges where its status is deployed or Storage.Deployed reported ErrNoDeployedReleases", 2)
	r.Rule("C01/PRUNE", "removeLeastRecent only selects revisions on edges where there is no deployed revision or the revision differs from it, iterates oldest-first, and Create calls it with MaxHistory-1", 3)
	r.Rule("C01/PURGE", "uninstall without keep-history passes purgeReleases over the full history on every success return after the history was read", 2)

	for _, op := range mutatingOps {
		o := newOpCtx(w, ef, op, nil)
		if o == nil {
			r.Unk("C01/REV", op.Name+"/anchor", "-", "cannot resolve "+op.Entry+" or storage.Storage")
			continue
		}
		c01Rev(o, r)
		fns, calls, leaf := o.creatorChain()
		if leaf == nil {
			r.Unk("C01/PENDING-FIRST", op.Name+"/no-create", w.Pos(o.entry.Pos()), "no Storage.Create call found in the real-run cone of "+op.Entry)
			continue
		}
		creator := fns[len(fns)-1]
		g := o.real.Graph(creator)
		rel := leaf.Common().Args[1] // receiver is arg 0 for static method calls
		// PENDING-STATUS
		st := statusesAt(w, g, rel, posOf(leaf), 0)
		okp := len(st) > 0
		for s := range st {
			if !strings.HasPrefix(s, "pending-") {
				okp = false
			}
		}
		r.Check(okp, "C01/PENDING-STATUS", op.Name+"/create", w.InstrPos(leaf), "status of the record at Storage.Create is "+setString(st), "status of the record at Storage.Create may be "+setString(st)+" (must be a pending-* constant)")
		c01PendingFirst(o, r, fns, calls, leaf)
		c01Deployed(o, r, creator, leaf)
	}
	c01CurrentSource(w, r, ef)
	c01CreateVerb(w, r)
	c01Prune(w, r)
	c01Purge(w, r, ef)
	c01HistoryOrder(w, r, "C01/HISTORY-ORDER")
	r.Rule("C01/REPORT-LAST", "a worker that reports its result over a channel performs no ledger or cluster write after the report", 4)
	c01ReportLast(w, r, "C01/REPORT-LAST")
	c01NameReuse(w, r)
}

// ---- REV ---------------------------------------------------------------------------------------

func c01Rev(o *OpCtx, r *Report) {
	w := o.w
	cone := o.Cone(0)
	n := 0
	for fn := range cone.Funcs {
		if fnPkgPath(fn) != actionPkg {
			continue
		}
		r.Fn(FuncName(fn))
		for _, b := range fn.Blocks {
			for _, in := range b.Instrs {
				st, ok := in.(*ssa.Store)
				if !ok {
					continue
				}
				fa, ok := st.Addr.(*ssa.FieldAddr)
				if !ok || !isFieldOf(fa, relPkg, "Release", "Version") {
					continue
				}
				n++
				ok2, why := versionNormalForm(w, fn, st.Val, st)
				key := fmt.Sprintf("%s/%s/store:Release.Version", o.op.Name, FuncName(fn))
				r.Check(ok2, "C01/REV", key, w.InstrPos(st), why, why)
			}
		}
	}
	if n == 0 {
		r.Unk("C01/REV", o.op.Name+"/no-version-store", w.Pos(o.entry.Pos()), "no store to Release.Version found in the operation: rule lost its subject")
	}
}

func versionNormalForm(w *World, fn *ssa.Function, v ssa.Value, at ssa.Instruction) (bool, string) {
	if i, ok := constInt(v); ok {
		if i == 1 {
			return true, "Version = 1 (first revision)"
		}
		return false, fmt.Sprintf("Version = constant %d", i)
	}
	bo, ok := v.(*ssa.BinOp)
	if !ok || bo.Op != token.ADD {
		return false, "Version is not of the form X.Version + 1: " + v.String()
	}
	one, x := bo.Y, bo.X
	if i, ok := constInt(one); !ok || i != 1 {
		if i2, ok2 := constInt(bo.X); ok2 && i2 == 1 {
			x = bo.Y
		} else {
			return false, "Version increment is not + 1"
		}
	}
	ld, ok := x.(*ssa.UnOp)
	if !ok || ld.Op != token.MUL {
		return false, "Version base is not a field load"
	}
	fa, ok := ld.X.(*ssa.FieldAddr)
	if !ok || !isFieldOf(fa, relPkg, "Release", "Version") {
		return false, "Version base is not X.Version"
	}
	// sources of X
	srcs := map[string]bool{}
	var histLoads []*ssa.IndexAddr
	backSlice(fa.X, func(v ssa.Value) bool {
		switch v := v.(type) {
		case *ssa.Call:
			f, tf := calleeOf(v.Common())
			name := ""
			if f != nil {
				name = FuncName(f)
			} else if tf != nil {
				name = tf.FullName()
			}
			srcs[name] = true
			return true
		case *ssa.IndexAddr:
			histLoads = append(histLoads, v)
		case *ssa.Parameter:
			if isReleasePtr(v.Type()) {
				// follow to callers
				for s := range paramSources(w, v) {
					srcs[s] = true
				}
				return true
			}
		}
		return false
	})
	okAll := len(srcs) > 0
	var list []string
	for s := range srcs {
		list = append(list, s)
		switch s {
		case "(*pkg/storage.Storage).Last":
		case "(*pkg/storage.Storage).History":
			// must be element 0 after Reverse(…, SortByRevision)
			good := false
			for _, ia := range histLoads {
				if i, ok := constInt(ia.Index); ok && i == 0 && reverseSortDominates(fn, ia) {
					good = true
				}
			}
			if !good {
				okAll = false
			}
		default:
			okAll = false
		}
	}
	if okAll {
		return true, "Version = X.Version + 1 with X from " + strings.Join(list, ",")
	}
	return false, "Version = X.Version + 1 but X may come from " + strings.Join(list, ",") + " (only Storage.Last, or History[0] after Reverse(SortByRevision), give the highest revision)"
}

// paramSources: for a *Release parameter, the storage calls its arguments derive from at all call sites.
func paramSources(w *World, p *ssa.Parameter) map[string]bool {
	out := map[string]bool{}
	fn := p.Parent()
	idx := -1
	for i, q := range fn.Params {
		if q == p {
			idx = i
		}
	}
	n := 0
	for _, caller := range w.FuncsIn("pkg/action") {
		for _, c := range callInstrs(caller) {
			callee, _ := calleeOf(c.Common())
			if origin(callee) != fn || idx >= len(c.Common().Args) {
				continue
			}
			n++
			backSlice(c.Common().Args[idx], func(v ssa.Value) bool {
				switch v := v.(type) {
				case *ssa.Call:
					f, _ := calleeOf(v.Common())
					if f != nil {
						out[FuncName(f)] = true
					} else {
						out["dynamic"] = true
					}
					return true
				case *ssa.Parameter:
					out["param:"+v.Name()] = true
					return true
				}
				return false
			})
		}
	}
	if n == 0 {
		out["no-caller"] = true
	}
	return out
}

// reverseSortDominates: a call releaseutil.Reverse(h, SortByRevision) on the same slice dominates the index.
func reverseSortDominates(fn *ssa.Function, ia *ssa.IndexAddr) bool {
	g := FullGraph(fn)
	for _, c := range callInstrs(fn) {
		f, _ := calleeOf(c.Common())
		if f == nil || FuncName(f) != "pkg/release/util.Reverse" || len(c.Common().Args) < 2 {
			continue
		}
		if !sameValue(c.Common().Args[0], ia.X) {
			continue
		}
		sorter := false
		backSlice(c.Common().Args[1], func(v ssa.Value) bool {
			if f, ok := v.(*ssa.Function); ok && FuncName(f) == "pkg/release/util.SortByRevision" {
				sorter = true
			}
			return false
		})
		if sorter && g.DominatesInstr(c, posOf(ia)) {
			return true
		}
	}
	return false
}

// ---- PENDING-FIRST ----------------------------------------------------------------------------

func c01PendingFirst(o *OpCtx, r *Report, fns []*ssa.Function, calls []ssa.CallInstruction, leaf ssa.CallInstruction) {
	w := o.w
	for level, D := range fns {
		g := o.real.Graph(D)
		r.Fn(FuncName(D))
		var anchor ssa.CallInstruction
		isLeafLevel := level == len(fns)-1
		if isLeafLevel {
			anchor = leaf
		} else {
			anchor = calls[level]
		}
		for _, c := range callInstrs(D) {
			if c == anchor || !g.Reachable()[c.Block()] {
				continue
			}
			e := SpecCallEffect(w, o.ef, o.real.Graph, c.Common(), WCluster)
			if e == 0 {
				continue
			}
			s := Site{D, c, posOf(c)}
			key := fmt.Sprintf("%s/%s", o.op.Name, siteKey(s))
			isRel, what := derivesFromRelease(c.Common().Args)
			if !isRel {
				r.OKTrivial("C01/PENDING-FIRST", key, w.InstrPos(c), "cluster write on objects that are not part of the release manifest (CRDs / namespace): outside the clause")
				continue
			}
			var ok bool
			if isLeafLevel {
				ok = g.AfterOK(anchor, s.At)
			} else {
				ok = g.DominatesInstr(anchor, s.At)
			}
			r.Check(ok, "C01/PENDING-FIRST", key, w.InstrPos(c),
				fmt.Sprintf("cluster write on %s is reached only after Storage.Create of the pending record succeeded", what),
				fmt.Sprintf("cluster write on %s (%s) can be reached before the pending record is created", what, describeCall(c.Common())))
		}
	}
}

// ---- DEPLOYED / SUPERSEDE ------------------------------------------------------------------------

// exitPoint: a way control leaves a performer function with success or error.
type exitPoint struct {
	At      IPos
	Instr   ssa.Instruction
	Success bool
	Desc    string
	Pred    *ssa.BasicBlock
}

// reporterCalls: calls in fn to helm functions that send on a channel, passing an error argument.
func reporterExits(g *Graph) []exitPoint {
	var out []exitPoint
	for _, c := range callInstrs(g.Fn) {
		if !g.Reachable()[c.Block()] {
			continue
		}
		callee, _ := calleeOf(c.Common())
		if callee == nil || !inHelm(callee) || !sendsOnChannel(callee) {
			continue
		}
		args := c.Common().Args
		for _, a := range args {
			if isErrorType(a.Type()) {
				out = append(out, exitPoint{At: posOf(c), Instr: c, Success: isNilConst(a) || g.knownNilAt(a, c.Block()), Desc: "report via " + FuncName(callee)})
			}
		}
	}
	return out
}

func sendsOnChannel(fn *ssa.Function) bool {
	for _, b := range fn.Blocks {
		for _, in := range b.Instrs {
			if _, ok := in.(*ssa.Send); ok {
				return true
			}
		}
	}
	return false
}

func exitsOf(g *Graph) []exitPoint {
	out := reporterExits(g)
	if g.Fn.Signature.Results().Len() == 0 {
		if len(out) > 0 {
			return out
		}
	}
	for _, rp := range g.classifyReturns() {
		at := retPos(rp)
		out = append(out, exitPoint{At: at, Instr: rp.Ret, Success: rp.Class == RetSuccess, Desc: "return", Pred: rp.Pred})
	}
	return out
}

func c01Deployed(o *OpCtx, r *Report, creator *ssa.Function, leaf ssa.CallInstruction) {
	w := o.w
	cone := o.Cone(0)
	found := 0
	for fn := range cone.Funcs {
		if fnPkgPath(fn) != actionPkg {
			continue
		}
		g := o.real.Graph(fn)
		// deployed stores in fn, grouped by release value
		type dep struct {
			rel ssa.Value
			st  StatusStore
		}
		var deps []dep
		for _, rel := range releaseValues(fn) {
			for _, s := range statusStores(fn, rel) {
				if s.Status == "deployed" && g.Reachable()[s.Instr.Block()] {
					deps = append(deps, dep{rel, s})
				}
			}
		}
		if len(deps) == 0 {
			continue
		}
		relv := deps[0].rel
		found++
		r.Fn(FuncName(fn))
		base := fmt.Sprintf("%s/%s", o.op.Name, FuncName(fn))
		// (iii) the value is the created record
		same, why := boundToCreated(w, fn, relv, creator, leaf)
		r.Check(same, "C01/DEPLOYED", base+"/target", w.InstrPos(deps[0].st.Instr), "the record marked deployed is the record passed to Storage.Create ("+why+")", "the record marked deployed is not provably the record passed to Storage.Create: "+why)
		// (i)/(ii) exits
		for i, ex := range exitsOf(g) {
			if !g.Reachable()[ex.At.B] {
				continue
			}
			st := statusesAt(w, g, relv, ex.At, 0)
			key := fmt.Sprintf("%s/exit#%d:%s:%s", base, i, ex.Desc, map[bool]string{true: "success", false: "error"}[ex.Success])
			if ex.Success {
				ok := len(st) == 1 && st["deployed"]
				r.Check(ok, "C01/DEPLOYED", key, w.InstrPos(ex.Instr), "status at this success exit is {deployed}", "status of the new record at this success exit may be "+setString(st))
			} else {
				ok := !st["deployed"]
				r.Check(ok, "C01/DEPLOYED", key, w.InstrPos(ex.Instr), "status at this error exit is "+setString(st)+" (never deployed)", "the record may be left deployed at an error exit: "+setString(st))
			}
		}
		// SUPERSEDE
		c01Supersede(o, r, g, relv, deps[0].st)
	}
	if found == 0 {
		r.Unk("C01/DEPLOYED", o.op.Name+"/no-deployed-store", w.Pos(o.entry.Pos()), "no store of StatusDeployed found in the operation")
	}
	// (iv) persistence: every success return of the entry passes, after the creator call, a call whose cone updates storage
	eg := o.real.Graph(o.entry)
	var upd []ssa.Instruction
	for _, c := range callInstrs(o.entry) {
		if !eg.Reachable()[c.Block()] {
			continue
		}
		if coneCalls(o, c.Common(), o.update) {
			upd = append(upd, c)
		}
	}
	for i, rp := range eg.classifyReturns() {
		if rp.Class != RetSuccess {
			continue
		}
		to := retPos(rp)
		ok := len(upd) > 0
		if ok {
			ex, _ := eg.PathExists(entryPos(o.entry), to, avoidInstrs(upd...))
			ok = !ex
		}
		r.Check(ok, "C01/DEPLOYED", fmt.Sprintf("%s/persist/return#%d", o.op.Name, i), w.InstrPos(rp.Ret),
			"every path to this success return passes a call that updates the record in storage", "a success return of "+o.op.Entry+" can be reached without any storage update of the new record")
	}
}

// coneCalls: the real-run cone of the call contains a call to target.
func coneCalls(o *OpCtx, c *ssa.CallCommon, target *types.Func) bool {
	_, tf := calleeOf(c)
	if sameTFunc(tf, target) {
		return true
	}
	found := false
	seen := map[*ssa.Function]bool{}
	var walk func(f *ssa.Function)
	walk = func(f *ssa.Function) {
		f = origin(f)
		if seen[f] || found || len(f.Blocks) == 0 {
			return
		}
		seen[f] = true
		g := o.real.Graph(f)
		for _, b := range f.Blocks {
			if !g.Reachable()[b] {
				continue
			}
			for _, in := range b.Instrs {
				switch in := in.(type) {
				case ssa.CallInstruction:
					_, tf := calleeOf(in.Common())
					if sameTFunc(tf, target) {
						found = true
						return
					}
					for _, cf := range calleeFuncs(in.Common()) {
						walk(cf)
					}
				case *ssa.MakeClosure:
					if cf, ok := in.Fn.(*ssa.Function); ok {
						walk(cf)
					}
				}
			}
		}
	}
	for _, cf := range calleeFuncs(c) {
		walk(cf)
	}
	return found
}

// releaseValues: SSA values of type *release.Release that are parameters, free variables, call
// results or loads in fn (candidates for status stores).
func releaseValues(fn *ssa.Function) []ssa.Value {
	seen := map[ssa.Value]bool{}
	var out []ssa.Value
	add := func(v ssa.Value) {
		if v != nil && isReleasePtr(v.Type()) && !seen[v] {
			if _, isPtrPtr := v.Type().Underlying().(*types.Pointer).Elem().Underlying().(*types.Pointer); isPtrPtr {
				return
			}
			seen[v] = true
			out = append(out, v)
		}
	}
	for _, p := range fn.Params {
		add(p)
	}
	for _, p := range fn.FreeVars {
		add(p)
	}
	for _, b := range fn.Blocks {
		for _, in := range b.Instrs {
			if v, ok := in.(ssa.Value); ok {
				add(v)
			}
		}
	}
	return out
}

// boundToCreated: rel (in fn) is the same object as the argument of the Storage.Create leaf in creator.
func boundToCreated(w *World, fn *ssa.Function, rel ssa.Value, creator *ssa.Function, leaf ssa.CallInstruction) (bool, string) {
	created := leaf.Common().Args[1]
	cur, curFn := rel, fn
	for depth := 0; depth < 5; depth++ {
		if curFn == creator {
			if sameValue(cur, created) {
				return true, "same value as Storage.Create's argument in " + FuncName(creator)
			}
			return false, "a different value than Storage.Create's argument in " + FuncName(creator)
		}
		switch v := cur.(type) {
		case *ssa.Parameter:
			idx := -1
			for i, p := range curFn.Params {
				if p == v {
					idx = i
				}
			}
			var next ssa.Value
			var nextFn *ssa.Function
			n := 0
			for _, caller := range w.FuncsIn("pkg/action") {
				for _, c := range callInstrs(caller) {
					callee, _ := calleeOf(c.Common())
					if origin(callee) == curFn && idx < len(c.Common().Args) {
						if n > 0 && nextFn == caller && sameValue(next, c.Common().Args[idx]) {
							continue // a second call site of the same caller with the same value (one per branch)
						}
						n++
						next, nextFn = c.Common().Args[idx], caller
					}
				}
			}
			if n != 1 {
				return false, fmt.Sprintf("%s has %d call sites", FuncName(curFn), n)
			}
			cur, curFn = next, nextFn
		case *ssa.FreeVar:
			idx := -1
			for i, p := range curFn.FreeVars {
				if p == v {
					idx = i
				}
			}
			p := curFn.Parent()
			var next ssa.Value
			for _, b := range p.Blocks {
				for _, in := range b.Instrs {
					if mc, ok := in.(*ssa.MakeClosure); ok && mc.Fn == curFn {
						next = mc.Bindings[idx]
					}
				}
			}
			if next == nil {
				return false, "closure binding not found"
			}
			cur, curFn = next, p
		case *ssa.UnOp:
			// load of a captured or address-taken local variable: follow the single store into it
			var cell ssa.Value = v.X
			cellFn := curFn
			if fv, ok := cell.(*ssa.FreeVar); ok {
				idx := -1
				for i, p := range curFn.FreeVars {
					if p == fv {
						idx = i
					}
				}
				p := curFn.Parent()
				cell = nil
				for _, b := range p.Blocks {
					for _, in := range b.Instrs {
						if mc, ok := in.(*ssa.MakeClosure); ok && mc.Fn == curFn {
							cell = mc.Bindings[idx]
						}
					}
				}
				cellFn = p
			}
			al, ok := cell.(*ssa.Alloc)
			if !ok {
				return false, "value " + cur.Name() + " in " + FuncName(curFn) + " is loaded from something other than a local variable"
			}
			var stored []ssa.Value
			for _, r := range *al.Referrers() {
				if st, ok := r.(*ssa.Store); ok && st.Addr == al {
					stored = append(stored, st.Val)
				}
			}
			if len(stored) != 1 {
				return false, fmt.Sprintf("local variable %s in %s is assigned %d times", al.Comment, FuncName(cellFn), len(stored))
			}
			cur, curFn = stored[0], cellFn
		default:
			return false, "value " + cur.Name() + " in " + FuncName(curFn) + " is not a parameter of the call chain from the creator"
		}
	}
	return false, "call chain too deep"
}

func c01Supersede(o *OpCtx, r *Report, g *Graph, newRel ssa.Value, dep StatusStore) {
	w := o.w
	fn := g.Fn
	key := fmt.Sprintf("%s/%s", o.op.Name, FuncName(fn))
	if o.op.Name == "install" {
		// plain install: history is empty (availableName) unless Replace; with Replace every deployed revision must be superseded.
		c01SupersedeInstall(o, r)
		return
	}
	depAt := posOf(dep.Instr)
	for _, u := range releaseValues(fn) {
		if sameValue(u, newRel) {
			continue
		}
		for _, s := range statusStores(fn, u) {
			if s.Status != "superseded" || !g.Reachable()[s.Instr.Block()] {
				continue
			}
			// a record call on u after s
			var rec ssa.Instruction
			for _, c := range callInstrs(fn) {
				if len(c.Common().Args) == 0 {
					continue
				}
				hasU := false
				for _, a := range c.Common().Args {
					if sameValue(a, u) {
						hasU = true
					}
				}
				if hasU && coneCalls(o, c.Common(), o.update) && g.DominatesInstr(s.Instr, posOf(c)) {
					rec = c
				}
			}
			if rec == nil {
				continue
			}
			// Case A: straight-line — the supersede+record dominate the deployed store
			if g.DominatesInstr(rec, depAt) {
				src := supersedeSource(u)
				ok := src != ""
				r.Check(ok, "C01/SUPERSEDE", key, w.InstrPos(s.Instr), "previous revision ("+src+") is marked superseded and recorded before the new one is marked deployed",
					"the superseded revision does not come from the deployed/last lookup")
				return
			}
			// Case B: loop over Storage.DeployedAll whose header dominates the deployed store
			src := supersedeSource(u)
			if strings.Contains(src, "DeployedAll") {
				var call ssa.Instruction
				backSlice(u, func(v ssa.Value) bool {
					if c, ok := v.(*ssa.Call); ok {
						if f, _ := calleeOf(c.Common()); f != nil && FuncName(f) == "(*pkg/storage.Storage).DeployedAll" {
							call = c
						}
						return true
					}
					return false
				})
				if call != nil && g.DominatesInstr(call, depAt) && s.Instr.Block() == rec.Block() {
					r.OK("C01/SUPERSEDE", key, w.InstrPos(s.Instr), "every element of Storage.DeployedAll is marked superseded and recorded in a loop that precedes the deployed store")
					return
				}
			}
		}
	}
	r.Bad("C01/SUPERSEDE", key, w.InstrPos(dep.Instr), "no supersede-and-record of the previously deployed revision precedes the store of StatusDeployed")
}

// supersedeSource names where a release value comes from (storage lookups reached by its slice).
func supersedeSource(u ssa.Value) string {
	var src []string
	backSlice(u, func(v ssa.Value) bool {
		switch v := v.(type) {
		case *ssa.Call:
			if f, _ := calleeOf(v.Common()); f != nil {
				src = append(src, FuncName(f))
			}
			return true
		case *ssa.Parameter:
			src = append(src, "parameter "+v.Name())
			return true
		}
		return false
	})
	return strings.Join(src, ",")
}

// c01SupersedeInstall: with Replace, is there a supersede of every deployed revision? (today: only of
// the last revision and not when it is failed — finding F14).
func c01SupersedeInstall(o *OpCtx, r *Report) {
	w := o.w
	spec := realSpecFor(w, o.op, map[string]aval{"Replace": boolV(true)})
	cone := WalkCone(w, o.ef, o.entry, spec.Graph, 0)
	var where ssa.Instruction
	all := false
	for fn := range cone.Funcs {
		if fnPkgPath(fn) != actionPkg {
			continue
		}
		for _, u := range releaseValues(fn) {
			for _, s := range statusStores(fn, u) {
				if s.Status != "superseded" {
					continue
				}
				where = s.Instr
				if strings.Contains(supersedeSource(u), "DeployedAll") {
					all = true
				}
			}
		}
	}
	key := "install/replace"
	pos := w.Pos(o.entry.Pos())
	if where != nil {
		pos = w.InstrPos(where)
	}
	if all {
		r.OK("C01/SUPERSEDE", key, pos, "install --replace supersedes every revision returned by Storage.DeployedAll")
	} else {
		r.Bad("C01/SUPERSEDE", key, pos, "install --replace supersedes only the last revision (and not when it is failed): an older revision that is still deployed stays deployed next to the new one")
	}
}

// ---- CREATE-VERB --------------------------------------------------------------------------------

func c01CreateVerb(w *World, r *Report) {
	sc := w.Fn("pkg/storage", "Storage.Create")
	if sc == nil {
		r.Unk("C01/CREATE-VERB", "anchor", "-", "Storage.Create not found")
		return
	}
	g := FullGraph(sc)
	var creates, others []ssa.Instruction
	for _, c := range callInstrs(sc) {
		_, tf := calleeOf(c.Common())
		if tf == nil || !c.Common().IsInvoke() {
			continue
		}
		pkg, _ := recvNamed(tf)
		if tf.Pkg() != nil && (pkg == helmMod+"/pkg/storage/driver" || tf.Pkg().Path() == helmMod+"/pkg/storage/driver") {
			if tf.Name() == "Create" {
				creates = append(creates, c)
			} else if tf.Name() == "Update" {
				others = append(others, c)
			}
		}
	}
	ok := len(creates) > 0 && len(others) == 0
	if ok {
		for _, rp := range g.classifyReturns() {
			if rp.Class == RetSuccess || true {
				// the driver Create is the returned value or dominates every return that can be a success
				if c, isCall := rp.Val.(*ssa.Call); isCall && len(creates) > 0 && c == creates[0] {
					continue
				}
				if rp.Class == RetSuccess {
					if ex, _ := g.PathExists(entryPos(sc), retPos(rp), avoidInstrs(creates...)); ex {
						ok = false
					}
				}
			}
		}
	}
	r.Check(ok, "C01/CREATE-VERB", "Storage.Create", w.Pos(sc.Pos()), "Storage.Create ends in driver.Create and never calls driver.Update", "Storage.Create does not end in the driver's create-if-absent primitive (uses Update or can succeed without Create)")

	// driver implementers
	drv := w.Named(helmMod+"/pkg/storage/driver", "Driver")
	if drv == nil {
		r.Unk("C01/CREATE-VERB", "driver-iface", "-", "driver.Driver not found")
		return
	}
	iface := drv.Underlying().(*types.Interface)
	pkg := w.HelmPkg("pkg/storage/driver")
	for _, name := range pkg.Types.Scope().Names() {
		tn, ok := pkg.Types.Scope().Lookup(name).(*types.TypeName)
		if !ok || tn.IsAlias() {
			continue
		}
		if _, isIface := tn.Type().Underlying().(*types.Interface); isIface {
			continue
		}
		pt := types.NewPointer(tn.Type())
		if !types.Implements(pt, iface) {
			continue
		}
		cr := w.Fn("pkg/storage/driver", name+".Create")
		if cr == nil {
			continue
		}
		r.Fn(FuncName(cr))
		okv, why := driverCreateIsCreateIfAbsent(w, cr)
		r.Check(okv, "C01/CREATE-VERB", "driver:"+name, w.Pos(cr.Pos()), why, why)
	}
}

func driverCreateIsCreateIfAbsent(w *World, cr *ssa.Function) (bool, string) {
	usesCreate, usesUpsert := false, ""
	returnsExists := false
	for _, fn := range withAnon(cr) {
		for _, b := range fn.Blocks {
			for _, in := range b.Instrs {
				switch in := in.(type) {
				case ssa.CallInstruction:
					f, tf := calleeOf(in.Common())
					name := ""
					if tf != nil {
						name = tf.Name()
					}
					if in.Common().IsInvoke() && tf != nil && tf.Pkg() != nil && strings.HasPrefix(tf.Pkg().Path(), "k8s.io/client-go/kubernetes/typed/") {
						switch name {
						case "Create":
							usesCreate = true
						case "Update", "Patch", "Apply":
							usesUpsert = name
						}
					}
					if f != nil {
						switch FuncName(f) {
						case "(*pkg/storage/driver.records).Add":
							if recordsAddChecksExists(w, f) {
								usesCreate = true
							}
						case "(*pkg/storage/driver.records).Replace":
							usesUpsert = "records.Replace"
						}
					}
					// SQL: an INSERT builder
					if tf != nil && tf.Pkg() != nil && strings.Contains(tf.Pkg().Path(), "squirrel") {
						if name == "Insert" {
							usesCreate = true
						}
						if name == "Update" || name == "Replace" {
							usesUpsert = "sql " + name
						}
					}
				case *ssa.UnOp:
					if gl, ok := in.X.(*ssa.Global); ok && gl.Name() == "ErrReleaseExists" {
						returnsExists = true
					}
				}
			}
		}
	}
	// records.Add itself returns ErrReleaseExists
	for _, c := range callInstrs(cr) {
		if f, _ := calleeOf(c.Common()); f != nil && FuncName(f) == "(*pkg/storage/driver.records).Add" {
			returnsExists = returnsExists || globalLoaded(f, "ErrReleaseExists")
		}
	}
	// k8s drivers: inside the region entered through IsAlreadyExists(err) == true every return yields ErrReleaseExists
	g := FullGraph(cr)
	for _, c := range callInstrs(cr) {
		cc, ok := c.(*ssa.Call)
		if !ok {
			continue
		}
		f, _ := calleeOf(cc.Common())
		if f == nil || f.Name() != "IsAlreadyExists" {
			continue
		}
		for _, e := range condEdges(cc) {
			if !e.truth {
				continue
			}
			for _, rp := range g.classifyReturns() {
				rb := rp.Ret.Block()
				if rp.Pred != nil {
					rb = rp.Pred
				}
				if !edgeDominates(g, e.Edge, rb) {
					continue
				}
				isExists := false
				if ld, ok := rp.Val.(*ssa.UnOp); ok {
					if gl, ok := ld.X.(*ssa.Global); ok && gl.Name() == "ErrReleaseExists" {
						isExists = true
					}
				}
				if !isExists {
					return false, "on the already-exists edge the driver's Create can return something other than ErrReleaseExists (a duplicate create may report success)"
				}
			}
		}
	}
	switch {
	case usesUpsert != "":
		return false, "driver Create uses an overwriting primitive (" + usesUpsert + ")"
	case !usesCreate:
		return false, "driver Create does not use a create-if-absent primitive"
	case !returnsExists:
		return false, "driver Create never returns ErrReleaseExists"
	}
	return true, "uses a create-if-absent primitive and maps the conflict to ErrReleaseExists"
}

func globalLoaded(fn *ssa.Function, name string) bool {
	for _, b := range fn.Blocks {
		for _, in := range b.Instrs {
			if u, ok := in.(*ssa.UnOp); ok {
				if gl, ok := u.X.(*ssa.Global); ok && gl.Name() == name {
					return true
				}
			}
		}
	}
	return false
}

// recordsAddChecksExists: in records.Add, the append is reachable only on the false edge of Exists(key).
func recordsAddChecksExists(w *World, add *ssa.Function) bool {
	g := FullGraph(add)
	var existsCalls []*ssa.Call
	for _, c := range callInstrs(add) {
		if f, _ := calleeOf(c.Common()); f != nil && FuncName(f) == "(pkg/storage/driver.records).Exists" {
			if cc, ok := c.(*ssa.Call); ok {
				existsCalls = append(existsCalls, cc)
			}
		}
	}
	if len(existsCalls) == 0 {
		return false
	}
	var trueEdges []Edge
	for _, e := range condEdges(existsCalls[0]) {
		if e.truth {
			trueEdges = append(trueEdges, e.Edge)
		}
	}
	for _, b := range add.Blocks {
		for _, in := range b.Instrs {
			if c, ok := in.(*ssa.Call); ok {
				if bi, ok := c.Call.Value.(*ssa.Builtin); ok && bi.Name() == "append" {
					// must be dominated by the Exists call and unreachable via its true edge only
					if !g.DominatesInstr(existsCalls[0], posOf(c)) {
						return false
					}
					// reachable when the false edges are cut? then the guard does not protect it
					var falseEdges []Edge
					for _, e := range condEdges(existsCalls[0]) {
						if !e.truth {
							falseEdges = append(falseEdges, e.Edge)
						}
					}
					if ex, _ := g.PathExists(entryPos(add), posOf(c), Avoid{}.withEdges(falseEdges...)); ex {
						return false
					}
					_ = trueEdges
				}
			}
		}
	}
	return true
}

// ---- PRUNE --------------------------------------------------------------------------------------

func c01Prune(w *World, r *Report) {
	fn := w.Fn("pkg/storage", "Storage.removeLeastRecent")
	if fn == nil {
		// locate by role: the function in pkg/storage that calls deleteReleaseVersion/Delete in a loop and Deployed
		r.Unk("C01/PRUNE", "anchor", "-", "Storage.removeLeastRecent not found")
		return
	}
	r.Fn(FuncName(fn))
	g := FullGraph(fn)
	// lastDeployed := result 0 of s.Deployed(name)
	var deployed ssa.Value
	var sortCall ssa.Instruction
	for _, c := range callInstrs(fn) {
		f, _ := calleeOf(c.Common())
		if f == nil {
			continue
		}
		switch FuncName(f) {
		case "(*pkg/storage.Storage).Deployed":
			deployed = resultN(c, 0)
		case "pkg/release/util.SortByRevision":
			sortCall = c
		}
	}
	if deployed == nil {
		r.Bad("C01/PRUNE", "deployed-lookup", w.Pos(fn.Pos()), "removeLeastRecent does not look up the deployed revision: it cannot skip it")
		return
	}
	// guard edges
	var guards []Edge
	okNil, _ := nilTestEdges(deployed)
	guards = append(guards, okNil...)
	for _, b := range fn.Blocks {
		for _, in := range b.Instrs {
			bo, ok := in.(*ssa.BinOp)
			if !ok || (bo.Op != token.NEQ && bo.Op != token.EQL) {
				continue
			}
			if versionLoadOf(bo.X, deployed) || versionLoadOf(bo.Y, deployed) {
				if isVersionLoad(bo.X) && isVersionLoad(bo.Y) {
					for _, e := range condEdges(bo) {
						if e.truth == (bo.Op == token.NEQ) {
							guards = append(guards, e.Edge)
						}
					}
				}
			}
		}
	}
	n := 0
	for _, b := range fn.Blocks {
		for _, in := range b.Instrs {
			c, ok := in.(*ssa.Call)
			if !ok {
				continue
			}
			bi, ok := c.Call.Value.(*ssa.Builtin)
			if !ok || bi.Name() != "append" {
				continue
			}
			sl, ok := c.Type().Underlying().(*types.Slice)
			if !ok || !isReleasePtr(sl.Elem()) {
				continue
			}
			n++
			ex, _ := g.PathExists(entryPos(fn), posOf(c), Avoid{}.withEdges(guards...))
			r.Check(!ex && len(guards) > 0, "C01/PRUNE", fmt.Sprintf("select#%d", n), w.InstrPos(c),
				"a revision is selected for deletion only where no deployed revision exists or its Version differs from the deployed one",
				"a revision can be selected for deletion without being compared with the deployed revision")
		}
	}
	if n == 0 {
		r.Unk("C01/PRUNE", "no-select", w.Pos(fn.Pos()), "no deletion-candidate append found")
	}
	// oldest first: SortByRevision(h) dominates the first candidate selection
	okSort := false
	if sortCall != nil {
		okSort = true
		for _, b := range fn.Blocks {
			for _, in := range b.Instrs {
				if c, ok := in.(*ssa.Call); ok {
					if bi, ok := c.Call.Value.(*ssa.Builtin); ok && bi.Name() == "append" {
						if sl, ok := c.Type().Underlying().(*types.Slice); ok && isReleasePtr(sl.Elem()) && !g.DominatesInstr(sortCall, posOf(c)) {
							okSort = false
						}
					}
				}
			}
		}
	}
	r.Check(okSort, "C01/PRUNE", "oldest-first", w.Pos(fn.Pos()), "candidates are taken from the history after SortByRevision (ascending)", "the history is not sorted ascending before candidates are selected")
	// Create calls removeLeastRecent(name, MaxHistory-1) before the driver create
	sc := w.Fn("pkg/storage", "Storage.Create")
	okArg := false
	passesVersion := false
	var at ssa.Instruction
	if sc != nil {
		for _, c := range callInstrs(sc) {
			if f, _ := calleeOf(c.Common()); f != nil && origin(f) == fn {
				at = c
				for _, a := range c.Common().Args {
					if bo, ok := a.(*ssa.BinOp); ok && bo.Op == token.SUB {
						if i, ok := constInt(bo.Y); ok && i == 1 {
							if ld, ok := bo.X.(*ssa.UnOp); ok {
								if fa, ok := ld.X.(*ssa.FieldAddr); ok && isFieldOf(fa, storagePkg, "Storage", "MaxHistory") {
									okArg = true
								}
							}
						}
					}
					if isVersionLoad(a) {
						passesVersion = true
					}
				}
			}
		}
	}
	pos := "-"
	if at != nil {
		pos = w.InstrPos(at)
	}
	r.Check(okArg, "C01/PRUNE", "make-room", pos, "Storage.Create prunes to MaxHistory-1 before adding the new record", "Storage.Create does not prune to MaxHistory-1 before adding the new record")
	c01PruneSpares(w, r, "C01/PRUNE", fn, g, passesVersion, guards, pos)
}

// c01PruneSpares: (a) pruning never selects the revision that is being created or a newer one — Create
// hands the new record's Version to the pruner and every selection lies behind "candidate.Version <
// that version"; (b) a candidate is passed over only because it is the deployed revision or because of (a).
func c01PruneSpares(w *World, r *Report, rule string, fn *ssa.Function, g *Graph, passesVersion bool, differs []Edge, pos string) {
	var older, notOlder []Edge
	isIntParam := func(v ssa.Value) bool {
		p, ok := v.(*ssa.Parameter)
		if !ok {
			return false
		}
		b, ok := p.Type().Underlying().(*types.Basic)
		return ok && b.Kind() == types.Int
	}
	for _, e := range relEdges(fn, isVersionLoad, isIntParam) {
		switch e.Rel {
		case token.LSS:
			older = append(older, e.Edge)
		case token.GEQ:
			notOlder = append(notOlder, e.Edge)
		}
	}
	var appends []ssa.Instruction
	for _, b := range fn.Blocks {
		for _, in := range b.Instrs {
			if c, ok := in.(*ssa.Call); ok {
				if bi, ok := c.Call.Value.(*ssa.Builtin); ok && bi.Name() == "append" {
					if sl, ok := c.Type().Underlying().(*types.Slice); ok && isReleasePtr(sl.Elem()) {
						appends = append(appends, c)
					}
				}
			}
		}
	}
	okSpare := passesVersion && len(older) > 0
	for _, a := range appends {
		if ex, _ := g.PathExists(entryPos(fn), posOf(a), Avoid{}.withEdges(older...)); ex {
			okSpare = false
		}
	}
	r.Check(okSpare, rule, "spares-the-new-revision", pos, "the pruner is given the new record's Version and selects only older revisions", "pruning can remove the revision that is being created (or a newer one): of two operations racing for the same revision number the second removes the first one's record and then creates its own")
	if len(appends) == 0 {
		return
	}
	// passed over only for those two reasons
	comp := sccOf(fn)[appends[0].Block()]
	in := map[*ssa.BasicBlock]bool{}
	for _, b := range comp {
		in[b] = true
	}
	var hdr *ssa.BasicBlock
	for _, b := range comp {
		for _, p := range b.Preds {
			if !in[p] {
				hdr = b
			}
		}
	}
	if hdr == nil || len(hdr.Succs) != 2 {
		return
	}
	// edges on which the candidate IS the deployed revision: the complements of `differs`
	var same []Edge
	for _, e := range differs {
		if _, isIf := e.From.Instrs[len(e.From.Instrs)-1].(*ssa.If); isIf && len(e.From.Succs) == 2 && e.Via == nil {
			same = append(same, Edge{From: e.From, Succ: 1 - e.Succ})
		}
		if e.Phi != nil && len(e.From.Succs) == 2 {
			// the named condition `deployed != nil && same version`: where it is true the candidate is the deployed revision
			allFalse := true
			for i, in := range e.Phi.Edges {
				if e.Phi.Block().Preds[i] == e.Via {
					continue
				}
				if cb, ok := constBool(in); !ok || cb {
					allFalse = false
				}
			}
			if allFalse {
				same = append(same, Edge{From: e.From, Succ: 1 - e.Succ})
			}
		}
	}
	ex, _ := g.PathExists(IPos{hdr.Succs[0], -1}, IPos{hdr, 0}, avoidInstrs(appends...).withEdges(same...).withEdges(notOlder...))
	r.Check(!ex, rule, "only-deployed-and-new-exempt", pos, "a revision is passed over only when it is the deployed one (or not older than the record being created)", "a revision can be passed over for another reason: revisions that should be pruned oldest-first stay, and the history grows beyond the limit")
}

func isVersionLoad(v ssa.Value) bool {
	u, ok := v.(*ssa.UnOp)
	if !ok || u.Op != token.MUL {
		return false
	}
	fa, ok := u.X.(*ssa.FieldAddr)
	return ok && isFieldOf(fa, relPkg, "Release", "Version")
}

func versionLoadOf(v ssa.Value, rel ssa.Value) bool {
	u, ok := v.(*ssa.UnOp)
	if !ok || u.Op != token.MUL {
		return false
	}
	fa, ok := u.X.(*ssa.FieldAddr)
	if !ok || !isFieldOf(fa, relPkg, "Release", "Version") {
		return false
	}
	for a := range forwardAliases(rel) {
		if fa.X == a {
			return true
		}
	}
	return false
}

// ---- PURGE --------------------------------------------------------------------------------------

func c01Purge(w *World, r *Report, ef *Effects) {
	op := actionOps[3]
	entry := w.Fn("pkg/action", op.Entry)
	obj := w.Named(actionPkg, op.Type)
	if entry == nil || obj == nil {
		r.Unk("C01/PURGE", "anchor", "-", "Uninstall.Run not found")
		return
	}
	r.Fn(FuncName(entry))
	spec := NewSpec(w, obj, "KeepHistory=false", map[string]aval{"DryRun": boolV(false), "KeepHistory": boolV(false)})
	g := spec.Graph(entry)
	var hist ssa.CallInstruction
	for _, c := range callInstrs(entry) {
		if f, _ := calleeOf(c.Common()); f != nil && FuncName(f) == "(*pkg/storage.Storage).History" {
			hist = c
		}
	}
	if hist == nil {
		r.Unk("C01/PURGE", "history", w.Pos(entry.Pos()), "uninstall does not read the history")
		return
	}
	histVal := resultN(hist, 0)
	del := w.TFunc(storagePkg, "Storage.Delete")
	var purges []ssa.Instruction
	o := &OpCtx{w: w, ef: ef, op: op, entry: entry, obj: obj, real: spec, hasCr: map[*ssa.Function]bool{}}
	for _, c := range callInstrs(entry) {
		if !g.Reachable()[c.Block()] || !coneCalls(o, c.Common(), del) {
			continue
		}
		// argument must be the full history
		// (the list itself, not a list built from some of its elements)
		full := false
		var isWhole func(v ssa.Value, d int) bool
		isWhole = func(v ssa.Value, d int) bool {
			if v == histVal {
				return true
			}
			if d > 4 {
				return false
			}
			switch x := v.(type) {
			case *ssa.ChangeType:
				return isWhole(x.X, d+1)
			case *ssa.Slice:
				return x.Low == nil && x.High == nil && isWhole(x.X, d+1)
			case *ssa.Phi:
				for _, e := range x.Edges {
					if !isWhole(e, d+1) {
						return false
					}
				}
				return len(x.Edges) > 0
			}
			return false
		}
		for _, a := range c.Common().Args {
			if isWhole(a, 0) {
				full = true
			}
		}
		if full {
			purges = append(purges, c)
		} else {
			r.Bad("C01/PURGE", siteKey(Site{entry, c, posOf(c)}), w.InstrPos(c), "a purge call is not given the full Storage.History result")
		}
	}
	// a purge helper reports a failed delete: from the error edge of its Storage.Delete no success return is reachable
	for _, c := range purges {
		pf, _ := calleeOf(c.(ssa.CallInstruction).Common())
		if pf == nil || !inHelm(pf) || len(pf.Blocks) == 0 || FuncName(pf) == "(*pkg/storage.Storage).Delete" {
			continue
		}
		pg := FullGraph(pf)
		bad := ""
		nDel := 0
		for _, dc := range callInstrs(pf) {
			_, tf := calleeOf(dc.Common())
			if !sameTFunc(tf, del) {
				continue
			}
			nDel++
			_, badE := nilTestEdges(errResult(dc))
			okE := okEdgesOfCall(dc)
			if len(okE) == 0 {
				bad = "the result of the delete at " + w.InstrPos(dc) + " is not tested"
				continue
			}
			for _, rp := range pg.classifyReturns() {
				if rp.Class != RetSuccess {
					continue
				}
				for _, e := range badE {
					if ex, _ := pg.PathExists(IPos{e.To(), -1}, retPos(rp), Avoid{}); ex {
						bad = "after a failed delete (" + w.InstrPos(dc) + ") the helper can still return success"
					}
				}
			}
		}
		if nDel > 0 {
			r.Check(bad == "", "C01/PURGE", "purge-reports-failure/"+FuncName(pf), w.Pos(pf.Pos()), "a failed Storage.Delete makes the purge helper return an error", bad+": uninstall reports success while revisions remain stored")
		}
	}
	_, errEdges := nilTestEdges(errResult(hist))
	n := 0
	for i, rp := range g.classifyReturns() {
		if rp.Class != RetSuccess {
			continue
		}
		// only returns reachable after the history was read successfully
		if ex, _ := g.PathExists(posOf(hist), retPos(rp), Avoid{}.withEdges(errEdges...)); !ex {
			continue
		}
		n++
		ex, _ := g.PathExists(posOf(hist), retPos(rp), Avoid{}.withEdges(errEdges...).withInstrs(purges...))
		r.Check(!ex && len(purges) > 0, "C01/PURGE", fmt.Sprintf("uninstall/return#%d", i), w.InstrPos(rp.Ret),
			"this success return is reached only through purgeReleases(history…)", "uninstall without keep-history can report success without purging the history")
	}
	if n == 0 {
		r.Unk("C01/PURGE", "no-success-return", w.Pos(entry.Pos()), "no success return after the history read")
	}
}

// ---- CURRENT-SOURCE ----------------------------------------------------------------------------

func c01CurrentSource(w *World, r *Report, ef *Effects) {
	o := newOpCtx(w, ef, actionOps[1], nil)
	if o == nil {
		r.Unk("C01/CURRENT-SOURCE", "anchor", "-", "upgrade not resolved")
		return
	}
	n := 0
	for fn := range o.Cone(0).Funcs {
		if fnPkgPath(fn) != actionPkg {
			continue
		}
		var last, deployed ssa.Value
		for _, c := range callInstrs(fn) {
			f, _ := calleeOf(c.Common())
			if f == nil {
				continue
			}
			switch FuncName(f) {
			case "(*pkg/storage.Storage).Last":
				last = resultN(c, 0)
			case "(*pkg/storage.Storage).Deployed":
				deployed = resultN(c, 0)
			}
		}
		if last == nil || deployed == nil {
			continue
		}
		r.Fn(FuncName(fn))
		g := o.real.Graph(fn)
		// guard edges
		var guards []Edge
		for _, b := range fn.Blocks {
			for _, in := range b.Instrs {
				switch in := in.(type) {
				case *ssa.BinOp:
					if in.Op != token.EQL && in.Op != token.NEQ {
						continue
					}
					// lastRelease.Info.Status == "deployed"
					var other ssa.Value
					if isStatusLoadOf(in.X, last) {
						other = in.Y
					} else if isStatusLoadOf(in.Y, last) {
						other = in.X
					}
					if s, ok := constString(other); other != nil && ok && s == "deployed" {
						for _, e := range condEdges(in) {
							if e.truth == (in.Op == token.EQL) {
								guards = append(guards, e.Edge)
							}
						}
					}
				case *ssa.Call:
					f, _ := calleeOf(in.Common())
					if f != nil && f.Pkg != nil && (f.Pkg.Pkg.Path() == "github.com/pkg/errors" || f.Pkg.Pkg.Path() == "errors") && f.Name() == "Is" && len(in.Call.Args) == 2 {
						if ld, ok := in.Call.Args[1].(*ssa.UnOp); ok {
							if gl, ok := ld.X.(*ssa.Global); ok && gl.Name() == "ErrNoDeployedReleases" {
								for _, e := range condEdges(in) {
									if e.truth {
										guards = append(guards, e.Edge)
									}
								}
							}
						}
					}
				}
			}
		}
		lastAliases := forwardAliases(last)
		for _, b := range fn.Blocks {
			for _, in := range b.Instrs {
				phi, ok := in.(*ssa.Phi)
				if !ok || !isReleasePtr(phi.Type()) {
					continue
				}
				hasDeployed := false
				for _, e := range phi.Edges {
					if e == deployed || forwardAliases(deployed)[e] {
						hasDeployed = true
					}
				}
				if !hasDeployed {
					continue
				}
				for i, e := range phi.Edges {
					if e != last && !(lastAliases[e] && e != phi) {
						continue
					}
					if _, isPhi := e.(*ssa.Phi); isPhi {
						continue
					}
					pred := phi.Block().Preds[i]
					if !g.edgeFeasible(pred, phi.Block()) {
						continue
					}
					n++
					to := IPos{pred, len(pred.Instrs) - 1}
					ex, _ := g.PathExists(entryPos(fn), to, Avoid{}.withEdges(guards...))
					// the edge by which the value flows in may itself be the guard edge
					for _, ge := range guards {
						if ge.From == pred && ge.To() == phi.Block() && ge.Via == nil {
							only := true
							for si, sb := range pred.Succs {
								if sb == phi.Block() && si != ge.Succ {
									only = false
								}
							}
							if only {
								ex = false
							}
						}
					}
					r.Check(!ex && len(guards) > 0, "C01/CURRENT-SOURCE", fmt.Sprintf("%s/fallback-to-last#%d", FuncName(fn), n), w.InstrPos(pred.Instrs[len(pred.Instrs)-1]),
						"Storage.Last's result is taken as the current revision only where its status is deployed or Storage.Deployed returned ErrNoDeployedReleases",
						"Storage.Last's result can become the current revision although another revision may be deployed (any lookup error falls back to it)")
				}
			}
		}
	}
	if n == 0 {
		r.Unk("C01/CURRENT-SOURCE", "no-instance", "-", "no function of upgrade selects between Storage.Deployed and Storage.Last")
	}
}

func isStatusLoadOf(v ssa.Value, rel ssa.Value) bool {
	u, ok := v.(*ssa.UnOp)
	if !ok || u.Op != token.MUL {
		return false
	}
	fa, ok := u.X.(*ssa.FieldAddr)
	if !ok || !isFieldOf(fa, relPkg, "Info", "Status") {
		return false
	}
	ld, ok := fa.X.(*ssa.UnOp)
	if !ok {
		return false
	}
	fa2, ok := ld.X.(*ssa.FieldAddr)
	if !ok || !isFieldOf(fa2, relPkg, "Release", "Info") {
		return false
	}
	return forwardAliases(rel)[fa2.X]
}
