package main

// C04 — every value comes from the highest-precedence source that defines it (structural part).

import (
	"fmt"
	"go/token"
	"go/types"
	"sort"
	"strings"

	"golang.org/x/tools/go/ssa"
)

func init() {
	register(&propDef{
		ID:      "C04",
		Anchors: []string{"pkg/chart/v2/util/coalesce.go", "pkg/chart/v2/util/values.go", "pkg/cli/values/options.go", "pkg/strvals/parser.go", "pkg/strvals/literal_parser.go", "pkg/chart/v2/loader/load.go"},
		NotDec:  []string{"the --set grammar (escapes, list indexes, typed literals): a parser's input/output relation", "that the merged tree equals the precedence-defined tree for all inputs", "in-place merges documented as such (Upgrade.reuseValues, lint's values rule, the exported CoalesceTables/MergeTables)"},
		Run:     runC04,
	})
}

const valuesPkg = helmMod + "/pkg/cli/values"
const strvalsPkg = helmMod + "/pkg/strvals"
const loaderPkg = helmMod + "/pkg/chart/v2/loader"

// value-flag families in ascending precedence with the consumer that must write into the accumulator in place
var flagFamilies = []struct{ Field, Consumer string }{
	{"ValueFiles", "pkg/chart/v2/loader.MergeMaps"},
	{"JSONValues", "pkg/strvals.ParseJSON"},
	{"Values", "pkg/strvals.ParseInto"},
	{"StringValues", "pkg/strvals.ParseIntoString"},
	{"FileValues", "pkg/strvals.ParseIntoFile"},
	{"LiteralValues", "pkg/strvals.ParseLiteralInto"},
}

func runC04(w *World, r *Report) {
	r.Rule("C04/FLAG-ORDER", "Options.MergeValues consumes the flag families in the order -f, --set-json, --set, --set-string, --set-file, --set-literal (each family's consumer is dominated by the previous family's and never followed by it), each slice in index order, every consumer writing in place into the one accumulator", 11)
	r.Rule("C04/DEST-WINS", "every merge call has the higher-precedence tree in the destination slot, and inside the merges a source value is stored only where the destination lacks the key", 7)
	r.Rule("C04/NULL-DELETES", "a key is deleted exactly on the conditions (key present, value null, not merging) and on nothing else; CoalesceValues/CoalesceTables pass merge=false, MergeValues/MergeTables true", 6)
	r.Rule("C04/NO-MUTATION", "on the value-computation path no map that is foreign (a chart's stored Values, a caller's map, a one-level copy) is written in place, linked into a result, or passed to a parameter that is mutated or captured; exported read-only entry points keep their map parameters unmutated and uncaptured", 15)

	c04FlagOrder(w, r)
	c04DestWins(w, r)
	c04NullDeletes(w, r)
	c04NoMutation(w, r, "C04/NO-MUTATION", nil)
	c04MultiDoc(w, r)
	c04ChildSection(w, r)
	c04FlagKind(w, r)
}

func c04FlagOrder(w *World, r *Report) {
	fn := w.Fn("pkg/cli/values", "Options.MergeValues")
	if fn == nil {
		r.Unk("C04/FLAG-ORDER", "anchor", "-", "values.Options.MergeValues not found")
		return
	}
	r.Fn(FuncName(fn))
	g := FullGraph(fn)
	// accumulator: the map returned on success
	var acc ssa.Value
	for _, rp := range g.classifyReturns() {
		if rp.Class == RetSuccess {
			acc = rp.Ret.Results[0]
		}
	}
	accAliases := map[ssa.Value]bool{}
	if acc != nil {
		// the accumulator variable: the returned value, phis of it, and results of MergeMaps(acc, …) assigned back
		work := []ssa.Value{acc}
		for len(work) > 0 {
			v := work[len(work)-1]
			work = work[:len(work)-1]
			if accAliases[v] {
				continue
			}
			accAliases[v] = true
			switch x := v.(type) {
			case *ssa.Phi:
				work = append(work, x.Edges...)
			case *ssa.Call:
				if f, _ := calleeOf(x.Common()); f != nil && FuncName(f) == "pkg/chart/v2/loader.MergeMaps" {
					work = append(work, x.Call.Args[0])
				}
			}
		}
	}
	type fam struct {
		load      *ssa.FieldAddr
		consumers []ssa.CallInstruction
	}
	fams := make([]fam, len(flagFamilies))
	for _, b := range fn.Blocks {
		for _, in := range b.Instrs {
			if fa, ok := in.(*ssa.FieldAddr); ok {
				if p, t, f := fieldNameOf(fa); p == valuesPkg && t == "Options" {
					for i, ff := range flagFamilies {
						if ff.Field == f && fams[i].load == nil {
							fams[i].load = fa
						}
					}
				}
			}
		}
	}
	// table-driven form: the families sit in a local table {values: opts.X, parse: strvals.ParseY} that is
	// walked front to back, each row's values applied with the row's function on the accumulator
	tableIdx := flagTable(fn, accAliases)
	inTable := func(field string) (int, bool) { k, ok := tableIdx[field]; return k.row, ok }
	// consumers: calls of the family's consumer function inside the loop over that field
	for i, ff := range flagFamilies {
		if te, ok := tableIdx[ff.Field]; ok && fams[i].load != nil {
			key := "family:" + ff.Field
			okRow := te.consumer == ff.Consumer
			r.Check(okRow && te.onAcc, "C04/FLAG-ORDER", key+"/in-place", w.InstrPos(fams[i].load), ff.Field+" is applied with "+ff.Consumer+" (its table row) directly on the accumulator", ff.Field+" is paired with "+te.consumer+" in the table (or not applied on the accumulator): a different application changes how existing lists and maps are addressed")
			r.Check(te.forward, "C04/FLAG-ORDER", key+"/index-order", w.InstrPos(fams[i].load), "the table and the row's slice are ranged over front to back", "the table or the slice is not consumed front to back (later flags would not win)")
			fams[i].consumers = []ssa.CallInstruction{te.call}
			continue
		}
		if fams[i].load == nil {
			r.Bad("C04/FLAG-ORDER", "family:"+ff.Field, w.Pos(fn.Pos()), "the "+ff.Field+" family is not consumed by MergeValues")
			continue
		}
		for _, c := range callInstrs(fn) {
			f, _ := calleeOf(c.Common())
			if f == nil || FuncName(origin(f)) != ff.Consumer {
				continue
			}
			// belongs to this family if its value argument derives from the family's slice
			// the value argument (not the accumulator) decides the family
			der := derivesFrom(c.Common().Args[0], fams[i].load)
			if ff.Field == "ValueFiles" {
				// MergeMaps(base, currentMap): currentMap ← LoadValues(readFile(filePath))
				der = derivesFrom(c.Common().Args[1], fams[i].load)
			}
			if der {
				fams[i].consumers = append(fams[i].consumers, c)
			}
		}
		key := "family:" + ff.Field
		if len(fams[i].consumers) == 0 {
			r.Bad("C04/FLAG-ORDER", key+"/in-place", w.InstrPos(fams[i].load), "the "+ff.Field+" family is not applied with "+ff.Consumer+" (a different application changes how existing lists and maps are addressed)")
			continue
		}
		// in place into the accumulator
		okAcc := true
		for _, c := range fams[i].consumers {
			args := c.Common().Args
			dst := args[1]
			if ff.Field == "ValueFiles" {
				dst = args[0]
			}
			if !accAliases[dst] {
				okAcc = false
			}
		}
		r.Check(okAcc, "C04/FLAG-ORDER", key+"/in-place", w.InstrPos(fams[i].consumers[0]), ff.Field+" is applied with "+ff.Consumer+" directly on the accumulator", ff.Field+" is not applied directly on the accumulator that is returned")
		// index order: the slice is iterated with a range (IndexAddr with an induction variable starting at -1 / 0 and +1)
		r.Check(rangesForward(fams[i].load), "C04/FLAG-ORDER", key+"/index-order", w.InstrPos(fams[i].load), "the slice is ranged over front to back", "the slice is not consumed front to back (later flags of one family would not win)")
	}
	c04FamilyOneLoop(w, r, fn, accAliases)
	for i := 0; i+1 < len(flagFamilies); i++ {
		a, b := fams[i], fams[i+1]
		if a.load == nil || b.load == nil || len(a.consumers) == 0 || len(b.consumers) == 0 {
			continue
		}
		ra, ina := inTable(flagFamilies[i].Field)
		rb, inb := inTable(flagFamilies[i+1].Field)
		if ina && inb {
			r.Check(ra < rb, "C04/FLAG-ORDER", fmt.Sprintf("order:%s<%s", flagFamilies[i].Field, flagFamilies[i+1].Field), w.InstrPos(b.load),
				flagFamilies[i+1].Field+" comes after "+flagFamilies[i].Field+" in the table that is walked front to back", flagFamilies[i+1].Field+" comes before "+flagFamilies[i].Field+" in the table: the documented precedence is broken")
			continue
		}
		ok := true
		for _, cb := range b.consumers {
			if !ina && !inb && !g.DominatesInstr(a.load, posOf(cb)) {
				ok = false
			}
			for _, ca := range a.consumers {
				if back, _ := g.PathExists(posOf(cb), posOf(ca), Avoid{}); back {
					ok = false
				}
			}
		}
		r.Check(ok, "C04/FLAG-ORDER", fmt.Sprintf("order:%s<%s", flagFamilies[i].Field, flagFamilies[i+1].Field), w.InstrPos(b.load),
			flagFamilies[i+1].Field+" is applied strictly after "+flagFamilies[i].Field, flagFamilies[i+1].Field+" can be applied before "+flagFamilies[i].Field+": the documented precedence is broken")
	}
}

// rangesForward: the field's slice is consumed by a `for range` (index from 0 upward).
func rangesForward(fa *ssa.FieldAddr) bool {
	refs := fa.Referrers()
	if refs == nil {
		return false
	}
	for _, rf := range *refs {
		ld, ok := rf.(*ssa.UnOp)
		if !ok || ld.Referrers() == nil {
			continue
		}
		for _, u := range *ld.Referrers() {
			switch x := u.(type) {
			case *ssa.IndexAddr:
				// index is a phi of -1/0 and index+1
				if phiCountsUp(x.Index) {
					return true
				}
			case *ssa.Index:
				if phiCountsUp(x.Index) {
					return true
				}
			}
		}
	}
	return false
}

func phiCountsUp(v ssa.Value) bool {
	if bo, ok := v.(*ssa.BinOp); ok && bo.Op == token.ADD {
		if one, ok := constInt(bo.Y); ok && one == 1 {
			if phi, ok := bo.X.(*ssa.Phi); ok {
				for _, e := range phi.Edges {
					if c, ok := constInt(e); ok && (c == -1 || c == 0) {
						return true
					}
				}
			}
		}
	}
	if phi, ok := v.(*ssa.Phi); ok {
		up, start := false, false
		for _, e := range phi.Edges {
			if c, ok := constInt(e); ok && (c == 0 || c == -1) {
				start = true
			}
			if bo, ok := e.(*ssa.BinOp); ok && bo.Op == token.ADD && bo.X == phi {
				if one, ok := constInt(bo.Y); ok && one == 1 {
					up = true
				}
			}
		}
		return up && start
	}
	return false
}

// ---- DEST-WINS --------------------------------------------------------------------------------

func sourcesOf(v ssa.Value) map[string]bool {
	out := map[string]bool{}
	backSlice(v, func(x ssa.Value) bool {
		switch x := x.(type) {
		case *ssa.Parameter:
			out["param:"+x.Name()] = true
			return true
		case *ssa.FieldAddr:
			_, t, f := fieldNameOf(x)
			out["field:"+t+"."+f] = true
			return true
		case *ssa.Call:
			if f, _ := calleeOf(x.Common()); f != nil {
				if isDeepCopyCallee(f) {
					return false
				}
				n := FuncName(origin(f))
				if strings.HasSuffix(n, ".AsMap") || strings.HasSuffix(n, ".Table") {
					return false
				}
				out["call:"+n] = true
			} else {
				// a call through a local function value chosen among named functions
				for _, cf := range calleesOf(x.Common()) {
					out["call:"+FuncName(origin(cf))] = true
				}
			}
			return true
		}
		return false
	})
	return out
}

func keys(m map[string]bool) string {
	var ks []string
	for k := range m {
		ks = append(ks, k)
	}
	sort.Strings(ks)
	return strings.Join(ks, ",")
}

func c04DestWins(w *World, r *Report) {
	ctfk := overlayFn(w)
	cv := w.Fn("pkg/chart/v2/util", "coalesceValues")
	mm := w.Fn("pkg/chart/v2/loader", "MergeMaps")
	piv := w.Fn("pkg/chart/v2/util", "processImportValues")
	if ctfk == nil || cv == nil || mm == nil || piv == nil {
		r.Unk("C04/DEST-WINS", "anchor", "-", "coalesceTablesFullKey / coalesceValues / MergeMaps / processImportValues not found")
		return
	}
	for _, f := range []*ssa.Function{ctfk, cv, mm, piv} {
		r.Fn(FuncName(f))
	}
	// (a) coalesceValues: the user's tree (parameter v) is the destination, the chart default the source
	n := 0
	for _, c := range callInstrs(cv) {
		if f, _ := calleeOf(c.Common()); f != nil && origin(f) == ctfk {
			n++
			dst, src := sourcesOf(c.Common().Args[1]), sourcesOf(c.Common().Args[2])
			ok := dst["param:v"] && !dst["field:Chart.Values"] && src["field:Chart.Values"] && !src["param:v"]
			r.Check(ok, "C04/DEST-WINS", "coalesceValues/merge-call", w.InstrPos(c), "destination derives from the supplied values, source from the chart's defaults", "operands of the merge are not (supplied values, chart defaults): dst from "+keys(dst)+", src from "+keys(src))
		}
	}
	if n == 0 {
		r.Bad("C04/DEST-WINS", "coalesceValues/merge-call", w.Pos(cv.Pos()), "coalesceValues no longer merges nested tables")
	}
	// (b) inside coalesceTablesFullKey: recursion keeps the slots; a source value is stored only where dst lacks the key
	c04MergeBody(w, r, ctfk, 1, 2, "coalesceTablesFullKey")
	c04ReturnsDest(w, r, ctfk)
	// (c) MergeMaps(a, b): b wins — out[k] = v from b unconditionally at the end; recursion (out/a side, b side)
	for _, c := range callInstrs(mm) {
		if f, _ := calleeOf(c.Common()); f != nil && origin(f) == mm {
			a0, a1 := sourcesOf(c.Common().Args[0]), sourcesOf(c.Common().Args[1])
			// first operand: the entry already in the result map (a lookup of the map being built)
			firstIsResult := false
			if lk, ok := unwrapAssert(c.Common().Args[0]).(*ssa.Lookup); ok {
				_, firstIsResult = lk.X.(*ssa.MakeMap)
			} else if ex, ok := unwrapAssert(c.Common().Args[0]).(*ssa.Extract); ok {
				if lk, ok := ex.Tuple.(*ssa.Lookup); ok {
					_, firstIsResult = lk.X.(*ssa.MakeMap)
				}
			}
			ok := a1["param:b"] && !a1["param:a"] && firstIsResult
			r.Check(ok, "C04/DEST-WINS", "MergeMaps/recursion", w.InstrPos(c), "recursion keeps (earlier, later) order", "MergeMaps recursion swaps its operands: first from "+keys(a0)+", second from "+keys(a1))
		}
	}
	// every key of b ends in out: each iteration over b stores into out[k]
	c04LaterWins(w, r, mm)
	// (e) processImportValues: parent's values are the destination of the final merge
	n = 0
	for _, c := range callInstrs(piv) {
		cands := calleesOf(c.Common())
		if len(cands) == 0 {
			continue
		}
		isMerge := true
		for _, f := range cands {
			name := FuncName(origin(f))
			if name != "pkg/chart/v2/util.MergeTables" && name != "pkg/chart/v2/util.CoalesceTables" {
				isMerge = false
			}
		}
		if !isMerge {
			continue
		}
		// only the final merges whose result is stored to c.Values
		stored := false
		if v := c.Value(); v != nil && v.Referrers() != nil {
			for _, rf := range *v.Referrers() {
				if st, ok := rf.(*ssa.Store); ok {
					if _, t, fld := fieldNameOf(st.Addr); t == "Chart" && fld == "Values" {
						stored = true
					}
				}
			}
		}
		if !stored {
			continue
		}
		n++
		d := sourcesOf(c.Common().Args[0])
		ok := d["call:pkg/chart/v2/util.MergeValues"] || d["call:pkg/chart/v2/util.CoalesceValues"]
		s := sourcesOf(c.Common().Args[1])
		ok = ok && !s["call:pkg/chart/v2/util.MergeValues"] || false
		ok = (d["call:pkg/chart/v2/util.MergeValues"] || d["call:pkg/chart/v2/util.CoalesceValues"] || d["call:pkg/chart/v2/util.deepCopyMap"] || d["call:pkg/chart/v2/util.trimNilValues"])
		// the imported map b must not be the destination
		impDst := false
		backSlice(c.Common().Args[0], func(x ssa.Value) bool {
			if mk, ok := x.(*ssa.MakeMap); ok {
				_ = mk
				impDst = true
			}
			_, isCall := x.(*ssa.Call)
			return isCall
		})
		r.Check(ok && !impDst, "C04/DEST-WINS", fmt.Sprintf("processImportValues/final-merge#%d", n), w.InstrPos(c), "the parent's own values are the destination, imported values the source", "imported child values are the destination of the final merge: they would override the parent's values")
	}
	if n == 0 {
		r.Bad("C04/DEST-WINS", "processImportValues/final-merge", w.Pos(piv.Pos()), "processImportValues no longer merges imported values under the parent's")
	}
	// (d) file merge in Options.MergeValues is checked by FLAG-ORDER (accumulator first)
}

// c04MergeBody: in merge function fn(…, dst, src, …): MapUpdates on dst with values from src happen only
// on the edge where the key is absent from dst; recursive calls pass (dst-derived, src-derived).
func c04MergeBody(w *World, r *Report, fn *ssa.Function, di, si int, name string) {
	g := FullGraph(fn)
	dst, src := ssa.Value(fn.Params[di]), ssa.Value(fn.Params[si])
	for _, c := range callInstrs(fn) {
		if f, _ := calleeOf(c.Common()); f != nil && origin(f) == fn {
			a, b := c.Common().Args[di], c.Common().Args[si]
			ok := derivesFromValue(a, dst) && !derivesFromValue(a, src) && derivesFromValue(b, src) && !derivesFromValue(b, dst)
			r.Check(ok, "C04/DEST-WINS", name+"/recursion", w.InstrPos(c), "recursion keeps (destination, source) slots", "the recursive merge swaps destination and source")
		}
	}
	n := 0
	for _, b := range fn.Blocks {
		for _, in := range b.Instrs {
			mu, ok := in.(*ssa.MapUpdate)
			if !ok || mu.Map != dst || !derivesFromValue(mu.Value, src) {
				continue
			}
			n++
			// the comma-ok lookup of dst[key] whose false edge must dominate
			var absent []Edge
			for _, bb := range fn.Blocks {
				for _, i2 := range bb.Instrs {
					lk, ok := i2.(*ssa.Lookup)
					if !ok || !lk.CommaOk || lk.X != dst || lk.Referrers() == nil {
						continue
					}
					for _, rf := range *lk.Referrers() {
						if ex, ok := rf.(*ssa.Extract); ok && ex.Index == 1 {
							for _, e := range condEdges(ex) {
								if !e.truth {
									absent = append(absent, e.Edge)
								}
							}
						}
					}
				}
			}
			ex, _ := g.PathExists(entryPos(fn), posOf(mu), Avoid{}.withEdges(absent...))
			r.Check(!ex && len(absent) > 0, "C04/DEST-WINS", fmt.Sprintf("%s/store-from-source#%d", name, n), w.InstrPos(mu), "a source value is stored only where the destination lacks the key", "a source value can overwrite a key the destination already has")
		}
	}
	if n == 0 {
		r.Bad("C04/DEST-WINS", name+"/store-from-source", w.Pos(fn.Pos()), "the merge never copies missing keys from the source")
	}
}

// c04LaterWins: in MergeMaps every iteration over b ends in a store out[k] = (v | merged).
func c04LaterWins(w *World, r *Report, mm *ssa.Function) {
	g := FullGraph(mm)
	for _, l := range mapLoops(mm) {
		if l.Range.X != ssa.Value(mm.Params[1]) {
			continue
		}
		var stores []ssa.Instruction
		for b := range l.Body {
			for _, in := range b.Instrs {
				if mu, ok := in.(*ssa.MapUpdate); ok && mu.Key == l.Key {
					stores = append(stores, mu)
				}
			}
		}
		cyc, _ := g.PathExists(IPos{l.Header, len(l.Header.Instrs) - 1}, IPos{l.Header, 0}, avoidInstrs(stores...))
		r.Check(!cyc && len(stores) > 0, "C04/DEST-WINS", "MergeMaps/later-wins", w.InstrPos(l.Range), "every key of the later map is written to the result on every path through the loop body", "some key of the later map can be skipped: the later file would not win")
		return
	}
	r.Bad("C04/DEST-WINS", "MergeMaps/later-wins", w.Pos(mm.Pos()), "MergeMaps does not iterate the later map")
}

// ---- NULL-DELETES ---------------------------------------------------------------------------------

func c04NullDeletes(w *World, r *Report) {
	for _, name := range []string{"coalesceValues", "coalesceTablesFullKey"} {
		fn := w.Fn("pkg/chart/v2/util", name)
		if name == "coalesceTablesFullKey" {
			fn = overlayFn(w)
		}
		if fn == nil {
			r.Unk("C04/NULL-DELETES", name, "-", "function not found")
			continue
		}
		g := FullGraph(fn)
		var del ssa.CallInstruction
		for _, c := range callInstrs(fn) {
			if bi, ok := c.Common().Value.(*ssa.Builtin); ok && bi.Name() == "delete" {
				del = c
			}
		}
		if del == nil {
			r.Bad("C04/NULL-DELETES", name+"/delete", w.Pos(fn.Pos()), "an explicit null no longer removes the key")
			continue
		}
		// the loop containing the delete
		var loop *mapLoop
		for _, l := range mapLoops(fn) {
			if l.Body[del.Block()] {
				loop = l
			}
		}
		if loop == nil {
			r.Unk("C04/NULL-DELETES", name+"/delete", w.InstrPos(del), "delete is not inside the merge loop")
			continue
		}
		// conditions on the way from the loop header to the delete
		merge := mergeFlagOf(fn)
		kinds := map[string]bool{}
		bad := ""
		for b := range loop.Body {
			ifi, ok := b.Instrs[len(b.Instrs)-1].(*ssa.If)
			if !ok {
				continue
			}
			// on a path header → b → delete ?
			r1, _ := g.PathExists(IPos{loop.Header, len(loop.Header.Instrs) - 1}, IPos{b, len(b.Instrs) - 1}, Avoid{})
			r2 := b == del.Block()
			if !r2 {
				r2, _ = g.PathExists(IPos{b, len(b.Instrs) - 1}, posOf(del), Avoid{}.withInstrs(loop.Next))
			}
			if !r1 || !r2 {
				continue
			}
			// must be decisive: one successor cannot reach the delete
			k := condKind(ifi.Cond, merge)
			if k == "" {
				bad = w.InstrPos(ifi)
			}
			kinds[k] = true
		}
		want := kinds["present"] && kinds["null"] && kinds["merge"]
		r.Check(want && bad == "", "C04/NULL-DELETES", name+"/delete", w.InstrPos(del), "the delete depends exactly on (key present, value null, not merging)",
			map[bool]string{true: "the null-delete is additionally conditional on a test at " + bad + ": some nulls would not remove the default", false: "the null-delete lost one of its conditions (present/null/!merge): " + keys(kinds)}[bad != ""])
	}
	// constants at the public wrappers
	for _, e := range []struct {
		fn     string
		callee string
		want   bool
	}{
		{"CoalesceValues", "coalesce", false}, {"MergeValues", "coalesce", true}, {"CoalesceTables", "coalesceTablesFullKey", false}, {"MergeTables", "coalesceTablesFullKey", true},
	} {
		fn := w.Fn("pkg/chart/v2/util", e.fn)
		if fn == nil {
			r.Unk("C04/NULL-DELETES", e.fn+"/const", "-", "function not found")
			continue
		}
		ok, found := false, false
		ov := overlayFn(w)
		for _, c := range callInstrs(fn) {
			if f, _ := calleeOf(c.Common()); f != nil && (refBareName(f) == e.callee || (e.callee == "coalesceTablesFullKey" && ov != nil && origin(f) == ov)) {
				found = true
				if b, isC := mergeFlagAtCall(c, origin(f)); isC && b == e.want {
					ok = true
				}
			}
		}
		if !found {
			r.Unk("C04/NULL-DELETES", e.fn+"/const", w.Pos(fn.Pos()), e.fn+" does not call "+e.callee+" (the overlay was restructured beyond what the rule recognises): not decided")
			continue
		}
		r.Check(ok, "C04/NULL-DELETES", e.fn+"/const", w.Pos(fn.Pos()), fmt.Sprintf("%s passes merge=%v", e.fn, e.want), fmt.Sprintf("%s does not pass merge=%v: nulls would be %s", e.fn, e.want, map[bool]string{false: "kept instead of deleting defaults", true: "deleted instead of kept"}[e.want]))
	}
}

// condKind classifies a branch condition of the merge loops.
func condKind(c ssa.Value, isMerge func(ssa.Value) bool) string {
	switch x := c.(type) {
	case *ssa.Extract:
		if x.Index == 1 {
			if lk, ok := x.Tuple.(*ssa.Lookup); ok && lk.CommaOk {
				return "present"
			}
			if ta, ok := x.Tuple.(*ssa.TypeAssert); ok && ta.CommaOk {
				return "" // a type test on the way to the delete
			}
		}
	case *ssa.Parameter:
		if isMerge(x) {
			return "merge"
		}
	case *ssa.Field:
		if isMerge(x) {
			return "merge"
		}
	case *ssa.UnOp:
		if x.Op == token.NOT {
			return condKind(x.X, isMerge)
		}
		if isMerge(x) {
			return "merge"
		}
	case *ssa.BinOp:
		if (x.Op == token.EQL || x.Op == token.NEQ) && (isNilConst(x.X) || isNilConst(x.Y)) {
			return "null"
		}
	}
	return ""
}

// ---- NO-MUTATION ----------------------------------------------------------------------------------

var readOnlyEntries = [][2]string{
	{"pkg/chart/v2/util", "CoalesceValues"},
	{"pkg/chart/v2/util", "MergeValues"},
	{"pkg/chart/v2/util", "ToRenderValues"},
	{"pkg/chart/v2/util", "ToRenderValuesWithSchemaValidation"},
	{"pkg/chart/v2/util", "ProcessDependencies"},
	{"pkg/chart/v2/util", "ValidateAgainstSchema"},
	{"pkg/engine", "Engine.Render"},
	{"pkg/lint/rules", "validateValuesFile"}, // helm lint merges the chart's values.yaml over the caller's overrides, chart after chart
}

// c04NoMutation runs the ownership analysis over the value-computation cone. only (optional) restricts
// the reported sites to the named functions (used by C11).
func c04NoMutation(w *World, r *Report, rule string, only map[string]bool) {
	scope := map[*ssa.Function]bool{}
	var walk func(f *ssa.Function)
	walk = func(f *ssa.Function) {
		f = origin(f)
		if f == nil || scope[f] || !inHelm(f) || len(f.Blocks) == 0 {
			return
		}
		p := fnPkgPath(f)
		if p != utilPkg && p != loaderPkg && p != enginePkg && p != helmMod+"/pkg/chart/v2" && !(p == helmMod+"/pkg/lint/rules" && f.Name() == "validateValuesFile") {
			return
		}
		scope[f] = true
		for _, b := range f.Blocks {
			for _, in := range b.Instrs {
				switch x := in.(type) {
				case ssa.CallInstruction:
					if g, _ := calleeOf(x.Common()); g != nil {
						walk(g)
					}
				case *ssa.MakeClosure:
					if g, ok := x.Fn.(*ssa.Function); ok {
						walk(g)
					}
				}
			}
		}
	}
	var entries []*ssa.Function
	for _, e := range readOnlyEntries {
		f := w.Fn(e[0], e[1])
		if f == nil {
			r.Unk(rule, "entry/"+e[1], "-", "entry point not found")
			continue
		}
		entries = append(entries, f)
		walk(f)
	}
	own := NewOwn(w, scope)
	sites := own.Infer()
	seen := map[string]int{}
	for _, s := range sites {
		if only != nil && !only[FuncName(s.Fn)] {
			continue
		}
		r.Fn(FuncName(s.Fn))
		key := FuncName(s.Fn) + "/" + s.Key
		seen[key]++
		if seen[key] > 1 {
			key = fmt.Sprintf("%s@%d", key, seen[key])
		}
		if s.OK {
			r.OK(rule, key, w.InstrPos(s.At), s.Why)
		} else {
			r.Bad(rule, key, w.InstrPos(s.At), s.Why)
		}
	}
	// merge sources are read-only: the lower-precedence (or parent-side) tree is never written
	for _, e := range []struct{ fn, param, role string }{
		{"coalesceTablesFullKey", "src", "the lower-precedence source of a merge"},
		{"coalesceGlobals", "src", "the parent's values (globals flow downwards only)"},
		{"coalesceValues", "c", ""},
	} {
		f := w.Fn("pkg/chart/v2/util", e.fn)
		if f == nil || e.role == "" {
			continue
		}
		if only != nil && !only[FuncName(f)] {
			continue
		}
		for i, p := range f.Params {
			if p.Name() != e.param {
				continue
			}
			mut := own.mutS[f][i] || own.mutD[f][i]
			r.Check(!mut, rule, fmt.Sprintf("source-readonly/%s/param:%s", FuncName(f), e.param), w.Pos(f.Pos()), e.role+" is never written", e.role+" is written during the merge: its owner (parent chart / other charts sharing it) sees values that were meant for the destination only")
		}
	}
	if only != nil {
		return
	}
	// read-only entry points
	for _, f := range entries {
		for i, p := range f.Params {
			if !isTreeType(p.Type()) {
				continue
			}
			mut, cp := own.mutS[f][i] || own.mutD[f][i], own.capt[f][i]
			key := fmt.Sprintf("entry/%s/param:%s", FuncName(f), p.Name())
			if FuncName(f) == "(pkg/engine.Engine).Render" {
				// the engine builds per-chart scope maps that share sub-trees of the render values (read by
				// templates); only writes are forbidden
				r.Check(!mut, rule, key, w.Pos(f.Pos()), "the render values are never written (they are shared read-only with the per-chart scope maps)", "the caller's render values are written in place")
				continue
			}
			r.Check(!mut && !cp, rule, key, w.Pos(f.Pos()), "the caller's map is neither written nor linked into a result",
				fmt.Sprintf("the caller's map %s is %s by the value computation", p.Name(), map[bool]string{true: "written in place", false: "linked into a result that is later merged into"}[mut]))
		}
	}
	_ = types.Typ
}

func unwrapAssert(v ssa.Value) ssa.Value {
	for {
		switch x := v.(type) {
		case *ssa.TypeAssert:
			v = x.X
		case *ssa.Extract:
			if ta, ok := x.Tuple.(*ssa.TypeAssert); ok {
				v = ta.X
				continue
			}
			return v
		case *ssa.MakeInterface:
			v = x.X
		default:
			return v
		}
	}
}

// c04ReturnsDest: the merge works in place (its recursive calls ignore the result): it returns the
// destination itself, and something else only where the destination is nil.
func c04ReturnsDest(w *World, r *Report, ctfk *ssa.Function) {
	if len(ctfk.Params) >= 3 {
		g := FullGraph(ctfk)
		dstP := ssa.Value(ctfk.Params[1])
		nilEdges, _ := nilTestEdges(dstP)
		bad := ""
		for _, b := range ctfk.Blocks {
			if len(b.Instrs) == 0 || !g.Reachable()[b] {
				continue
			}
			ret, ok := b.Instrs[len(b.Instrs)-1].(*ssa.Return)
			if !ok || len(ret.Results) == 0 {
				continue
			}
			var judge func(v ssa.Value, at IPos, d int)
			judge = func(v ssa.Value, at IPos, d int) {
				if v == dstP {
					return
				}
				if phi, isPhi := v.(*ssa.Phi); isPhi && d < 3 {
					for i, e := range phi.Edges {
						p := phi.Block().Preds[i]
						if len(p.Instrs) > 0 && g.Reachable()[p] {
							judge(e, IPos{p, len(p.Instrs) - 1}, d+1)
						}
					}
					return
				}
				if ex, _ := g.PathExists(entryPos(ctfk), at, Avoid{}.withEdges(nilEdges...)); ex || len(nilEdges) == 0 {
					bad = w.InstrPos(ret)
				}
			}
			judge(ret.Results[0], posOf(ret), 0)
		}
		r.Check(bad == "", "C04/DEST-WINS", "coalesceTablesFullKey/returns-destination", w.Pos(ctfk.Pos()), "the in-place merge returns its destination (another table only where the destination is nil)", "the merge can return a table other than its destination although the destination is not nil (at "+bad+"): the nested call sites ignore the result, so keys of the lower-precedence table are lost")
	}
}

// c04MultiDoc: a values file may hold several YAML documents; each is decoded into a map of its own and
// merged key by key into what the earlier documents gave (decoding straight into the accumulated map
// would replace nested tables wholesale).
func c04MultiDoc(w *World, r *Report) {
	r.Rule("C04/MULTI-DOC", "LoadValues decodes every YAML document into a map created for that document and folds it into the accumulated values with MergeMaps (accumulated first, new document second) on every path of the loop", 1)
	fn := w.Fn("pkg/chart/v2/loader", "LoadValues")
	mm := w.Fn("pkg/chart/v2/loader", "MergeMaps")
	if fn == nil || mm == nil {
		r.Unk("C04/MULTI-DOC", "anchor", "-", "loader.LoadValues / MergeMaps not found")
		return
	}
	r.Fn(FuncName(fn))
	scc := sccOf(fn)
	var dec ssa.CallInstruction
	var merges []ssa.CallInstruction
	for _, c := range callInstrs(fn) {
		f, _ := calleeOf(c.Common())
		if f == nil {
			continue
		}
		if (fnPkgPath(f) == "sigs.k8s.io/yaml" || fnPkgPath(f) == "encoding/json") && strings.HasPrefix(f.Name(), "Unmarshal") {
			dec = c
		}
		if origin(f) == mm {
			merges = append(merges, c)
		}
	}
	if dec == nil || len(merges) == 0 {
		r.Bad("C04/MULTI-DOC", "LoadValues", w.Pos(fn.Pos()), "LoadValues no longer decodes each document and merges it with MergeMaps")
		return
	}
	comp := scc[dec.Block()]
	in := map[*ssa.BasicBlock]bool{}
	for _, b := range comp {
		in[b] = true
	}
	why := ""
	// the decode target: an allocation made inside the loop, holding a map made inside the loop
	fresh := false
	if al, ok := dec.Common().Args[1].(*ssa.Alloc); ok && in[al.Block()] && len(comp) > 1 {
		for _, rf := range *al.Referrers() {
			if st, ok := rf.(*ssa.Store); ok && st.Addr == ssa.Value(al) {
				if mk, ok := st.Val.(*ssa.MakeMap); ok && in[mk.Block()] {
					fresh = true
				}
			}
		}
	} else if mi, ok := dec.Common().Args[1].(*ssa.MakeInterface); ok {
		if al, ok := mi.X.(*ssa.Alloc); ok && in[al.Block()] && len(comp) > 1 {
			for _, rf := range *al.Referrers() {
				if st, ok := rf.(*ssa.Store); ok && st.Addr == ssa.Value(al) {
					if mk, ok := st.Val.(*ssa.MakeMap); ok && in[mk.Block()] {
						fresh = true
					}
				}
			}
		}
	}
	if !fresh {
		why = "the document is not decoded into a map created for it (it is decoded into a map that outlives the iteration)"
	}
	// the merge follows the decode on every path back to the loop head
	g := FullGraph(fn)
	var ms []ssa.Instruction
	for _, m := range merges {
		ms = append(ms, m)
	}
	if why == "" {
		oks := okEdgesOfCall(dec)
		for _, e := range oks {
			for _, b := range comp {
				isHdr := false
				for _, p := range b.Preds {
					if !in[p] {
						isHdr = true
					}
				}
				if isHdr && len(e.To().Instrs) > 0 {
					if ex, _ := g.PathExists(IPos{e.To(), -1}, IPos{b, 0}, avoidInstrs(ms...)); ex {
						why = "a decoded document can be dropped without being merged"
					}
				}
			}
		}
	}
	r.Check(why == "", "C04/MULTI-DOC", "LoadValues", w.InstrPos(dec), "each document gets its own map and is merged key by key", why+": a table repeated in a later document replaces the earlier one instead of merging with it")
}

type flagTableEntry struct {
	row      int
	consumer string
	call     ssa.CallInstruction
	onAcc    bool
	forward  bool
}

// flagTable recognises `rows := []struct{…}{{…, opts.Values, strvals.ParseInto}, …}; for _, row := range rows
// { for _, v := range row.values { row.parse(v, acc) } }` and returns, per Options field, its row.
func flagTable(fn *ssa.Function, acc map[ssa.Value]bool) map[string]flagTableEntry {
	out := map[string]flagTableEntry{}
	for _, b := range fn.Blocks {
		for _, in := range b.Instrs {
			al, ok := in.(*ssa.Alloc)
			if !ok {
				continue
			}
			arr, ok := al.Type().Underlying().(*types.Pointer).Elem().Underlying().(*types.Array)
			if !ok {
				continue
			}
			st, ok := arr.Elem().Underlying().(*types.Struct)
			if !ok || al.Referrers() == nil {
				continue
			}
			_ = st
			type row struct {
				field, consumer string
			}
			rows := map[int]*row{}
			for _, rf := range *al.Referrers() {
				ia, ok := rf.(*ssa.IndexAddr)
				if !ok || ia.Referrers() == nil {
					continue
				}
				idx, ok := constInt(ia.Index)
				if !ok {
					continue
				}
				rw := rows[int(idx)]
				if rw == nil {
					rw = &row{}
					rows[int(idx)] = rw
				}
				// the row is either filled field by field in place, or built in a temporary and stored whole
				var holders []ssa.Value
				holders = append(holders, ia)
				for _, rr := range *ia.Referrers() {
					if s0, ok := rr.(*ssa.Store); ok && s0.Addr == ssa.Value(ia) {
						if ld, ok := s0.Val.(*ssa.UnOp); ok && ld.Op == token.MUL {
							if tmp, ok := ld.X.(*ssa.Alloc); ok {
								holders = append(holders, tmp)
							}
						}
					}
				}
				for _, h := range holders {
					if h.Referrers() == nil {
						continue
					}
					for _, rr := range *h.Referrers() {
						fa, ok := rr.(*ssa.FieldAddr)
						if !ok || fa.Referrers() == nil {
							continue
						}
						for _, r3 := range *fa.Referrers() {
							s3, ok := r3.(*ssa.Store)
							if !ok || s3.Addr != ssa.Value(fa) {
								continue
							}
							switch v := s3.Val.(type) {
							case *ssa.UnOp:
								if p, t, f := fieldNameOf(v.X); p == valuesPkg && t == "Options" {
									rw.field = f
								}
							case *ssa.Function:
								rw.consumer = FuncName(v)
							case *ssa.MakeClosure:
								if cf, ok := v.Fn.(*ssa.Function); ok {
									for _, c := range callInstrs(cf) {
										if f, _ := calleeOf(c.Common()); f != nil && strings.HasPrefix(FuncName(f), "pkg/strvals.") {
											rw.consumer = FuncName(f)
										}
									}
								}
							case *ssa.ChangeType:
								if f, ok := v.X.(*ssa.Function); ok {
									rw.consumer = FuncName(f)
								}
							}
						}
					}
				}
			}
			nField := 0
			for _, rw := range rows {
				if rw.field != "" {
					nField++
				}
			}
			if nField < 2 {
				continue
			}
			// the dynamic call through the row's function field
			var dyn ssa.CallInstruction
			onAcc := false
			for _, c := range callInstrs(fn) {
				if c.Common().IsInvoke() || c.Common().StaticCallee() != nil {
					continue
				}
				if _, isB := c.Common().Value.(*ssa.Builtin); isB {
					continue
				}
				if _, isMC := c.Common().Value.(*ssa.MakeClosure); isMC {
					continue
				}
				args := c.Common().Args
				if len(args) >= 2 && acc[args[1]] {
					dyn = c
					onAcc = true
				} else if dyn == nil && len(args) >= 2 {
					dyn = c
				}
			}
			if dyn == nil {
				continue
			}
			// front to back: every IndexAddr with a variable index on slices in this function counts up
			forward := true
			for _, b2 := range fn.Blocks {
				for _, in2 := range b2.Instrs {
					if ia, ok := in2.(*ssa.IndexAddr); ok {
						if _, isC := constInt(ia.Index); !isC && !phiCountsUp(ia.Index) {
							if reach, _ := FullGraph(fn).PathExists(posOf(ia), posOf(dyn), Avoid{}); reach {
								forward = false
							}
						}
					}
				}
			}
			for i, rw := range rows {
				if rw.field != "" {
					out[rw.field] = flagTableEntry{row: i, consumer: rw.consumer, call: dyn, onAcc: onAcc, forward: forward}
				}
			}
		}
	}
	return out
}

// c04ChildSection: whether a key of the values names a subchart's section is decided from the charts
// that are actually loaded below the parent (declared or not): "not a child" is answered only after
// they were looked at. A section wrongly taken for plain values has its nulls consumed one level too early.
func c04ChildSection(w *World, r *Report) {
	r.Rule("C04/CHILD-SECTION", "the test whether a values key is a subchart's section answers anything but a constant true only after scanning the parent's loaded dependencies", 1)
	fn := w.Fn("pkg/chart/v2/util", "childChartMergeTrue")
	if fn == nil {
		// the predicate was folded into its caller: the merge flag handed to the key-by-key overlay for a
		// nested table must still be computed from a scan of the loaded dependencies
		cv := w.Fn("pkg/chart/v2/util", "coalesceValues")
		ctfk := overlayFn(w)
		if cv == nil || ctfk == nil {
			r.Unk("C04/CHILD-SECTION", "anchor", "-", "neither childChartMergeTrue nor coalesceValues/coalesceTablesFullKey found")
			return
		}
		r.Fn(FuncName(cv))
		n := 0
		for _, f := range withAnon(cv) {
			for _, c := range callInstrs(f) {
				if cf, _ := calleeOf(c.Common()); cf == nil || origin(cf) != ctfk {
					continue
				}
				for _, a := range c.Common().Args {
					if !isBoolType(a.Type()) {
						continue
					}
					n++
					scans := false
					var conds []ssa.Value
					visit := func(x ssa.Value) bool {
						if cc, ok := x.(*ssa.Call); ok {
							if g, _ := calleeOf(cc.Common()); g != nil && FuncName(g) == "(*pkg/chart/v2.Chart).Dependencies" {
								scans = true
							}
						}
						if phi, ok := x.(*ssa.Phi); ok {
							// a || b: the value also depends on the condition that selected the incoming edge
							for _, pb := range phi.Block().Preds {
								for b, d := pb, 0; b != nil && d < 3; b, d = b.Idom(), d+1 {
									if len(b.Instrs) > 0 {
										if ifi, ok := b.Instrs[len(b.Instrs)-1].(*ssa.If); ok {
											conds = append(conds, ifi.Cond)
										}
									}
								}
							}
						}
						return false
					}
					backSlice(a, visit)
					for i := 0; i < len(conds) && i < 16; i++ {
						backSlice(conds[i], visit)
					}
					r.Check(scans, "C04/CHILD-SECTION", fmt.Sprintf("inline#%d", n), w.InstrPos(c), "the merge flag of the nested overlay is computed from a scan of the loaded dependencies", "the merge flag handed to the nested overlay does not depend on the loaded dependencies (Chart.Dependencies()): a subchart's section is merged like plain values and nulls in it are consumed one level too early")
				}
			}
		}
		if n == 0 {
			r.Unk("C04/CHILD-SECTION", "anchor", "-", "childChartMergeTrue not found and coalesceValues makes no nested overlay call")
		}
		return
	}
	r.Fn(FuncName(fn))
	g := FullGraph(fn)
	var scans []ssa.Instruction
	for _, f := range withAnon(fn) {
		if f != fn {
			continue
		}
		for _, c := range callInstrs(f) {
			if cf, _ := calleeOf(c.Common()); cf != nil && FuncName(cf) == "(*pkg/chart/v2.Chart).Dependencies" {
				scans = append(scans, c)
			}
		}
	}
	n := 0
	for _, b := range fn.Blocks {
		if len(b.Instrs) == 0 || !g.Reachable()[b] {
			continue
		}
		ret, ok := b.Instrs[len(b.Instrs)-1].(*ssa.Return)
		if !ok || len(ret.Results) != 1 {
			continue
		}
		if cb, isC := constBool(ret.Results[0]); isC && cb {
			continue
		}
		n++
		ex, _ := g.PathExists(entryPos(fn), posOf(ret), avoidInstrs(scans...))
		r.Check(!ex && len(scans) > 0, "C04/CHILD-SECTION", fmt.Sprintf("return#%d", n), w.InstrPos(ret), "answered after looking at the loaded dependencies", "the key can be declared 'not a subchart section' without looking at the loaded dependencies (Chart.Dependencies()): for a subchart that is loaded but not matched by that shortcut, a null in the user's values is consumed while merging the parent's section and the subchart's default comes back")
	}
	if n == 0 {
		r.Unk("C04/CHILD-SECTION", "no-return", w.Pos(fn.Pos()), "no non-constant answer found")
	}
}

// c04FamilyOneLoop: inside one flag family the command-line order decides (later wins). The values of
// a family may be pre-processed into another list, but everything of the family that is merged into
// the accumulator is merged in one loop: two loops over two partial lists (say, all JSON objects first,
// then all key=value expressions) lose the order between the parts.
func c04FamilyOneLoop(w *World, r *Report, fn *ssa.Function, accAliases map[ssa.Value]bool) {
	scc := sccOf(fn)
	isLoop := func(b *ssa.BasicBlock) bool {
		comp := scc[b]
		if len(comp) > 1 {
			return true
		}
		for _, s := range b.Succs {
			if s == b {
				return true
			}
		}
		return false
	}
	compID := func(b *ssa.BasicBlock) *ssa.BasicBlock {
		comp := scc[b]
		if len(comp) == 0 {
			return b
		}
		min := comp[0]
		for _, x := range comp {
			if x.Index < min.Index {
				min = x
			}
		}
		return min
	}
	// merge sites: calls that are handed the accumulator
	var sites []ssa.CallInstruction
	for _, c := range callInstrs(fn) {
		if _, isBuiltin := c.Common().Value.(*ssa.Builtin); isBuiltin {
			continue
		}
		for _, a := range c.Common().Args {
			if accAliases[a] && isLoop(c.Block()) {
				sites = append(sites, c)
				break
			}
		}
	}
	for _, ff := range flagFamilies {
		lists := map[ssa.Value]bool{}
		for _, b := range fn.Blocks {
			for _, in := range b.Instrs {
				if ld, ok := in.(*ssa.UnOp); ok && ld.Op == token.MUL {
					if p, t, f := fieldNameOf(ld.X); p == valuesPkg && t == "Options" && f == ff.Field {
						lists[ld] = true
					}
				}
			}
		}
		if len(lists) == 0 {
			continue
		}
		loops := map[*ssa.BasicBlock]bool{} // loops (by id) that walk a list of the family
		for round := 0; round < 4; round++ {
			changed := false
			for _, b := range fn.Blocks {
				if !isLoop(b) {
					continue
				}
				for _, in := range b.Instrs {
					var x ssa.Value
					switch y := in.(type) {
					case *ssa.IndexAddr:
						x = y.X
					case *ssa.Index:
						x = y.X
					case *ssa.Range:
						x = y.X
					}
					if x != nil && lists[x] && !loops[compID(b)] {
						loops[compID(b)] = true
						changed = true
					}
				}
			}
			// lists appended to inside such a loop belong to the family
			for _, b := range fn.Blocks {
				if !isLoop(b) || !loops[compID(b)] {
					continue
				}
				for _, in := range b.Instrs {
					c, ok := in.(*ssa.Call)
					if !ok {
						continue
					}
					if bi, ok := c.Call.Value.(*ssa.Builtin); !ok || bi.Name() != "append" {
						continue
					}
					for a := range forwardAliases(c) {
						if !lists[a] {
							lists[a] = true
							changed = true
						}
					}
				}
			}
			if !changed {
				break
			}
		}
		in := map[*ssa.BasicBlock]ssa.CallInstruction{}
		for _, s := range sites {
			if loops[compID(s.Block())] {
				if _, ok := in[compID(s.Block())]; !ok {
					in[compID(s.Block())] = s
				}
			}
		}
		if len(in) == 0 {
			continue
		}
		pos := ""
		for _, s := range in {
			if p := w.InstrPos(s); p > pos {
				pos = p
			}
		}
		r.Check(len(in) == 1, "C04/FLAG-ORDER", "family:"+ff.Field+"/one-loop", pos, "everything of the family is merged into the accumulator in one loop", fmt.Sprintf("the %s family is merged into the accumulator in %d separate loops over parts of it: the command-line order between the parts is lost (a later flag no longer wins over an earlier one of the other part)", ff.Field, len(in)))
	}
}

// c04FlagKind: the --set family hands each argument to its parser whole (the parsers have their own
// comma and escape syntax; --set-literal takes everything after '=' literally). pflag's StringSlice flags
// run the argument through a CSV reader first; only StringArray flags do not.
func c04FlagKind(w *World, r *Report) {
	r.Rule("C04/FLAG-KIND", "the --set, --set-string, --set-file, --set-json and --set-literal flags are registered as pflag string-array flags (no comma splitting before the values parser sees the argument)", 5)
	want := map[string]bool{"Values": true, "StringValues": true, "FileValues": true, "JSONValues": true, "LiteralValues": true}
	n := 0
	for _, fn := range w.HelmFuncs() {
		if !strings.HasSuffix(fnPkgPath(fn), "/pkg/cmd") || strings.HasSuffix(w.FileOf(fn), "_test.go") {
			continue
		}
		for _, c := range callInstrs(fn) {
			f, _ := calleeOf(c.Common())
			if f == nil || !strings.HasSuffix(fnPkgPath(f), "spf13/pflag") || !strings.Contains(f.Name(), "Var") {
				continue
			}
			args := c.Common().Args
			if len(args) < 3 {
				continue
			}
			fa, ok := args[1].(*ssa.FieldAddr)
			if !ok {
				continue
			}
			p, t, fld := fieldNameOf(fa)
			if p != valuesPkg || t != "Options" || !want[fld] {
				continue
			}
			n++
			name, _ := constString(args[2])
			r.Check(strings.HasPrefix(f.Name(), "StringArrayVar"), "C04/FLAG-KIND", "flag:"+fld, w.InstrPos(c), "--"+name+" is a string-array flag", "--"+name+" is registered with "+f.Name()+": pflag splits the argument at commas before the values parser sees it (a literal or a list value is torn apart, and the pieces are applied as separate flags)")
		}
	}
	if n == 0 {
		r.Unk("C04/FLAG-KIND", "no-site", "-", "no registration of the --set flags found in pkg/cmd")
	}
}

// overlayFn: the key-by-key overlay (coalesceTablesFullKey on the reference tree). If the function of
// that name is gone, it is found by role: the function of pkg/chart/v2/util that calls itself, takes two
// values tables and deletes a key from one of them. (A free function turned into a method of a small
// struct keeps its table parameters at the same positions: the receiver takes the place of printf.)
func overlayFn(w *World) *ssa.Function {
	if fn := w.Fn("pkg/chart/v2/util", "coalesceTablesFullKey"); fn != nil {
		return fn
	}
	isTable := func(t types.Type) bool {
		mp, ok := t.Underlying().(*types.Map)
		if !ok || !isStringType(mp.Key()) {
			return false
		}
		_, isIface := mp.Elem().Underlying().(*types.Interface)
		return isIface
	}
	var found *ssa.Function
	for _, f := range w.FuncsIn("pkg/chart/v2/util") {
		if f.Parent() != nil || strings.HasSuffix(w.FileOf(f), "_test.go") || f.Name() == "coalesceValues" {
			continue
		}
		nt := 0
		for _, p := range f.Params {
			if isTable(p.Type()) {
				nt++
			}
		}
		if nt < 2 {
			continue
		}
		self, del := false, false
		for _, c := range callInstrs(f) {
			if cf, _ := calleeOf(c.Common()); cf != nil && origin(cf) == f {
				self = true
			}
			if bi, ok := c.Common().Value.(*ssa.Builtin); ok && bi.Name() == "delete" {
				del = true
			}
		}
		if self && del {
			found = f
		}
	}
	return found
}

// mergeFlagOf: which values inside fn are "the merge flag" (nulls are kept when it is true): the bool
// parameter named merge, or — for a method of a struct that carries the flag — the loads of the
// receiver's only bool field.
func mergeFlagOf(fn *ssa.Function) func(ssa.Value) bool {
	for _, p := range fn.Params {
		if p.Name() == "merge" && isBoolType(p.Type()) {
			pp := p
			return func(v ssa.Value) bool { return v == ssa.Value(pp) }
		}
	}
	if fn.Signature.Recv() == nil || len(fn.Params) == 0 {
		return func(ssa.Value) bool { return false }
	}
	recv := ssa.Value(fn.Params[0])
	rt := recv.Type()
	if p, ok := rt.Underlying().(*types.Pointer); ok {
		rt = p.Elem()
	}
	st, ok := rt.Underlying().(*types.Struct)
	if !ok {
		return func(ssa.Value) bool { return false }
	}
	field := -1
	for i := 0; i < st.NumFields(); i++ {
		if isBoolType(st.Field(i).Type()) {
			if field >= 0 {
				return func(ssa.Value) bool { return false }
			}
			field = i
		}
	}
	if field < 0 {
		return func(ssa.Value) bool { return false }
	}
	return func(v ssa.Value) bool {
		switch x := v.(type) {
		case *ssa.Field: // value receiver
			return x.Field == field && x.X == recv
		case *ssa.UnOp: // pointer receiver, or a spilled value receiver
			if fa, ok := x.X.(*ssa.FieldAddr); ok && x.Op == token.MUL && fa.Field == field {
				if fa.X == recv {
					return true
				}
				if al, ok := fa.X.(*ssa.Alloc); ok && al.Referrers() != nil {
					for _, rf := range *al.Referrers() {
						if s, ok := rf.(*ssa.Store); ok && s.Addr == ssa.Value(al) && s.Val == recv {
							return true
						}
					}
				}
			}
		}
		return false
	}
}

// mergeFlagAtCall: the constant merge flag a call of the overlay runs with: its last argument, or the
// bool field of the struct literal it is called on.
func mergeFlagAtCall(c ssa.CallInstruction, callee *ssa.Function) (bool, bool) {
	args := c.Common().Args
	if len(args) == 0 {
		return false, false
	}
	if b, isC := constBool(args[len(args)-1]); isC {
		return b, true
	}
	if callee.Signature.Recv() == nil {
		return false, false
	}
	var lit *ssa.Alloc
	switch x := args[0].(type) {
	case *ssa.Alloc:
		lit = x
	case *ssa.UnOp:
		lit, _ = x.X.(*ssa.Alloc)
	}
	if lit == nil || lit.Referrers() == nil {
		return false, false
	}
	for _, rf := range *lit.Referrers() {
		fa, ok := rf.(*ssa.FieldAddr)
		if !ok || fa.Referrers() == nil {
			continue
		}
		for _, rr := range *fa.Referrers() {
			if st, ok := rr.(*ssa.Store); ok && st.Addr == ssa.Value(fa) && isBoolType(st.Val.Type()) {
				if b, isC := constBool(st.Val); isC {
					return b, true
				}
			}
		}
	}
	return false, false
}
