package main

// C11 — subcharts see only their own and global values; disabled ones vanish (structural part).

import (
	"fmt"
	"go/token"
	"go/types"
	"strings"

	"golang.org/x/tools/go/ssa"
)

func init() {
	register(&propDef{
		ID:      "C11",
		Anchors: []string{"pkg/chart/v2/util/dependencies.go", "pkg/chart/v2/util/coalesce.go", "pkg/engine/engine.go", "pkg/chart/v2/dependency.go", "pkg/chart/v2/util/jsonschema.go"},
		NotDec:  []string{"the tag truth table and which condition path resolves to a boolean for given values (value-dependent)", "what a template actually prints for given values"},
		Run:     runC11,
	})
}

func runC11(w *World, r *Report) {
	r.Rule("C11/NO-UPWARD-FLOW", "propagating globals into a subchart never writes the parent's tree: the parent-side parameter carries no mutation contract and every tree handed to a mutating merge there is a deep copy", 3)
	r.Rule("C11/GLOBAL-DIRECTION", "globals are propagated from the parent's values into each subchart's section, the parent's setting in the destination (winning) slot of the nested merge", 2)
	r.Rule("C11/SCOPE", "a non-root chart's .Values is the table Values.<name> of its parent's scope (or empty); children are given the parent's scope object, never the raw values", 2)
	r.Rule("C11/DISABLED-VANISH", "disabled dependencies are removed from both the metadata list and the chart list by the same name set, the lists are rebuilt (never filtered in place), only kept charts are recursed into, and after the first boolean condition no further condition path is consulted", 7)
	r.Rule("C11/ALIAS", "an aliased dependency is a copy with its own metadata; the original chart and metadata are not written", 1)

	c04NoMutation(w, r, "C11/NO-UPWARD-FLOW", map[string]bool{"pkg/chart/v2/util.coalesceGlobals": true})
	c11GlobalDirection(w, r)
	c11Scope(w, r)
	c11Disabled(w, r)
	c11Alias(w, r)
	c11AliasWhole(w, r, "C11/ALIAS")
	c11NameInPath(w, r)
	c11AliasesFirst(w, r)
	c11EnabledBeforeImport(w, r)
	c11CRDsAfterPrune(w, r)
	c11SearchExhausts(w, r)
	c11Recursion(w, r)
	r.Rule("C11/ENABLED-VALUES", "the values from which dependencies are enabled or disabled are the values that are rendered and recorded: install and upgrade hand one values object to dependency processing, rendering and the new record", 2)
	c13Current(w, r, "C11/ENABLED-VALUES", true)
	c13InstallValues(w, r, "C11/ENABLED-VALUES")
	r.Rule("C11/NO-ALIASING", "dependency lists of a chart are never filtered in place (x[:0] then append) while the chart still uses them", 1)
	checkInPlaceFilters(w, r, "C11/NO-ALIASING", []string{"pkg/chart/v2/util", "pkg/chart/v2", "pkg/engine"})
}

func c11GlobalDirection(w *World, r *Report) {
	cg := w.Fn("pkg/chart/v2/util", "coalesceGlobals")
	cd := w.Fn("pkg/chart/v2/util", "coalesceDeps")
	ctfk := overlayFn(w)
	if cg == nil || cd == nil || ctfk == nil {
		r.Unk("C11/GLOBAL-DIRECTION", "anchor", "-", "coalesceGlobals / coalesceDeps / coalesceTablesFullKey not found")
		return
	}
	r.Fn(FuncName(cg))
	r.Fn(FuncName(cd))
	// call in coalesceDeps: (dest = the subchart's section dest[sub.Name()], src = dest itself)
	n := 0
	for _, c := range callInstrs(cd) {
		if f, _ := calleeOf(c.Common()); f != nil && origin(f) == cg {
			n++
			dst, src := c.Common().Args[1], c.Common().Args[2]
			var destParam ssa.Value
			for _, p := range cd.Params {
				if p.Name() == "dest" {
					destParam = p
				}
			}
			isSection := false
			backSlice(dst, func(v ssa.Value) bool {
				if lk, ok := v.(*ssa.Lookup); ok && lk.X == destParam {
					keyFromName := false
					backSlice(lk.Index, func(x ssa.Value) bool {
						if cc, ok := x.(*ssa.Call); ok {
							if ff, _ := calleeOf(cc.Common()); ff != nil && FuncName(ff) == "(*pkg/chart/v2.Chart).Name" {
								keyFromName = true
							}
							return true
						}
						return false
					})
					isSection = keyFromName
					return true
				}
				_, isCall := v.(*ssa.Call)
				return isCall
			})
			r.Check(isSection && src == destParam, "C11/GLOBAL-DIRECTION", "coalesceDeps/call", w.InstrPos(c), "globals flow from the parent's values into the section dest[subchart.Name()]", "the global propagation is not (subchart section ← parent values)")
		}
	}
	if n == 0 {
		r.Bad("C11/GLOBAL-DIRECTION", "coalesceDeps/call", w.Pos(cd.Pos()), "coalesceDeps does not propagate globals")
	}
	// inside: nested merge has the parent-derived copy as destination, the child's table as source
	var srcP, dstP ssa.Value
	for _, p := range cg.Params {
		switch p.Name() {
		case "src":
			srcP = p
		case "dest":
			dstP = p
		}
	}
	n = 0
	for _, c := range callInstrs(cg) {
		if f, _ := calleeOf(c.Common()); f != nil && origin(f) == ctfk {
			n++
			a, b := c.Common().Args[1], c.Common().Args[2]
			ok := derivesFromValue(a, srcP) && !derivesFromValue(a, dstP) && derivesFromValue(b, dstP) && !derivesFromValue(b, srcP)
			r.Check(ok, "C11/GLOBAL-DIRECTION", "coalesceGlobals/nested-merge", w.InstrPos(c), "the ancestor's global table is the winning side of the nested merge", "the subchart's global table wins over the ancestor's in the nested merge")
		}
	}
	if n == 0 {
		r.Bad("C11/GLOBAL-DIRECTION", "coalesceGlobals/nested-merge", w.Pos(cg.Pos()), "nested global tables are no longer merged")
	}
}

func c11Scope(w *World, r *Report) {
	fn := w.Fn("pkg/engine", "recAllTpls")
	if fn == nil {
		r.Unk("C11/SCOPE", "anchor", "-", "engine.recAllTpls not found")
		return
	}
	r.Fn(FuncName(fn))
	var vals ssa.Value
	for _, p := range fn.Params {
		if isTreeType(p.Type()) {
			vals = p
		}
	}
	// the scope object: the MakeMap with a "Values" key
	var next *ssa.MakeMap
	var valuesStores []*ssa.MapUpdate
	for _, b := range fn.Blocks {
		for _, in := range b.Instrs {
			if mu, ok := in.(*ssa.MapUpdate); ok {
				if k, isC := constString(unwrapIface(mu.Key)); isC && k == "Values" {
					if mm, ok := mu.Map.(*ssa.MakeMap); ok {
						next = mm
						valuesStores = append(valuesStores, mu)
					}
				}
			}
		}
	}
	if next == nil || vals == nil {
		r.Bad("C11/SCOPE", "scope-object", w.Pos(fn.Pos()), "no per-chart scope object with a Values entry is built")
		return
	}
	var classify func(v ssa.Value, at ssa.Instruction, depth int) (bool, string)
	classify = func(v ssa.Value, at ssa.Instruction, depth int) (bool, string) {
		v = unwrapIface(v)
		ok, why := false, "an unrecognised value "+v.String()
		switch x := v.(type) {
		case *ssa.MakeMap:
			ok, why = true, "an empty table"
		case *ssa.Phi:
			// a value chosen before the scope object is filled: every incoming value must be acceptable
			// where it flows in (judged at the end of its predecessor block)
			if depth > 3 {
				break
			}
			ok, why = true, "one of: "
			for i, e := range x.Edges {
				p := x.Block().Preds[i]
				if len(p.Instrs) == 0 {
					continue
				}
				o, wy := classify(e, p.Instrs[len(p.Instrs)-1], depth+1)
				if !o {
					return false, wy
				}
				why += wy + "; "
			}
		case *ssa.Lookup:
			if k, isC := constString(x.Index); isC && k == "Values" && x.X == vals {
				// only for the root chart: guarded by c.IsRoot()
				ok, why = guardedByCall(fn, at, "(*pkg/chart/v2.Chart).IsRoot", true), "vals[\"Values\"] for the root chart"
				if !ok {
					why = "vals[\"Values\"] without the IsRoot() guard: a subchart would see its parent's whole values"
				}
			}
		case *ssa.ChangeType:
			return classify(x.X, at, depth+1)
		case *ssa.Extract:
			// the section parent["Values"][<chart name>] taken by key (type-tested), where parent["Values"]
			// is the ok result of vals.Table("Values")
			if ta, okt := x.Tuple.(*ssa.TypeAssert); okt && x.Index == 0 {
				inner := ta.X
				if ex2, ok2 := inner.(*ssa.Extract); ok2 { // comma-ok lookup
					inner = ex2.Tuple
				}
				if lk, okl := inner.(*ssa.Lookup); okl {
					keyOK := false
					if cc, okn := lk.Index.(*ssa.Call); okn {
						if ff, _ := calleeOf(cc.Common()); ff != nil && FuncName(ff) == "(*pkg/chart/v2.Chart).Name" {
							keyOK = true
						}
					}
					tblOK := false
					if tex, okx := lk.X.(*ssa.Extract); okx && tex.Index == 0 {
						if c, okc := tex.Tuple.(*ssa.Call); okc {
							if f, _ := calleeOf(c.Common()); f != nil && FuncName(f) == "(pkg/chart/v2/util.Values).Table" && c.Call.Args[0] == vals {
								if pfx, isC := constString(c.Call.Args[1]); isC && pfx == "Values" {
									if okE := okEdgesOfCall(c); len(okE) > 0 {
										if ex, _ := FullGraph(fn).PathExists(posOf(c), posOf(at), Avoid{}.withEdges(okE...)); !ex {
											tblOK = true
										}
									}
								}
							}
						}
					}
					ok, why = keyOK && tblOK, "the section of the parent's Values table under the chart's own name"
					if !keyOK {
						why = "a section of the parent's values under a key other than the chart's name"
					} else if !tblOK {
						why = "a section of something other than the parent's Values table (or used although Table reported an error)"
					}
					break
				}
			}
			if c, okc := x.Tuple.(*ssa.Call); okc {
				if f, _ := calleeOf(c.Common()); f != nil && FuncName(f) == "(pkg/chart/v2/util.Values).Table" && c.Call.Args[0] == vals {
					ok, why = false, "a table fetched with the dotted-path accessor under a path built from the chart name (a name containing a dot is split)"
				}
			}
		}
		return ok, why
	}
	for i, mu := range valuesStores {
		ok, why := classify(mu.Value, mu, 0)
		r.Check(ok, "C11/SCOPE", fmt.Sprintf("values-source#%d", i+1), w.InstrPos(mu), ".Values is "+why, ".Values is "+why)
	}
	// recursion passes the scope object
	n := 0
	for _, c := range callInstrs(fn) {
		if f, _ := calleeOf(c.Common()); f != nil && origin(f) == fn {
			n++
			arg := unwrapIface(c.Common().Args[len(c.Common().Args)-1])
			r.Check(arg == ssa.Value(next), "C11/SCOPE", "children-get-scope", w.InstrPos(c), "children are given this chart's scope object", "children are given something other than this chart's scope object (they would see values not destined for them)")
		}
	}
	if n == 0 {
		r.Bad("C11/SCOPE", "children-get-scope", w.Pos(fn.Pos()), "recAllTpls does not recurse into dependencies")
	}
}

// guardedByCall: instruction at is reached only through the (want) edge of a boolean call to callee.
func guardedByCall(fn *ssa.Function, at ssa.Instruction, callee string, want bool) bool {
	g := FullGraph(fn)
	var edges []Edge
	for _, c := range callInstrs(fn) {
		cc, ok := c.(*ssa.Call)
		if !ok {
			continue
		}
		if f, _ := calleeOf(cc.Common()); f != nil && FuncName(f) == callee {
			for _, e := range condEdges(cc) {
				if e.truth == want {
					edges = append(edges, e.Edge)
				}
			}
			// the result kept in a field of a local struct and tested there
			if cc.Referrers() != nil {
				for _, rf := range *cc.Referrers() {
					st, ok := rf.(*ssa.Store)
					if !ok || st.Val != ssa.Value(cc) {
						continue
					}
					fa, ok := st.Addr.(*ssa.FieldAddr)
					if !ok {
						continue
					}
					al, ok := fa.X.(*ssa.Alloc)
					if !ok || al.Referrers() == nil {
						continue
					}
					// no other store to that field
					single := true
					var loads []ssa.Value
					// the struct may be built in a temporary and copied whole into the variable
					holders := []*ssa.Alloc{al}
					for _, r2 := range *al.Referrers() {
						if whole, ok := r2.(*ssa.UnOp); ok && whole.Op == token.MUL && whole.Referrers() != nil {
							for _, r3 := range *whole.Referrers() {
								if cp, ok := r3.(*ssa.Store); ok && cp.Val == ssa.Value(whole) {
									if al2, ok := cp.Addr.(*ssa.Alloc); ok && al2.Referrers() != nil {
										holders = append(holders, al2)
									}
								}
							}
						}
					}
					for _, hal := range holders[1:] {
						for _, r2 := range *hal.Referrers() {
							fa2, ok := r2.(*ssa.FieldAddr)
							if !ok || fa2.Field != fa.Field || fa2.Referrers() == nil {
								continue
							}
							for _, r3 := range *fa2.Referrers() {
								switch y := r3.(type) {
								case *ssa.Store:
									single = false
									_ = y
								case *ssa.UnOp:
									loads = append(loads, y)
								}
							}
						}
					}
					for _, r2 := range *al.Referrers() {
						fa2, ok := r2.(*ssa.FieldAddr)
						if !ok || fa2.Field != fa.Field || fa2.Referrers() == nil {
							continue
						}
						for _, r3 := range *fa2.Referrers() {
							switch y := r3.(type) {
							case *ssa.Store:
								if y != st {
									single = false
								}
							case *ssa.UnOp:
								loads = append(loads, y)
							}
						}
					}
					if !single {
						continue
					}
					for _, ld := range loads {
						for _, e := range condEdges(ld) {
							if e.truth == want {
								edges = append(edges, e.Edge)
							}
						}
					}
				}
			}
		}
	}
	if len(edges) == 0 {
		return false
	}
	ex, _ := g.PathExists(entryPos(fn), posOf(at), Avoid{}.withEdges(edges...))
	return !ex
}

func c11Disabled(w *World, r *Report) {
	fn := w.Fn("pkg/chart/v2/util", "processDependencyEnabled")
	cond := w.Fn("pkg/chart/v2/util", "processDependencyConditions")
	if fn == nil || cond == nil {
		r.Unk("C11/DISABLED-VANISH", "anchor", "-", "processDependencyEnabled / processDependencyConditions not found")
		return
	}
	r.Fn(FuncName(fn))
	r.Fn(FuncName(cond))
	g := FullGraph(fn)
	// rm: the map[string]struct{} filled under !Enabled
	var rm *ssa.MakeMap
	for _, b := range fn.Blocks {
		for _, in := range b.Instrs {
			if mu, ok := in.(*ssa.MapUpdate); ok {
				if mm, ok := mu.Map.(*ssa.MakeMap); ok {
					_, isStruct := mm.Type().Underlying().(*types.Map).Elem().Underlying().(*types.Struct)
					if cb, isC := constBool(mu.Value); isBoolType(mm.Type().Underlying().(*types.Map).Elem()) && isC && cb {
						isStruct = true // a set written as map[string]bool holding only true
					}
					if isStruct {
						// guarded by the false edge of an Enabled load
						var disabled []Edge
						for _, bb := range fn.Blocks {
							for _, i2 := range bb.Instrs {
								if ld, ok := i2.(*ssa.UnOp); ok && ld.Op == token.MUL {
									if _, t, f := fieldNameOf(ld.X); t == "Dependency" && f == "Enabled" {
										for _, e := range condEdges(ld) {
											if !e.truth {
												disabled = append(disabled, e.Edge)
											}
										}
									}
								}
							}
						}
						ex, _ := g.PathExists(entryPos(fn), posOf(mu), Avoid{}.withEdges(disabled...))
						if !ex && len(disabled) > 0 {
							rm = mm
						}
					}
				}
			}
		}
	}
	if rm == nil {
		r.Bad("C11/DISABLED-VANISH", "remove-set", w.Pos(fn.Pos()), "no set of disabled dependency names (filled on the !Enabled edge) is built")
		return
	}
	r.OK("C11/DISABLED-VANISH", "remove-set", w.Pos(rm.Pos()), "the remove set collects exactly the names of dependencies whose Enabled is false")
	// appends guarded by "not in rm"
	var notIn []Edge
	for _, b := range fn.Blocks {
		for _, in := range b.Instrs {
			if lk, ok := in.(*ssa.Lookup); ok && lk.X == ssa.Value(rm) && lk.Referrers() != nil {
				boolSet := isBoolType(rm.Type().Underlying().(*types.Map).Elem())
				if boolSet {
					for _, rf := range *rm.Referrers() {
						if mu, ok := rf.(*ssa.MapUpdate); ok && mu.Map == ssa.Value(rm) {
							if cb, isC := constBool(mu.Value); !isC || !cb {
								boolSet = false // not a set: some entry may hold false
							}
						}
					}
					if !boolSet {
						continue
					}
				}
				if !lk.CommaOk {
					if boolSet { // set[name] of a map[string]bool that only ever holds true
						for _, e := range condEdges(lk) {
							if !e.truth {
								notIn = append(notIn, e.Edge)
							}
						}
					}
					continue
				}
				for _, rf := range *lk.Referrers() {
					if ex, ok := rf.(*ssa.Extract); ok && (ex.Index == 1 || (ex.Index == 0 && boolSet)) {
						for _, e := range condEdges(ex) {
							if !e.truth {
								notIn = append(notIn, e.Edge)
							}
						}
					}
				}
			}
		}
	}
	// the two kept lists: values finally stored to Metadata.Dependencies and passed to the last SetDependencies
	var mdStore *ssa.Store
	for _, b := range fn.Blocks {
		for _, in := range b.Instrs {
			if st, ok := in.(*ssa.Store); ok {
				if _, t, f := fieldNameOf(st.Addr); t == "Metadata" && f == "Dependencies" && !isNilConst(st.Val) {
					mdStore = st
				}
			}
		}
	}
	var setDeps ssa.CallInstruction
	for _, c := range callInstrs(fn) {
		if f, _ := calleeOf(c.Common()); f != nil && FuncName(f) == "(*pkg/chart/v2.Chart).SetDependencies" {
			setDeps = c // the last one in block order
		}
	}
	checkList := func(name string, v ssa.Value, at ssa.Instruction, elem string) {
		// every append contributing elements (other than from a kept-list copy) is on a notIn edge
		okAll, n := true, 0
		inplace := false
		backSlice(v, func(x ssa.Value) bool {
			switch y := x.(type) {
			case *ssa.Call:
				if bi, ok := y.Call.Value.(*ssa.Builtin); ok && bi.Name() == "append" {
					// an append of a single element: the slice literal of one
					if isElemAppend(y, elem) {
						n++
						if ex, _ := g.PathExists(entryPos(fn), posOf(y), Avoid{}.withEdges(notIn...)); ex {
							okAll = false
						}
					}
					return false
				}
				return true
			}
			return false
		})
		// the base of the append chain must not be a re-slice of one of the chart's existing lists
		seenB := map[ssa.Value]bool{}
		var base func(x ssa.Value)
		base = func(x ssa.Value) {
			if x == nil || seenB[x] {
				return
			}
			seenB[x] = true
			switch y := x.(type) {
			case *ssa.Phi:
				for _, e := range y.Edges {
					base(e)
				}
			case *ssa.Call:
				if bi, ok := y.Call.Value.(*ssa.Builtin); ok && bi.Name() == "append" {
					base(y.Call.Args[0])
				}
			case *ssa.Slice:
				switch src := y.X.(type) {
				case *ssa.UnOp:
					if _, t, f := fieldNameOf(src.X); (t == "Metadata" && f == "Dependencies") || (t == "Chart" && f == "dependencies") {
						inplace = true
					}
				case *ssa.Call:
					if ff, _ := calleeOf(src.Common()); ff != nil && FuncName(ff) == "(*pkg/chart/v2.Chart).Dependencies" {
						inplace = true
					}
				}
			case *ssa.UnOp:
				if _, t, f := fieldNameOf(y.X); (t == "Metadata" && f == "Dependencies") || (t == "Chart" && f == "dependencies") {
					// appending onto the existing list after it was set to nil is fine; onto the live list is not
					if al, ok := y.X.(*ssa.FieldAddr); ok {
						_ = al
					}
				}
			}
		}
		base(v)
		r.Check(okAll && n > 0, "C11/DISABLED-VANISH", name+"/filtered-by-set", w.InstrPos(at), "elements are kept only on the not-in-remove-set edge", "an element can be kept although its name is in the remove set (or nothing is filtered)")
		r.Check(!inplace, "C11/DISABLED-VANISH", name+"/rebuilt", w.InstrPos(at), "the kept list is built in a new slice", "the kept list reuses the backing array of the chart's existing list: copies of the chart made for aliases share it and see each other's removals")
	}
	if mdStore != nil {
		checkList("metadata-list", mdStore.Val, mdStore, "Dependency")
	} else {
		r.Bad("C11/DISABLED-VANISH", "metadata-list/filtered-by-set", w.Pos(fn.Pos()), "Metadata.Dependencies is not rewritten without the disabled entries")
	}
	if setDeps != nil {
		checkList("chart-list", setDeps.Common().Args[len(setDeps.Common().Args)-1], setDeps, "Chart")
	} else {
		r.Bad("C11/DISABLED-VANISH", "chart-list/filtered-by-set", w.Pos(fn.Pos()), "the chart's dependency list is not rewritten without the disabled charts")
	}
	// recursion only over the kept chart list
	for _, c := range callInstrs(fn) {
		if f, _ := calleeOf(c.Common()); f != nil && origin(f) == fn {
			kept := false
			if setDeps != nil {
				keptList := setDeps.Common().Args[len(setDeps.Common().Args)-1]
				backSlice(c.Common().Args[0], func(x ssa.Value) bool {
					if x == keptList || forwardAliases(keptList)[x] {
						kept = true
					}
					if ph, ok := x.(*ssa.Phi); ok {
						for _, e := range ph.Edges {
							if e == keptList {
								kept = true
							}
						}
					}
					_, isCall := x.(*ssa.Call)
					return isCall && !kept
				})
				// same append chain: both derive from the same initial slice literal
				if !kept {
					kept = sameAppendChain(c.Common().Args[0], keptList)
				}
			}
			r.Check(kept, "C11/DISABLED-VANISH", "recurse-kept-only", w.InstrPos(c), "only kept (enabled) charts are processed recursively", "disabled charts are processed recursively")
		}
	}
	// first boolean condition wins
	var pv ssa.CallInstruction
	for _, c := range callInstrs(cond) {
		if f, _ := calleeOf(c.Common()); f != nil && FuncName(f) == "(pkg/chart/v2/util.Values).PathValue" {
			pv = c
		}
	}
	var st *ssa.Store
	for _, b := range cond.Blocks {
		for _, in := range b.Instrs {
			if s, ok := in.(*ssa.Store); ok {
				if _, t, f := fieldNameOf(s.Addr); t == "Dependency" && f == "Enabled" {
					st = s
				}
			}
		}
	}
	if pv == nil || st == nil {
		r.Bad("C11/DISABLED-VANISH", "first-condition-wins", w.Pos(cond.Pos()), "conditions are no longer resolved through PathValue into Enabled")
		return
	}
	// next element of reqs: IndexAddr on the reqs parameter
	var nextReq []ssa.Instruction
	for _, b := range cond.Blocks {
		for _, in := range b.Instrs {
			if ia, ok := in.(*ssa.IndexAddr); ok && ia.X == ssa.Value(cond.Params[0]) {
				nextReq = append(nextReq, ia)
			}
		}
	}
	cg := FullGraph(cond)
	again, _ := cg.PathExists(posOf(st), posOf(pv), avoidInstrs(nextReq...))
	r.Check(!again && len(nextReq) > 0, "C11/DISABLED-VANISH", "first-condition-wins", w.InstrPos(st), "after a condition path resolved to a boolean no further path of that dependency is consulted", "after a condition path resolved to a boolean later paths are still consulted and can overwrite the decision (last one wins)")
}

func isElemAppend(c *ssa.Call, elem string) bool {
	sl, ok := c.Type().Underlying().(*types.Slice)
	if !ok {
		return false
	}
	if !strings.HasSuffix(sl.Elem().String(), "."+elem) {
		return false
	}
	// appended operand is a one-element slice literal (append(x, e)), not a spread of another list
	if len(c.Call.Args) < 2 {
		return false
	}
	if s, ok := c.Call.Args[1].(*ssa.Slice); ok {
		if al, ok := s.X.(*ssa.Alloc); ok {
			if arr, ok := al.Type().Underlying().(*types.Pointer).Elem().Underlying().(*types.Array); ok && arr.Len() == 1 {
				return true
			}
		}
	}
	return false
}

func sameAppendChain(a, b ssa.Value) bool {
	roots := func(v ssa.Value) map[ssa.Value]bool {
		out := map[ssa.Value]bool{}
		backSlice(v, func(x ssa.Value) bool {
			if ph, ok := x.(*ssa.Phi); ok {
				out[ph] = true
			}
			_, isCall := x.(*ssa.Call)
			if isCall {
				if bi, ok := x.(*ssa.Call).Call.Value.(*ssa.Builtin); ok && bi.Name() == "append" {
					return false
				}
			}
			return isCall
		})
		return out
	}
	ra, rb := roots(a), roots(b)
	for k := range ra {
		if rb[k] {
			return true
		}
	}
	return false
}

func c11Alias(w *World, r *Report) {
	fn := w.Fn("pkg/chart/v2/util", "getAliasDependency")
	if fn == nil {
		r.Unk("C11/ALIAS", "anchor", "-", "getAliasDependency not found")
		return
	}
	r.Fn(FuncName(fn))
	bad := ""
	stores := 0
	for _, b := range fn.Blocks {
		for _, in := range b.Instrs {
			st, ok := in.(*ssa.Store)
			if !ok {
				continue
			}
			stores++
			root := st.Addr
			for {
				switch x := root.(type) {
				case *ssa.FieldAddr:
					root = x.X
					continue
				case *ssa.IndexAddr:
					root = x.X
					continue
				}
				break
			}
			if _, isAlloc := root.(*ssa.Alloc); !isAlloc {
				bad = w.InstrPos(st)
			}
		}
	}
	// returns the address of a local copy
	retLocal, nret := true, 0
	var fresh func(v ssa.Value, d int) bool
	fresh = func(v ssa.Value, d int) bool {
		switch x := v.(type) {
		case *ssa.Alloc:
			return true
		case *ssa.Phi:
			if d > 6 {
				return false
			}
			for _, e := range x.Edges {
				if !isNilConst(e) && !fresh(e, d+1) {
					return false
				}
			}
			return true
		}
		return false
	}
	for _, b := range fn.Blocks {
		if len(b.Instrs) == 0 {
			continue
		}
		if ret, ok := b.Instrs[len(b.Instrs)-1].(*ssa.Return); ok && !isNilConst(ret.Results[0]) {
			nret++
			if !fresh(ret.Results[0], 0) { // the chart handed out is never the loaded one itself: one loaded chart may satisfy several declarations
				retLocal = false
				if bad == "" {
					bad = w.InstrPos(ret)
				}
			}
		}
	}
	r.Check(bad == "" && retLocal && nret > 0 && stores > 0, "C11/ALIAS", "getAliasDependency", w.Pos(fn.Pos()), "all writes go to the local copies of the chart and its metadata, and the copy is returned", "the aliasing writes into the original chart/metadata (at "+bad+") or does not return a copy")
}

// c11NameInPath: Values.Table and Values.PathValue split their argument at dots. Chart names,
// dependency names and aliases may contain dots, so they must not be made part of such a path: the
// section of a chart is a single key.
func c11NameInPath(w *World, r *Report) {
	r.Rule("C11/NAME-IN-PATH", "no chart name, dependency name or alias is concatenated into the argument of the dotted-path accessors Values.Table / Values.PathValue (a name containing a dot would be split): sections are fetched by key", 1)
	n := 0
	seen := map[string]int{}
	// scope: what a subchart's templates see (the engine) and whether a dependency is enabled
	// (conditions and tags). Import-values (child to parent) is not part of this property; the same
	// pattern there (processImportValues: Table(dependency name + "." + path)) is noted in DESIGN.md.
	inScope := func(fn *ssa.Function) bool {
		p := fnPkgPath(fn)
		if strings.HasSuffix(p, "/pkg/engine") {
			return true
		}
		if strings.HasSuffix(p, "/pkg/chart/v2/util") {
			n := FuncName(origin(fnRoot(fn)))
			return strings.Contains(n, "processDependencyConditions") || strings.Contains(n, "processDependencyTags") || strings.Contains(n, "processDependencyEnabled") || strings.Contains(n, "ValidateAgainstSchema")
		}
		return false
	}
	for _, fn := range w.HelmFuncs() {
		if !inScope(fn) {
			continue
		}
		for _, c := range callInstrs(fn) {
			f, _ := calleeOf(c.Common())
			if f == nil {
				continue
			}
			name := FuncName(f)
			if name != "(pkg/chart/v2/util.Values).Table" && name != "(pkg/chart/v2/util.Values).PathValue" {
				continue
			}
			if len(c.Common().Args) < 2 {
				continue
			}
			arg := c.Common().Args[1]
			if _, isC := constString(arg); isC {
				continue
			}
			n++
			culprit := ""
			backSlice(arg, func(v ssa.Value) bool {
				switch x := v.(type) {
				case *ssa.Call:
					if g, _ := calleeOf(x.Common()); g != nil {
						if FuncName(g) == "(*pkg/chart/v2.Chart).Name" {
							culprit = "the chart's name"
						}
						return true
					}
				case *ssa.UnOp:
					if x.Op == token.MUL {
						if _, t, fld := fieldNameOf(x.X); (t == "Dependency" || t == "Metadata") && (fld == "Name" || fld == "Alias") {
							culprit = "a " + t + "." + fld
						}
						if _, t, fld := fieldNameOf(x.X); t == "Dependency" && fld == "Tags" {
							culprit = "a tag name"
						}
					}
				}
				return culprit != ""
			})
			key := FuncName(fn) + "/" + describeCall(c.Common())
			seen[key]++
			if seen[key] > 1 {
				key = fmt.Sprintf("%s#%d", key, seen[key])
			}
			r.Fn(FuncName(fn))
			r.Check(culprit == "", "C11/NAME-IN-PATH", key, w.InstrPos(c), "the path is made of path-valued data only (conditions, import paths)", culprit+" is made part of a dotted path: for a name containing a dot the section is not found, so the chart does not get the values destined for it")
		}
	}
	if n == 0 {
		r.OKTrivial("C11/NAME-IN-PATH", "none", "-", "no computed path is given to a dotted-path accessor")
	}
}

func fnRoot(fn *ssa.Function) *ssa.Function {
	for fn.Parent() != nil {
		fn = fn.Parent()
	}
	return fn
}

// c11AliasesFirst: the effective values that decide conditions and tags are computed on the chart tree
// whose dependencies already carry their aliases (SetDependencies with the alias-resolved charts):
// an aliased chart's own defaults must land under its alias.
func c11AliasesFirst(w *World, r *Report) {
	r.Rule("C11/ALIASES-FIRST", "processDependencyEnabled computes the effective values (CoalesceValues) only after the alias-resolved dependency list was installed with SetDependencies, and evaluates tags and conditions on those values", 1)
	fn := w.Fn("pkg/chart/v2/util", "processDependencyEnabled")
	if fn == nil {
		r.Unk("C11/ALIASES-FIRST", "anchor", "-", "processDependencyEnabled not found")
		return
	}
	r.Fn(FuncName(fn))
	g := FullGraph(fn)
	var sets, coal []ssa.Instruction
	var evals []ssa.CallInstruction
	for _, c := range callInstrs(fn) {
		f, _ := calleeOf(c.Common())
		if f == nil {
			continue
		}
		switch FuncName(f) {
		case "(*pkg/chart/v2.Chart).SetDependencies":
			sets = append(sets, c)
		case "pkg/chart/v2/util.CoalesceValues":
			coal = append(coal, c)
		case "pkg/chart/v2/util.processDependencyTags", "pkg/chart/v2/util.processDependencyConditions":
			evals = append(evals, c)
		}
	}
	if len(sets) == 0 || len(coal) == 0 {
		r.Bad("C11/ALIASES-FIRST", "order", w.Pos(fn.Pos()), "processDependencyEnabled no longer installs the alias-resolved dependencies or no longer computes effective values")
		return
	}
	bad := ""
	for _, c := range coal {
		if ex, _ := g.PathExists(entryPos(fn), posOf(c), avoidInstrs(sets[:1]...)); ex {
			bad = "the effective values can be computed before the aliases are applied (" + w.InstrPos(c) + "): an aliased chart's defaults are not found under its alias"
		}
	}
	for _, e := range evals {
		usesCoalesced := false
		for _, a := range e.Common().Args {
			for _, c := range coal {
				if cv, ok := c.(ssa.Value); ok && derivesFromValue(a, cv) {
					usesCoalesced = true
				}
			}
		}
		if !usesCoalesced {
			bad = "tags/conditions are not evaluated on the effective values (" + w.InstrPos(e) + ")"
		}
	}
	r.Check(bad == "", "C11/ALIASES-FIRST", "order", w.InstrPos(coal[0]), "effective values are computed after the aliases were applied and drive tags and conditions", bad)
}

// c11EnabledBeforeImport: import-values rewrites the parent's defaults from what its dependencies export.
// Disabled dependencies must be gone by then, or their exports stay in the parent's values.
func c11EnabledBeforeImport(w *World, r *Report) {
	r.Rule("C11/ENABLED-BEFORE-IMPORT", "wherever dependencies are processed, disabled dependencies are removed (processDependencyEnabled succeeded) before import-values are folded into the parents", 1)
	en := w.Fn("pkg/chart/v2/util", "processDependencyEnabled")
	im := w.Fn("pkg/chart/v2/util", "processDependencyImportValues")
	if en == nil || im == nil {
		r.Unk("C11/ENABLED-BEFORE-IMPORT", "anchor", "-", "processDependencyEnabled / processDependencyImportValues not found")
		return
	}
	n := 0
	for _, fn := range w.FuncsIn("pkg/chart/v2/util") {
		if fn == im || fn.Parent() != nil {
			continue
		}
		var ens, ims []ssa.CallInstruction
		for _, c := range callInstrs(fn) {
			f, _ := calleeOf(c.Common())
			if f == nil {
				continue
			}
			switch origin(f) {
			case en:
				ens = append(ens, c)
			case im:
				ims = append(ims, c)
			}
		}
		if len(ims) == 0 {
			continue
		}
		r.Fn(FuncName(fn))
		g := FullGraph(fn)
		for i, c := range ims {
			n++
			ok := false
			for _, e := range ens {
				if g.AfterOK(e, posOf(c)) {
					ok = true
				}
			}
			r.Check(ok, "C11/ENABLED-BEFORE-IMPORT", fmt.Sprintf("%s/import#%d", FuncName(fn), i+1), w.InstrPos(c), "import-values run only after the disabled dependencies were removed", "import-values can run while disabled dependencies are still attached: their exported values are folded into the parent's defaults and stay there")
		}
	}
	if n == 0 {
		r.Unk("C11/ENABLED-BEFORE-IMPORT", "no-site", "-", "no caller of processDependencyImportValues found")
	}
}

// c11AliasWhole: the copy handed out for a dependency is the whole chart: a copy of the struct, or
// every exported field of it carried over one by one. A copy that leaves a field behind (the schema, the
// lock, the files) is another chart than the one that was loaded.
func c11AliasWhole(w *World, r *Report, rule string) {
	fn := w.Fn("pkg/chart/v2/util", "getAliasDependency")
	if fn == nil {
		r.Unk(rule, "alias-copy/anchor", "-", "getAliasDependency not found")
		return
	}
	r.Fn(FuncName(fn))
	var allocs []*ssa.Alloc
	var walk func(v ssa.Value, d int)
	seen := map[ssa.Value]bool{}
	walk = func(v ssa.Value, d int) {
		if seen[v] || d > 6 {
			return
		}
		seen[v] = true
		switch x := v.(type) {
		case *ssa.Alloc:
			allocs = append(allocs, x)
		case *ssa.Phi:
			for _, e := range x.Edges {
				walk(e, d+1)
			}
		}
	}
	for _, b := range fn.Blocks {
		if len(b.Instrs) == 0 {
			continue
		}
		if ret, ok := b.Instrs[len(b.Instrs)-1].(*ssa.Return); ok && len(ret.Results) > 0 && !isNilConst(ret.Results[0]) {
			walk(ret.Results[0], 0)
		}
	}
	if len(allocs) == 0 {
		r.Unk(rule, "alias-copy/none", w.Pos(fn.Pos()), "no copy is returned")
		return
	}
	for i, a := range allocs {
		st, ok := a.Type().Underlying().(*types.Pointer).Elem().Underlying().(*types.Struct)
		if !ok {
			continue
		}
		whole := false
		stored := map[int]bool{}
		for _, rf := range *a.Referrers() {
			switch x := rf.(type) {
			case *ssa.Store:
				if x.Addr == ssa.Value(a) {
					if ld, isLd := x.Val.(*ssa.UnOp); isLd && ld.Op == token.MUL {
						whole = true
					}
				}
			case *ssa.FieldAddr:
				if x.Referrers() != nil {
					for _, rr := range *x.Referrers() {
						if s2, ok := rr.(*ssa.Store); ok && s2.Addr == ssa.Value(x) {
							stored[x.Field] = true
						}
					}
				}
			}
		}
		var missing []string
		if !whole {
			for k := 0; k < st.NumFields(); k++ {
				if st.Field(k).Exported() && !stored[k] {
					missing = append(missing, st.Field(k).Name())
				}
			}
		}
		r.Check(whole || len(missing) == 0, rule, fmt.Sprintf("alias-copy#%d/whole", i+1), w.Pos(a.Pos()), "the copy carries every field of the loaded chart", "the copy handed out for a dependency leaves fields of the loaded chart behind ("+strings.Join(missing, ", ")+"): an aliased dependency loses them (without Schema its values are no longer validated)")
	}
}

// c11CRDsAfterPrune: the CRDs that install sends to the cluster are those of the chart tree after
// disabled dependencies were removed.
func c11CRDsAfterPrune(w *World, r *Report) {
	r.Rule("C11/CRDS-AFTER-PRUNE", "in install the chart's CRD objects are collected only after dependency processing succeeded (a disabled dependency's crds/ are not installed)", 1)
	fn := w.Fn("pkg/action", "Install.RunWithContext")
	if fn == nil {
		r.Unk("C11/CRDS-AFTER-PRUNE", "anchor", "-", "Install.RunWithContext not found")
		return
	}
	r.Fn(FuncName(fn))
	g := FullGraph(fn)
	var pd []ssa.CallInstruction
	var crds []ssa.CallInstruction
	for _, c := range callInstrs(fn) {
		f, _ := calleeOf(c.Common())
		if f == nil {
			continue
		}
		switch FuncName(f) {
		case "pkg/chart/v2/util.ProcessDependencies", "pkg/chart/v2/util.ProcessDependenciesWithMerge":
			pd = append(pd, c)
		case "(*pkg/chart/v2.Chart).CRDObjects":
			crds = append(crds, c)
		}
	}
	if len(crds) == 0 {
		r.OKTrivial("C11/CRDS-AFTER-PRUNE", "none", w.Pos(fn.Pos()), "RunWithContext does not collect CRDs itself")
		return
	}
	for i, c := range crds {
		ok := false
		for _, p := range pd {
			if g.AfterOK(p, posOf(c)) {
				ok = true
			}
		}
		r.Check(ok, "C11/CRDS-AFTER-PRUNE", fmt.Sprintf("crds#%d", i+1), w.InstrPos(c), "CRDs are collected from the pruned tree", "the CRDs are collected before dependency processing removed the disabled dependencies: a dependency switched off by its condition or tags still gets its crds/ installed")
	}
}

// c11SearchExhausts: a loaded chart that does not satisfy a dependency's version range is passed over
// and the search goes on (the same chart name may be vendored in two versions): the range test is made
// per candidate, inside the search.
func c11SearchExhausts(w *World, r *Report) {
	r.Rule("C11/SEARCH-EXHAUSTS", "getAliasDependency tests the version range for each candidate inside its search over the loaded charts (a mismatch does not end the search)", 1)
	fn := w.Fn("pkg/chart/v2/util", "getAliasDependency")
	if fn == nil {
		r.Unk("C11/SEARCH-EXHAUSTS", "anchor", "-", "getAliasDependency not found")
		return
	}
	r.Fn(FuncName(fn))
	scc := sccOf(fn)
	n := 0
	for _, f := range withAnon(fn) {
		for _, c := range callInstrs(f) {
			cf, _ := calleeOf(c.Common())
			if cf == nil || FuncName(cf) != "pkg/chart/v2/util.IsCompatibleRange" {
				continue
			}
			n++
			inSearch := f != fn // inside a predicate handed to slices.IndexFunc / ContainsFunc
			if f == fn {
				b := c.Block()
				if len(scc[b]) > 1 {
					inSearch = true
				}
				for _, s := range b.Succs {
					if s == b {
						inSearch = true
					}
				}
			}
			r.Check(inSearch, "C11/SEARCH-EXHAUSTS", fmt.Sprintf("range-test#%d", n), w.InstrPos(c), "the version range is tested per candidate", "the version range is tested once, after a candidate was picked by name: when a chart is vendored in two versions the dependency that needs the second one is never resolved (and silently vanishes)")
		}
	}
	if n == 0 {
		r.Unk("C11/SEARCH-EXHAUSTS", "no-site", w.Pos(fn.Pos()), "getAliasDependency does not test the version range")
	}
}

// c11Recursion: conditions and tags are evaluated at every level of the tree: processDependencyEnabled
// returns successfully only after it went through the loop that recurses into the kept dependencies —
// except for a chart that declares no dependencies at all.
func c11Recursion(w *World, r *Report) {
	r.Rule("C11/RECURSES", "processDependencyEnabled reaches a success return only through its recursion over the kept dependencies, or on the edge where the chart declares no dependencies", 1)
	fn := w.Fn("pkg/chart/v2/util", "processDependencyEnabled")
	if fn == nil {
		r.Unk("C11/RECURSES", "anchor", "-", "processDependencyEnabled not found")
		return
	}
	r.Fn(FuncName(fn))
	g := FullGraph(fn)
	var rec []ssa.CallInstruction
	for _, c := range callInstrs(fn) {
		if f, _ := calleeOf(c.Common()); f != nil && origin(f) == fn {
			rec = append(rec, c)
		}
	}
	if len(rec) == 0 {
		r.Bad("C11/RECURSES", "recursion", w.Pos(fn.Pos()), "processDependencyEnabled no longer recurses into the dependencies: conditions and tags below the first level are never evaluated")
		return
	}
	// the header of the loop the recursive call sits in: passing it is "went through the recursion" (the loop may run zero times)
	scc := sccOf(fn)
	var hdr []ssa.Instruction
	for _, b := range scc[rec[0].Block()] {
		for _, p := range b.Preds {
			inside := false
			for _, x := range scc[rec[0].Block()] {
				if x == p {
					inside = true
				}
			}
			if !inside && len(b.Instrs) > 0 {
				hdr = append(hdr, b.Instrs[0])
			}
		}
	}
	if len(hdr) == 0 {
		hdr = append(hdr, rec[0])
	}
	// no declared dependencies: Metadata.Dependencies == nil / len == 0
	var noDeps []Edge
	for _, b := range fn.Blocks {
		for _, in := range b.Instrs {
			bo, ok := in.(*ssa.BinOp)
			if !ok || (bo.Op != token.EQL && bo.Op != token.NEQ) {
				continue
			}
			var other ssa.Value
			if isNilConst(bo.Y) {
				other = bo.X
			} else if isNilConst(bo.X) {
				other = bo.Y
			}
			if ld, ok := other.(*ssa.UnOp); ok {
				if _, t, f := fieldNameOf(ld.X); t == "Metadata" && f == "Dependencies" {
					for _, e := range condEdges(bo) {
						if e.truth == (bo.Op == token.EQL) {
							noDeps = append(noDeps, e.Edge)
						}
					}
				}
			}
		}
	}
	empty, _ := emptyEdges(fn, func(v ssa.Value) bool {
		ld, ok := v.(*ssa.UnOp)
		if !ok {
			return false
		}
		_, t, f := fieldNameOf(ld.X)
		return t == "Metadata" && f == "Dependencies"
	})
	noDeps = append(noDeps, empty...)
	n := 0
	for i, rp := range g.classifyReturns() {
		if rp.Class != RetSuccess {
			continue
		}
		n++
		ex, _ := g.PathExists(entryPos(fn), retPos(rp), avoidInstrs(hdr...).withEdges(noDeps...))
		r.Check(!ex, "C11/RECURSES", fmt.Sprintf("return#%d", i), w.InstrPos(rp.Ret), "success only after the recursion (or for a chart without declared dependencies)", "processDependencyEnabled can return successfully without recursing into the dependencies although the chart declares some: conditions and tags of the charts below are never evaluated, and their disabled dependencies stay")
	}
	if n == 0 {
		r.Unk("C11/RECURSES", "no-success", w.Pos(fn.Pos()), "no success return found")
	}
}
