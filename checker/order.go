package main

// order.go — ORDER: iteration-order independence of map ranges (§2.7 of DESIGN.md).

import (
	"fmt"
	"go/token"
	"go/types"
	"strings"

	"golang.org/x/tools/go/ssa"
)

type mapLoop struct {
	Fn     *ssa.Function
	Range  *ssa.Range
	Next   *ssa.Next
	Header *ssa.BasicBlock
	Body   map[*ssa.BasicBlock]bool
	Key    ssa.Value
	Val    ssa.Value
	Exit   *ssa.BasicBlock
}

// mapLoops finds `for k, v := range m` loops over maps in fn.
func mapLoops(fn *ssa.Function) []*mapLoop {
	var out []*mapLoop
	for _, b := range fn.Blocks {
		for _, in := range b.Instrs {
			rg, ok := in.(*ssa.Range)
			if !ok {
				continue
			}
			if _, isMap := rg.X.Type().Underlying().(*types.Map); !isMap {
				continue
			}
			refs := rg.Referrers()
			if refs == nil {
				continue
			}
			for _, rf := range *refs {
				nx, ok := rf.(*ssa.Next)
				if !ok {
					continue
				}
				l := &mapLoop{Fn: fn, Range: rg, Next: nx, Header: nx.Block(), Body: map[*ssa.BasicBlock]bool{}}
				if nrefs := nx.Referrers(); nrefs != nil {
					for _, nr := range *nrefs {
						if ex, ok := nr.(*ssa.Extract); ok {
							switch ex.Index {
							case 1:
								l.Key = ex
							case 2:
								l.Val = ex
							}
						}
					}
				}
				// header ends with If ok → body, done
				hdr := l.Header
				if len(hdr.Succs) == 2 {
					bodyEntry := hdr.Succs[0]
					l.Exit = hdr.Succs[1]
					// body = blocks reachable from bodyEntry without passing the header that can reach the header
					seen := map[*ssa.BasicBlock]bool{}
					stack := []*ssa.BasicBlock{bodyEntry}
					for len(stack) > 0 {
						x := stack[len(stack)-1]
						stack = stack[:len(stack)-1]
						if seen[x] || x == hdr {
							continue
						}
						seen[x] = true
						for _, s := range x.Succs {
							stack = append(stack, s)
						}
					}
					// keep those dominated by the header edge: approximate by reachable-from-body set excluding
					// blocks also reachable from the exit edge without the body
					afterExit := map[*ssa.BasicBlock]bool{}
					stack = []*ssa.BasicBlock{l.Exit}
					for len(stack) > 0 {
						x := stack[len(stack)-1]
						stack = stack[:len(stack)-1]
						if afterExit[x] || x == hdr {
							continue
						}
						afterExit[x] = true
						for _, s := range x.Succs {
							stack = append(stack, s)
						}
					}
					for x := range seen {
						if !afterExit[x] {
							l.Body[x] = true
						}
					}
				}
				out = append(out, l)
			}
		}
	}
	return out
}

type orderFinding struct {
	At   ssa.Instruction
	What string
}

var writerMethods = map[string]bool{"Write": true, "WriteString": true, "WriteByte": true, "WriteRune": true, "WriteTo": true, "Fprintf": true, "Fprint": true, "Fprintln": true, "Encode": true}
var templateMethods = map[string]bool{"Execute": true, "ExecuteTemplate": true, "Parse": true, "AddParseTree": true, "ParseFiles": true, "ParseGlob": true}

// isOrderSink: the call writes to an output stream / executes or parses templates.
func isOrderSink(c *ssa.CallCommon) string {
	f, tf := calleeOf(c)
	if tf == nil {
		return ""
	}
	pkg := ""
	if tf.Pkg() != nil {
		pkg = tf.Pkg().Path()
	}
	name := tf.Name()
	_ = f
	switch {
	case pkg == "fmt" && (name == "Fprintf" || name == "Fprint" || name == "Fprintln"):
		return "fmt." + name
	case (pkg == "bytes" || pkg == "strings" || pkg == "bufio" || pkg == "io" || pkg == "os") && writerMethods[name]:
		_, rn := recvNamed(tf)
		if rn == "Buffer" || rn == "Builder" || rn == "Writer" || rn == "File" || c.IsInvoke() {
			return rn + "." + name
		}
	case pkg == "text/template" && templateMethods[name]:
		return "template." + name
	case pkg == "io" && name == "WriteString":
		return "io.WriteString"
	}
	return ""
}

// derivesInLoop: v is computed from one of roots using instructions of the loop body (or is a root).
func derivesFrom(v ssa.Value, roots ...ssa.Value) bool {
	found := false
	backSlice(v, func(x ssa.Value) bool {
		for _, r := range roots {
			if r != nil && x == r {
				found = true
				return true
			}
		}
		return found
	})
	return found
}

// keyExpr: v is the range key itself, a conversion of it, or a concatenation of it with loop-invariant strings.
func injectiveInKey(v ssa.Value, l *mapLoop) bool {
	switch x := v.(type) {
	case *ssa.UnOp:
		// the range key spilled into a variable of its own (captured by a closure in the body): a load of
		// a slot whose only store is the key
		if x.Op == token.MUL {
			if al, ok := x.X.(*ssa.Alloc); ok && al.Referrers() != nil {
				n, okStore := 0, true
				for _, rf := range *al.Referrers() {
					if st, isSt := rf.(*ssa.Store); isSt && st.Addr == ssa.Value(al) {
						n++
						if st.Val != l.Key {
							okStore = false
						}
					}
				}
				return n == 1 && okStore
			}
		}
		return false
	case *ssa.ChangeType:
		return injectiveInKey(x.X, l)
	case *ssa.Convert:
		return injectiveInKey(x.X, l)
	case *ssa.MakeInterface:
		return injectiveInKey(x.X, l)
	case *ssa.BinOp:
		if x.Op == token.ADD {
			kx, ky := derivesFrom(x.X, l.Key), derivesFrom(x.Y, l.Key)
			if kx && !ky && invariant(x.Y, l) {
				return injectiveInKey(x.X, l)
			}
			if ky && !kx && invariant(x.X, l) {
				return injectiveInKey(x.Y, l)
			}
		}
		return false
	}
	return v == l.Key
}

func invariant(v ssa.Value, l *mapLoop) bool {
	if _, ok := v.(*ssa.Const); ok {
		return true
	}
	if in, ok := v.(ssa.Instruction); ok && in.Block() != nil {
		if !l.Body[in.Block()] && in.Block() != l.Header {
			return true
		}
		// an address computed in the body from loop-invariant parts (&h.Events) is the same place every time
		switch x := v.(type) {
		case *ssa.FieldAddr:
			return invariant(x.X, l)
		case *ssa.IndexAddr:
			return invariant(x.X, l) && invariant(x.Index, l)
		case *ssa.UnOp:
			// re-load of a local that lives in a slot (captured / address-taken) and is not assigned in the loop
			if slot, ok := x.X.(*ssa.Alloc); ok && x.Op == token.MUL && invariant(slot, l) && slot.Referrers() != nil {
				for _, rf := range *slot.Referrers() {
					if st, ok := rf.(*ssa.Store); ok && st.Addr == ssa.Value(slot) && (l.Body[st.Block()] || st.Block() == l.Header) {
						return false
					}
				}
				return true
			}
		}
		return false
	}
	return true // parameters, globals, free vars
}

// sortedAfter: the slice built in the loop (carried value phi at the header, or a slice whose
// elements are stored) is handed to a total sort before any other use after the loop.
func sortedAfter(w *World, l *mapLoop, slice ssa.Value) (bool, string) {
	g := FullGraph(l.Fn)
	// uses of slice outside the loop
	var sortCall ssa.CallInstruction
	var uses []ssa.Instruction
	seen := map[ssa.Value]bool{}
	var collect func(v ssa.Value)
	collect = func(v ssa.Value) {
		if seen[v] || v.Referrers() == nil {
			return
		}
		seen[v] = true
		for _, rf := range *v.Referrers() {
			if l.Body[rf.Block()] || rf.Block() == l.Header {
				if phi, ok := rf.(*ssa.Phi); ok {
					collect(phi)
				}
				continue
			}
			switch x := rf.(type) {
			case *ssa.Phi:
				collect(x)
			case *ssa.ChangeType:
				collect(x)
			case *ssa.MakeInterface:
				collect(x)
			case *ssa.Convert:
				collect(x)
			case *ssa.Call:
				if bi, ok := x.Call.Value.(*ssa.Builtin); ok && (bi.Name() == "len" || bi.Name() == "cap") {
					continue
				}
				if f, _ := calleeOf(x.Common()); f != nil && fnPkgPath(f) == "sort" && f.Name() == "Reverse" {
					collect(x)
					continue
				}
				uses = append(uses, x)
			default:
				uses = append(uses, rf)
			}
		}
	}
	collect(slice)
	why := ""
	for _, u := range uses {
		c, ok := u.(ssa.CallInstruction)
		if !ok {
			continue
		}
		f, _ := calleeOf(c.Common())
		if f == nil {
			continue
		}
		p, n := fnPkgPath(f), origin(f).Name()
		switch {
		case (p == "sort" && n == "Strings") || (p == "slices" && n == "Sort") || (p == "sort" && n == "Ints"):
			sortCall, why = c, p+"."+n+" (total order on the elements)"
		case p == "sort" && (n == "Sort" || n == "Stable"):
			ok2, w2 := lessIsTotal(w, c.Common().Args[0])
			if ok2 {
				sortCall, why = c, "sort."+n+" with "+w2
			} else {
				return false, "sort." + n + " with a comparator that is not total: " + w2
			}
		case (p == "sort" && (n == "Slice" || n == "SliceStable")) || (p == "slices" && (n == "SortFunc" || n == "SortStableFunc")):
			ok2, w2 := funcComparesElements(c.Common().Args[1])
			if ok2 {
				sortCall, why = c, p+"."+n+" with "+w2
			} else {
				return false, p + "." + n + " with a comparator that does not order all distinct elements: " + w2
			}
		}
	}
	if sortCall == nil {
		return false, "the collected slice is never sorted"
	}
	for _, u := range uses {
		if u == ssa.Instruction(sortCall) {
			continue
		}
		if !g.DominatesInstr(sortCall, posOf(u)) {
			return false, "the collected slice is used at " + w.InstrPos(u) + " before it is sorted"
		}
	}
	return true, why
}

// named comparators whose totality rests on an invariant of their inputs.
var comparatorExceptions = map[string]string{
	"pkg/release/util.BySplitManifestsOrder": "keys are generated by SplitManifests as manifest-<n> with distinct n; numeric order is total on them",
}

// lessIsTotal: the sort.Interface value's Less compares the two full elements (directly or as tie-break).
func lessIsTotal(w *World, v ssa.Value) (bool, string) {
	// unwrap sort.Reverse(x)
	for {
		if c, ok := v.(*ssa.Call); ok {
			if f, _ := calleeOf(c.Common()); f != nil && fnPkgPath(f) == "sort" && f.Name() == "Reverse" {
				v = c.Call.Args[0]
				continue
			}
		}
		break
	}
	mi, ok := v.(*ssa.MakeInterface)
	if !ok {
		return false, "comparator value not resolvable"
	}
	t := mi.X.Type()
	tname := strings.ReplaceAll(t.String(), helmMod+"/", "")
	if why, ok := comparatorExceptions[tname]; ok {
		return true, tname + " (named exception: " + why + ")"
	}
	ms := w.Prog.MethodSets.MethodSet(t)
	for i := 0; i < ms.Len(); i++ {
		if ms.At(i).Obj().Name() == "Less" {
			less := w.Prog.MethodValue(ms.At(i))
			if less == nil {
				continue
			}
			if comparesFullElements(less, less.Params[1], less.Params[2]) {
				return true, tname + ".Less (compares the full elements on ties)"
			}
			return false, tname + ".Less never compares the two elements themselves (ties stay in map order)"
		}
	}
	return false, "no Less method"
}

func funcComparesElements(v ssa.Value) (bool, string) {
	var f *ssa.Function
	switch x := v.(type) {
	case *ssa.Function:
		f = x
	case *ssa.MakeClosure:
		f, _ = x.Fn.(*ssa.Function)
	}
	if f == nil || len(f.Params) != 2 {
		return false, "comparator not resolvable"
	}
	if comparesFullElements(f, f.Params[0], f.Params[1]) {
		return true, "a comparator that compares the full elements"
	}
	return false, "ties between distinct elements are left in map order"
}

// comparesFullElements: somewhere in f the elements selected by i and j (s[i], s[j], or the
// parameters themselves) are compared as whole values with < / > / strings.Compare / cmp.Compare.
func comparesFullElements(f *ssa.Function, i, j ssa.Value) bool {
	isElem := func(v ssa.Value, idx ssa.Value) bool {
		if v == idx {
			return true
		}
		if ld, ok := v.(*ssa.UnOp); ok && ld.Op == token.MUL {
			if ia, ok := ld.X.(*ssa.IndexAddr); ok && ia.Index == idx {
				return true
			}
		}
		return false
	}
	for _, b := range f.Blocks {
		for _, in := range b.Instrs {
			switch x := in.(type) {
			case *ssa.BinOp:
				if x.Op == token.LSS || x.Op == token.GTR || x.Op == token.LEQ || x.Op == token.GEQ {
					if (isElem(x.X, i) && isElem(x.Y, j)) || (isElem(x.X, j) && isElem(x.Y, i)) {
						return true
					}
				}
			case *ssa.Call:
				if g, _ := calleeOf(x.Common()); g != nil && (origin(g).Name() == "Compare") && len(x.Call.Args) == 2 {
					if (isElem(x.Call.Args[0], i) && isElem(x.Call.Args[1], j)) || (isElem(x.Call.Args[0], j) && isElem(x.Call.Args[1], i)) {
						return true
					}
				}
			}
		}
	}
	return false
}

// classifyLoop returns the order-dependent constructs of the loop body (empty ⇒ order independent)
// and a short description of why it is independent.
func classifyLoop(w *World, l *mapLoop) (findings []orderFinding, class string) {
	if l.Key == nil && l.Val == nil {
		return nil, "D: neither key nor value is used"
	}
	classes := map[string]bool{}
	visited := map[*ssa.Function]bool{l.Fn: true}
	var scanCallee func(f *ssa.Function, depth int, via ssa.Instruction)
	scanCallee = func(f *ssa.Function, depth int, via ssa.Instruction) {
		f = origin(f)
		if f == nil || visited[f] || !inHelm(f) || depth > 3 {
			return
		}
		visited[f] = true
		for _, b := range f.Blocks {
			for _, in := range b.Instrs {
				switch x := in.(type) {
				case ssa.CallInstruction:
					if s := isOrderSink(x.Common()); s != "" {
						findings = append(findings, orderFinding{via, "calls " + FuncName(f) + " which writes/executes in call order (" + s + ")"})
						return
					}
					if g, _ := calleeOf(x.Common()); g != nil {
						scanCallee(g, depth+1, via)
					}
				case *ssa.MakeClosure:
					if g, ok := x.Fn.(*ssa.Function); ok {
						scanCallee(g, depth+1, via)
					}
				}
			}
		}
	}
	for b := range l.Body {
		for _, in := range b.Instrs {
			switch x := in.(type) {
			case *ssa.MapUpdate:
				if injectiveInKey(x.Key, l) {
					classes["A"] = true
					continue
				}
				if _, isConst := x.Value.(*ssa.Const); isConst {
					classes["A"] = true
					continue
				}
				if invariant(x.Key, l) && !derivesFrom(x.Value, l.Key, l.Val) {
					continue
				}
				findings = append(findings, orderFinding{x, "map entry written under a key that is not an injective function of the range key (last writer wins in map order)"})
			case *ssa.Store:
				// element stores into a slice defined outside the loop (keys[i] = key) — needs a later sort
				if ia, ok := x.Addr.(*ssa.IndexAddr); ok && invariant(ia.X, l) && derivesFrom(x.Val, l.Key, l.Val) {
					if ok2, why := sortedAfter(w, l, ia.X); ok2 {
						classes["B: "+why] = true
					} else {
						findings = append(findings, orderFinding{x, "slice filled in map order: " + why})
					}
					continue
				}
				// last-writer-wins store to a loop-invariant address
				if invariant(x.Addr, l) && derivesFrom(x.Val, l.Key, l.Val) {
					if _, isAlloc := x.Addr.(*ssa.Alloc); isAlloc {
						// address-taken local: treat like a carried variable
					}
					findings = append(findings, orderFinding{x, "a value derived from the iteration is stored to a location that outlives the loop (last writer wins in map order)"})
				}
			case ssa.CallInstruction:
				cc := x.Common()
				if bi, ok := cc.Value.(*ssa.Builtin); ok {
					if bi.Name() == "append" {
						call := x.(*ssa.Call)
						// loop-carried?
						carried := false
						if refs := call.Referrers(); refs != nil {
							for _, rf := range *refs {
								if phi, ok := rf.(*ssa.Phi); ok && phi.Block() == l.Header {
									carried = true
								}
								if st, ok := rf.(*ssa.Store); ok && invariant(st.Addr, l) {
									carried = true
								}
							}
						}
						if carried && derivesFrom(call.Call.Args[len(call.Call.Args)-1], l.Key, l.Val) {
							if ok2, why := sortedAfter(w, l, call); ok2 {
								classes["B: "+why] = true
							} else {
								findings = append(findings, orderFinding{x, "slice appended in map order: " + why})
							}
						}
					}
					continue
				}
				if s := isOrderSink(cc); s != "" {
					findings = append(findings, orderFinding{x, "writes/executes in map order (" + s + ")"})
					continue
				}
				if g, _ := calleeOf(cc); g != nil {
					scanCallee(g, 1, x)
				}
				for _, a := range cc.Args {
					if mc, ok := a.(*ssa.MakeClosure); ok {
						if g, ok := mc.Fn.(*ssa.Function); ok {
							scanCallee(g, 1, x)
						}
					}
				}
			case *ssa.Return:
				// class C: value returns under key equality only
				for _, rv := range x.Results {
					if isErrorType(rv.Type()) || !derivesFrom(rv, l.Key, l.Val) {
						continue
					}
					if keyEqualityGuards(l, x.Block()) {
						classes["C"] = true
						continue
					}
					findings = append(findings, orderFinding{x, "returns a value chosen by the first matching iteration (map order)"})
				}
			case *ssa.Send, *ssa.Go:
				findings = append(findings, orderFinding{x, "sends/spawns in map order"})
			}
		}
	}
	// carried non-accumulator variables: phis at the header fed from the body with iteration-derived values
	for _, in := range l.Header.Instrs {
		phi, ok := in.(*ssa.Phi)
		if !ok {
			continue
		}
		for i, e := range phi.Edges {
			p := l.Header.Preds[i]
			if !l.Body[p] {
				continue
			}
			if e == phi || !derivesFrom(e, l.Key, l.Val) {
				continue
			}
			// append chains handled above; commutative accumulation: phi op x
			if c, ok := e.(*ssa.Call); ok {
				if bi, ok := c.Call.Value.(*ssa.Builtin); ok && bi.Name() == "append" {
					continue
				}
			}
			if bo, ok := e.(*ssa.BinOp); ok && (bo.X == phi || bo.Y == phi) && (bo.Op == token.ADD || bo.Op == token.OR || bo.Op == token.AND || bo.Op == token.LOR || bo.Op == token.LAND) {
				if b, ok := phi.Type().Underlying().(*types.Basic); ok && b.Info()&(types.IsInteger|types.IsBoolean) != 0 {
					classes["D"] = true
					continue
				}
			}
			if b, ok := phi.Type().Underlying().(*types.Basic); ok && b.Info()&types.IsBoolean != 0 {
				classes["D"] = true
				continue
			}
			if _, isSlice := phi.Type().Underlying().(*types.Slice); isSlice {
				continue // covered by the append rule
			}
			findings = append(findings, orderFinding{phi, "a variable carries an iteration-derived value across iterations (last writer wins in map order)"})
		}
	}
	var cl []string
	for c := range classes {
		cl = append(cl, c)
	}
	if len(cl) == 0 {
		cl = []string{"reads only"}
	}
	return findings, strings.Join(cl, "; ")
}

// keyEqualityGuards: block b is reached inside the loop only through the true edge of `key == invariant`.
func keyEqualityGuards(l *mapLoop, b *ssa.BasicBlock) bool {
	g := FullGraph(l.Fn)
	var eq []Edge
	for bb := range l.Body {
		for _, in := range bb.Instrs {
			bo, ok := in.(*ssa.BinOp)
			if !ok || (bo.Op != token.EQL && bo.Op != token.NEQ) {
				continue
			}
			if (bo.X == l.Key && invariant(bo.Y, l)) || (bo.Y == l.Key && invariant(bo.X, l)) {
				for _, e := range condEdges(bo) {
					if e.truth == (bo.Op == token.EQL) {
						eq = append(eq, e.Edge)
					}
				}
			}
		}
	}
	if len(eq) == 0 || len(b.Instrs) == 0 {
		return false
	}
	ex, _ := g.PathExists(IPos{l.Header, len(l.Header.Instrs) - 1}, IPos{b, 0}, Avoid{}.withEdges(eq...))
	return !ex
}

func loopKey(l *mapLoop) string {
	return fmt.Sprintf("%s/range:%s", FuncName(l.Fn), strings.ReplaceAll(l.Range.X.Type().String(), helmMod+"/", ""))
}
