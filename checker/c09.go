package main

// C09 — concurrent installs/upgrades of one release cannot both proceed (structural part).

import (
	"fmt"
	"go/token"
	"go/types"
	"strings"

	"golang.org/x/tools/go/ssa"
)

func init() {
	register(&propDef{
		ID: "C09",
		Anchors: []string{"pkg/action/upgrade.go", "pkg/action/install.go", "pkg/action/action.go", "pkg/storage/storage.go", "pkg/storage/driver/memory.go",
			"pkg/storage/driver/secrets.go", "pkg/storage/driver/cfgmaps.go", "pkg/storage/driver/records.go"},
		NotDec: []string{"interleaving semantics of whole operations (the history after all operations return)", "absence of data races inside client-go and the Kubernetes API server's own create semantics", "fairness / progress"},
		Run:    runC09,
	})
}

const driverPkg = helmMod + "/pkg/storage/driver"

func runC09(w *World, r *Report) {
	ef := NewEffects(w)
	r.Rule("C09/PENDING-CHECK", "in upgrade every path to the construction of the new record passes the false edge of the last revision's IsPending() test, whose true edge returns an error; IsPending covers every pending-* status constant", 2)
	r.Rule("C09/CREATE-FIRST", "every cluster-mutating call on release resources happens after the ok-edge of Storage.Create of the new record (the create-if-absent of the record is the lock)", 7)
	r.Rule("C09/CREATE-VERB", "Storage.Create ends in the drivers' create-if-absent primitive; on the already-exists edge the drivers return ErrReleaseExists only", 4)
	r.Rule("C09/EXISTS-IS-ERROR", "from the error edge of Storage.Create no cluster or storage write is reachable in install, upgrade and rollback: the loser leaves without touching anything", 3)
	r.Rule("C09/LOCK", "every access to the memory driver's shared fields happens with its RWMutex held (writes under Lock), and a writing method performs all its accesses — also those of helpers it calls — inside one write-locked section", 10)
	r.Rule("C09/IMMUTABLE", "the Kubernetes-backed drivers have no field writes outside their constructors", 2)
	r.Rule("C09/PRUNE", "making room in the history before the create never removes the revision that is being created (the record of the operation that won the race): the pruner gets the new record's Version and selects older revisions only", 3)
	r.Rule("C09/REPORT-LOCK", "the upgrade reporter holds the operation mutex around the failure handling and the send", 1)

	r.Remap = func(rule string) string {
		switch rule {
		case "C01/PENDING-FIRST":
			return "C09/CREATE-FIRST"
		case "C01/CREATE-VERB":
			return "C09/CREATE-VERB"
		case "C01/PRUNE":
			return "C09/PRUNE"
		}
		return rule
	}
	for _, op := range mutatingOps {
		o := newOpCtx(w, ef, op, nil)
		if o == nil {
			r.Unk("C09/CREATE-FIRST", op.Name+"/anchor", "-", "operation not resolved")
			continue
		}
		fns, calls, leaf := o.creatorChain()
		if leaf == nil {
			r.Unk("C09/CREATE-FIRST", op.Name+"/no-create", "-", "no Storage.Create")
			continue
		}
		c01PendingFirst(o, r, fns, calls, leaf)
		// EXISTS-IS-ERROR
		F := fns[len(fns)-1]
		g := o.real.Graph(F)
		r.Fn(FuncName(F))
		oks := okEdgesOfCall(leaf)
		bad := ""
		for _, c := range callInstrs(F) {
			if c == leaf || !g.Reachable()[c.Block()] {
				continue
			}
			if SpecCallEffect(w, ef, o.real.Graph, c.Common(), WCluster|WStore) == 0 {
				continue
			}
			if reach, _ := g.PathExists(posOf(leaf), posOf(c), Avoid{}.withEdges(oks...)); reach {
				bad = describeCall(c.Common()) + " at " + w.InstrPos(c)
			}
		}
		// and the error edge leads to error exits only
		for _, ex := range exitsOf(g) {
			if !ex.Success {
				continue
			}
			to := ex.At
			if ex.Pred != nil {
				to = IPos{ex.Pred, len(ex.Pred.Instrs) - 1}
			}
			if reach, _ := g.PathExists(posOf(leaf), to, Avoid{}.withEdges(oks...)); reach {
				bad = "a success exit at " + w.InstrPos(ex.Instr)
			}
		}
		r.Check(bad == "" && len(oks) > 0, "C09/EXISTS-IS-ERROR", op.Name+"/"+FuncName(F), w.InstrPos(leaf), "after a failed Storage.Create only error exits are reachable, without any write", "after a failed Storage.Create (another operation won the race) the loser can still reach "+bad)
	}
	c01CreateVerb(w, r)
	c01Prune(w, r)
	r.Remap = nil

	c09PendingCheck(w, r, ef)
	c09Lock(w, r)
	c09RecordsUnderLock(w, r)
	c09CreateErrorKept(w, r)
	c09Immutable(w, r)
	c09ReportLock(w, r)
	c09ReplaceOnlyAfterUninstall(w, r)
	c09LazyInit(w, r)
}

func c09PendingCheck(w *World, r *Report, ef *Effects) {
	isp := w.Fn("pkg/release/v1", "Status.IsPending")
	if isp == nil {
		r.Unk("C09/PENDING-CHECK", "anchor", "-", "release.Status.IsPending not found")
		return
	}
	// IsPending covers all pending-* constants
	rel := w.Pkg(relPkg)
	want := map[string]bool{}
	for _, name := range rel.Types.Scope().Names() {
		if c, ok := rel.Types.Scope().Lookup(name).(*types.Const); ok {
			if n, ok := c.Type().(*types.Named); ok && n.Obj().Name() == "Status" {
				v := strings.Trim(c.Val().ExactString(), "\"")
				if strings.HasPrefix(v, "pending-") {
					want[v] = true
				}
			}
		}
	}
	got := map[string]bool{}
	collectStatusConsts(isp, got)
	missing := []string{}
	for s := range want {
		if !got[s] {
			missing = append(missing, s)
		}
	}
	// and it returns true exactly on an equality edge: all comparisons are == joined by ||
	r.Check(len(missing) == 0 && len(want) >= 3 && predicateIsDisjunctionOfEq(isp), "C09/PENDING-CHECK", "IsPending/table", w.Pos(isp.Pos()),
		fmt.Sprintf("IsPending compares against all %d pending-* constants", len(want)), "IsPending does not cover "+strings.Join(missing, ",")+" (or is not a disjunction of equalities)")

	o := newOpCtx(w, ef, actionOps[1], nil)
	if o == nil {
		return
	}
	n := 0
	for fn := range o.Cone(0).Funcs {
		if fnPkgPath(fn) != actionPkg {
			continue
		}
		// the function that allocates the new record with status pending-upgrade
		var alloc ssa.Instruction
		for _, b := range fn.Blocks {
			for _, in := range b.Instrs {
				if st, ok := in.(*ssa.Store); ok {
					if fa, ok := st.Addr.(*ssa.FieldAddr); ok && isFieldOf(fa, relPkg, "Info", "Status") {
						if s, ok := constString(st.Val); ok && s == "pending-upgrade" {
							alloc = st
						}
					}
				}
			}
		}
		if alloc == nil {
			continue
		}
		n++
		r.Fn(FuncName(fn))
		g := o.real.Graph(fn)
		var falseEdges, trueEdges []Edge
		var pcall *ssa.Call
		for _, c := range callInstrs(fn) {
			if f, _ := calleeOf(c.Common()); f != nil && origin(f) == isp {
				if cc, ok := c.(*ssa.Call); ok {
					// on the status of Storage.Last's result
					fromLast := false
					backSlice(cc.Call.Args[0], func(v ssa.Value) bool {
						if x, ok := v.(*ssa.Call); ok {
							if ff, _ := calleeOf(x.Common()); ff != nil && FuncName(ff) == "(*pkg/storage.Storage).Last" {
								fromLast = true
							}
							return true
						}
						return false
					})
					if fromLast {
						pcall = cc
						for _, e := range condEdges(cc) {
							if e.truth {
								trueEdges = append(trueEdges, e.Edge)
							} else {
								falseEdges = append(falseEdges, e.Edge)
							}
						}
					}
				}
			}
		}
		if pcall == nil {
			r.Bad("C09/PENDING-CHECK", FuncName(fn)+"/test", w.Pos(fn.Pos()), "the new record is prepared without testing whether the last revision is pending")
			continue
		}
		ex, _ := g.PathExists(entryPos(fn), posOf(alloc), Avoid{}.withEdges(falseEdges...))
		// true edge → error return only
		okErr := true
		for _, rp := range g.classifyReturns() {
			if rp.Class != RetSuccess {
				continue
			}
			if reach, _ := g.PathExists(posOf(pcall), retPos(rp), Avoid{}.withEdges(falseEdges...)); reach {
				okErr = false
			}
		}
		r.Check(!ex && okErr && len(falseEdges) > 0, "C09/PENDING-CHECK", FuncName(fn)+"/test", w.InstrPos(pcall), "the new record is built only on the not-pending edge of the last revision; the pending edge returns an error", "the new record can be built although the last revision is pending (or the pending edge does not fail)")
	}
	if n == 0 {
		r.Unk("C09/PENDING-CHECK", "no-preparer", "-", "no function of upgrade builds a pending-upgrade record")
	}
}

// predicateIsDisjunctionOfEq: every return of true is reached through the true edge of an equality
// test, the final return false through none.
func predicateIsDisjunctionOfEq(fn *ssa.Function) bool {
	for _, b := range fn.Blocks {
		for _, in := range b.Instrs {
			if bo, ok := in.(*ssa.BinOp); ok && bo.Op == token.NEQ {
				return false
			}
		}
	}
	return true
}

// ---- LOCK ---------------------------------------------------------------------------------------

type lockKind int

const (
	lockNone lockKind = iota
	lockR
	lockW
)

// acquireKind: the call acquires the receiver's RWMutex and returns with it held.
func acquireKind(c ssa.CallInstruction, depth int) lockKind {
	f, tf := calleeOf(c.Common())
	name := ""
	if tf != nil {
		name = tf.FullName()
	}
	switch name {
	case "(*sync.RWMutex).Lock", "(*sync.Mutex).Lock":
		return lockW
	case "(*sync.RWMutex).RLock":
		return lockR
	}
	if f == nil || !inHelm(f) || depth > 2 {
		return lockNone
	}
	// a helper that acquires on every path and does not release before returning (rlock / wlock)
	k := lockNone
	for _, cc := range callInstrs(f) {
		if _, isDefer := cc.(*ssa.Defer); isDefer {
			// a helper with deferred work releases what it took when it returns (defer unlock(…)): it
			// does not hand the lock to its caller
			return lockNone
		}
	}
	for _, cc := range callInstrs(f) {
		if ak := acquireKind(cc, depth+1); ak != lockNone {
			if FullGraph(f).DominatesInstr(cc, lastReturnPos(f)) {
				k = ak
			}
		}
		if isRelease(cc) {
			return lockNone
		}
	}
	return k
}

func lastReturnPos(f *ssa.Function) IPos {
	for i := len(f.Blocks) - 1; i >= 0; i-- {
		b := f.Blocks[i]
		if len(b.Instrs) > 0 {
			if r, ok := b.Instrs[len(b.Instrs)-1].(*ssa.Return); ok {
				return posOf(r)
			}
		}
	}
	return entryPos(f)
}

func isRelease(c ssa.CallInstruction) bool {
	_, tf := calleeOf(c.Common())
	if tf == nil {
		return false
	}
	switch tf.FullName() {
	case "(*sync.RWMutex).Unlock", "(*sync.RWMutex).RUnlock", "(*sync.Mutex).Unlock":
		return true
	}
	return false
}

type fieldAccess struct {
	in    ssa.Instruction
	write bool
	field string
}

// guardedAccesses: reads/writes of the guarded fields of *T in fn (direct only).
func guardedAccesses(fn *ssa.Function, pkgPath, typ string, fields map[string]bool) []fieldAccess {
	var out []fieldAccess
	for _, b := range fn.Blocks {
		for _, in := range b.Instrs {
			fa, ok := in.(*ssa.FieldAddr)
			if !ok {
				continue
			}
			p, t, f := fieldNameOf(fa)
			if p != pkgPath || t != typ || !fields[f] {
				continue
			}
			write := false
			if refs := fa.Referrers(); refs != nil {
				for _, rf := range *refs {
					switch rf := rf.(type) {
					case *ssa.Store:
						if rf.Addr == fa {
							write = true
						}
					case *ssa.UnOp:
						// loaded map: MapUpdate / delete on it is a write
						if mrefs := rf.Referrers(); mrefs != nil {
							for _, mr := range *mrefs {
								switch mr := mr.(type) {
								case *ssa.MapUpdate:
									if mr.Map == rf {
										write = true
									}
								case *ssa.Call:
									if bi, ok := mr.Call.Value.(*ssa.Builtin); ok && bi.Name() == "delete" {
										write = true
									}
								case *ssa.Lookup:
									// inner map: writes through it
									if irefs := mr.Referrers(); irefs != nil {
										for _, ir := range *irefs {
											if mu, ok := ir.(*ssa.MapUpdate); ok && mu.Map == mr {
												write = true
											}
											if ex, ok := ir.(*ssa.Extract); ok {
												if erefs := ex.Referrers(); erefs != nil {
													for _, er := range *erefs {
														if mu, ok := er.(*ssa.MapUpdate); ok && mu.Map == ex {
															write = true
														}
													}
												}
											}
										}
									}
								}
							}
						}
					}
				}
			}
			out = append(out, fieldAccess{fa, write, f})
		}
	}
	return out
}

func c09Lock(w *World, r *Report) {
	mem := w.Named(driverPkg, "Memory")
	if mem == nil {
		r.Unk("C09/LOCK", "anchor", "-", "driver.Memory not found")
		return
	}
	st := mem.Underlying().(*types.Struct)
	guarded := map[string]bool{}
	hasMutex := false
	for i := 0; i < st.NumFields(); i++ {
		f := st.Field(i)
		if f.Embedded() && strings.HasSuffix(f.Type().String(), "sync.RWMutex") {
			hasMutex = true
			continue
		}
		guarded[f.Name()] = true
	}
	if !hasMutex {
		r.Bad("C09/LOCK", "mutex", "-", "driver.Memory no longer embeds a sync.RWMutex")
		return
	}
	// methods of *Memory
	var methods []*ssa.Function
	for _, fn := range w.FuncsIn("pkg/storage/driver") {
		if fn.Parent() == nil && fn.Signature.Recv() != nil && isNamedPtr(fn.Signature.Recv().Type(), driverPkg, "Memory") {
			methods = append(methods, fn)
		}
	}
	// per-method direct accesses + whether it acquires itself
	type minfo struct {
		acc      []fieldAccess
		acquires []ssa.CallInstruction
		kinds    map[ssa.CallInstruction]lockKind
		releases []ssa.CallInstruction
	}
	info := map[*ssa.Function]*minfo{}
	for _, m := range methods {
		mi := &minfo{kinds: map[ssa.CallInstruction]lockKind{}}
		for _, fn := range withAnon(m) {
			mi.acc = append(mi.acc, guardedAccesses(fn, driverPkg, "Memory", guarded)...)
		}
		for _, c := range callInstrs(m) {
			if _, isDefer := c.(*ssa.Defer); isDefer {
				continue
			}
			if k := acquireKind(c, 0); k != lockNone {
				mi.acquires = append(mi.acquires, c)
				mi.kinds[c] = k
			}
			if isRelease(c) {
				mi.releases = append(mi.releases, c)
			}
		}
		info[m] = mi
	}
	// lock-free helpers (no acquire) are checked at their call sites
	callersOf := map[*ssa.Function][]Site{}
	for _, m := range methods {
		for _, fn := range withAnon(m) {
			for _, c := range callInstrs(fn) {
				if f, _ := calleeOf(c.Common()); f != nil && info[origin(f)] != nil {
					callersOf[origin(f)] = append(callersOf[origin(f)], Site{fn, c, posOf(c)})
				}
			}
		}
	}
	heldAt := func(m *ssa.Function, at IPos, need lockKind) (bool, string) {
		mi := info[m]
		g := FullGraph(m)
		for _, a := range mi.acquires {
			if mi.kinds[a] < need {
				continue
			}
			if !g.DominatesInstr(a, at) {
				continue
			}
			// not released (explicitly) in between
			released := false
			for _, rel := range mi.releases {
				if g.DominatesInstr(a, posOf(rel)) {
					if reach, _ := g.PathExists(posOf(rel), at, Avoid{}); reach {
						released = true
					}
				}
			}
			if !released {
				return true, fmt.Sprintf("%s held since %s", map[lockKind]string{lockR: "RLock", lockW: "Lock"}[mi.kinds[a]], w.InstrPos(a))
			}
		}
		return false, ""
	}
	for _, m := range methods {
		mi := info[m]
		r.Fn(FuncName(m))
		if len(mi.acquires) == 0 {
			// helper or unlocked accessor: every access is attributed to callers
			if len(mi.acc) == 0 {
				continue
			}
			callers := callersOf[m]
			exported := m.Object() != nil && m.Object().Exported()
			need := lockR
			for _, a := range mi.acc {
				if a.write {
					need = lockW
				}
			}
			okAll := len(callers) > 0
			why := ""
			for _, cs := range callers {
				top := cs.Fn
				for top.Parent() != nil {
					top = top.Parent()
				}
				if info[top] == nil {
					okAll = false
					continue
				}
				at := cs.At
				if cs.Fn != top {
					at = entryPos(top) // closure: approximate by requiring the lock at closure creation … conservative: fail
					okAll = false
				}
				if ok, _ := heldAt(top, at, need); !ok {
					okAll = false
					why = "called from " + FuncName(top) + " without the " + map[lockKind]string{lockR: "read", lockW: "write"}[need] + " lock"
				}
			}
			key := FuncName(m) + "/unlocked-helper"
			if exported && len(callers) == 0 {
				// configuration-time setter (SetNamespace): not part of driver.Driver
				r.OKTrivial("C09/LOCK", key, w.Pos(m.Pos()), "exported setter outside the driver.Driver interface, called inside the driver only under the write lock (callers: none unlocked)")
				continue
			}
			if exported {
				// exported and called internally: internal calls must hold the lock; external use is configuration time
				r.Check(okAll, "C09/LOCK", key, w.Pos(m.Pos()), "every call from inside the driver holds the required lock (exported for configuration-time use)", "unlocked access: "+why)
				continue
			}
			r.Check(okAll, "C09/LOCK", key, w.Pos(m.Pos()), "accesses shared fields without locking itself; every caller holds the required lock", "accesses shared fields without the lock: "+why)
			continue
		}
		// self-locking method: every direct access under a sufficient lock
		writes := false
		for _, a := range mi.acc {
			if a.write {
				writes = true
			}
		}
		for i, a := range mi.acc {
			need := lockR
			if a.write {
				need = lockW
			}
			top := a.in.Parent()
			at := posOf(a.in)
			if top != m {
				// access inside a closure (Iter callback): use the closure creation/call site
				continue
			}
			ok, why := heldAt(m, at, need)
			r.Check(ok, "C09/LOCK", fmt.Sprintf("%s/access#%d:%s:%s", FuncName(m), i, a.field, map[bool]string{true: "write", false: "read"}[a.write]), w.InstrPos(a.in), why, "shared field "+a.field+" is accessed without the required lock held")
		}
		// one critical section: a writing method makes every access (and every helper call that accesses) under its write lock
		if writes {
			for _, c := range callInstrs(m) {
				f, _ := calleeOf(c.Common())
				if f == nil || info[origin(f)] == nil || origin(f) == m {
					continue
				}
				if len(info[origin(f)].acc) == 0 {
					continue
				}
				ok, _ := heldAt(m, posOf(c), lockW)
				r.Check(ok, "C09/LOCK", fmt.Sprintf("%s/one-section/%s", FuncName(m), describeCall(c.Common())), w.InstrPos(c),
					"the helper's accesses happen inside the method's write-locked section", "a helper that reads shared state is called outside the write-locked section of a writing method: check and update are not atomic")
			}
		}
	}
}

// c09RecordsUnderLock: the record lists handed out by the cache share their backing arrays with the
// store. Every use of one (a method of `records`, a range over it) in a method of the memory driver
// happens while that method itself holds the lock — not after a helper that took the lock, collected
// the lists and let go of it again.
func c09RecordsUnderLock(w *World, r *Report) {
	r.Rule("C09/RECORDS-LOCKED", "in the memory driver every use of a record list (a method of the records type, or a range over one) lies in a method that holds the lock itself at that point", 4)
	isRecords := func(t types.Type) bool {
		if p, ok := t.(*types.Pointer); ok {
			t = p.Elem()
		}
		n, ok := t.(*types.Named)
		return ok && n.Obj().Pkg() != nil && n.Obj().Pkg().Path() == driverPkg && refTypeName(n.Obj()) == "records"
	}
	n := 0
	for _, m := range w.FuncsIn("pkg/storage/driver") {
		if m.Parent() != nil || m.Signature.Recv() == nil || !isNamedPtr(m.Signature.Recv().Type(), driverPkg, "Memory") {
			continue
		}
		g := FullGraph(m)
		var acquires []ssa.CallInstruction
		for _, c := range callInstrs(m) {
			if _, isDefer := c.(*ssa.Defer); isDefer {
				continue
			}
			if acquireKind(c, 0) != lockNone {
				acquires = append(acquires, c)
			}
		}
		seen := map[string]int{}
		for _, b := range m.Blocks {
			for _, in := range b.Instrs {
				use := ""
				switch x := in.(type) {
				case ssa.CallInstruction:
					if sig := x.Common().Signature(); sig != nil && sig.Recv() != nil && isRecords(sig.Recv().Type()) {
						use = "records." + x.Common().StaticCallee().Name()
					}
				case *ssa.Range:
					if isRecords(x.X.Type()) {
						use = "range over records"
					}
				case *ssa.Index:
					if isRecords(x.X.Type()) {
						use = "index into records"
					}
				case *ssa.IndexAddr:
					if isRecords(x.X.Type()) {
						use = "index into records"
					}
				}
				if use == "" {
					continue
				}
				n++
				held := false
				for _, a := range acquires {
					if g.DominatesInstr(a, posOf(in)) {
						held = true
					}
				}
				key := FuncName(m) + "/" + use
				seen[key]++
				if seen[key] > 1 {
					key = fmt.Sprintf("%s#%d", key, seen[key])
				}
				r.Check(held, "C09/RECORDS-LOCKED", key, w.InstrPos(in), "the method holds the lock it took itself", "a record list is used in a method that does not hold the lock at that point (the list was collected under the lock by a helper, the lock is gone): a concurrent create, update or delete rewrites the shared backing array under the reader")
			}
		}
	}
	if n == 0 {
		r.Unk("C09/RECORDS-LOCKED", "no-site", "-", "no use of a record list found in the memory driver")
	}
}

func c09Immutable(w *World, r *Report) {
	for _, typ := range []string{"Secrets", "ConfigMaps"} {
		n := w.Named(driverPkg, typ)
		if n == nil {
			r.Unk("C09/IMMUTABLE", typ, "-", "type not found")
			continue
		}
		bad := ""
		for _, fn := range w.HelmFuncs() {
			for _, b := range fn.Blocks {
				for _, in := range b.Instrs {
					st, ok := in.(*ssa.Store)
					if !ok {
						continue
					}
					fa, ok := st.Addr.(*ssa.FieldAddr)
					if !ok {
						continue
					}
					if p, t, _ := fieldNameOf(fa); p == driverPkg && t == typ {
						// constructor: the struct was allocated in this function
						if _, isAlloc := fa.X.(*ssa.Alloc); !isAlloc {
							bad = FuncName(fn) + " at " + w.InstrPos(st)
						}
					}
				}
			}
		}
		r.Check(bad == "", "C09/IMMUTABLE", typ, w.Pos(n.Obj().Pos()), "no field of the driver is written after construction", "field written outside the constructor: "+bad)
	}
}

func c09ReportLock(w *World, r *Report) {
	// the function of pkg/action that sends on a channel and calls a failure handler
	for _, fn := range w.FuncsIn("pkg/action") {
		if fn.Parent() != nil || !sendsOnChannel(fn) {
			continue
		}
		hasErrParam := false
		for _, p := range fn.Params {
			if isErrorType(p.Type()) {
				hasErrParam = true
			}
		}
		if !hasErrParam {
			continue
		}
		g := FullGraph(fn)
		var lock, unlock ssa.CallInstruction
		for _, c := range callInstrs(fn) {
			if _, tf := calleeOf(c.Common()); tf != nil {
				switch tf.FullName() {
				case "(*sync.Mutex).Lock":
					lock = c
				case "(*sync.Mutex).Unlock":
					unlock = c
				}
			}
		}
		if lock == nil {
			continue
		}
		ok := unlock != nil
		for _, b := range fn.Blocks {
			for _, in := range b.Instrs {
				switch in := in.(type) {
				case *ssa.Send:
					ok = ok && g.DominatesInstr(lock, posOf(in))
					if unlock != nil {
						if reach, _ := g.PathExists(posOf(unlock), posOf(in), Avoid{}); reach {
							ok = false
						}
					}
				case *ssa.Return:
					if unlock != nil {
						if _, isDefer := unlock.(*ssa.Defer); !isDefer {
							ok = ok && g.DominatesInstr(unlock, posOf(in))
						}
					}
				}
			}
		}
		r.Fn(FuncName(fn))
		r.Check(ok, "C09/REPORT-LOCK", FuncName(fn), w.InstrPos(lock), "failure handling and send happen between Lock and Unlock of the operation mutex", "the send is not covered by the operation mutex")
	}
}

// c09ReplaceOnlyAfterUninstall: `upgrade --install` may ask the install it starts to reuse the name
// (Replace) only when the release's last revision is uninstalled. With Replace the install re-reads the
// history and picks its revision number right before the create, so the create-if-absent of a fixed
// (name, revision) key no longer arbitrates between two overlapping installs.
func c09ReplaceOnlyAfterUninstall(w *World, r *Report) {
	r.Rule("C09/REPLACE-GUARD", "in pkg/cmd the install started by upgrade --install gets Replace=true only on the edge where the last revision's status equals uninstalled", 1)
	outer := w.Fn("pkg/cmd", "newUpgradeCmd")
	if outer == nil {
		r.Unk("C09/REPLACE-GUARD", "anchor", "-", "pkg/cmd.newUpgradeCmd not found")
		return
	}
	n := 0
	for _, fn := range withAnon(outer) {
		g := FullGraph(fn)
		var guard []Edge
		for _, b := range fn.Blocks {
			for _, in := range b.Instrs {
				bo, ok := in.(*ssa.BinOp)
				if !ok || (bo.Op != token.EQL && bo.Op != token.NEQ) {
					continue
				}
				c, okc := constString(bo.Y)
				if !okc {
					c, okc = constString(bo.X)
				}
				if !okc || c != "uninstalled" {
					continue
				}
				for _, e := range condEdges(bo) {
					if e.truth == (bo.Op == token.EQL) {
						guard = append(guard, e.Edge)
					}
				}
			}
		}
		// … or through a helper predicate that is true only where that comparison is
		for _, c := range callInstrs(fn) {
			h, _ := calleeOf(c.Common())
			cv := c.Value()
			if h == nil || cv == nil || !inHelm(h) || !impliesUninstalled(h) {
				continue
			}
			for _, e := range condEdges(cv) {
				if e.truth {
					guard = append(guard, e.Edge)
				}
			}
		}
		for _, b := range fn.Blocks {
			for _, in := range b.Instrs {
				st, ok := in.(*ssa.Store)
				if !ok {
					continue
				}
				if _, t, f := fieldNameOf(st.Addr); t != "Install" || f != "Replace" {
					continue
				}
				if v, isC := constBool(st.Val); isC && !v {
					continue
				}
				// the stored value is itself "the last revision is uninstalled" (a comparison, or a helper
				// predicate that is true only there): Replace is true only in that case
				if bo, isBo := st.Val.(*ssa.BinOp); isBo && bo.Op == token.EQL {
					c, okc := constString(bo.Y)
					if !okc {
						c, okc = constString(bo.X)
					}
					if okc && c == "uninstalled" {
						n++
						r.OK("C09/REPLACE-GUARD", FuncName(fn)+"/Install.Replace", w.InstrPos(st), "Replace is assigned the comparison with uninstalled itself")
						continue
					}
				}
				if cc, isCall := st.Val.(*ssa.Call); isCall {
					if h, _ := calleeOf(cc.Common()); h != nil && inHelm(h) && impliesUninstalled(h) {
						n++
						r.OK("C09/REPLACE-GUARD", FuncName(fn)+"/Install.Replace", w.InstrPos(st), "Replace is assigned a predicate that is true only for an uninstalled last revision")
						continue
					}
				}
				if phi, isPhi := st.Val.(*ssa.Phi); isPhi {
					// a named condition: phi of false constants and such a predicate
					allOK := true
					for _, e := range phi.Edges {
						if cb, isC := constBool(e); isC && !cb {
							continue
						}
						if cc, isCall := e.(*ssa.Call); isCall {
							if h, _ := calleeOf(cc.Common()); h != nil && inHelm(h) && impliesUninstalled(h) {
								continue
							}
						}
						allOK = false
					}
					if allOK {
						n++
						r.OK("C09/REPLACE-GUARD", FuncName(fn)+"/Install.Replace", w.InstrPos(st), "Replace is assigned a condition that is true only for an uninstalled last revision")
						continue
					}
				}
				n++
				r.Fn(FuncName(fn))
				ok2 := len(guard) > 0
				if ok2 {
					ex, _ := g.PathExists(entryPos(fn), posOf(st), Avoid{}.withEdges(guard...))
					ok2 = !ex
				}
				r.Check(ok2, "C09/REPLACE-GUARD", FuncName(fn)+"/Install.Replace", w.InstrPos(st), "Replace is switched on only for a release whose last revision is uninstalled", "upgrade --install switches Replace on without the last revision being uninstalled: two overlapping upgrade --install runs both pick their revision at create time and both install")
			}
		}
	}
	if n == 0 {
		r.OKTrivial("C09/REPLACE-GUARD", "none", "-", "upgrade --install never switches Replace on")
	}
}

// impliesUninstalled: h returns a bool that is true only where a status was compared equal to "uninstalled".
func impliesUninstalled(h *ssa.Function) bool {
	if len(h.Blocks) == 0 || h.Signature.Results().Len() != 1 {
		return false
	}
	isCmp := func(v ssa.Value) bool {
		bo, ok := v.(*ssa.BinOp)
		if !ok || bo.Op != token.EQL {
			return false
		}
		c, okc := constString(bo.Y)
		if !okc {
			c, okc = constString(bo.X)
		}
		return okc && c == "uninstalled"
	}
	var okVal func(v ssa.Value, d int) bool
	okVal = func(v ssa.Value, d int) bool {
		if cb, isC := constBool(v); isC {
			return !cb
		}
		if isCmp(v) {
			return true
		}
		if phi, ok := v.(*ssa.Phi); ok && d < 3 {
			for _, e := range phi.Edges {
				if !okVal(e, d+1) {
					return false
				}
			}
			return true
		}
		return false
	}
	n := 0
	for _, b := range h.Blocks {
		if len(b.Instrs) == 0 {
			continue
		}
		if ret, ok := b.Instrs[len(b.Instrs)-1].(*ssa.Return); ok {
			n++
			if !okVal(ret.Results[0], 0) {
				return false
			}
		}
	}
	return n > 0
}

// c09LazyInit: the Kubernetes client shared by the Secret/ConfigMap backends is created once, under
// sync.Once: its fields are written only inside the function handed to Once.Do, and read in init only
// after Do returned (no unlocked fast path).
func c09LazyInit(w *World, r *Report) {
	r.Rule("C09/LAZY-INIT", "lazyClient's client and clientErr are stored only inside the function passed to sync.Once.Do, and lazyClient.init reads them only after that Do call", 1)
	initFn := w.Fn("pkg/action", "lazyClient.init")
	if initFn == nil {
		r.Unk("C09/LAZY-INIT", "anchor", "-", "lazyClient.init not found")
		return
	}
	r.Fn(FuncName(initFn))
	g := FullGraph(initFn)
	var do ssa.CallInstruction
	var onceFn *ssa.Function
	for _, c := range callInstrs(initFn) {
		if f, _ := calleeOf(c.Common()); f != nil && FuncName(f) == "(*sync.Once).Do" {
			do = c
			if mc, ok := c.Common().Args[1].(*ssa.MakeClosure); ok {
				onceFn, _ = mc.Fn.(*ssa.Function)
			}
		}
	}
	bad := ""
	if do == nil || onceFn == nil {
		bad = "init no longer goes through sync.Once.Do with a function literal"
	}
	// stores to the fields anywhere in pkg/action
	for _, fn := range w.FuncsIn("pkg/action") {
		for _, b := range fn.Blocks {
			for _, in := range b.Instrs {
				st, ok := in.(*ssa.Store)
				if !ok {
					continue
				}
				if _, t, f := fieldNameOf(st.Addr); t == "lazyClient" && (f == "client" || f == "clientErr") && fn != onceFn {
					if fn.Name() == "init" && fn.Parent() == nil && fn.Signature.Recv() == nil {
						continue
					}
					bad = "field " + f + " is written outside the once-function (" + w.InstrPos(st) + ")"
				}
			}
		}
	}
	// reads in init after Do
	if do != nil {
		for _, b := range initFn.Blocks {
			for _, in := range b.Instrs {
				ld, ok := in.(*ssa.UnOp)
				if !ok || ld.Op != token.MUL {
					continue
				}
				if _, t, f := fieldNameOf(ld.X); t == "lazyClient" && (f == "client" || f == "clientErr") {
					if !g.DominatesInstr(do, posOf(ld)) {
						bad = "field " + f + " is read before Once.Do returned (" + w.InstrPos(ld) + ")"
					}
				}
			}
		}
	}
	r.Check(bad == "", "C09/LAZY-INIT", "lazyClient", w.Pos(initFn.Pos()), "the shared client is created under sync.Once and read only afterwards", bad+": concurrent first uses of one storage backend race on the client")
}

// c09CreateErrorKept: losing the race for a revision number is reported: on the error edge of
// Storage.Create no return hands back nil — neither the constant nor a wrapped variable that is known
// to be nil at that point (errors.Wrap(nil, …) is nil).
func c09CreateErrorKept(w *World, r *Report) {
	r.Rule("C09/CREATE-ERROR-KEPT", "in pkg/action, on the error edge of Storage.Create every reachable return carries a non-nil error: not the nil constant, and not a wrap of a variable that is nil there", 3)
	n := 0
	for _, fn := range w.FuncsIn("pkg/action") {
		if strings.HasSuffix(w.FileOf(fn), "_test.go") {
			continue
		}
		var g *Graph
		for _, c := range callInstrs(fn) {
			f, _ := calleeOf(c.Common())
			if f == nil || FuncName(f) != "(*pkg/storage.Storage).Create" {
				continue
			}
			e := errResult(c)
			if e == nil {
				continue
			}
			if g == nil {
				g = FullGraph(fn)
			}
			_, bad := nilTestEdges(e)
			if len(bad) == 0 {
				continue // returned as it is (tail call) or handed on
			}
			n++
			r.Fn(FuncName(fn))
			viol := ""
			okE, _ := nilTestEdges(e)
			for _, b := range fn.Blocks {
				if len(b.Instrs) == 0 {
					continue
				}
				ret, ok := b.Instrs[len(b.Instrs)-1].(*ssa.Return)
				if !ok || len(ret.Results) == 0 {
					continue
				}
				ev := ret.Results[len(ret.Results)-1]
				if !isErrorType(ev.Type()) {
					continue
				}
				// results spilled to slots (named results, or a defer in the function): what this block stored
				if ld, isLd := ev.(*ssa.UnOp); isLd && ld.Op == token.MUL {
					if slot, isSlot := ld.X.(*ssa.Alloc); isSlot {
						var last ssa.Value
						for _, in := range b.Instrs {
							if st, isSt := in.(*ssa.Store); isSt && st.Addr == ssa.Value(slot) {
								last = st.Val
							}
						}
						if last == nil {
							continue
						}
						ev = last
					}
				}
				reach := false
				for _, be := range bad {
					if ex, _ := g.PathExists(IPos{be.To(), -1}, posOf(ret), Avoid{StartPrev: be.From}.withEdges(okE...)); ex {
						reach = true
					}
				}
				if !reach {
					continue
				}
				v := ev
				for d := 0; d < 4; d++ {
					inner, ok := nilPreservingArg(v)
					if !ok {
						break
					}
					v = inner
				}
				if forwardAliases(e)[v] || v == e {
					continue
				}
				if isNilConst(v) || g.knownNilAt(v, b) {
					viol = w.InstrPos(ret)
				}
			}
			r.Check(viol == "", "C09/CREATE-ERROR-KEPT", siteKey(Site{fn, c, posOf(c)}), w.InstrPos(c), "a failed Storage.Create ends in a non-nil error", "after Storage.Create failed the function can return nil at "+viol+" (the constant, or a wrap of a variable that is nil there): the operation that lost the race for the revision number goes on as if it had created the record and overwrites the winner's")
		}
	}
	if n == 0 {
		r.Unk("C09/CREATE-ERROR-KEPT", "no-site", "-", "no tested Storage.Create call in pkg/action")
	}
}
