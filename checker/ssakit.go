package main

// ssakit.go — SITE, DOM/MPT primitives over go/ssa control-flow graphs.

import (
	"fmt"
	"go/constant"
	"go/token"
	"go/types"
	"strings"

	"golang.org/x/tools/go/ssa"
)

// ---- callee resolution ------------------------------------------------------------------------

// calleeOf resolves a call: the static *ssa.Function when known (direct call, closure value created
// in place, bound method), and/or the *types.Func (also for interface method invocations).
func calleeOf(c *ssa.CallCommon) (*ssa.Function, *types.Func) {
	if c.IsInvoke() {
		return nil, c.Method
	}
	switch v := c.Value.(type) {
	case *ssa.Function:
		tf, _ := v.Object().(*types.Func)
		return v, tf
	case *ssa.MakeClosure:
		if f, ok := v.Fn.(*ssa.Function); ok {
			tf, _ := f.Object().(*types.Func)
			return f, tf
		}
	}
	if sc := c.StaticCallee(); sc != nil {
		tf, _ := sc.Object().(*types.Func)
		return sc, tf
	}
	return nil, nil
}

// calleesOf: the functions a call may run: its static callee, or — for a call through a local function
// value chosen among named functions (f := A; if c { f = B }; f(x)) — every candidate. nil if any
// candidate is unknown.
func calleesOf(c *ssa.CallCommon) []*ssa.Function {
	if f, _ := calleeOf(c); f != nil {
		return []*ssa.Function{f}
	}
	if c.IsInvoke() {
		return nil
	}
	var out []*ssa.Function
	seen := map[ssa.Value]bool{}
	var walk func(v ssa.Value, d int) bool
	walk = func(v ssa.Value, d int) bool {
		if seen[v] {
			return true
		}
		seen[v] = true
		if d > 6 {
			return false
		}
		switch x := v.(type) {
		case *ssa.Function:
			out = append(out, x)
			return true
		case *ssa.MakeClosure:
			if f, ok := x.Fn.(*ssa.Function); ok {
				out = append(out, f)
				return true
			}
		case *ssa.ChangeType:
			return walk(x.X, d+1)
		case *ssa.Phi:
			for _, e := range x.Edges {
				if !walk(e, d+1) {
					return false
				}
			}
			return true
		}
		return false
	}
	if !walk(c.Value, 0) {
		return nil
	}
	return out
}

// origin maps an instantiated generic function to its origin.
// genericName: the function's name without type arguments (slices.IndexFunc[[]string string] -> IndexFunc).
func genericName(f *ssa.Function) string {
	n := f.Name()
	if i := strings.Index(n, "["); i >= 0 {
		n = n[:i]
	}
	return n
}

func origin(f *ssa.Function) *ssa.Function {
	if f != nil && f.Origin() != nil {
		return f.Origin()
	}
	return f
}

func sameTFunc(a, b *types.Func) bool {
	if a == nil || b == nil {
		return false
	}
	return a.Origin() == b.Origin()
}

// Pos is an instruction position inside one function.
type IPos struct {
	B *ssa.BasicBlock
	I int
}

func posOf(in ssa.Instruction) IPos {
	b := in.Block()
	for i, x := range b.Instrs {
		if x == in {
			return IPos{b, i}
		}
	}
	return IPos{b, -1}
}

// Site is a resolved call site.
type Site struct {
	Fn    *ssa.Function
	Instr ssa.CallInstruction
	At    IPos
}

func (s Site) Common() *ssa.CallCommon { return s.Instr.Common() }

// callSites enumerates call instructions (call, go, defer) in fn.
func callInstrs(fn *ssa.Function) []ssa.CallInstruction {
	var out []ssa.CallInstruction
	for _, b := range fn.Blocks {
		for _, in := range b.Instrs {
			if c, ok := in.(ssa.CallInstruction); ok {
				out = append(out, c)
			}
		}
	}
	return out
}

// SitesOf finds call sites in fns whose resolved callee (static or interface method) is target.
func SitesOf(fns []*ssa.Function, target *types.Func) []Site {
	var out []Site
	for _, fn := range fns {
		for _, c := range callInstrs(fn) {
			_, tf := calleeOf(c.Common())
			if sameTFunc(tf, target) {
				out = append(out, Site{fn, c, posOf(c)})
			}
		}
	}
	return out
}

// withAnon returns fn and all functions nested in it.
// withAnon: fn, its function literals, and — because a literal may have been turned into a named
// function or method by a refactoring — the functions that do not exist on the reference tree which fn
// uses as a value (callback, bound method) or starts with `go`.
func withAnon(fn *ssa.Function) []*ssa.Function {
	return withAnonD(fn, 0, map[*ssa.Function]bool{})
}

func withAnonD(fn *ssa.Function, depth int, seen map[*ssa.Function]bool) []*ssa.Function {
	if seen[fn] {
		return nil
	}
	seen[fn] = true
	out := []*ssa.Function{fn}
	for _, a := range fn.AnonFuncs {
		out = append(out, withAnonD(a, depth, seen)...)
	}
	if depth >= 2 || len(NewFuncKeys) == 0 {
		return out
	}
	add := func(f *ssa.Function) {
		if f == nil {
			return
		}
		// bound-method wrapper: the method itself
		if f.Synthetic != "" && strings.HasPrefix(f.Synthetic, "bound method wrapper") {
			if m, ok := f.Object().(*types.Func); ok && fn.Prog != nil {
				f = fn.Prog.FuncValue(m)
			}
		}
		if f == nil || !inHelm(f) || len(f.Blocks) == 0 || !isNewFunc(f) {
			return
		}
		out = append(out, withAnonD(f, depth+1, seen)...)
	}
	for _, b := range fn.Blocks {
		for _, in := range b.Instrs {
			switch x := in.(type) {
			case *ssa.MakeClosure:
				if f, ok := x.Fn.(*ssa.Function); ok && f.Parent() == nil {
					add(f)
				}
			case *ssa.Go:
				if f := x.Call.StaticCallee(); f != nil && f.Parent() == nil {
					add(f)
				}
			case ssa.CallInstruction:
				for _, a := range x.Common().Args {
					if f, ok := a.(*ssa.Function); ok {
						add(f)
					}
				}
				// a new helper that could not be expanded in place (defer, recursion, …) and is called directly
				if f := x.Common().StaticCallee(); f != nil && f.Parent() == nil {
					add(f)
				}
			}
		}
	}
	return out
}

// NewFuncKeys: display names (FuncName) of helm functions that do not exist on the reference tree
// (and are not renames of reference functions); filled by Load.
var NewFuncKeys = map[string]bool{}

func isNewFunc(f *ssa.Function) bool { return NewFuncKeys[FuncName(f)] }

// ---- constants -------------------------------------------------------------------------------

func isNilConst(v ssa.Value) bool {
	c, ok := v.(*ssa.Const)
	return ok && c.Value == nil
}

func constString(v ssa.Value) (string, bool) {
	c, ok := v.(*ssa.Const)
	if !ok || c.Value == nil || c.Value.Kind() != constant.String {
		return "", false
	}
	return constant.StringVal(c.Value), true
}

func constBool(v ssa.Value) (bool, bool) {
	c, ok := v.(*ssa.Const)
	if !ok || c.Value == nil || c.Value.Kind() != constant.Bool {
		return false, false
	}
	return constant.BoolVal(c.Value), true
}

func constInt(v ssa.Value) (int64, bool) {
	c, ok := v.(*ssa.Const)
	if !ok || c.Value == nil || c.Value.Kind() != constant.Int {
		return 0, false
	}
	i, ok2 := constant.Int64Val(c.Value)
	return i, ok2
}

// ---- graph view (possibly specialised) -----------------------------------------------------------

// Edge is a CFG edge: block From, successor index Succ.
type Edge struct {
	From *ssa.BasicBlock
	Succ int
	Via  *ssa.BasicBlock // when set: the edge only counts for control that entered From from Via (a branch on a phi of From)
	Phi  *ssa.Phi        // when set (with Via): the edge only counts while Phi holds the value that flowed in from Via (a named condition tested in a later block)
}

func (e Edge) To() *ssa.BasicBlock { return e.From.Succs[e.Succ] }

// Graph is a view of a function's CFG in which some edges are infeasible (removed by specialisation).
type Graph struct {
	Fn      *ssa.Function
	Dead    map[Edge]bool // infeasible edges; nil = full CFG
	reachOK map[*ssa.BasicBlock]bool
	folding int // >0 while a folding decision is being computed (nested searches do not fold)
	foldMem map[[2]*ssa.BasicBlock]int8
	rconds  map[string]int // conditions tested by more than one If: normal form -> index (see initFacts)
	iphis   []*ssa.Phi     // phis whose value decides a later branch (see initFacts)
	iphiIdx map[*ssa.Phi]int
	nilMem  map[[3]interface{}]byte
}

func FullGraph(fn *ssa.Function) *Graph { return &Graph{Fn: fn} }

func (g *Graph) succs(b *ssa.BasicBlock) []Edge {
	var out []Edge
	for i := range b.Succs {
		e := Edge{From: b, Succ: i}
		if g.Dead != nil && g.Dead[e] {
			continue
		}
		out = append(out, e)
	}
	return out
}

// Reachable blocks from entry (memoised).
func (g *Graph) Reachable() map[*ssa.BasicBlock]bool {
	if g.reachOK != nil {
		return g.reachOK
	}
	r := map[*ssa.BasicBlock]bool{}
	if len(g.Fn.Blocks) == 0 {
		g.reachOK = r
		return r
	}
	stack := []*ssa.BasicBlock{g.Fn.Blocks[0]}
	r[g.Fn.Blocks[0]] = true
	for len(stack) > 0 {
		b := stack[len(stack)-1]
		stack = stack[:len(stack)-1]
		for _, e := range g.succs(b) {
			if t := e.To(); !r[t] {
				r[t] = true
				stack = append(stack, t)
			}
		}
	}
	g.reachOK = r
	return r
}

func (g *Graph) InstrReachable(p IPos) bool { return g.Reachable()[p.B] }

// Avoid describes what a path may not pass.
type Avoid struct {
	Instrs        map[ssa.Instruction]bool
	Edges         map[Edge]bool
	EdgeSensitive bool            // (historic: folding is always on)
	StartPrev     *ssa.BasicBlock // control entered from.B from this predecessor (for branch folding)
}

func avoidInstrs(ins ...ssa.Instruction) Avoid {
	a := Avoid{Instrs: map[ssa.Instruction]bool{}}
	for _, i := range ins {
		a.Instrs[i] = true
	}
	return a
}

func (a Avoid) withEdges(es ...Edge) Avoid {
	if a.Edges == nil {
		a.Edges = map[Edge]bool{}
	}
	for _, e := range es {
		a.Edges[e] = true
	}
	return a
}
func (a Avoid) withInstrs(ins ...ssa.Instruction) Avoid {
	if a.Instrs == nil {
		a.Instrs = map[ssa.Instruction]bool{}
	}
	for _, i := range ins {
		a.Instrs[i] = true
	}
	return a
}

// PathExists reports whether some path in g leads from `from` (exclusive: execution continues after
// the instruction at from; use IPos{entry,-1} for the function entry) to the instruction at `to`
// without executing an avoided instruction or taking an avoided edge. Returns a witness block path.
func (g *Graph) PathExists(from, to IPos, av Avoid) (bool, []*ssa.BasicBlock) {
	type st struct {
		b     *ssa.BasicBlock
		prev  *st
		facts string // one byte per interesting phi: 0 unknown, 1 true/nil, 2 false/non-nil
	}
	// scan a block from index i (inclusive); returns (hitTarget, blocked)
	scan := func(b *ssa.BasicBlock, i int) (bool, bool) {
		for k := i; k < len(b.Instrs); k++ {
			if b == to.B && k == to.I {
				return true, false
			}
			if av.Instrs != nil && av.Instrs[b.Instrs[k]] {
				return false, true
			}
		}
		return false, false
	}
	witness := func(s *st) []*ssa.BasicBlock {
		var p []*ssa.BasicBlock
		for ; s != nil; s = s.prev {
			p = append([]*ssa.BasicBlock{s.b}, p...)
		}
		return p
	}
	track := g.folding == 0
	if track {
		g.initFacts()
		track = len(g.iphis)+len(g.rconds) > 0
	}
	zero := ""
	if track {
		zero = string(make([]byte, len(g.iphis)+len(g.rconds)))
	}
	// avoided edges that only count while a named condition holds the value of one of its inputs
	var phiEdges map[Edge][]Edge
	if track {
		for e := range av.Edges {
			if e.Phi != nil {
				if phiEdges == nil {
					phiEdges = map[Edge][]Edge{}
				}
				k := Edge{From: e.From, Succ: e.Succ}
				phiEdges[k] = append(phiEdges[k], e)
			}
		}
	}
	start := &st{b: from.B, facts: zero}
	if av.StartPrev != nil {
		start.prev = &st{b: av.StartPrev, facts: zero}
		if track {
			start.facts = g.enter(zero, av.StartPrev, from.B)
		}
	}
	hit, blocked := scan(from.B, from.I+1)
	if hit {
		return true, witness(start)
	}
	if blocked {
		return false, nil
	}
	type key struct {
		p, b  *ssa.BasicBlock
		facts string
	}
	seen := map[key]bool{}
	queue := []*st{start}
	for len(queue) > 0 {
		s := queue[0]
		queue = queue[1:]
		succs := g.succs(s.b)
		// path-sensitive folding: a branch on a phi (or on a nil test of a phi) whose value is known
		// from the edge by which its block was last entered follows only the matching successor
		rcIdx := -1
		if track && len(s.b.Instrs) > 0 {
			if ifi, ok := s.b.Instrs[len(s.b.Instrs)-1].(*ssa.If); ok {
				if v, known := g.evalCond(ifi.Cond, s.facts, 0); known {
					var keep []Edge
					for _, e := range succs {
						if (e.Succ == 0) == v {
							keep = append(keep, e)
						}
					}
					succs = keep
				}
				if k, ok := g.rconds[condNF(ifi.Cond)]; ok {
					rcIdx = len(g.iphis) + k
				}
			}
		}
		for _, e := range succs {
			if av.Edges != nil && av.Edges[e] {
				continue
			}
			if av.Edges != nil && s.prev != nil && av.Edges[Edge{From: e.From, Succ: e.Succ, Via: s.prev.b}] {
				continue
			}
			if phiEdges != nil {
				skip := false
				for _, pe := range phiEdges[e] {
					if i, ok := g.iphiIdx[pe.Phi]; ok && i < len(s.facts) && s.facts[i] >= 3 {
						if k := int(s.facts[i]) - 3; k < len(pe.Phi.Block().Preds) && pe.Phi.Block().Preds[k] == pe.Via {
							skip = true
						}
					}
				}
				if skip {
					continue
				}
			}
			t := e.To()
			nf := s.facts
			if rcIdx >= 0 {
				// remember how this repeated condition was decided
				bs := []byte(nf)
				if e.Succ == 0 {
					bs[rcIdx] = 1
				} else {
					bs[rcIdx] = 2
				}
				nf = string(bs)
			}
			if track && blockHasPhi(t) {
				nf = g.enter(nf, s.b, t)
			}
			if track && len(g.rconds) > 0 && isLoopHeader(t) {
				// values change from one iteration to the next: forget what was learnt about conditions
				bs := []byte(nf)
				for k := len(g.iphis); k < len(bs); k++ {
					bs[k] = 0
				}
				nf = string(bs)
			}
			k := key{nil, t, nf}
			if blockHasPhi(t) {
				k.p = s.b // a conditional (Via) edge of t may depend on the edge taken
			}
			if seen[k] {
				continue
			}
			if len(seen) > 400000 {
				return true, nil // give up precisely: assume a path (sound for must-queries)
			}
			seen[k] = true
			ns := &st{b: t, prev: s, facts: nf}
			hit, blocked := scan(t, 0)
			if hit {
				return true, witness(ns)
			}
			if blocked {
				continue
			}
			queue = append(queue, ns)
		}
	}
	return false, nil
}

// initFacts finds the phis whose value decides a later branch: boolean phis tested by an If and
// nil-able phis compared with nil for an If (directly, through negation, or through another such phi).
func (g *Graph) initFacts() {
	if g.iphiIdx != nil {
		return
	}
	g.iphiIdx = map[*ssa.Phi]int{}
	g.rconds = map[string]int{}
	cnt := map[string]int{}
	for _, b := range g.Fn.Blocks {
		if len(b.Instrs) == 0 {
			continue
		}
		if ifi, ok := b.Instrs[len(b.Instrs)-1].(*ssa.If); ok {
			if k := condNF(ifi.Cond); k != "" {
				cnt[k]++
			}
		}
	}
	for k, n := range cnt {
		if n >= 2 {
			g.rconds[k] = len(g.rconds)
		}
	}
	var feedsIf func(v ssa.Value, d int) bool
	feedsIf = func(v ssa.Value, d int) bool {
		if d > 4 || v.Referrers() == nil {
			return false
		}
		for _, r := range *v.Referrers() {
			switch x := r.(type) {
			case *ssa.If:
				return true
			case *ssa.UnOp:
				if x.Op == token.NOT && feedsIf(x, d+1) {
					return true
				}
			case *ssa.BinOp:
				if (x.Op == token.EQL || x.Op == token.NEQ) && (isNilConst(x.X) || isNilConst(x.Y)) && feedsIf(x, d+1) {
					return true
				}
			case *ssa.Phi:
				if x != v && feedsIf(x, d+1) {
					return true
				}
			}
		}
		return false
	}
	for _, b := range g.Fn.Blocks {
		for _, in := range b.Instrs {
			phi, ok := in.(*ssa.Phi)
			if !ok {
				break
			}
			isBool := false
			if bt, ok := phi.Type().Underlying().(*types.Basic); ok && bt.Kind() == types.Bool {
				isBool = true
			}
			if !isBool && !nilableType(phi.Type()) {
				continue
			}
			if feedsIf(phi, 0) {
				g.iphiIdx[phi] = len(g.iphis)
				g.iphis = append(g.iphis, phi)
			}
		}
	}
}

// condNF: a normal form of a branch condition over immutable SSA operands ("" when it is not worth
// remembering): the same comparison written twice yields the same string (go/ssa does no CSE).
func condNF(c ssa.Value) string {
	switch x := c.(type) {
	case *ssa.BinOp:
		if !isOrdering(x.Op) {
			return ""
		}
		return fmt.Sprintf("%s %s %s", operandNF(x.X), x.Op, operandNF(x.Y))
	case *ssa.Phi, *ssa.Const:
		return ""
	}
	return fmt.Sprintf("v:%p", c)
}

func operandNF(v ssa.Value) string {
	if c, ok := v.(*ssa.Const); ok {
		return "c:" + c.String()
	}
	return fmt.Sprintf("%p", v)
}

// isLoopHeader: the block dominates one of its predecessors.
func isLoopHeader(b *ssa.BasicBlock) bool {
	for _, p := range b.Preds {
		if b.Dominates(p) {
			return true
		}
	}
	return false
}

func nilableType(t types.Type) bool {
	switch t.Underlying().(type) {
	case *types.Pointer, *types.Interface, *types.Map, *types.Slice, *types.Signature, *types.Chan:
		return true
	}
	return false
}

// enter computes the facts after control moves from p into b.
func (g *Graph) enter(facts string, p, b *ssa.BasicBlock) string {
	var out []byte
	for _, in := range b.Instrs {
		phi, ok := in.(*ssa.Phi)
		if !ok {
			break
		}
		i, interesting := g.iphiIdx[phi]
		if !interesting {
			continue
		}
		var f byte
		if inc := incomingFrom(phi, p); inc != nil {
			f = g.factOf(inc, facts, p, b)
			if f >= 3 {
				f = 0 // provenance of another phi says nothing about this one
			}
			if _, isPhi := inc.(*ssa.Phi); f == 0 && !isPhi && isBoolType(phi.Type()) {
				// value unknown, provenance known: the phi holds what flowed in from p
				for k, pr := range b.Preds {
					if pr == p && k < 250 {
						f = byte(3 + k)
						break
					}
				}
			}
		}
		if out == nil {
			out = []byte(facts)
		}
		out[i] = f
	}
	if out == nil {
		return facts
	}
	return string(out)
}

// factOf: what is known about value v when control leaves p for b, given the facts so far.
func (g *Graph) factOf(v ssa.Value, facts string, p, b *ssa.BasicBlock) byte {
	if cb, ok := constBool(v); ok {
		if cb {
			return 1
		}
		return 2
	}
	if ph, ok := v.(*ssa.Phi); ok {
		if i, ok := g.iphiIdx[ph]; ok {
			return facts[i]
		}
		return 0
	}
	if bt, ok := v.Type().Underlying().(*types.Basic); ok && bt.Kind() == types.Bool {
		if val, known := g.evalCond(v, facts, 0); known {
			if val {
				return 1
			}
			return 2
		}
		return 0
	}
	if !nilableType(v.Type()) {
		return 0
	}
	k := [3]interface{}{v, p, b}
	if g.nilMem == nil {
		g.nilMem = map[[3]interface{}]byte{}
	}
	if m, ok := g.nilMem[k]; ok {
		return m
	}
	g.folding++
	n := byte(g.nilnessAtEnd(v, p, b, 0))
	g.folding--
	g.nilMem[k] = n
	return n
}

// evalCond evaluates a branch condition under the facts.
func (g *Graph) evalCond(c ssa.Value, facts string, depth int) (bool, bool) {
	if depth > 4 {
		return false, false
	}
	if len(g.rconds) > 0 {
		if k, ok := g.rconds[condNF(c)]; ok && len(g.iphis)+k < len(facts) {
			if f := facts[len(g.iphis)+k]; f == 1 || f == 2 {
				return f == 1, true
			}
		}
	}
	switch x := c.(type) {
	case *ssa.Const:
		if cb, ok := constBool(x); ok {
			return cb, true
		}
	case *ssa.UnOp:
		if x.Op == token.NOT {
			v, k := g.evalCond(x.X, facts, depth+1)
			return !v, k
		}
	case *ssa.Phi:
		if i, ok := g.iphiIdx[x]; ok && (facts[i] == 1 || facts[i] == 2) {
			return facts[i] == 1, true
		}
	case *ssa.BinOp:
		if x.Op != token.EQL && x.Op != token.NEQ {
			return false, false
		}
		var o ssa.Value
		switch {
		case isNilConst(x.Y):
			o = x.X
		case isNilConst(x.X):
			o = x.Y
		default:
			return false, false
		}
		if ph, ok := o.(*ssa.Phi); ok {
			if i, ok := g.iphiIdx[ph]; ok && (facts[i] == 1 || facts[i] == 2) {
				isNil := facts[i] == 1
				return isNil == (x.Op == token.EQL), true
			}
		}
	}
	return false, false
}

// resolveAt follows v through phis whose other incoming values cannot reach the instruction at `at`
// (for instance the zero value assigned next to an error that is returned straight away): the value
// actually seen at `at`.
func (g *Graph) resolveAt(v ssa.Value, at IPos) ssa.Value {
	for d := 0; d < 6; d++ {
		phi, ok := v.(*ssa.Phi)
		if !ok {
			return v
		}
		b := phi.Block()
		var only ssa.Value
		n := 0
		for i, p := range b.Preds {
			if !g.Reachable()[p] || !g.edgeFeasible(p, b) {
				continue
			}
			if ex, _ := g.PathExists(IPos{b, -1}, at, Avoid{StartPrev: p}); !ex {
				continue
			}
			if only == nil || only != phi.Edges[i] {
				n++
				only = phi.Edges[i]
			}
		}
		if n != 1 || only == v {
			return v
		}
		v = only
	}
	return v
}

func isBoolType(t types.Type) bool {
	bt, ok := t.Underlying().(*types.Basic)
	return ok && bt.Kind() == types.Bool
}

func blockHasPhi(b *ssa.BasicBlock) bool {
	if len(b.Instrs) == 0 {
		return false
	}
	_, ok := b.Instrs[0].(*ssa.Phi)
	return ok
}

// condAlong evaluates the branch condition c of block b for control arriving from pred: a phi of b
// whose incoming value is a boolean constant, or a nil test of a phi of b whose incoming value is the
// nil constant / known to be non-nil there (a freshly built error, or a value already tested). This
// correlates a result assigned before a break or return-through-variable with the test that follows.
func (g *Graph) condAlong(c ssa.Value, pred, b *ssa.BasicBlock) (bool, bool) {
	k := [2]*ssa.BasicBlock{pred, b}
	if g.foldMem == nil {
		g.foldMem = map[[2]*ssa.BasicBlock]int8{}
	}
	if m, ok := g.foldMem[k]; ok {
		return m == 1, m != 0
	}
	g.folding++
	v, known := g.condAlong1(c, pred, b, 0)
	g.folding--
	switch {
	case !known:
		g.foldMem[k] = 0
	case v:
		g.foldMem[k] = 1
	default:
		g.foldMem[k] = 2
	}
	return v, known
}

func incomingFrom(phi *ssa.Phi, pred *ssa.BasicBlock) ssa.Value {
	var out ssa.Value
	for i, pr := range phi.Block().Preds {
		if pr == pred {
			if out != nil && out != phi.Edges[i] {
				return nil // two edges from the same predecessor with different values
			}
			out = phi.Edges[i]
		}
	}
	return out
}

func (g *Graph) condAlong1(c ssa.Value, pred, b *ssa.BasicBlock, depth int) (bool, bool) {
	if depth > 4 {
		return false, false
	}
	switch x := c.(type) {
	case *ssa.UnOp:
		if x.Op == token.NOT {
			v, k := g.condAlong1(x.X, pred, b, depth+1)
			return !v, k
		}
	case *ssa.Phi:
		if x.Block() != b {
			return false, false
		}
		if in := incomingFrom(x, pred); in != nil {
			if cb, ok := constBool(in); ok {
				return cb, true
			}
		}
	case *ssa.BinOp:
		if x.Op != token.EQL && x.Op != token.NEQ {
			return false, false
		}
		var o ssa.Value
		switch {
		case isNilConst(x.Y):
			o = x.X
		case isNilConst(x.X):
			o = x.Y
		default:
			return false, false
		}
		phi, ok := o.(*ssa.Phi)
		if !ok || phi.Block() != b {
			return false, false
		}
		in := incomingFrom(phi, pred)
		if in == nil {
			return false, false
		}
		switch g.nilnessAtEnd(in, pred, b, 0) {
		case 1: // nil
			return x.Op == token.EQL, true
		case 2: // non-nil
			return x.Op == token.NEQ, true
		}
	}
	return false, false
}

// nilnessAtEnd: 1 = v is nil, 2 = v is non-nil, 0 = unknown, when control leaves block p towards `to`.
func (g *Graph) nilnessAtEnd(v ssa.Value, p, to *ssa.BasicBlock, depth int) int {
	if depth > 4 {
		return 0
	}
	if isNilConst(v) {
		return 1
	}
	switch x := v.(type) {
	case *ssa.MakeInterface:
		return 2
	case *ssa.Alloc, *ssa.MakeMap, *ssa.MakeSlice, *ssa.MakeChan, *ssa.MakeClosure, *ssa.Function:
		return 2
	case *ssa.Call:
		if inner, ok := nilPreservingArg(x); ok {
			return g.nilnessAtEnd(inner, p, to, depth+1)
		}
		if f, _ := calleeOf(x.Common()); f != nil && f.Pkg != nil {
			switch f.Pkg.Pkg.Path() + "." + f.Name() {
			case "errors.New", "fmt.Errorf", "github.com/pkg/errors.New", "github.com/pkg/errors.Errorf":
				return 2
			}
		}
	}
	okE, badE := nilTestEdges(v)
	for _, e := range okE {
		if e.Via == nil && e.From == p && e.To() == to {
			return 1
		}
	}
	for _, e := range badE {
		if e.Via == nil && e.From == p && e.To() == to {
			return 2
		}
	}
	if len(okE) > 0 && g.knownNilAt(v, p) {
		return 1
	}
	if len(badE) > 0 && g.knownNonNilAt(v, p) {
		return 2
	}
	return 0
}

func entryPos(fn *ssa.Function) IPos { return IPos{fn.Blocks[0], -1} }

// MustPass: every path from entry to `to` executes one of the guard instructions or one of the guard edges.
func (g *Graph) MustPass(to IPos, av Avoid) (bool, []*ssa.BasicBlock) {
	ex, w := g.PathExists(entryPos(g.Fn), to, av)
	return !ex, w
}

// DominatesInstr: a executes on every path from entry to b.
func (g *Graph) DominatesInstr(a ssa.Instruction, b IPos) bool {
	ok, _ := g.MustPass(b, avoidInstrs(a))
	return ok
}

// ---- error / nil tests -------------------------------------------------------------------------

// derived returns the set of values that carry v unchanged: v itself, Extracts of it (for tuples the
// caller passes the Extract), phis merging it, ChangeInterface/MakeInterface wrappers.
func forwardAliases(v ssa.Value) map[ssa.Value]bool {
	out := map[ssa.Value]bool{v: true}
	work := []ssa.Value{v}
	for len(work) > 0 {
		x := work[len(work)-1]
		work = work[:len(work)-1]
		refs := x.Referrers()
		if refs == nil {
			continue
		}
		for _, r := range *refs {
			switch r := r.(type) {
			case *ssa.Phi:
				if !out[r] {
					out[r] = true
					work = append(work, r)
				}
			case *ssa.ChangeInterface:
				if !out[r] {
					out[r] = true
					work = append(work, r)
				}
			}
		}
	}
	return out
}

// nilTestEdges finds, for value v (an error or pointer), the CFG edges on which "v == nil" holds
// (ok) and on which "v != nil" holds (bad), from If instructions testing v or a phi of it against nil.
// For a phi alias the edge only proves the phi is nil, which — if v flowed in — covers v's path.
func nilTestEdges(v ssa.Value) (ok []Edge, bad []Edge) {
	if v == nil {
		return nil, nil
	}
	aliases := forwardAliases(v)
	// the value may be spilled into a local slot (named result, captured variable) and re-loaded in
	// the same block before the next store: those loads are the same value
	for a := range aliases {
		if a.Referrers() == nil {
			continue
		}
		for _, r := range *a.Referrers() {
			st, isSt := r.(*ssa.Store)
			if !isSt || st.Val != a {
				continue
			}
			slot, isAlloc := st.Addr.(*ssa.Alloc)
			if !isAlloc {
				continue
			}
			b := st.Block()
			after := false
			for _, in := range b.Instrs {
				if in == ssa.Instruction(st) {
					after = true
					continue
				}
				if !after {
					continue
				}
				if s2, ok := in.(*ssa.Store); ok && s2.Addr == slot {
					break
				}
				if ld, ok := in.(*ssa.UnOp); ok && ld.Op == token.MUL && ld.X == slot {
					aliases[ld] = true
				}
			}
		}
	}
	// nil-implying predicates: ok := f(…, wrap(err)) where f returns true only if that argument is nil
	for a := range aliases {
		if a.Referrers() == nil {
			continue
		}
		for _, r := range *a.Referrers() {
			c, isCall := r.(*ssa.Call)
			if !isCall {
				continue
			}
			// through a nil-preserving wrapper first
			if inner, okw := nilPreservingArg(c); okw && inner == a {
				aliases[c] = true
			}
		}
	}
	for a := range aliases {
		if a.Referrers() == nil {
			continue
		}
		for _, r := range *a.Referrers() {
			c, isCall := r.(*ssa.Call)
			if !isCall {
				continue
			}
			f, _ := calleeOf(c.Common())
			k := nilImplyingPredicate(f)
			if k < 0 || k >= len(c.Call.Args) || c.Call.Args[k] != a {
				continue
			}
			for _, e := range condEdges(c) {
				if e.truth {
					ok = append(ok, e.Edge)
				}
			}
		}
	}
	for a := range aliases {
		refs := a.Referrers()
		if refs == nil {
			continue
		}
		for _, r := range *refs {
			bo, isb := r.(*ssa.BinOp)
			if !isb || (bo.Op != token.NEQ && bo.Op != token.EQL) {
				continue
			}
			var other ssa.Value
			if bo.X == a {
				other = bo.Y
			} else {
				other = bo.X
			}
			if !isNilConst(other) {
				continue
			}
			for _, e := range condEdges(bo) {
				// e.truth: the edge is taken when bo is e.truth
				isNil := (bo.Op == token.EQL) == e.truth
				if isNil {
					ok = append(ok, e.Edge)
				} else {
					bad = append(bad, e.Edge)
				}
			}
		}
	}
	return
}

type truthEdge struct {
	Edge
	truth bool
}

// condEdges returns the edges controlled by boolean value c, following negation and the
// short-circuit forms go/ssa produces (a phi of constants and conditions is not followed: the
// builder emits nested Ifs for && / || in branch position).
func condEdges(c ssa.Value) []truthEdge { return condEdgesD(c, 0) }

func condEdgesD(c ssa.Value, depth int) []truthEdge {
	var out []truthEdge
	refs := c.Referrers()
	if refs == nil || depth > 4 {
		return nil
	}
	for _, r := range *refs {
		switch r := r.(type) {
		case *ssa.If:
			out = append(out, truthEdge{Edge{From: r.Block(), Succ: 0}, true}, truthEdge{Edge{From: r.Block(), Succ: 1}, false})
		case *ssa.UnOp:
			if r.Op == token.NOT {
				for _, e := range condEdgesD(r, depth+1) {
					out = append(out, truthEdge{e.Edge, !e.truth})
				}
			}
		case *ssa.Phi:
			// a named condition (x := a && b; if x …): on the path pred_i → phi block → successor the
			// phi has the value that flowed in from pred_i
			// short-circuit value (x := a && c, x := a || c): wherever the phi is tested, phi true implies c
			// true when every other incoming value is the constant false (dually for ||)
			othersFalse, othersTrue := true, true
			for _, in := range r.Edges {
				if in == c {
					continue
				}
				cb, isC := constBool(in)
				if !isC || cb {
					othersFalse = false
				}
				if !isC || !cb {
					othersTrue = false
				}
			}
			if othersFalse || othersTrue {
				for _, e := range condEdgesD(r, depth+1) {
					if e.Via == nil && ((othersFalse && e.truth) || (othersTrue && !e.truth)) {
						out = append(out, truthEdge{e.Edge, e.truth})
					}
				}
			}
			for i, in := range r.Edges {
				if in != c {
					continue
				}
				for _, e := range condEdgesD(r, depth+1) {
					if e.Via != nil {
						continue
					}
					if e.From == r.Block() {
						out = append(out, truthEdge{Edge{From: e.From, Succ: e.Succ, Via: r.Block().Preds[i]}, e.truth})
					} else {
						// tested in a later block: counts while the phi still holds what flowed in from pred i
						out = append(out, truthEdge{Edge{From: e.From, Succ: e.Succ, Via: r.Block().Preds[i], Phi: r}, e.truth})
					}
				}
			}
		}
	}
	return out
}

// errResult returns the error-typed result value of a call (the call itself, or its Extract).
func errResult(c ssa.CallInstruction) ssa.Value {
	v := c.Value()
	if v == nil {
		return nil
	}
	sig := c.Common().Signature()
	res := sig.Results()
	if res.Len() == 0 {
		return nil
	}
	last := res.Len() - 1
	if !isErrorType(res.At(last).Type()) {
		return nil
	}
	if res.Len() == 1 {
		return v
	}
	if refs := v.Referrers(); refs != nil {
		for _, r := range *refs {
			if ex, ok := r.(*ssa.Extract); ok && ex.Index == last {
				return ex
			}
		}
	}
	return nil
}

// resultN returns the n-th result value of a call (Extract for tuples).
func resultN(c ssa.CallInstruction, n int) ssa.Value {
	v := c.Value()
	if v == nil {
		return nil
	}
	res := c.Common().Signature().Results()
	if res.Len() == 1 && n == 0 {
		return v
	}
	if refs := v.Referrers(); refs != nil {
		for _, r := range *refs {
			if ex, ok := r.(*ssa.Extract); ok && ex.Index == n {
				return ex
			}
		}
	}
	return nil
}

var errorType = types.Universe.Lookup("error").Type()

func isErrorType(t types.Type) bool { return types.Identical(t, errorType) }

// okEdgesOfCall: edges on which the call's error result is known nil.
func okEdgesOfCall(c ssa.CallInstruction) []Edge {
	e := errResult(c)
	if e == nil {
		return nil
	}
	ok, _ := nilTestEdges(e)
	return ok
}

// AfterOK reports whether every path from entry to `to` executes call c and then leaves through
// one of its ok-edges (error known nil).
func (g *Graph) AfterOK(c ssa.CallInstruction, to IPos) bool {
	if !g.DominatesInstr(c, to) {
		return false
	}
	oks := okEdgesOfCall(c)
	if len(oks) == 0 {
		return false
	}
	ex, _ := g.PathExists(entryPos(g.Fn), to, Avoid{}.withEdges(oks...))
	return !ex
}

// knownNilAt: value v (error/pointer) is nil on every path reaching block b's entry
// (every path to b takes one of v's ok edges after v is defined).
func (g *Graph) knownNilAt(v ssa.Value, b *ssa.BasicBlock) bool {
	if isNilConst(v) {
		return true
	}
	ok, _ := nilTestEdges(v)
	if len(ok) == 0 {
		return false
	}
	// b unreachable from v's definition without taking an ok edge
	def, isInstr := v.(ssa.Instruction)
	from := entryPos(g.Fn)
	if isInstr && def.Block() != nil {
		from = posOf(def)
	}
	if len(b.Instrs) == 0 {
		return false
	}
	ex, _ := g.PathExists(from, IPos{b, 0}, Avoid{}.withEdges(ok...))
	if from.B == b {
		// definition in the same block as the use: not separated by a test
		return false
	}
	return !ex
}

// ---- return classification ----------------------------------------------------------------------

type RetClass int

const (
	RetSuccess RetClass = iota
	RetError            // possibly an error
)

// RetPath is one way of reaching a return with a given error operand.
type RetPath struct {
	Ret   *ssa.Return
	Pred  *ssa.BasicBlock // when the operand is a phi: the predecessor the value came from; else nil
	Val   ssa.Value       // the error operand on this path
	Class RetClass
}

// nilPreserving: calls that return nil iff their first argument is nil (pkg/errors wrappers).
func nilPreservingArg(v ssa.Value) (ssa.Value, bool) {
	c, ok := v.(*ssa.Call)
	if !ok {
		return nil, false
	}
	f, _ := calleeOf(c.Common())
	if f == nil || f.Pkg == nil {
		return nil, false
	}
	if f.Pkg.Pkg.Path() == "github.com/pkg/errors" {
		switch f.Name() {
		case "Wrap", "Wrapf", "WithMessage", "WithMessagef", "WithStack":
			return c.Call.Args[0], true
		}
	}
	return nil, false
}

// classifyReturns lists, for every return of fn, the paths by which an error may or may not leave.
// errIdx is the index of the error result.
func (g *Graph) classifyReturns() []RetPath {
	fn := g.Fn
	res := fn.Signature.Results()
	errIdx := -1
	for i := 0; i < res.Len(); i++ {
		if isErrorType(res.At(i).Type()) {
			errIdx = i
		}
	}
	var out []RetPath
	for _, b := range fn.Blocks {
		if !g.Reachable()[b] || len(b.Instrs) == 0 {
			continue
		}
		ret, ok := b.Instrs[len(b.Instrs)-1].(*ssa.Return)
		if !ok {
			continue
		}
		if errIdx < 0 {
			out = append(out, RetPath{Ret: ret, Class: RetSuccess})
			continue
		}
		ev := ret.Results[errIdx]
		// defer-spilled results: the function has a defer, so every `return x, err` stores into result
		// slots and jumps to a common exit that loads them. Classify each store separately.
		if ld, ok := ev.(*ssa.UnOp); ok && ld.Op == token.MUL {
			if slot, ok := ld.X.(*ssa.Alloc); ok && isResultSlot(slot) {
				for _, rf := range *slot.Referrers() {
					st, ok := rf.(*ssa.Store)
					if !ok || st.Addr != slot || !g.Reachable()[st.Block()] {
						continue
					}
					for _, rp := range g.classifyErrVal(ret, st.Val, st.Block(), st.Block(), 0) {
						if rp.Pred == nil {
							rp.Pred = st.Block()
						}
						out = append(out, rp)
					}
				}
				continue
			}
		}
		out = append(out, g.classifyErrVal(ret, ev, b, nil, 0)...)
	}
	return out
}

// isResultSlot: an alloc only ever stored to and loaded from (the spill slot of a result).
func isResultSlot(a *ssa.Alloc) bool {
	if a.Referrers() == nil {
		return false
	}
	for _, rf := range *a.Referrers() {
		switch x := rf.(type) {
		case *ssa.Store:
			if x.Addr != a {
				return false
			}
		case *ssa.UnOp:
		case *ssa.DebugRef:
		default:
			return false
		}
	}
	return true
}

// spilledResult: the i-th result of a return, resolved through a result slot to the values stored
// into it (one per storing block).
func spilledResults(ret *ssa.Return, i int) map[*ssa.BasicBlock]ssa.Value {
	out := map[*ssa.BasicBlock]ssa.Value{}
	v := ret.Results[i]
	if ld, ok := v.(*ssa.UnOp); ok && ld.Op == token.MUL {
		if slot, ok := ld.X.(*ssa.Alloc); ok && isResultSlot(slot) {
			for _, rf := range *slot.Referrers() {
				if st, ok := rf.(*ssa.Store); ok && st.Addr == slot {
					out[st.Block()] = st.Val
				}
			}
			return out
		}
	}
	out[ret.Block()] = v
	return out
}

func (g *Graph) classifyErrVal(ret *ssa.Return, v ssa.Value, at *ssa.BasicBlock, pred *ssa.BasicBlock, depth int) []RetPath {
	if isNilConst(v) {
		return []RetPath{{ret, pred, v, RetSuccess}}
	}
	if inner, ok := nilPreservingArg(v); ok && depth < 4 {
		rs := g.classifyErrVal(ret, inner, at, pred, depth+1)
		return rs
	}
	if g.knownNonNilAt(v, at) {
		return []RetPath{{ret, pred, v, RetError}}
	}
	if phi, ok := v.(*ssa.Phi); ok && depth < 4 {
		var out []RetPath
		for i, e := range phi.Edges {
			p := phi.Block().Preds[i]
			if !g.edgeFeasible(p, phi.Block()) {
				continue
			}
			// is e nil when arriving from p?
			if isNilConst(e) || g.knownNilAtEnd(e, p, phi.Block()) {
				out = append(out, RetPath{ret, p, e, RetSuccess})
				continue
			}
			if _, isPhi := e.(*ssa.Phi); isPhi {
				sub := g.classifyErrVal(ret, e, p, p, depth+1)
				for i := range sub {
					if sub[i].Pred == nil {
						sub[i].Pred = p
					}
				}
				out = append(out, sub...)
				continue
			}
			out = append(out, RetPath{ret, p, e, RetError})
		}
		return out
	}
	if g.knownNilAt(v, at) {
		return []RetPath{{ret, pred, v, RetSuccess}}
	}
	return []RetPath{{ret, pred, v, RetError}}
}

func (g *Graph) edgeFeasible(from, to *ssa.BasicBlock) bool {
	if !g.Reachable()[from] {
		return false
	}
	for _, e := range g.succs(from) {
		if e.To() == to {
			return true
		}
	}
	return false
}

// knownNilAtEnd: v is nil when control goes from block p to block to.
func (g *Graph) knownNilAtEnd(v ssa.Value, p, to *ssa.BasicBlock) bool {
	ok, _ := nilTestEdges(v)
	for _, e := range ok {
		if e.Via == nil && e.From == p && e.To() == to {
			return true
		}
	}
	return g.knownNilAt(v, p)
}

// knownNonNilAt: every path from v's definition to block b takes an edge on which v != nil holds.
func (g *Graph) knownNonNilAt(v ssa.Value, b *ssa.BasicBlock) bool {
	if isNilConst(v) || len(b.Instrs) == 0 {
		return false
	}
	_, bad := nilTestEdges(v)
	if len(bad) == 0 {
		return false
	}
	def, isInstr := v.(ssa.Instruction)
	from := entryPos(g.Fn)
	if isInstr && def.Block() != nil {
		from = posOf(def)
		if def.Block() == b {
			return false
		}
	}
	ex, _ := g.PathExists(from, IPos{b, 0}, Avoid{}.withEdges(bad...))
	return !ex
}

// retPos: the position a path must reach for this return path: the end of the block the returned
// value comes from (phi edge or defer-spilled store), else the return itself.
func retPos(rp RetPath) IPos {
	if rp.Pred != nil && len(rp.Pred.Instrs) > 0 {
		return IPos{rp.Pred, len(rp.Pred.Instrs) - 1}
	}
	return posOf(rp.Ret)
}

// nilImplyingPredicate: f returns bool and every return is the constant false or (param_k == nil):
// a true result implies the k-th argument was nil. Returns k or -1.
func nilImplyingPredicate(f *ssa.Function) int {
	if f == nil || !inHelm(f) || len(f.Blocks) == 0 || f.Signature.Results().Len() != 1 {
		return -1
	}
	if b, ok := f.Signature.Results().At(0).Type().Underlying().(*types.Basic); !ok || b.Kind() != types.Bool {
		return -1
	}
	k := -1
	for _, b := range f.Blocks {
		if len(b.Instrs) == 0 {
			continue
		}
		ret, ok := b.Instrs[len(b.Instrs)-1].(*ssa.Return)
		if !ok {
			continue
		}
		v := ret.Results[0]
		if cb, isC := constBool(v); isC {
			if cb {
				return -1
			}
			continue
		}
		bo, isBo := v.(*ssa.BinOp)
		if !isBo || bo.Op != token.EQL {
			return -1
		}
		var p ssa.Value
		if isNilConst(bo.Y) {
			p = bo.X
		} else if isNilConst(bo.X) {
			p = bo.Y
		}
		pp, isP := p.(*ssa.Parameter)
		if !isP {
			return -1
		}
		for i, q := range f.Params {
			if q == pp {
				if k >= 0 && k != i {
					return -1
				}
				k = i
			}
		}
	}
	return k
}

// ---- comparisons in normal form --------------------------------------------------------------------

// relOn returns the relation between bo.X and bo.Y that holds when bo evaluates to truth.
func relOn(bo *ssa.BinOp, truth bool) token.Token {
	if truth {
		return bo.Op
	}
	switch bo.Op {
	case token.EQL:
		return token.NEQ
	case token.NEQ:
		return token.EQL
	case token.LSS:
		return token.GEQ
	case token.LEQ:
		return token.GTR
	case token.GTR:
		return token.LEQ
	case token.GEQ:
		return token.LSS
	}
	return token.ILLEGAL
}

func relSwap(r token.Token) token.Token {
	switch r {
	case token.LSS:
		return token.GTR
	case token.LEQ:
		return token.GEQ
	case token.GTR:
		return token.LSS
	case token.GEQ:
		return token.LEQ
	}
	return r
}

func isOrdering(op token.Token) bool {
	switch op {
	case token.EQL, token.NEQ, token.LSS, token.LEQ, token.GTR, token.GEQ:
		return true
	}
	return false
}

// relEdges lists, for every comparison in fn between a value satisfying isA and one satisfying isB (in
// either operand order, under negation), the controlled edges with the relation "A rel B" holding on them.
type relEdge struct {
	Edge
	Rel token.Token
	Cmp *ssa.BinOp
	A   ssa.Value
	B   ssa.Value
}

func relEdges(fn *ssa.Function, isA, isB func(ssa.Value) bool) []relEdge {
	var out []relEdge
	for _, b := range fn.Blocks {
		for _, in := range b.Instrs {
			bo, ok := in.(*ssa.BinOp)
			if !ok || !isOrdering(bo.Op) {
				continue
			}
			for _, e := range condEdges(bo) {
				if isA(bo.X) && isB(bo.Y) {
					out = append(out, relEdge{e.Edge, relOn(bo, e.truth), bo, bo.X, bo.Y})
				} else if isA(bo.Y) && isB(bo.X) {
					out = append(out, relEdge{e.Edge, relSwap(relOn(bo, e.truth)), bo, bo.Y, bo.X})
				}
			}
		}
	}
	return out
}

// withinEdges: edges on which A <= B is known.
func withinEdges(fn *ssa.Function, isA, isB func(ssa.Value) bool) []Edge {
	var out []Edge
	for _, e := range relEdges(fn, isA, isB) {
		if e.Rel == token.LEQ || e.Rel == token.LSS || e.Rel == token.EQL {
			out = append(out, e.Edge)
		}
	}
	return out
}

// emptyEdges: edges on which len(x) == 0 is known for a value x satisfying isList (tests against 0 or 1).
func emptyEdges(fn *ssa.Function, isList func(ssa.Value) bool) (empty, nonEmpty []Edge) {
	isLen := func(v ssa.Value) bool {
		c, ok := v.(*ssa.Call)
		if !ok {
			return false
		}
		bi, ok := c.Call.Value.(*ssa.Builtin)
		return ok && bi.Name() == "len" && len(c.Call.Args) == 1 && isList(c.Call.Args[0])
	}
	isSmall := func(v ssa.Value) bool { i, ok := constInt(v); return ok && (i == 0 || i == 1) }
	for _, e := range relEdges(fn, isLen, isSmall) {
		k, _ := constInt(e.B)
		switch {
		case k == 0 && (e.Rel == token.EQL || e.Rel == token.LEQ), k == 1 && e.Rel == token.LSS:
			empty = append(empty, e.Edge)
		case k == 0 && (e.Rel == token.NEQ || e.Rel == token.GTR), k == 1 && e.Rel == token.GEQ:
			nonEmpty = append(nonEmpty, e.Edge)
		}
	}
	// x == nil / x != nil on the slice itself
	for _, e := range relEdges(fn, isList, isNilConst) {
		switch e.Rel {
		case token.EQL:
			empty = append(empty, e.Edge)
		}
	}
	return
}

// ---- table-driven loops ------------------------------------------------------------------------------

// constRange describes `for _, x := range T` over a slice T whose elements are string constants (a
// slice literal, or a package-level variable initialised with one and only ever read): the loop body
// runs once per element, so an action on x in the body that is on every path of the body happens for
// every element.
type constRange struct {
	Elems  []string
	Header *ssa.BasicBlock // rangeindex.loop
	Pre    *ssa.BasicBlock // the block entering the loop
	Skip   Edge            // Header's exit edge taken straight from Pre (zero iterations): infeasible
}

// constRangeOf matches v = T[i] loaded in the body of such a loop.
func constRangeOf(w *World, v ssa.Value) (*constRange, bool) {
	ld, ok := v.(*ssa.UnOp)
	if !ok || ld.Op != token.MUL {
		return nil, false
	}
	ia, ok := ld.X.(*ssa.IndexAddr)
	if !ok {
		return nil, false
	}
	inc, ok := ia.Index.(*ssa.BinOp)
	if !ok || inc.Op != token.ADD {
		return nil, false
	}
	phi, ok := inc.X.(*ssa.Phi)
	if !ok || phi.Comment != "rangeindex" || len(phi.Edges) != 2 {
		return nil, false
	}
	if one, ok := constInt(inc.Y); !ok || one != 1 {
		return nil, false
	}
	hdr := phi.Block()
	var pre *ssa.BasicBlock
	for i, e := range phi.Edges {
		if c, ok := constInt(e); ok && c == -1 {
			pre = hdr.Preds[i]
		} else if e != ssa.Value(inc) {
			return nil, false
		}
	}
	if pre == nil || len(hdr.Succs) != 2 {
		return nil, false
	}
	elems, ok := constStringSlice(w, ia.X)
	if !ok || len(elems) == 0 {
		return nil, false
	}
	// the body leaves only through the header: every path from the body entry returns to the header
	body := hdr.Succs[0]
	seen := map[*ssa.BasicBlock]bool{hdr: true}
	stack := []*ssa.BasicBlock{body}
	for len(stack) > 0 {
		b := stack[len(stack)-1]
		stack = stack[:len(stack)-1]
		if seen[b] {
			continue
		}
		seen[b] = true
		if len(b.Succs) == 0 {
			return nil, false // return / panic inside the body
		}
		for _, s := range b.Succs {
			if s == hdr.Succs[1] {
				return nil, false // break
			}
			stack = append(stack, s)
		}
	}
	return &constRange{Elems: elems, Header: hdr, Pre: pre, Skip: Edge{From: hdr, Succ: 1, Via: pre}}, true
}

// constStringSlice: the elements of a slice literal of string constants, or of a package-level slice
// variable initialised with one and never written or handed out afterwards.
func constStringSlice(w *World, v ssa.Value) ([]string, bool) {
	switch x := v.(type) {
	case *ssa.Slice:
		al, ok := x.X.(*ssa.Alloc)
		if !ok || x.Low != nil || x.High != nil {
			return nil, false
		}
		arr, ok := al.Type().Underlying().(*types.Pointer).Elem().Underlying().(*types.Array)
		if !ok {
			return nil, false
		}
		out := make([]string, arr.Len())
		set := make([]bool, arr.Len())
		for _, rf := range *al.Referrers() {
			switch r := rf.(type) {
			case *ssa.IndexAddr:
				idx, ok := constInt(r.Index)
				if !ok || idx < 0 || idx >= arr.Len() || r.Referrers() == nil {
					return nil, false
				}
				for _, rr := range *r.Referrers() {
					st, ok := rr.(*ssa.Store)
					if !ok || st.Addr != ssa.Value(r) {
						return nil, false
					}
					s, ok := constString(st.Val)
					if !ok || set[idx] {
						return nil, false
					}
					out[idx], set[idx] = s, true
				}
			case *ssa.Slice:
				if r != x {
					return nil, false
				}
			default:
				return nil, false
			}
		}
		for _, s := range set {
			if !s {
				return nil, false
			}
		}
		return out, true
	case *ssa.UnOp:
		gl, ok := x.X.(*ssa.Global)
		if !ok || x.Op != token.MUL || gl.Pkg == nil {
			return nil, false
		}
		var init ssa.Value
		for _, fn := range w.HelmFuncs() {
			if fn.Pkg != gl.Pkg && !usesGlobalCheap(fn, gl) {
				continue
			}
			for _, b := range fn.Blocks {
				for _, in := range b.Instrs {
					for _, op := range in.Operands(nil) {
						if *op != ssa.Value(gl) {
							continue
						}
						switch r := in.(type) {
						case *ssa.Store:
							if r.Addr != ssa.Value(gl) || fn.Name() != "init" || init != nil {
								return nil, false
							}
							init = r.Val
						case *ssa.UnOp:
							if !readOnlySliceUse(r) {
								return nil, false
							}
						default:
							return nil, false
						}
					}
				}
			}
		}
		if init == nil {
			// the package initialiser is not among the helm source functions: look it up
			if ifn := gl.Pkg.Func("init"); ifn != nil {
				for _, b := range ifn.Blocks {
					for _, in := range b.Instrs {
						if st, ok := in.(*ssa.Store); ok && st.Addr == ssa.Value(gl) {
							if init != nil {
								return nil, false
							}
							init = st.Val
						}
					}
				}
			}
		}
		if init == nil {
			return nil, false
		}
		return constStringSlice(w, init)
	}
	return nil, false
}

func usesGlobalCheap(fn *ssa.Function, gl *ssa.Global) bool { return fn.Pkg == gl.Pkg }

// readOnlySliceUse: the loaded slice is only ranged over, indexed for reading, measured or searched.
func readOnlySliceUse(ld *ssa.UnOp) bool {
	if ld.Referrers() == nil {
		return true
	}
	for _, rf := range *ld.Referrers() {
		switch r := rf.(type) {
		case *ssa.IndexAddr:
			if r.Referrers() != nil {
				for _, rr := range *r.Referrers() {
					if u, ok := rr.(*ssa.UnOp); !ok || u.Op != token.MUL {
						return false
					}
				}
			}
		case *ssa.Call:
			if bi, ok := r.Call.Value.(*ssa.Builtin); ok && (bi.Name() == "len" || bi.Name() == "cap") {
				continue
			}
			if f, _ := calleeOf(r.Common()); f != nil && (fnPkgPath(f) == "slices" && (genericName(f) == "Contains" || genericName(f) == "Index")) {
				continue
			}
			return false
		case *ssa.DebugRef:
		default:
			return false
		}
	}
	return true
}

// ---- in-place filtering of a shared slice ---------------------------------------------------------------

// inPlaceFilters: `y := x[:0]` followed by append(y, …) rewrites the backing array of x. That is only
// sound when x is the function's own fresh slice; when x is read from a field of an object the function
// was handed (a release's hooks, a chart's dependencies) the owner's list is overwritten while it is
// still in use. Returns the offending Slice instructions of fn.
func inPlaceFilters(fn *ssa.Function) []*ssa.Slice {
	var out []*ssa.Slice
	for _, b := range fn.Blocks {
		for _, in := range b.Instrs {
			sl, ok := in.(*ssa.Slice)
			if !ok || sl.Low != nil || sl.High == nil {
				continue
			}
			if k, isC := constInt(sl.High); !isC || k != 0 {
				continue
			}
			// appended to?
			appended := false
			seen := map[ssa.Value]bool{}
			var fwd func(v ssa.Value, d int)
			fwd = func(v ssa.Value, d int) {
				if seen[v] || d > 4 || v.Referrers() == nil {
					return
				}
				seen[v] = true
				for _, rf := range *v.Referrers() {
					switch x := rf.(type) {
					case *ssa.Call:
						if bi, ok := x.Call.Value.(*ssa.Builtin); ok && bi.Name() == "append" && len(x.Call.Args) > 0 && x.Call.Args[0] == v {
							appended = true
						}
					case *ssa.Phi:
						fwd(x, d+1)
					}
				}
			}
			fwd(sl, 0)
			if !appended {
				continue
			}
			// is the base a field of something handed in?
			shared := false
			backSlice(sl.X, func(v ssa.Value) bool {
				switch x := v.(type) {
				case *ssa.UnOp:
					if x.Op == token.MUL {
						if _, isFA := x.X.(*ssa.FieldAddr); isFA {
							shared = true
							return true
						}
					}
				case *ssa.MakeSlice, *ssa.Alloc:
					return true
				case *ssa.Call:
					return true
				}
				return false
			})
			if shared {
				out = append(out, sl)
			}
		}
	}
	return out
}

// checkInPlaceFilters reports them for the functions of the given packages.
func checkInPlaceFilters(w *World, r *Report, rule string, pkgs []string) {
	n := 0
	for _, rel := range pkgs {
		for _, fn := range w.FuncsIn(rel) {
			for i, sl := range inPlaceFilters(fn) {
				n++
				r.Fn(FuncName(fn))
				r.Bad(rule, fmt.Sprintf("%s/in-place#%d", FuncName(fn), i+1), w.InstrPos(sl), "a list read from a field of a shared object is filtered in place (x[:0] then append): the owner's list is overwritten while it is still used (other events, the stored record)")
			}
		}
	}
	if n == 0 {
		r.OKTrivial(rule, "no-in-place-filter", "-", "no list held by a shared object is filtered in place")
	}
}
