package main

// ssakit.go — SITE, DOM/MPT primitives over go/ssa control-flow graphs.

import (
	"go/constant"
	"go/token"
	"go/types"

	"golang.org/x/tools/go/ssa"
)

// ---- callee resolution ------------------------------------------------------------------------

// calleeOf resolves a call: the static *ssa.Function when known (direct call, closure value created
// in place, bound method), and/or the *types.Func (also for interface method invocations).
func calleeOf(c *ssa.CallCommon) (*ssa.Function, *types.Func) {
	if c.IsInvoke() {
		return nil, c.Method
	}
	switch v := c.Value.(type) {
	case *ssa.Function:
		tf, _ := v.Object().(*types.Func)
		return v, tf
	case *ssa.MakeClosure:
		if f, ok := v.Fn.(*ssa.Function); ok {
			tf, _ := f.Object().(*types.Func)
			return f, tf
		}
	}
	if sc := c.StaticCallee(); sc != nil {
		tf, _ := sc.Object().(*types.Func)
		return sc, tf
	}
	return nil, nil
}

// origin maps an instantiated generic function to its origin.
func origin(f *ssa.Function) *ssa.Function {
	if f != nil && f.Origin() != nil {
		return f.Origin()
	}
	return f
}

func sameTFunc(a, b *types.Func) bool {
	if a == nil || b == nil {
		return false
	}
	return a.Origin() == b.Origin()
}

// Pos is an instruction position inside one function.
type IPos struct {
	B *ssa.BasicBlock
	I int
}

func posOf(in ssa.Instruction) IPos {
	b := in.Block()
	for i, x := range b.Instrs {
		if x == in {
			return IPos{b, i}
		}
	}
	return IPos{b, -1}
}

// Site is a resolved call site.
type Site struct {
	Fn    *ssa.Function
	Instr ssa.CallInstruction
	At    IPos
}

func (s Site) Common() *ssa.CallCommon { return s.Instr.Common() }

// callSites enumerates call instructions (call, go, defer) in fn.
func callInstrs(fn *ssa.Function) []ssa.CallInstruction {
	var out []ssa.CallInstruction
	for _, b := range fn.Blocks {
		for _, in := range b.Instrs {
			if c, ok := in.(ssa.CallInstruction); ok {
				out = append(out, c)
			}
		}
	}
	return out
}

// SitesOf finds call sites in fns whose resolved callee (static or interface method) is target.
func SitesOf(fns []*ssa.Function, target *types.Func) []Site {
	var out []Site
	for _, fn := range fns {
		for _, c := range callInstrs(fn) {
			_, tf := calleeOf(c.Common())
			if sameTFunc(tf, target) {
				out = append(out, Site{fn, c, posOf(c)})
			}
		}
	}
	return out
}

// withAnon returns fn and all functions nested in it.
func withAnon(fn *ssa.Function) []*ssa.Function {
	out := []*ssa.Function{fn}
	for _, a := range fn.AnonFuncs {
		out = append(out, withAnon(a)...)
	}
	return out
}

// ---- constants -------------------------------------------------------------------------------

func isNilConst(v ssa.Value) bool {
	c, ok := v.(*ssa.Const)
	return ok && c.Value == nil
}

func constString(v ssa.Value) (string, bool) {
	c, ok := v.(*ssa.Const)
	if !ok || c.Value == nil || c.Value.Kind() != constant.String {
		return "", false
	}
	return constant.StringVal(c.Value), true
}

func constBool(v ssa.Value) (bool, bool) {
	c, ok := v.(*ssa.Const)
	if !ok || c.Value == nil || c.Value.Kind() != constant.Bool {
		return false, false
	}
	return constant.BoolVal(c.Value), true
}

func constInt(v ssa.Value) (int64, bool) {
	c, ok := v.(*ssa.Const)
	if !ok || c.Value == nil || c.Value.Kind() != constant.Int {
		return 0, false
	}
	i, ok2 := constant.Int64Val(c.Value)
	return i, ok2
}

// ---- graph view (possibly specialised) -----------------------------------------------------------

// Edge is a CFG edge: block From, successor index Succ.
type Edge struct {
	From *ssa.BasicBlock
	Succ int
}

func (e Edge) To() *ssa.BasicBlock { return e.From.Succs[e.Succ] }

// Graph is a view of a function's CFG in which some edges are infeasible (removed by specialisation).
type Graph struct {
	Fn      *ssa.Function
	Dead    map[Edge]bool // infeasible edges; nil = full CFG
	reachOK map[*ssa.BasicBlock]bool
}

func FullGraph(fn *ssa.Function) *Graph { return &Graph{Fn: fn} }

func (g *Graph) succs(b *ssa.BasicBlock) []Edge {
	var out []Edge
	for i := range b.Succs {
		e := Edge{b, i}
		if g.Dead != nil && g.Dead[e] {
			continue
		}
		out = append(out, e)
	}
	return out
}

// Reachable blocks from entry (memoised).
func (g *Graph) Reachable() map[*ssa.BasicBlock]bool {
	if g.reachOK != nil {
		return g.reachOK
	}
	r := map[*ssa.BasicBlock]bool{}
	if len(g.Fn.Blocks) == 0 {
		g.reachOK = r
		return r
	}
	stack := []*ssa.BasicBlock{g.Fn.Blocks[0]}
	r[g.Fn.Blocks[0]] = true
	for len(stack) > 0 {
		b := stack[len(stack)-1]
		stack = stack[:len(stack)-1]
		for _, e := range g.succs(b) {
			if t := e.To(); !r[t] {
				r[t] = true
				stack = append(stack, t)
			}
		}
	}
	g.reachOK = r
	return r
}

func (g *Graph) InstrReachable(p IPos) bool { return g.Reachable()[p.B] }

// Avoid describes what a path may not pass.
type Avoid struct {
	Instrs        map[ssa.Instruction]bool
	Edges         map[Edge]bool
	EdgeSensitive bool // fold branches on phis that are constant along the edge taken
}

func avoidInstrs(ins ...ssa.Instruction) Avoid {
	a := Avoid{Instrs: map[ssa.Instruction]bool{}}
	for _, i := range ins {
		a.Instrs[i] = true
	}
	return a
}

func (a Avoid) withEdges(es ...Edge) Avoid {
	if a.Edges == nil {
		a.Edges = map[Edge]bool{}
	}
	for _, e := range es {
		a.Edges[e] = true
	}
	return a
}
func (a Avoid) withInstrs(ins ...ssa.Instruction) Avoid {
	if a.Instrs == nil {
		a.Instrs = map[ssa.Instruction]bool{}
	}
	for _, i := range ins {
		a.Instrs[i] = true
	}
	return a
}

// PathExists reports whether some path in g leads from `from` (exclusive: execution continues after
// the instruction at from; use IPos{entry,-1} for the function entry) to the instruction at `to`
// without executing an avoided instruction or taking an avoided edge. Returns a witness block path.
func (g *Graph) PathExists(from, to IPos, av Avoid) (bool, []*ssa.BasicBlock) {
	type st struct {
		b    *ssa.BasicBlock
		prev *st
	}
	// scan a block from index i (inclusive); returns (hitTarget, blocked)
	scan := func(b *ssa.BasicBlock, i int) (bool, bool) {
		for k := i; k < len(b.Instrs); k++ {
			if b == to.B && k == to.I {
				return true, false
			}
			if av.Instrs != nil && av.Instrs[b.Instrs[k]] {
				return false, true
			}
		}
		return false, false
	}
	witness := func(s *st) []*ssa.BasicBlock {
		var p []*ssa.BasicBlock
		for ; s != nil; s = s.prev {
			p = append([]*ssa.BasicBlock{s.b}, p...)
		}
		return p
	}
	start := &st{b: from.B}
	hit, blocked := scan(from.B, from.I+1)
	if hit {
		return true, witness(start)
	}
	if blocked {
		return false, nil
	}
	type key struct{ p, b *ssa.BasicBlock }
	seen := map[key]bool{}
	queue := []*st{start}
	for len(queue) > 0 {
		s := queue[0]
		queue = queue[1:]
		succs := g.succs(s.b)
		// edge-sensitive folding: a branch on a phi of this block whose incoming value along the edge
		// just taken is a boolean constant follows only the matching successor (flag set before break)
		if av.EdgeSensitive && s.prev != nil && len(s.b.Instrs) > 0 {
			if ifi, ok := s.b.Instrs[len(s.b.Instrs)-1].(*ssa.If); ok {
				if v, known := phiConstAlong(ifi.Cond, s.prev.b, s.b); known {
					var keep []Edge
					for _, e := range succs {
						if (e.Succ == 0) == v {
							keep = append(keep, e)
						}
					}
					succs = keep
				}
			}
		}
		for _, e := range succs {
			if av.Edges != nil && av.Edges[e] {
				continue
			}
			t := e.To()
			k := key{nil, t}
			if av.EdgeSensitive {
				k.p = s.b
			}
			if seen[k] {
				continue
			}
			seen[k] = true
			ns := &st{b: t, prev: s}
			hit, blocked := scan(t, 0)
			if hit {
				return true, witness(ns)
			}
			if blocked {
				continue
			}
			queue = append(queue, ns)
		}
	}
	return false, nil
}

func entryPos(fn *ssa.Function) IPos { return IPos{fn.Blocks[0], -1} }

// MustPass: every path from entry to `to` executes one of the guard instructions or one of the guard edges.
func (g *Graph) MustPass(to IPos, av Avoid) (bool, []*ssa.BasicBlock) {
	ex, w := g.PathExists(entryPos(g.Fn), to, av)
	return !ex, w
}

// DominatesInstr: a executes on every path from entry to b.
func (g *Graph) DominatesInstr(a ssa.Instruction, b IPos) bool {
	ok, _ := g.MustPass(b, avoidInstrs(a))
	return ok
}

// ---- error / nil tests -------------------------------------------------------------------------

// derived returns the set of values that carry v unchanged: v itself, Extracts of it (for tuples the
// caller passes the Extract), phis merging it, ChangeInterface/MakeInterface wrappers.
func forwardAliases(v ssa.Value) map[ssa.Value]bool {
	out := map[ssa.Value]bool{v: true}
	work := []ssa.Value{v}
	for len(work) > 0 {
		x := work[len(work)-1]
		work = work[:len(work)-1]
		refs := x.Referrers()
		if refs == nil {
			continue
		}
		for _, r := range *refs {
			switch r := r.(type) {
			case *ssa.Phi:
				if !out[r] {
					out[r] = true
					work = append(work, r)
				}
			case *ssa.ChangeInterface:
				if !out[r] {
					out[r] = true
					work = append(work, r)
				}
			}
		}
	}
	return out
}

// nilTestEdges finds, for value v (an error or pointer), the CFG edges on which "v == nil" holds
// (ok) and on which "v != nil" holds (bad), from If instructions testing v or a phi of it against nil.
// For a phi alias the edge only proves the phi is nil, which — if v flowed in — covers v's path.
func nilTestEdges(v ssa.Value) (ok []Edge, bad []Edge) {
	if v == nil {
		return nil, nil
	}
	aliases := forwardAliases(v)
	// the value may be spilled into a local slot (named result, captured variable) and re-loaded in
	// the same block before the next store: those loads are the same value
	for a := range aliases {
		if a.Referrers() == nil {
			continue
		}
		for _, r := range *a.Referrers() {
			st, isSt := r.(*ssa.Store)
			if !isSt || st.Val != a {
				continue
			}
			slot, isAlloc := st.Addr.(*ssa.Alloc)
			if !isAlloc {
				continue
			}
			b := st.Block()
			after := false
			for _, in := range b.Instrs {
				if in == ssa.Instruction(st) {
					after = true
					continue
				}
				if !after {
					continue
				}
				if s2, ok := in.(*ssa.Store); ok && s2.Addr == slot {
					break
				}
				if ld, ok := in.(*ssa.UnOp); ok && ld.Op == token.MUL && ld.X == slot {
					aliases[ld] = true
				}
			}
		}
	}
	// nil-implying predicates: ok := f(…, wrap(err)) where f returns true only if that argument is nil
	for a := range aliases {
		if a.Referrers() == nil {
			continue
		}
		for _, r := range *a.Referrers() {
			c, isCall := r.(*ssa.Call)
			if !isCall {
				continue
			}
			// through a nil-preserving wrapper first
			if inner, okw := nilPreservingArg(c); okw && inner == a {
				aliases[c] = true
			}
		}
	}
	for a := range aliases {
		if a.Referrers() == nil {
			continue
		}
		for _, r := range *a.Referrers() {
			c, isCall := r.(*ssa.Call)
			if !isCall {
				continue
			}
			f, _ := calleeOf(c.Common())
			k := nilImplyingPredicate(f)
			if k < 0 || k >= len(c.Call.Args) || c.Call.Args[k] != a {
				continue
			}
			for _, e := range condEdges(c) {
				if e.truth {
					ok = append(ok, e.Edge)
				}
			}
		}
	}
	for a := range aliases {
		refs := a.Referrers()
		if refs == nil {
			continue
		}
		for _, r := range *refs {
			bo, isb := r.(*ssa.BinOp)
			if !isb || (bo.Op != token.NEQ && bo.Op != token.EQL) {
				continue
			}
			var other ssa.Value
			if bo.X == a {
				other = bo.Y
			} else {
				other = bo.X
			}
			if !isNilConst(other) {
				continue
			}
			for _, e := range condEdges(bo) {
				// e.truth: the edge is taken when bo is e.truth
				isNil := (bo.Op == token.EQL) == e.truth
				if isNil {
					ok = append(ok, e.Edge)
				} else {
					bad = append(bad, e.Edge)
				}
			}
		}
	}
	return
}

type truthEdge struct {
	Edge
	truth bool
}

// condEdges returns the edges controlled by boolean value c, following negation and the
// short-circuit forms go/ssa produces (a phi of constants and conditions is not followed: the
// builder emits nested Ifs for && / || in branch position).
func condEdges(c ssa.Value) []truthEdge {
	var out []truthEdge
	refs := c.Referrers()
	if refs == nil {
		return nil
	}
	for _, r := range *refs {
		switch r := r.(type) {
		case *ssa.If:
			out = append(out, truthEdge{Edge{r.Block(), 0}, true}, truthEdge{Edge{r.Block(), 1}, false})
		case *ssa.UnOp:
			if r.Op == token.NOT {
				for _, e := range condEdges(r) {
					out = append(out, truthEdge{e.Edge, !e.truth})
				}
			}
		}
	}
	return out
}

// errResult returns the error-typed result value of a call (the call itself, or its Extract).
func errResult(c ssa.CallInstruction) ssa.Value {
	v := c.Value()
	if v == nil {
		return nil
	}
	sig := c.Common().Signature()
	res := sig.Results()
	if res.Len() == 0 {
		return nil
	}
	last := res.Len() - 1
	if !isErrorType(res.At(last).Type()) {
		return nil
	}
	if res.Len() == 1 {
		return v
	}
	if refs := v.Referrers(); refs != nil {
		for _, r := range *refs {
			if ex, ok := r.(*ssa.Extract); ok && ex.Index == last {
				return ex
			}
		}
	}
	return nil
}

// resultN returns the n-th result value of a call (Extract for tuples).
func resultN(c ssa.CallInstruction, n int) ssa.Value {
	v := c.Value()
	if v == nil {
		return nil
	}
	res := c.Common().Signature().Results()
	if res.Len() == 1 && n == 0 {
		return v
	}
	if refs := v.Referrers(); refs != nil {
		for _, r := range *refs {
			if ex, ok := r.(*ssa.Extract); ok && ex.Index == n {
				return ex
			}
		}
	}
	return nil
}

var errorType = types.Universe.Lookup("error").Type()

func isErrorType(t types.Type) bool { return types.Identical(t, errorType) }

// okEdgesOfCall: edges on which the call's error result is known nil.
func okEdgesOfCall(c ssa.CallInstruction) []Edge {
	e := errResult(c)
	if e == nil {
		return nil
	}
	ok, _ := nilTestEdges(e)
	return ok
}

// AfterOK reports whether every path from entry to `to` executes call c and then leaves through
// one of its ok-edges (error known nil).
func (g *Graph) AfterOK(c ssa.CallInstruction, to IPos) bool {
	if !g.DominatesInstr(c, to) {
		return false
	}
	oks := okEdgesOfCall(c)
	if len(oks) == 0 {
		return false
	}
	ex, _ := g.PathExists(entryPos(g.Fn), to, Avoid{}.withEdges(oks...))
	return !ex
}

// knownNilAt: value v (error/pointer) is nil on every path reaching block b's entry
// (every path to b takes one of v's ok edges after v is defined).
func (g *Graph) knownNilAt(v ssa.Value, b *ssa.BasicBlock) bool {
	if isNilConst(v) {
		return true
	}
	ok, _ := nilTestEdges(v)
	if len(ok) == 0 {
		return false
	}
	// b unreachable from v's definition without taking an ok edge
	def, isInstr := v.(ssa.Instruction)
	from := entryPos(g.Fn)
	if isInstr && def.Block() != nil {
		from = posOf(def)
	}
	if len(b.Instrs) == 0 {
		return false
	}
	ex, _ := g.PathExists(from, IPos{b, 0}, Avoid{}.withEdges(ok...))
	if from.B == b {
		// definition in the same block as the use: not separated by a test
		return false
	}
	return !ex
}

// ---- return classification ----------------------------------------------------------------------

type RetClass int

const (
	RetSuccess RetClass = iota
	RetError            // possibly an error
)

// RetPath is one way of reaching a return with a given error operand.
type RetPath struct {
	Ret   *ssa.Return
	Pred  *ssa.BasicBlock // when the operand is a phi: the predecessor the value came from; else nil
	Val   ssa.Value       // the error operand on this path
	Class RetClass
}

// nilPreserving: calls that return nil iff their first argument is nil (pkg/errors wrappers).
func nilPreservingArg(v ssa.Value) (ssa.Value, bool) {
	c, ok := v.(*ssa.Call)
	if !ok {
		return nil, false
	}
	f, _ := calleeOf(c.Common())
	if f == nil || f.Pkg == nil {
		return nil, false
	}
	if f.Pkg.Pkg.Path() == "github.com/pkg/errors" {
		switch f.Name() {
		case "Wrap", "Wrapf", "WithMessage", "WithMessagef", "WithStack":
			return c.Call.Args[0], true
		}
	}
	return nil, false
}

// classifyReturns lists, for every return of fn, the paths by which an error may or may not leave.
// errIdx is the index of the error result.
func (g *Graph) classifyReturns() []RetPath {
	fn := g.Fn
	res := fn.Signature.Results()
	errIdx := -1
	for i := 0; i < res.Len(); i++ {
		if isErrorType(res.At(i).Type()) {
			errIdx = i
		}
	}
	var out []RetPath
	for _, b := range fn.Blocks {
		if !g.Reachable()[b] || len(b.Instrs) == 0 {
			continue
		}
		ret, ok := b.Instrs[len(b.Instrs)-1].(*ssa.Return)
		if !ok {
			continue
		}
		if errIdx < 0 {
			out = append(out, RetPath{Ret: ret, Class: RetSuccess})
			continue
		}
		ev := ret.Results[errIdx]
		// defer-spilled results: the function has a defer, so every `return x, err` stores into result
		// slots and jumps to a common exit that loads them. Classify each store separately.
		if ld, ok := ev.(*ssa.UnOp); ok && ld.Op == token.MUL {
			if slot, ok := ld.X.(*ssa.Alloc); ok && isResultSlot(slot) {
				for _, rf := range *slot.Referrers() {
					st, ok := rf.(*ssa.Store)
					if !ok || st.Addr != slot || !g.Reachable()[st.Block()] {
						continue
					}
					for _, rp := range g.classifyErrVal(ret, st.Val, st.Block(), st.Block(), 0) {
						if rp.Pred == nil {
							rp.Pred = st.Block()
						}
						out = append(out, rp)
					}
				}
				continue
			}
		}
		out = append(out, g.classifyErrVal(ret, ev, b, nil, 0)...)
	}
	return out
}

// isResultSlot: an alloc only ever stored to and loaded from (the spill slot of a result).
func isResultSlot(a *ssa.Alloc) bool {
	if a.Referrers() == nil {
		return false
	}
	for _, rf := range *a.Referrers() {
		switch x := rf.(type) {
		case *ssa.Store:
			if x.Addr != a {
				return false
			}
		case *ssa.UnOp:
		case *ssa.DebugRef:
		default:
			return false
		}
	}
	return true
}

// spilledResult: the i-th result of a return, resolved through a result slot to the values stored
// into it (one per storing block).
func spilledResults(ret *ssa.Return, i int) map[*ssa.BasicBlock]ssa.Value {
	out := map[*ssa.BasicBlock]ssa.Value{}
	v := ret.Results[i]
	if ld, ok := v.(*ssa.UnOp); ok && ld.Op == token.MUL {
		if slot, ok := ld.X.(*ssa.Alloc); ok && isResultSlot(slot) {
			for _, rf := range *slot.Referrers() {
				if st, ok := rf.(*ssa.Store); ok && st.Addr == slot {
					out[st.Block()] = st.Val
				}
			}
			return out
		}
	}
	out[ret.Block()] = v
	return out
}

func (g *Graph) classifyErrVal(ret *ssa.Return, v ssa.Value, at *ssa.BasicBlock, pred *ssa.BasicBlock, depth int) []RetPath {
	if isNilConst(v) {
		return []RetPath{{ret, pred, v, RetSuccess}}
	}
	if inner, ok := nilPreservingArg(v); ok && depth < 4 {
		rs := g.classifyErrVal(ret, inner, at, pred, depth+1)
		return rs
	}
	if g.knownNonNilAt(v, at) {
		return []RetPath{{ret, pred, v, RetError}}
	}
	if phi, ok := v.(*ssa.Phi); ok && depth < 4 {
		var out []RetPath
		for i, e := range phi.Edges {
			p := phi.Block().Preds[i]
			if !g.edgeFeasible(p, phi.Block()) {
				continue
			}
			// is e nil when arriving from p?
			if isNilConst(e) || g.knownNilAtEnd(e, p, phi.Block()) {
				out = append(out, RetPath{ret, p, e, RetSuccess})
				continue
			}
			if _, isPhi := e.(*ssa.Phi); isPhi {
				sub := g.classifyErrVal(ret, e, p, p, depth+1)
				for i := range sub {
					if sub[i].Pred == nil {
						sub[i].Pred = p
					}
				}
				out = append(out, sub...)
				continue
			}
			out = append(out, RetPath{ret, p, e, RetError})
		}
		return out
	}
	if g.knownNilAt(v, at) {
		return []RetPath{{ret, pred, v, RetSuccess}}
	}
	return []RetPath{{ret, pred, v, RetError}}
}

func (g *Graph) edgeFeasible(from, to *ssa.BasicBlock) bool {
	if !g.Reachable()[from] {
		return false
	}
	for _, e := range g.succs(from) {
		if e.To() == to {
			return true
		}
	}
	return false
}

// knownNilAtEnd: v is nil when control goes from block p to block to.
func (g *Graph) knownNilAtEnd(v ssa.Value, p, to *ssa.BasicBlock) bool {
	ok, _ := nilTestEdges(v)
	for _, e := range ok {
		if e.From == p && e.To() == to {
			return true
		}
	}
	return g.knownNilAt(v, p)
}

// knownNonNilAt: every path from v's definition to block b takes an edge on which v != nil holds.
func (g *Graph) knownNonNilAt(v ssa.Value, b *ssa.BasicBlock) bool {
	if isNilConst(v) || len(b.Instrs) == 0 {
		return false
	}
	_, bad := nilTestEdges(v)
	if len(bad) == 0 {
		return false
	}
	def, isInstr := v.(ssa.Instruction)
	from := entryPos(g.Fn)
	if isInstr && def.Block() != nil {
		from = posOf(def)
		if def.Block() == b {
			return false
		}
	}
	ex, _ := g.PathExists(from, IPos{b, 0}, Avoid{}.withEdges(bad...))
	return !ex
}

// retPos: the position a path must reach for this return path: the end of the block the returned
// value comes from (phi edge or defer-spilled store), else the return itself.
func retPos(rp RetPath) IPos {
	if rp.Pred != nil && len(rp.Pred.Instrs) > 0 {
		return IPos{rp.Pred, len(rp.Pred.Instrs) - 1}
	}
	return posOf(rp.Ret)
}

// nilImplyingPredicate: f returns bool and every return is the constant false or (param_k == nil):
// a true result implies the k-th argument was nil. Returns k or -1.
func nilImplyingPredicate(f *ssa.Function) int {
	if f == nil || !inHelm(f) || len(f.Blocks) == 0 || f.Signature.Results().Len() != 1 {
		return -1
	}
	if b, ok := f.Signature.Results().At(0).Type().Underlying().(*types.Basic); !ok || b.Kind() != types.Bool {
		return -1
	}
	k := -1
	for _, b := range f.Blocks {
		if len(b.Instrs) == 0 {
			continue
		}
		ret, ok := b.Instrs[len(b.Instrs)-1].(*ssa.Return)
		if !ok {
			continue
		}
		v := ret.Results[0]
		if cb, isC := constBool(v); isC {
			if cb {
				return -1
			}
			continue
		}
		bo, isBo := v.(*ssa.BinOp)
		if !isBo || bo.Op != token.EQL {
			return -1
		}
		var p ssa.Value
		if isNilConst(bo.Y) {
			p = bo.X
		} else if isNilConst(bo.X) {
			p = bo.Y
		}
		pp, isP := p.(*ssa.Parameter)
		if !isP {
			return -1
		}
		for i, q := range f.Params {
			if q == pp {
				if k >= 0 && k != i {
					return -1
				}
				k = i
			}
		}
	}
	return k
}
