package main

// C14 — values that violate a chart's schema are never rendered or deployed (structural part).

import (
	"fmt"
	"go/token"
	"go/types"
	"sort"
	"strings"

	"golang.org/x/tools/go/ssa"
)

func init() {
	register(&propDef{
		ID:      "C14",
		Anchors: []string{"pkg/chart/v2/util/jsonschema.go", "pkg/chart/v2/util/values.go", "pkg/action/install.go", "pkg/action/upgrade.go", "pkg/lint/rules/values.go"},
		NotDec:  []string{"agreement of the validator library with JSON-Schema semantics (never rejects a valid tree / always rejects an invalid one)", "numeric precision inside the validator"},
		Trusted: []string{"github.com/santhosh-tekuri/jsonschema/v6 Validate"},
		Run:     runC14,
	})
}

const utilPkg = helmMod + "/pkg/chart/v2/util"
const enginePkg = helmMod + "/pkg/engine"

func runC14(w *World, r *Report) {
	ef := NewEffects(w)
	r.Rule("C14/RENDER-GATED", "the values argument of every template-render call in the module is the result of ToRenderValuesWithSchemaValidation reached through its ok-edge (parameters are followed to their callers)", 3)
	r.Rule("C14/SKIP-WIRING", "the skip argument of the gate is never the constant true and comes from a SkipSchemaValidation field; every store into a SkipSchemaValidation field copies another SkipSchemaValidation field", 5)
	r.Rule("C14/GATE-BODY", "inside the gate every success return passes the ok-edge of ValidateAgainstSchema unless skip is set; the validated tree is the result of CoalesceValues and is the tree handed out", 3)
	r.Rule("C14/RECURSES", "the schema walk validates the chart when it has a schema, records the error, and on every iteration over Dependencies() either recurses with values[subchart.Name()] or records an error", 4)
	r.Rule("C14/VALIDATE-ARG", "the tree given to the schema validator is the function's values parameter itself (no re-encoding in between)", 1)
	r.Rule("C14/WRITES-AFTER-GATE", "in install and upgrade every cluster or storage write follows the ok-edge of the gate, and dependency processing precedes the gate", 8)
	r.Rule("C14/LINT", "the values lint rule returns success only where the schema file is empty or through the validator's verdict", 1)

	gate := w.Fn("pkg/chart/v2/util", "ToRenderValuesWithSchemaValidation")
	vas := w.Fn("pkg/chart/v2/util", "ValidateAgainstSchema")
	vss := w.Fn("pkg/chart/v2/util", "ValidateAgainstSingleSchema")
	if gate == nil || vas == nil || vss == nil {
		r.Unk("C14/GATE-BODY", "anchor", "-", "ToRenderValuesWithSchemaValidation / ValidateAgainstSchema / ValidateAgainstSingleSchema not found")
		return
	}
	r.Fn(FuncName(gate))
	r.Fn(FuncName(vas))
	r.Fn(FuncName(vss))
	c14RenderGated(w, r, gate)
	c14SkipWiring(w, r, gate)
	c14GateBody(w, r, gate, vas)
	c14Recurses(w, r, vas, vss)
	c14ValidateArg(w, r, vss)
	c14WritesAfterGate(w, r, ef, gate)
	c14Lint(w, r, vss)
	r.Rule("C14/WIRING", "SkipSchemaValidation is bound to its own command-line flag and carried into the install started by upgrade --install", 2)
	checkCarried(w, r, "C14/WIRING", []string{"SkipSchemaValidation"})
	checkFlagBinding(w, r, "C14/WIRING", map[string]bool{"SkipSchemaValidation": true})
	c14LintTemplates(w, r)
	r.Rule("C14/SCHEMA-KEPT", "the copy of a chart made for a (possibly aliased) dependency carries every field of the loaded chart, in particular its Schema", 1)
	c11AliasWhole(w, r, "C14/SCHEMA-KEPT")
}

func isRenderFunc(f *ssa.Function) bool {
	if f == nil || fnPkgPath(f) != enginePkg {
		return false
	}
	switch FuncName(origin(f)) {
	case "(pkg/engine.Engine).Render", "pkg/engine.Render", "pkg/engine.RenderWithClient", "pkg/engine.RenderWithClientProvider":
		return true
	}
	return false
}

// gatedValue: v is result 0 of a call to gate (or ToRenderValues) and `at` follows that call's ok-edge.
func gatedValue(w *World, fn *ssa.Function, v ssa.Value, at IPos, gate *ssa.Function, depth int) (bool, string) {
	g := FullGraph(fn)
	switch x := v.(type) {
	case *ssa.Extract:
		c, ok := x.Tuple.(*ssa.Call)
		if !ok {
			return false, "not a call result"
		}
		callee, _ := calleeOf(c.Common())
		if callee == nil {
			return false, "dynamic call result"
		}
		name := FuncName(origin(callee))
		if origin(callee) == gate || name == "pkg/chart/v2/util.ToRenderValues" {
			if x.Index == 0 && g.AfterOK(c, at) {
				return true, "result of " + name + " through its ok-edge"
			}
			return false, "result of " + name + " used without passing its ok-edge"
		}
		return false, "result of " + name
	case *ssa.Parameter:
		if depth > 2 {
			return false, "parameter chain too deep"
		}
		idx := -1
		for i, p := range fn.Params {
			if p == x {
				idx = i
			}
		}
		n := 0
		for _, caller := range w.HelmFuncs() {
			for _, c := range callInstrs(caller) {
				callee, _ := calleeOf(c.Common())
				if origin(callee) != fn || idx >= len(c.Common().Args) {
					continue
				}
				n++
				if ok, why := gatedValue(w, caller, c.Common().Args[idx], posOf(c), gate, depth+1); !ok {
					return false, "caller " + FuncName(caller) + ": " + why
				}
			}
		}
		if n == 0 {
			return true, "parameter of an exported entry point without callers in the module (library API: the caller supplies render values)"
		}
		return true, fmt.Sprintf("parameter; all %d callers pass a gated value", n)
	case *ssa.ChangeType:
		return gatedValue(w, fn, x.X, at, gate, depth)
	case *ssa.MakeInterface:
		return gatedValue(w, fn, x.X, at, gate, depth)
	case *ssa.Phi:
		for _, e := range x.Edges {
			if ok, why := gatedValue(w, fn, e, at, gate, depth); !ok {
				return false, why
			}
		}
		return true, "all incoming values gated"
	}
	return false, "value " + v.String() + " is not the result of the schema gate"
}

func c14RenderGated(w *World, r *Report, gate *ssa.Function) {
	n := 0
	for _, fn := range w.HelmFuncs() {
		for _, c := range callInstrs(fn) {
			callee, _ := calleeOf(c.Common())
			if !isRenderFunc(callee) {
				continue
			}
			// values argument: the one of type chartutil.Values / map
			var vals ssa.Value
			for _, a := range c.Common().Args {
				if n, ok := a.Type().(*types.Named); ok && n.Obj().Name() == "Values" {
					vals = a
				}
			}
			if vals == nil {
				continue
			}
			n++
			s := Site{fn, c, posOf(c)}
			r.Fn(FuncName(fn))
			ok, why := gatedValue(w, fn, vals, s.At, gate, 0)
			r.Check(ok, "C14/RENDER-GATED", siteKey(s), w.InstrPos(c), "render values: "+why, "templates can be rendered with values that did not pass the schema gate: "+why)
		}
	}
	if n == 0 {
		r.Unk("C14/RENDER-GATED", "no-render-call", "-", "no call of the template engine found")
	}
}

func isSkipFieldLoad(v ssa.Value) bool {
	ld, ok := v.(*ssa.UnOp)
	if !ok || ld.Op != token.MUL {
		return false
	}
	_, _, f := fieldNameOf(ld.X)
	return isSkipFieldName(f)
}

// isSkipFieldName: the skip-schema-validation option under the names it goes by (the exported action
// fields are called SkipSchemaValidation; unexported option structs may abbreviate).
func isSkipFieldName(f string) bool {
	return strings.Contains(strings.ToLower(f), "skipschema")
}

func c14SkipWiring(w *World, r *Report, gate *ssa.Function) {
	var check func(fn *ssa.Function, v ssa.Value, depth int) (bool, string)
	check = func(fn *ssa.Function, v ssa.Value, depth int) (bool, string) {
		if b, ok := constBool(v); ok {
			if b {
				return false, "the constant true"
			}
			return true, "the constant false (validation always on)"
		}
		if isSkipFieldLoad(v) {
			return true, "a SkipSchemaValidation field"
		}
		if p, ok := v.(*ssa.Parameter); ok && depth < 3 {
			idx := -1
			for i, q := range fn.Params {
				if q == p {
					idx = i
				}
			}
			n := 0
			for _, caller := range w.HelmFuncs() {
				for _, c := range callInstrs(caller) {
					callee, _ := calleeOf(c.Common())
					if origin(callee) != fn || idx >= len(c.Common().Args) {
						continue
					}
					n++
					if ok, why := check(caller, c.Common().Args[idx], depth+1); !ok {
						return false, "caller " + FuncName(caller) + " passes " + why
					}
				}
			}
			return true, fmt.Sprintf("a parameter fed by %d callers from SkipSchemaValidation fields / false", n)
		}
		if fv, ok := v.(*ssa.FreeVar); ok {
			_ = fv
			rv := resolveToParam(v)
			if rv != v {
				return check(rv.(interface{ Parent() *ssa.Function }).Parent(), rv, depth+1)
			}
		}
		return false, "an unrelated value " + v.String()
	}
	for _, fn := range w.HelmFuncs() {
		for _, c := range callInstrs(fn) {
			callee, _ := calleeOf(c.Common())
			if callee == nil || origin(callee) != gate {
				continue
			}
			args := c.Common().Args
			skip := args[len(args)-1]
			ok, why := check(fn, skip, 0)
			r.Fn(FuncName(fn))
			r.Check(ok, "C14/SKIP-WIRING", "gate-call/"+FuncName(fn), w.InstrPos(c), "skip argument is "+why, "the gate's skip argument is "+why+": validation can be switched off by something other than the skip-schema-validation option")
		}
	}
	// stores into SkipSchemaValidation fields
	for _, fn := range w.HelmFuncs() {
		for _, b := range fn.Blocks {
			for _, in := range b.Instrs {
				st, ok := in.(*ssa.Store)
				if !ok {
					continue
				}
				if _, _, f := fieldNameOf(st.Addr); !isSkipFieldName(f) {
					continue
				}
				v := st.Val
				okv := false
				why := v.String()
				if isSkipFieldLoad(v) {
					okv, why = true, "copies another SkipSchemaValidation field"
				} else if bv, isC := constBool(v); isC && !bv {
					okv, why = true, "constant false"
				} else if p, isP := v.(*ssa.Parameter); isP {
					okv, why = true, "option-setter parameter "+p.Name()
					if !strings.Contains(strings.ToLower(p.Name()), "skip") {
						okv, why = false, "parameter "+p.Name()
					}
				} else if rp := resolveToParam(v); rp != v {
					if p, isP := rp.(*ssa.Parameter); isP && strings.Contains(strings.ToLower(p.Name()), "skip") {
						okv, why = true, "option-setter parameter "+p.Name()
					}
				}
				if ld, isLd := v.(*ssa.UnOp); isLd && !okv {
					_, _, f := fieldNameOf(ld.X)
					why = "field " + f
				}
				r.Check(okv, "C14/SKIP-WIRING", "store/"+FuncName(fn), w.InstrPos(st), "SkipSchemaValidation "+why, "SkipSchemaValidation is set from "+why+": an unrelated option would disable schema validation")
			}
		}
	}
}

func c14GateBody(w *World, r *Report, gate, vas *ssa.Function) {
	g := FullGraph(gate)
	var vcall, ccall ssa.CallInstruction
	for _, c := range callInstrs(gate) {
		f, _ := calleeOf(c.Common())
		if f == nil {
			continue
		}
		if origin(f) == vas {
			vcall = c
		}
		if FuncName(origin(f)) == "pkg/chart/v2/util.CoalesceValues" {
			ccall = c
		}
	}
	if vcall == nil || ccall == nil {
		r.Bad("C14/GATE-BODY", "calls", w.Pos(gate.Pos()), "the gate no longer calls CoalesceValues and ValidateAgainstSchema")
		return
	}
	skip := gate.Params[len(gate.Params)-1]
	var skipTrue []Edge
	for _, e := range condEdges(skip) {
		if e.truth {
			skipTrue = append(skipTrue, e.Edge)
		}
	}
	guard := append(okEdgesOfCall(vcall), skipTrue...)
	okAll := true
	for _, rp := range g.classifyReturns() {
		if rp.Class != RetSuccess {
			continue
		}
		if ex, _ := g.PathExists(entryPos(gate), retPos(rp), Avoid{}.withEdges(guard...)); ex {
			okAll = false
		}
	}
	r.Check(okAll, "C14/GATE-BODY", "success-needs-validation", w.InstrPos(vcall), "every success return follows the ok-edge of ValidateAgainstSchema or the skip edge", "the gate can return success without having validated (and without skip being set)")
	// validated tree = CoalesceValues result
	coal := resultN(ccall, 0)
	arg := vcall.Common().Args[1]
	same := arg == coal || derivesOnlyFrom(arg, coal)
	r.Check(same && g.AfterOK(ccall, posOf(vcall)), "C14/GATE-BODY", "validates-coalesced", w.InstrPos(vcall), "the validated tree is the result of CoalesceValues", "the validated tree is not the coalesced values of the chart")
	// the tree handed out under "Values" is the same value
	handed := false
	for _, b := range gate.Blocks {
		for _, in := range b.Instrs {
			if mu, ok := in.(*ssa.MapUpdate); ok {
				if k, isC := constString(unwrapIface(mu.Key)); isC && k == "Values" {
					if v := unwrapIface(mu.Value); v == coal || derivesOnlyFrom(v, coal) {
						handed = true
					}
				}
			}
		}
	}
	r.Check(handed, "C14/GATE-BODY", "hands-out-validated", w.Pos(gate.Pos()), "top[\"Values\"] is the validated tree", "the tree stored under \"Values\" is not the validated one")
}

func unwrapIface(v ssa.Value) ssa.Value {
	for {
		switch x := v.(type) {
		case *ssa.MakeInterface:
			v = x.X
		case *ssa.ChangeType:
			v = x.X
		case *ssa.ChangeInterface:
			v = x.X
		default:
			return v
		}
	}
}

// derivesOnlyFrom: v is target modulo type changes.
func derivesOnlyFrom(v, target ssa.Value) bool {
	return unwrapIface(v) == unwrapIface(target)
}

func c14Recurses(w *World, r *Report, vas, vss *ssa.Function) {
	// the walk may live in vas or in a helper it calls: collect the recursive function(s)
	walkers := []*ssa.Function{vas}
	for _, c := range callInstrs(vas) {
		if f, _ := calleeOf(c.Common()); f != nil && fnPkgPath(f) == utilPkg && origin(f) != vss && origin(f) != vas {
			for _, cc := range callInstrs(f) {
				if ff, _ := calleeOf(cc.Common()); ff != nil && (origin(ff) == origin(f)) {
					walkers = append(walkers, origin(f))
				}
			}
		}
	}
	var walker *ssa.Function
	var rec []ssa.Instruction
	for _, wf := range walkers {
		for _, c := range callInstrs(wf) {
			if f, _ := calleeOf(c.Common()); f != nil && (origin(f) == wf || (wf != vas && origin(f) == vas)) {
				walker = wf
				rec = append(rec, c)
			}
		}
		if walker != nil {
			break
		}
	}
	if walker == nil {
		r.Bad("C14/RECURSES", "recursion", w.Pos(vas.Pos()), "the schema walk does not recurse into subcharts")
		return
	}
	r.Fn(FuncName(walker))
	g := FullGraph(walker)
	// error recorders: writes into a strings.Builder / appends to an error slice
	var recorders []ssa.Instruction
	for _, c := range callInstrs(walker) {
		f, _ := calleeOf(c.Common())
		if f != nil && (FuncName(f) == "(*strings.Builder).WriteString" || FuncName(f) == "(*strings.Builder).Write") {
			recorders = append(recorders, c)
		}
	}
	// the loop over Dependencies(): header = block with a cycle through the recursive call
	okLoop := false
	rc := rec[0].(ssa.CallInstruction)
	for _, H := range walker.Blocks {
		if len(H.Instrs) == 0 || H == rc.Block() {
			continue
		}
		back, _ := g.PathExists(posOf(rc), IPos{H, 0}, Avoid{})
		fwd, _ := g.PathExists(IPos{H, len(H.Instrs) - 1}, posOf(rc), Avoid{})
		if !back || !fwd {
			continue
		}
		cyc, _ := g.PathExists(IPos{H, len(H.Instrs) - 1}, IPos{H, 0}, avoidInstrs(append(append([]ssa.Instruction{}, rec...), recorders...)...))
		if !cyc {
			okLoop = true
		}
	}
	r.Check(okLoop, "C14/RECURSES", "every-dependency", w.InstrPos(rc), "every iteration over the dependencies recurses or records an error", "an iteration over the dependencies can skip a subchart without validating it or recording an error")
	// the range is over chrt.Dependencies()
	overDeps := false
	backSlice(rc.Common().Args[0], func(v ssa.Value) bool {
		if c, ok := v.(*ssa.Call); ok {
			if f, _ := calleeOf(c.Common()); f != nil && FuncName(f) == "(*pkg/chart/v2.Chart).Dependencies" {
				overDeps = true
			}
			return true
		}
		return false
	})
	r.Check(overDeps, "C14/RECURSES", "over-Dependencies", w.InstrPos(rc), "the recursion argument is an element of chrt.Dependencies()", "the recursion does not iterate chrt.Dependencies()")
	// values[subchart.Name()]
	keyed := false
	backSlice(rc.Common().Args[1], func(v ssa.Value) bool {
		if lk, ok := v.(*ssa.Lookup); ok {
			backSlice(lk.Index, func(x ssa.Value) bool {
				if c, ok := x.(*ssa.Call); ok {
					if f, _ := calleeOf(c.Common()); f != nil && FuncName(f) == "(*pkg/chart/v2.Chart).Name" {
						keyed = true
					}
					return true
				}
				return false
			})
			return true
		}
		return false
	})
	r.Check(keyed, "C14/RECURSES", "subchart-values", w.InstrPos(rc), "the subchart is validated against values[subchart.Name()]", "the subchart is not validated against its own section values[subchart.Name()]")
	// the error of the recursive call is recorded
	_, bad := nilTestEdges(errResult(rc))
	recOK := false
	for _, e := range bad {
		for _, in := range e.To().Instrs {
			for _, rcd := range recorders {
				if in == rcd {
					recOK = true
				}
			}
			if _, isRet := in.(*ssa.Return); isRet {
				recOK = true
			}
		}
	}
	r.Check(recOK, "C14/RECURSES", "subchart-error-kept", w.InstrPos(rc), "a subchart's schema error is recorded", "a subchart's schema error is dropped")
	// own schema: ValidateAgainstSingleSchema on the Schema != nil edge, error recorded
	var single ssa.CallInstruction
	for _, c := range callInstrs(walker) {
		if f, _ := calleeOf(c.Common()); f != nil && origin(f) == vss {
			single = c
		}
	}
	if single == nil {
		r.Bad("C14/RECURSES", "own-schema", w.Pos(walker.Pos()), "the walk does not validate the chart's own schema")
		return
	}
	_, bad2 := nilTestEdges(errResult(single))
	rec2 := false
	for _, e := range bad2 {
		for _, in := range e.To().Instrs {
			for _, rcd := range recorders {
				if in == rcd {
					rec2 = true
				}
			}
			if _, isRet := in.(*ssa.Return); isRet {
				rec2 = true
			}
		}
	}
	// reached whenever Schema != nil: the only guards on the way are nil tests of the Schema field
	var schemaNil []Edge
	for _, b := range walker.Blocks {
		for _, in := range b.Instrs {
			bo, ok := in.(*ssa.BinOp)
			if !ok || (bo.Op != token.NEQ && bo.Op != token.EQL) {
				continue
			}
			for _, x := range []ssa.Value{bo.X, bo.Y} {
				if ld, ok := x.(*ssa.UnOp); ok {
					if _, _, f := fieldNameOf(ld.X); f == "Schema" {
						for _, e := range condEdges(bo) {
							if e.truth == (bo.Op == token.EQL) { // Schema == nil edge
								schemaNil = append(schemaNil, e.Edge)
							}
						}
					}
				}
			}
		}
	}
	// every path from entry to the dependency loop avoids the single-schema call only via a Schema==nil edge
	ex, _ := g.PathExists(entryPos(walker), posOf(rc), Avoid{}.withEdges(schemaNil...).withInstrs(single))
	for i, rp := range g.classifyReturns() {
		if rp.Class != RetSuccess {
			continue
		}
		ex2, _ := g.PathExists(entryPos(walker), retPos(rp), Avoid{}.withEdges(schemaNil...).withInstrs(single))
		loopSeen, _ := g.PathExists(entryPos(walker), retPos(rp), avoidInstrs(dependenciesCalls(walker)...))
		r.Check(!ex2 && !loopSeen, "C14/RECURSES", fmt.Sprintf("success-return#%d", i), w.InstrPos(rp.Ret), "success is reported only after the chart's schema decision and the walk over Dependencies()", "the walk can report success for a chart without consulting its schema or visiting its dependencies (early return)")
	}
	r.Check(rec2 && !ex, "C14/RECURSES", "own-schema", w.InstrPos(single), "the chart's own schema is applied whenever it is present and its error is recorded", "the chart's own schema can be skipped although present, or its error is dropped")
}

func c14ValidateArg(w *World, r *Report, vss *ssa.Function) {
	var vc ssa.CallInstruction
	for _, c := range callInstrs(vss) {
		if f, _ := calleeOf(c.Common()); f != nil && strings.HasSuffix(FuncName(f), "jsonschema/v6.Schema).Validate") {
			vc = c
		}
	}
	if vc == nil {
		r.Bad("C14/VALIDATE-ARG", "validate-call", w.Pos(vss.Pos()), "ValidateAgainstSingleSchema does not call the schema validator")
		return
	}
	calls := map[string]bool{}
	reachesParam := false
	backSlice(vc.Common().Args[1], func(v ssa.Value) bool {
		switch x := v.(type) {
		case *ssa.Call:
			if f, _ := calleeOf(x.Common()); f != nil {
				calls[FuncName(f)] = true
				if FuncName(f) == "(pkg/chart/v2/util.Values).AsMap" {
					return false
				}
			}
			return true
		case *ssa.Parameter:
			if x == vss.Params[0] {
				reachesParam = true
			}
			return true
		}
		return false
	})
	var list []string
	ok := reachesParam
	for c := range calls {
		list = append(list, c)
		if c != "(pkg/chart/v2/util.Values).AsMap" {
			ok = false
		}
	}
	sort.Strings(list)
	r.Check(ok, "C14/VALIDATE-ARG", "validate-call", w.InstrPos(vc), "the validator receives values.AsMap() of the parameter", "the validator receives a transformed copy of the values ("+strings.Join(list, ",")+"): what is validated may differ from what is rendered")
}

func c14WritesAfterGate(w *World, r *Report, ef *Effects, gate *ssa.Function) {
	pd := w.Fn("pkg/chart/v2/util", "ProcessDependencies")
	for _, op := range []opDef{actionOps[0], actionOps[1]} {
		o := newOpCtx(w, ef, op, nil)
		if o == nil {
			continue
		}
		E := o.entry
		eg := o.real.Graph(E)
		// locate the gate call: in E or in a callee
		var anchor ssa.CallInstruction
		var anchors []ssa.CallInstruction
		var gf *ssa.Function
		var gcall ssa.CallInstruction
		for _, c := range callInstrs(E) {
			if !eg.Reachable()[c.Block()] {
				continue
			}
			f, _ := calleeOf(c.Common())
			if f == nil {
				continue
			}
			if origin(f) == gate {
				anchors = append(anchors, c)
				if anchor == nil {
					anchor, gf, gcall = c, E, c
				}
			} else if inHelm(f) && fnPkgPath(f) == actionPkg {
				for _, cc := range callInstrs(origin(f)) {
					if ff, _ := calleeOf(cc.Common()); ff != nil && origin(ff) == gate {
						anchor, gf, gcall = c, origin(f), cc
					}
				}
			}
		}
		if anchor == nil {
			r.Bad("C14/WRITES-AFTER-GATE", op.Name+"/no-gate", w.Pos(E.Pos()), op.Entry+" does not pass the schema gate")
			continue
		}
		r.Fn(FuncName(gf))
		if gf != E {
			// callee returns success only after the gate's ok edge
			gg := o.real.Graph(gf)
			okc := true
			for _, rp := range gg.classifyReturns() {
				if rp.Class == RetSuccess && !gg.AfterOK(gcall, retPos(rp)) {
					okc = false
				}
			}
			r.Check(okc, "C14/WRITES-AFTER-GATE", op.Name+"/"+FuncName(gf)+"/success-implies-gate", w.InstrPos(gcall), "the preparing function returns success only after the gate's ok-edge", "the preparing function can return success without the gate")
		}
		// dependency processing precedes the gate
		if pd != nil {
			gg := o.real.Graph(gf)
			var pdc ssa.CallInstruction
			for _, c := range callInstrs(gf) {
				if f, _ := calleeOf(c.Common()); f != nil && origin(f) == pd {
					pdc = c
				}
			}
			depsFirst := pdc != nil && gg.AfterOK(pdc, posOf(gcall))
			r.Check(depsFirst, "C14/WRITES-AFTER-GATE", op.Name+"/deps-before-gate", w.InstrPos(gcall), "ProcessDependencies (disabled subcharts removed) precedes the gate", "the gate can run before dependencies were processed: disabled subcharts would be validated / enabled ones missed")
		}
		for _, c := range callInstrs(E) {
			if c == anchor || !eg.Reachable()[c.Block()] {
				continue
			}
			e := SpecCallEffect(w, ef, o.real.Graph, c.Common(), WCluster|WStore)
			if e == 0 {
				continue
			}
			key := fmt.Sprintf("%s/%s", op.Name, siteKey(Site{E, c, posOf(c)}))
			after := eg.AfterOK(anchor, posOf(c))
			for _, a := range anchors {
				after = after || eg.AfterOK(a, posOf(c))
			}
			r.Check(after, "C14/WRITES-AFTER-GATE", key, w.InstrPos(c), fmt.Sprintf("%s follows the schema gate", e), fmt.Sprintf("%s (%s) can happen before the values passed the schema gate", e, describeCall(c.Common())))
		}
	}
}

func c14Lint(w *World, r *Report, vss *ssa.Function) {
	fn := w.Fn("pkg/lint/rules", "validateValuesFile")
	if fn == nil {
		// by role: the function of pkg/lint/rules calling ValidateAgainstSingleSchema
		for _, f := range w.FuncsIn("pkg/lint/rules") {
			for _, c := range callInstrs(f) {
				if ff, _ := calleeOf(c.Common()); ff != nil && origin(ff) == vss {
					fn = f
				}
			}
		}
	}
	if fn == nil {
		r.Bad("C14/LINT", "lint", "-", "no lint rule calls ValidateAgainstSingleSchema")
		return
	}
	r.Fn(FuncName(fn))
	g := FullGraph(fn)
	var vc ssa.CallInstruction
	for _, c := range callInstrs(fn) {
		if ff, _ := calleeOf(c.Common()); ff != nil && origin(ff) == vss {
			vc = c
		}
	}
	if vc == nil {
		r.Bad("C14/LINT", "lint", w.Pos(fn.Pos()), "the values lint rule does not call the validator")
		return
	}
	// empty-schema edges
	var empty []Edge
	for _, b := range fn.Blocks {
		for _, in := range b.Instrs {
			bo, ok := in.(*ssa.BinOp)
			if !ok {
				continue
			}
			if c, ok := bo.X.(*ssa.Call); ok {
				if bi, ok := c.Call.Value.(*ssa.Builtin); ok && bi.Name() == "len" {
					if z, ok := constInt(bo.Y); ok && z == 0 && bo.Op == token.EQL {
						for _, e := range condEdges(bo) {
							if e.truth {
								empty = append(empty, e.Edge)
							}
						}
					}
				}
			}
		}
	}
	okAll := true
	for _, rp := range g.classifyReturns() {
		if rp.Class != RetSuccess {
			continue
		}
		if ex, _ := g.PathExists(entryPos(fn), retPos(rp), Avoid{}.withEdges(empty...).withInstrs(vc)); ex {
			okAll = false
		}
	}
	r.Check(okAll, "C14/LINT", "lint", w.InstrPos(vc), "success is returned only for an empty schema file or as the validator's verdict", "the values lint rule can return success without consulting a non-empty schema")
}

func dependenciesCalls(fn *ssa.Function) []ssa.Instruction {
	var out []ssa.Instruction
	for _, c := range callInstrs(fn) {
		if f, _ := calleeOf(c.Common()); f != nil && FuncName(f) == "(*pkg/chart/v2.Chart).Dependencies" {
			out = append(out, c)
		}
	}
	return out
}

// c14LintTemplates: once the chart was loaded, the templates lint rule evaluates the schemas of the chart
// and its subcharts (the gate) before it returns — except where preparing the values failed.
func c14LintTemplates(w *World, r *Report) {
	fn := w.Fn("pkg/lint/rules", "TemplatesWithSkipSchemaValidation")
	if fn == nil {
		r.Unk("C14/LINT", "templates/anchor", "-", "lint rules.TemplatesWithSkipSchemaValidation not found")
		return
	}
	r.Fn(FuncName(fn))
	g := FullGraph(fn)
	var load, gate ssa.CallInstruction
	var exempt []Edge
	for _, c := range callInstrs(fn) {
		f, _ := calleeOf(c.Common())
		if f == nil {
			continue
		}
		switch FuncName(f) {
		case "pkg/chart/v2/loader.Load", "pkg/chart/v2/loader.LoadDir":
			load = c
		case "pkg/chart/v2/util.ToRenderValuesWithSchemaValidation":
			gate = c
		case "pkg/chart/v2/util.ProcessDependencies", "pkg/chart/v2/util.CoalesceValues":
			_, bad := nilTestEdges(errResult(c))
			exempt = append(exempt, bad...)
		}
	}
	if load == nil || gate == nil {
		r.Bad("C14/LINT", "templates/gate", w.Pos(fn.Pos()), "the templates lint rule no longer loads the chart and evaluates its schemas")
		return
	}
	// the chart counts as loaded on the ok edges of the load's error (directly, or as reported through RunLinterRule)
	oks := okEdgesOfCall(load)
	bad := ""
	for _, e := range oks {
		if len(e.To().Instrs) == 0 {
			continue
		}
		for _, b := range fn.Blocks {
			if len(b.Instrs) == 0 || !g.Reachable()[b] {
				continue
			}
			ret, ok := b.Instrs[len(b.Instrs)-1].(*ssa.Return)
			if !ok {
				continue
			}
			if ex, _ := g.PathExists(IPos{e.To(), -1}, posOf(ret), avoidInstrs(gate).withEdges(exempt...)); ex {
				bad = w.InstrPos(ret)
			}
		}
	}
	r.Check(bad == "" && len(oks) > 0, "C14/LINT", "templates/gate-on-every-path", w.InstrPos(gate), "after the chart was loaded every return of the rule lies behind the schema gate (or a failed values preparation)", "the templates lint rule can return (at "+bad+") after loading the chart without having evaluated the schemas: values that violate a subchart's schema pass `helm lint`")
}
