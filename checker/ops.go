package main

// ops.go — shared model of the four release operations of pkg/action.

import (
	"go/types"

	"golang.org/x/tools/go/ssa"
)

type OpCtx struct {
	w      *World
	ef     *Effects
	op     opDef
	entry  *ssa.Function
	obj    *types.Named
	real   *Spec // specialised to a real (non-dry-run) run
	create *types.Func
	update *types.Func
	hasCr  map[*ssa.Function]bool
}

var storagePkg = helmMod + "/pkg/storage"

func realSpecFor(w *World, op opDef, extra map[string]aval) *Spec {
	obj := w.Named(actionPkg, op.Type)
	fields := map[string]aval{"DryRun": boolV(false)}
	for k, v := range extra {
		fields[k] = v
	}
	s := NewSpec(w, obj, "real-run", fields)
	if op.HasOpt {
		s.NotIn = map[string]map[string]bool{"DryRunOption": {"client": true, "server": true, "true": true}}
	}
	return s
}

func newOpCtx(w *World, ef *Effects, op opDef, extra map[string]aval) *OpCtx {
	o := &OpCtx{w: w, ef: ef, op: op, hasCr: map[*ssa.Function]bool{}}
	o.entry = w.Fn("pkg/action", op.Entry)
	o.obj = w.Named(actionPkg, op.Type)
	o.create = w.TFunc(storagePkg, "Storage.Create")
	o.update = w.TFunc(storagePkg, "Storage.Update")
	if o.entry == nil || o.obj == nil || o.create == nil || o.update == nil {
		return nil
	}
	o.real = realSpecFor(w, op, extra)
	return o
}

// isCreateLeaf: the call is (*storage.Storage).Create.
func (o *OpCtx) isCreateLeaf(c *ssa.CallCommon) bool {
	_, tf := calleeOf(c)
	return sameTFunc(tf, o.create)
}

// calleeFuncs: functions a call may transfer control to (static callee, closure args, go/defer target).
func calleeFuncs(c *ssa.CallCommon) []*ssa.Function {
	var out []*ssa.Function
	if f, _ := calleeOf(c); f != nil && inHelm(f) {
		out = append(out, f)
	}
	for _, a := range c.Args {
		if mc, ok := a.(*ssa.MakeClosure); ok {
			if f, ok := mc.Fn.(*ssa.Function); ok {
				out = append(out, f)
			}
		}
	}
	return out
}

// coneHasCreate: the real-run cone of fn contains a Storage.Create call.
func (o *OpCtx) coneHasCreate(fn *ssa.Function) bool {
	fn = origin(fn)
	if v, ok := o.hasCr[fn]; ok {
		return v
	}
	o.hasCr[fn] = false
	res := false
	seen := map[*ssa.Function]bool{}
	var walk func(f *ssa.Function)
	walk = func(f *ssa.Function) {
		f = origin(f)
		if seen[f] || res || len(f.Blocks) == 0 {
			return
		}
		seen[f] = true
		g := o.real.Graph(f)
		for _, b := range f.Blocks {
			if !g.Reachable()[b] {
				continue
			}
			for _, in := range b.Instrs {
				switch in := in.(type) {
				case ssa.CallInstruction:
					if o.isCreateLeaf(in.Common()) {
						res = true
						return
					}
					for _, cf := range calleeFuncs(in.Common()) {
						// do not look inside nested operations (Rollback.Run / Uninstall.Run started by failRelease)
						if o.isOtherOpEntry(cf) {
							continue
						}
						walk(cf)
					}
				case *ssa.MakeClosure:
					if cf, ok := in.Fn.(*ssa.Function); ok {
						walk(cf)
					}
				}
			}
		}
	}
	walk(fn)
	o.hasCr[fn] = res
	return res
}

// isOtherOpEntry: fn is the entry method of another operation (a nested operation with its own record).
func (o *OpCtx) isOtherOpEntry(fn *ssa.Function) bool {
	for _, op := range actionOps {
		if op.Name == o.op.Name {
			continue
		}
		if e := o.w.Fn("pkg/action", op.Entry); e != nil && origin(fn) == e {
			return true
		}
	}
	if e := o.w.Fn("pkg/action", "Install.Run"); e != nil && origin(fn) == e && o.op.Name != "install" {
		return true
	}
	return false
}

// creatorFunc returns the function of the operation that contains the Storage.Create leaf and the
// call chain entry → … → creator (each element: the call instruction in the previous function).
func (o *OpCtx) creatorChain() (fns []*ssa.Function, calls []ssa.CallInstruction, leaf ssa.CallInstruction) {
	cur := o.entry
	for depth := 0; depth < 8; depth++ {
		fns = append(fns, cur)
		g := o.real.Graph(cur)
		var next *ssa.Function
		var via ssa.CallInstruction
		for _, c := range callInstrs(cur) {
			if !g.Reachable()[c.Block()] {
				continue
			}
			if o.isCreateLeaf(c.Common()) {
				return fns, calls, c
			}
			for _, cf := range calleeFuncs(c.Common()) {
				if !o.isOtherOpEntry(cf) && o.coneHasCreate(cf) && next == nil {
					next, via = cf, c
				}
			}
		}
		if next == nil {
			return fns, calls, nil
		}
		calls = append(calls, via)
		cur = origin(next)
	}
	return fns, calls, nil
}

// Cone walks the operation's own real-run cone (nested operations started by failure handling are
// separate operations with their own records and are not descended into).
func (o *OpCtx) Cone(mask Eff) *Cone {
	return WalkConeSkip(o.w, o.ef, o.entry, o.real.Graph, mask, o.isOtherOpEntry)
}
