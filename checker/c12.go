package main

// C12 — hooks run in weight order, gate the operation, honour delete policies (structural part).

import (
	"fmt"
	"go/token"
	"go/types"
	"strings"

	"golang.org/x/tools/go/ssa"
)

func init() {
	register(&propDef{
		ID:      "C12",
		Anchors: []string{"pkg/action/hooks.go", "pkg/action/install.go", "pkg/action/upgrade.go", "pkg/action/rollback.go", "pkg/action/uninstall.go", "pkg/release/util/manifest_sorter.go", "pkg/release/v1/hook.go"},
		NotDec:  []string{"the observed order of requests at the API server", "LastRun bookkeeping values", "hook selection by event for arbitrary annotation strings"},
		Run:     runC12,
	})
}

const kubePkg = helmMod + "/pkg/kube"

func runC12(w *World, r *Report) {
	ef := NewEffects(w)
	r.Rule("C12/ORDER", "the hook executor sorts with a stable sort whose comparator is (Weight, then Name) ascending, runs hooks sequentially, and per hook: before-hook-creation deletion → create → wait; the next hook is reached only from the ok-edges of create and wait", 6)
	r.Rule("C12/DEFAULT-POLICY", "an empty delete-policy list is replaced by [before-hook-creation] before the first deletion test", 1)
	r.Rule("C12/POLICY-DELETE", "deletion happens only through the policy-testing deleter (guarded by the policy test, never for CRDs); on a hook failure every path to the return passes the deleter for hook-failed and for the previous hooks' hook-succeeded; after overall success every hook passes the deleter for hook-succeeded; all failure edges return non-nil", 8)
	r.Rule("C12/GATE", "with hooks enabled the pre-hook precedes every cluster write on manifest resources and its error edge reaches no such write; post-hook errors reach an error exit; with hooks disabled no hook executor call is reachable", 12)

	exec := c12FindExecHook(w)
	if exec == nil {
		r.Unk("C12/ORDER", "anchor", "-", "no function in pkg/action calls Waiter.WatchUntilReady: the hook executor was not found")
		return
	}
	r.Fn(FuncName(exec))
	c12Order(w, r, ef, exec)
	c12Policy(w, r, ef, exec)
	c12Gate(w, r, ef, exec)
	c12HookSource(w, r, exec)
	c12PrefixOfRunList(w, r, exec)
	c12WeightParse(w, r)
	r.Rule("C12/ERR-COLLECT", "where a hook failure is collected into a list of errors instead of being returned at once, the operation's success return is reached only where that list is empty", 1)
	errCollect(w, r, "C12/ERR-COLLECT", []string{"pkg/action"}, func(fn *ssa.Function) bool {
		for _, c := range callInstrs(fn) {
			if f, _ := calleeOf(c.Common()); f != nil && origin(f) == exec {
				return true
			}
		}
		return false
	})
	r.Rule("C12/WIRING", "DisableHooks is never fed from a differently named option and is carried into the operations started on behalf of another (upgrade --install, atomic rollback/uninstall)", 3)
	checkWiring(w, r, "C12/WIRING", map[string]bool{"DisableHooks": true})
	checkCarried(w, r, "C12/WIRING", []string{"DisableHooks"})
	checkFlagBinding(w, r, "C12/WIRING", map[string]bool{"DisableHooks": true})
	r.Rule("C12/NO-ALIASING", "the hooks selected for an event are collected into a fresh list: the release's own hook list is never filtered in place", 1)
	checkInPlaceFilters(w, r, "C12/NO-ALIASING", []string{"pkg/action", "pkg/release/util"})
}

func c12FindExecHook(w *World) *ssa.Function {
	watch := w.TFunc(kubePkg, "Waiter.WatchUntilReady")
	var found *ssa.Function
	for _, fn := range w.FuncsIn("pkg/action") {
		if fn.Parent() != nil {
			continue
		}
		if len(SitesOf([]*ssa.Function{fn}, watch)) > 0 {
			// the executor takes a release and a hook event
			for _, p := range fn.Params {
				if isNamedPtr(p.Type(), relPkg, "Release") {
					found = fn
				}
			}
		}
	}
	return found
}

func fieldLoadOfIndexed(v ssa.Value, field string) (base ssa.Value, idx ssa.Value, ok bool) {
	// *(&(*(&x[i])).Field)
	ld, isLd := v.(*ssa.UnOp)
	if !isLd || ld.Op != token.MUL {
		return nil, nil, false
	}
	fa, isFa := ld.X.(*ssa.FieldAddr)
	if !isFa {
		return nil, nil, false
	}
	if _, _, f := fieldNameOf(fa); f != field {
		return nil, nil, false
	}
	el, isEl := fa.X.(*ssa.UnOp)
	if !isEl || el.Op != token.MUL {
		// comparator form func(a, b *Hook): base is the parameter itself
		if p, isP := fa.X.(*ssa.Parameter); isP {
			return p, p, true
		}
		return nil, nil, false
	}
	ia, isIa := el.X.(*ssa.IndexAddr)
	if !isIa {
		return nil, nil, false
	}
	return ia.X, ia.Index, true
}

// lessIsWeightThenName: Less(i,j) returns x[i].Weight < x[j].Weight, except on the edge where the
// weights are equal, where it returns x[i].Name < x[j].Name.
func lessIsWeightThenName(less *ssa.Function) (bool, string) {
	if len(less.Params) < 3 {
		return false, "comparator has an unexpected signature"
	}
	pi, pj := ssa.Value(less.Params[1]), ssa.Value(less.Params[2])
	isLT := func(v ssa.Value, field string) bool {
		bo, ok := v.(*ssa.BinOp)
		if !ok || bo.Op != token.LSS {
			return false
		}
		_, ix, ok1 := fieldLoadOfIndexed(bo.X, field)
		_, iy, ok2 := fieldLoadOfIndexed(bo.Y, field)
		return ok1 && ok2 && ix == pi && iy == pj
	}
	// what is known about Weight(i) against Weight(j) on the way to each return
	isW := func(idx ssa.Value) func(ssa.Value) bool {
		return func(v ssa.Value) bool {
			_, ix, ok := fieldLoadOfIndexed(v, "Weight")
			return ok && ix == idx
		}
	}
	rels := relEdges(less, isW(pi), isW(pj))
	if len(rels) == 0 {
		return false, "comparator never compares the weights of the two hooks"
	}
	byRel := map[token.Token][]Edge{}
	for _, e := range rels {
		byRel[e.Rel] = append(byRel[e.Rel], e.Edge)
	}
	g := FullGraph(less)
	known := func(at IPos) map[token.Token]bool {
		k := map[token.Token]bool{}
		for rel, es := range byRel {
			if ex, _ := g.PathExists(entryPos(less), at, Avoid{}.withEdges(es...)); !ex {
				k[rel] = true
			}
		}
		if k[token.LSS] || k[token.GTR] {
			k[token.NEQ] = true
		}
		if k[token.LSS] {
			k[token.LEQ] = true
		}
		if k[token.GTR] {
			k[token.GEQ] = true
		}
		if k[token.LEQ] && k[token.GEQ] {
			k[token.EQL] = true
		}
		if k[token.EQL] {
			k[token.LEQ], k[token.GEQ] = true, true
		}
		return k
	}
	nW, nN := 0, 0
	var judge func(v ssa.Value, at IPos, d int) (bool, string)
	judge = func(v ssa.Value, at IPos, d int) (bool, string) {
		k := known(at)
		if cb, isC := constBool(v); isC {
			if cb && k[token.LSS] {
				nW++
				return true, ""
			}
			if !cb && k[token.GTR] {
				nW++
				return true, ""
			}
			return false, "a constant result is returned where the weights are not known to be ordered that way"
		}
		switch {
		case isLT(v, "Weight"):
			if !k[token.NEQ] {
				return false, "Weight comparison is returned also when weights are equal"
			}
			nW++
			return true, ""
		case isLT(v, "Name"):
			if !k[token.EQL] {
				return false, "Name comparison is returned also when weights differ"
			}
			nN++
			return true, ""
		}
		if phi, ok := v.(*ssa.Phi); ok && d < 3 {
			for i, e := range phi.Edges {
				p := phi.Block().Preds[i]
				if len(p.Instrs) == 0 || !g.Reachable()[p] {
					continue
				}
				if ok2, why := judge(e, IPos{p, len(p.Instrs) - 1}, d+1); !ok2 {
					return false, why
				}
			}
			return true, ""
		}
		return false, "comparator returns something other than the weight order or, for equal weights, the name order: " + v.String()
	}
	for _, b := range less.Blocks {
		if len(b.Instrs) == 0 || !g.Reachable()[b] {
			continue
		}
		ret, ok := b.Instrs[len(b.Instrs)-1].(*ssa.Return)
		if !ok {
			continue
		}
		if ok2, why := judge(ret.Results[0], posOf(ret), 0); !ok2 {
			return false, why
		}
	}
	if nW == 0 || nN == 0 {
		return false, "comparator lacks the weight or the name comparison: ties are not ordered by name"
	}
	return true, "Less = (Weight ascending, ties by Name ascending)"
}

func c12Order(w *World, r *Report, ef *Effects, exec *ssa.Function) {
	g := FullGraph(exec)
	// sort call
	var sortCall ssa.CallInstruction
	sortName := ""
	findSort := func(fn *ssa.Function) {
		for _, c := range callInstrs(fn) {
			f, _ := calleeOf(c.Common())
			if f == nil {
				continue
			}
			p := fnPkgPath(f)
			name := origin(f).Name()
			if (p == "sort" || p == "slices") && (strings.Contains(name, "Sort") || strings.Contains(name, "Stable") || strings.Contains(name, "Slice")) {
				sortCall, sortName = c, p+"."+name
			}
		}
	}
	findSort(exec)
	if sortCall == nil {
		// a helper of the executor that receives the hook slice
		for _, c := range callInstrs(exec) {
			if f, _ := calleeOf(c.Common()); f != nil && inHelm(f) && sortCall == nil {
				for _, a := range c.Common().Args {
					if sl, ok := a.Type().Underlying().(*types.Slice); ok && isNamedPtr(sl.Elem(), relPkg, "Hook") {
						findSort(f)
					}
				}
			}
		}
	}
	if sortCall == nil {
		r.Bad("C12/ORDER", "sort", w.Pos(exec.Pos()), "the hook executor does not sort the selected hooks")
	} else {
		stable := sortName == "sort.Stable" || sortName == "sort.SliceStable" || sortName == "slices.SortStableFunc"
		r.Check(stable, "C12/ORDER", "sort/stable", w.InstrPos(sortCall), "hooks are sorted with "+sortName+" (stable: kind/file order kept among full ties)", "hooks are sorted with the unstable "+sortName)
		// comparator
		okc, why := false, "comparator not recognised for "+sortName
		if sortName == "sort.Stable" || sortName == "sort.Sort" {
			arg := sortCall.Common().Args[0]
			if mi, ok := arg.(*ssa.MakeInterface); ok {
				t := mi.X.Type()
				ms := w.Prog.MethodSets.MethodSet(t)
				for i := 0; i < ms.Len(); i++ {
					if ms.At(i).Obj().Name() == "Less" {
						less := w.Prog.MethodValue(ms.At(i))
						if less != nil {
							r.Fn(FuncName(less))
							okc, why = lessIsWeightThenName(less)
						}
					}
				}
			}
		} else if len(sortCall.Common().Args) >= 2 {
			okc, why = cmpFuncIsWeightThenName(sortCall.Common().Args[1])
		}
		r.Check(okc, "C12/ORDER", "sort/comparator", w.InstrPos(sortCall), why, why)
	}
	// sequential
	hasGo := false
	for _, fn := range withAnon(exec) {
		for _, b := range fn.Blocks {
			for _, in := range b.Instrs {
				if _, ok := in.(*ssa.Go); ok {
					hasGo = true
				}
			}
		}
	}
	r.Check(!hasGo, "C12/ORDER", "sequential", w.Pos(exec.Pos()), "the executor starts no goroutine: hooks run one at a time", "the executor starts goroutines: hooks may overlap")

	create := SitesOf([]*ssa.Function{exec}, w.TFunc(kubePkg, "Interface.Create"))
	watch := SitesOf([]*ssa.Function{exec}, w.TFunc(kubePkg, "Waiter.WatchUntilReady"))
	if len(create) != 1 || len(watch) != 1 {
		r.Unk("C12/ORDER", "create-wait", w.Pos(exec.Pos()), fmt.Sprintf("expected one Create and one WatchUntilReady site in the executor, found %d and %d", len(create), len(watch)))
		return
	}
	cr, wa := create[0], watch[0]
	r.Check(g.AfterOK(cr.Instr, wa.At), "C12/ORDER", "wait-after-create-ok", w.InstrPos(wa.Instr), "WatchUntilReady is reached only after Create returned without error", "WatchUntilReady can be reached although the hook's Create failed (or without Create)")
	// from Create's error edges: no way to the wait, to the next create, or to a success return
	_, crBad := nilTestEdges(errResult(cr.Instr))
	crOK := okEdgesOfCall(cr.Instr)
	toWait, _ := g.PathExists(cr.At, wa.At, Avoid{}.withEdges(crOK...))
	r.Check(!toWait && len(crBad) > 0, "C12/ORDER", "create-error-stops", w.InstrPos(cr.Instr), "after a failed Create the executor reaches neither the wait nor the next hook", "after a failed Create the executor can still wait for / continue with hooks (the hook never ran, yet later hooks and the operation proceed)")
	waOK := okEdgesOfCall(wa.Instr)
	next, _ := g.PathExists(wa.At, cr.At, Avoid{}.withEdges(waOK...))
	r.Check(!next && len(waOK) > 0, "C12/ORDER", "next-hook-only-after-ready", w.InstrPos(wa.Instr), "the next hook's Create is reachable from the wait only through its ok-edge", "the next hook can be created although the previous one failed its wait")
	// success returns are not reachable from either error edge
	for i, rp := range g.classifyReturns() {
		if rp.Class != RetSuccess {
			continue
		}
		to := retPos(rp)
		if rp.Pred != nil {
			to = IPos{rp.Pred, len(rp.Pred.Instrs) - 1}
		}
		a, _ := g.PathExists(cr.At, to, Avoid{}.withEdges(crOK...))
		b, _ := g.PathExists(wa.At, to, Avoid{}.withEdges(waOK...))
		r.Check(!a && !b, "C12/ORDER", fmt.Sprintf("success-return#%d", i), w.InstrPos(rp.Ret), "this success return is not reachable after a failed create or wait", "the executor can return success after a hook's create or wait failed")
	}
}

// cmpFuncIsWeightThenName: comparator func(a, b) int of the slices package: compares Weight, then Name.
func cmpFuncIsWeightThenName(v ssa.Value) (bool, string) {
	var f *ssa.Function
	switch x := v.(type) {
	case *ssa.Function:
		f = x
	case *ssa.MakeClosure:
		f, _ = x.Fn.(*ssa.Function)
	}
	if f == nil || len(f.Params) != 2 {
		return false, "comparator function not resolvable"
	}
	// collect compare calls on fields
	fields := map[string]bool{}
	for _, b := range f.Blocks {
		for _, in := range b.Instrs {
			c, ok := in.(*ssa.Call)
			if !ok || len(c.Call.Args) != 2 {
				continue
			}
			for _, fld := range []string{"Weight", "Name"} {
				_, ix, ok1 := fieldLoadOfIndexed(c.Call.Args[0], fld)
				_, iy, ok2 := fieldLoadOfIndexed(c.Call.Args[1], fld)
				if ok1 && ok2 && ix == ssa.Value(f.Params[0]) && iy == ssa.Value(f.Params[1]) {
					fields[fld] = true
				}
			}
		}
	}
	if fields["Weight"] && fields["Name"] {
		return true, "comparator compares Weight and Name of (a, b)"
	}
	return false, "comparator does not compare both Weight and Name: ties by weight are not ordered by name"
}

// ---- policy deletion --------------------------------------------------------------------------

type deleterInfo struct {
	fn        *ssa.Function
	policyIdx int
}

func hookPolicyParam(fn *ssa.Function) int {
	for i, p := range fn.Params {
		if n, ok := p.Type().(*types.Named); ok && n.Obj().Pkg() != nil && n.Obj().Pkg().Path() == relPkg && n.Obj().Name() == "HookDeletePolicy" {
			return i
		}
	}
	return -1
}

// totalDeleters: functions with a HookDeletePolicy parameter that delete-by-policy on every path:
// the base deleter (contains the guarded kube Delete), and wrappers that call a deleter with the
// parameter forwarded on every path to a success return (loops over hooks count: the call is in the
// loop body and the loop is entered from a dominating header).
func totalDeleters(w *World, ef *Effects, r *Report) map[*ssa.Function]int {
	out := map[*ssa.Function]int{}
	del := w.TFunc(kubePkg, "Interface.Delete")
	// base
	for _, fn := range w.FuncsIn("pkg/action") {
		pi := hookPolicyParam(fn)
		if pi < 0 || fn.Parent() != nil {
			continue
		}
		sites := SitesOf([]*ssa.Function{fn}, del)
		if len(sites) == 0 {
			continue
		}
		g := FullGraph(fn)
		okAll := true
		for _, s := range sites {
			// guarded by a policy predicate call taking the policy parameter
			var trueEdges []Edge
			for _, c := range callInstrs(fn) {
				cc, isCall := c.(*ssa.Call)
				if !isCall {
					continue
				}
				if b, ok := cc.Type().Underlying().(*types.Basic); !ok || b.Kind() != types.Bool {
					continue
				}
				uses := false
				for _, a := range cc.Call.Args {
					if a == ssa.Value(fn.Params[pi]) {
						uses = true
					}
				}
				if !uses {
					continue
				}
				if callee, _ := calleeOf(cc.Common()); callee == nil || !(policyPredicate(callee) || (fnPkgPath(callee) == "slices" && genericName(callee) == "Contains")) {
					continue
				}
				for _, e := range condEdges(cc) {
					if e.truth {
						trueEdges = append(trueEdges, e.Edge)
					}
				}
			}
			ex, _ := g.PathExists(entryPos(fn), s.At, Avoid{}.withEdges(trueEdges...))
			guarded := !ex && len(trueEdges) > 0
			// never for CRDs
			var notCRD []Edge
			for _, b := range fn.Blocks {
				for _, in := range b.Instrs {
					bo, ok := in.(*ssa.BinOp)
					if !ok || (bo.Op != token.EQL && bo.Op != token.NEQ) {
						continue
					}
					sx, okx := constString(bo.X)
					sy, oky := constString(bo.Y)
					if (okx && sx == "CustomResourceDefinition") || (oky && sy == "CustomResourceDefinition") {
						for _, e := range condEdges(bo) {
							if e.truth == (bo.Op == token.NEQ) {
								notCRD = append(notCRD, e.Edge)
							}
						}
					}
				}
			}
			ex2, _ := g.PathExists(entryPos(fn), s.At, Avoid{}.withEdges(notCRD...))
			crdSafe := !ex2 && len(notCRD) > 0
			r.Check(guarded, "C12/POLICY-DELETE", FuncName(fn)+"/delete-guarded-by-policy", w.InstrPos(s.Instr), "the hook's resources are deleted only on the true edge of the policy test", "the hook's resources can be deleted without the hook carrying the requested delete policy")
			r.Check(crdSafe, "C12/POLICY-DELETE", FuncName(fn)+"/never-crd", w.InstrPos(s.Instr), "deletion is unreachable for hooks of kind CustomResourceDefinition", "a CustomResourceDefinition hook can be deleted")
			okAll = okAll && guarded
		}
		// the base deleter must reach the policy test on every path (apart from the CRD bail-out): accept
		if okAll {
			out[fn] = pi
			r.Fn(FuncName(fn))
		}
	}
	// wrappers (fixpoint, 3 rounds)
	for round := 0; round < 3; round++ {
		for _, fn := range w.FuncsIn("pkg/action") {
			if _, done := out[fn]; done || fn.Parent() != nil {
				continue
			}
			pi := hookPolicyParam(fn)
			if pi < 0 {
				continue
			}
			g := FullGraph(fn)
			var calls []ssa.Instruction
			for _, c := range callInstrs(fn) {
				f, _ := calleeOf(c.Common())
				if f == nil {
					continue
				}
				if idx, ok := out[origin(f)]; ok && idx < len(c.Common().Args) && c.Common().Args[idx] == ssa.Value(fn.Params[pi]) {
					calls = append(calls, c)
				}
			}
			if len(calls) == 0 {
				continue
			}
			// straight-line wrapper: every success return passes a call; loop wrapper: the call sits in a loop over a slice parameter
			total := true
			for _, rp := range g.classifyReturns() {
				// every return — also an error return — must come after a deletion attempt: a wrapper
				// that can give up before calling the deleter does not apply the policy on that path
				if ex, _ := g.PathExists(entryPos(fn), retPos(rp), avoidInstrs(calls...)); ex {
					total = false
				}
			}
			if !total {
				total = loopBodyAlwaysCalls(g, calls)
			}
			if total {
				out[fn] = pi
				r.Fn(FuncName(fn))
			}
		}
	}
	return out
}

// policyPredicate: a function returning bool whose body only compares/loops (no effects) — e.g. hookHasDeletePolicy.
func policyPredicate(fn *ssa.Function) bool {
	if !inHelm(fn) {
		return false
	}
	for _, b := range fn.Blocks {
		for _, in := range b.Instrs {
			switch in.(type) {
			case *ssa.Store, *ssa.Send, *ssa.Go, *ssa.Defer, *ssa.MapUpdate:
				return false
			}
		}
	}
	return true
}

// loopBodyAlwaysCalls: the calls sit in a loop body, and every path from the loop's body entry back to
// the loop header (next iteration) passes one of them.
func loopBodyAlwaysCalls(g *Graph, calls []ssa.Instruction) bool {
	if len(calls) == 0 {
		return false
	}
	cb := calls[0].Block()
	// loop header: a block H from which cb is reachable and which is reachable from cb
	for _, H := range g.Fn.Blocks {
		if H == cb || !g.Reachable()[H] || len(H.Instrs) == 0 {
			continue
		}
		if back, _ := g.PathExists(posOf(calls[0]), IPos{H, 0}, Avoid{}); !back {
			continue
		}
		if fwd, _ := g.PathExists(IPos{H, len(H.Instrs) - 1}, posOf(calls[0]), Avoid{}); !fwd {
			continue
		}
		// H must be a loop header in the sense that it has a successor leaving towards a return without the body
		// every cycle H → … → H passes a call
		if cyc, _ := g.PathExists(IPos{H, len(H.Instrs) - 1}, IPos{H, 0}, avoidInstrs(calls...)); !cyc {
			return true
		}
	}
	return false
}

func constPolicyArg(c ssa.CallInstruction, idx int) string {
	if idx >= len(c.Common().Args) {
		return ""
	}
	s, _ := constString(c.Common().Args[idx])
	return s
}

func c12Policy(w *World, r *Report, ef *Effects, exec *ssa.Function) {
	g := FullGraph(exec)
	deleters := totalDeleters(w, ef, r)
	if len(deleters) == 0 {
		r.Unk("C12/POLICY-DELETE", "no-deleter", w.Pos(exec.Pos()), "no policy-testing deleter found in pkg/action")
		return
	}
	// deleter calls in the executor by policy constant
	byPolicy := map[string][]ssa.CallInstruction{}
	for _, c := range callInstrs(exec) {
		f, _ := calleeOf(c.Common())
		if f == nil {
			continue
		}
		if idx, ok := deleters[origin(f)]; ok {
			byPolicy[constPolicyArg(c, idx)] = append(byPolicy[constPolicyArg(c, idx)], c)
		}
	}
	// all deletion of hook resources in the executor's cone goes through a deleter
	del := w.TFunc(kubePkg, "Interface.Delete")
	for _, s := range SitesOf(withAnon(exec), del) {
		r.Bad("C12/POLICY-DELETE", "direct-delete/"+siteKey(s), w.InstrPos(s.Instr), "the executor deletes resources directly, not through the policy-testing deleter")
	}
	// the three policy constants declared in the release package
	rel := w.Pkg(relPkg)
	var policies []string
	for _, name := range rel.Types.Scope().Names() {
		if c, ok := rel.Types.Scope().Lookup(name).(*types.Const); ok {
			if n, ok := c.Type().(*types.Named); ok && n.Obj().Name() == "HookDeletePolicy" {
				policies = append(policies, strings.Trim(c.Val().ExactString(), "\""))
			}
		}
	}
	for _, p := range policies {
		r.Check(len(byPolicy[p]) > 0, "C12/POLICY-DELETE", "policy-used:"+p, w.Pos(exec.Pos()), fmt.Sprintf("the executor calls a total deleter with policy %q (%d sites)", p, len(byPolicy[p])), fmt.Sprintf("the executor never applies delete policy %q through a deleter that tests and deletes on every path", p))
	}
	create := SitesOf([]*ssa.Function{exec}, w.TFunc(kubePkg, "Interface.Create"))
	watch := SitesOf([]*ssa.Function{exec}, w.TFunc(kubePkg, "Waiter.WatchUntilReady"))
	if len(create) != 1 || len(watch) != 1 {
		return
	}
	cr, wa := create[0], watch[0]
	// before-hook-creation deletion dominates Create, through its ok edge
	okb := false
	for _, c := range byPolicy["before-hook-creation"] {
		if g.AfterOK(c, cr.At) {
			okb = true
		}
	}
	r.Check(okb, "C12/POLICY-DELETE", "before-creation-precedes-create", w.InstrPos(cr.Instr), "the hook's Create follows the ok-edge of the before-hook-creation deletion", "the hook is created without (successfully) applying the before-hook-creation policy first")
	// failure edge of the wait: every path to a return passes deleter(hook-failed) and deleter(hook-succeeded) for the previous hooks
	waOK := okEdgesOfCall(wa.Instr)
	var failed, succ []ssa.Instruction
	for _, c := range byPolicy["hook-failed"] {
		failed = append(failed, c)
	}
	sccs := sccOf(exec)
	for _, c := range byPolicy["hook-succeeded"] {
		succ = append(succ, c)
		// the deleter applied in a loop of its own over the hooks that had succeeded (the wrapper that
		// hid this loop was folded in): going through that loop — which may have nothing to do — counts
		comp := sccs[c.Block()]
		if len(comp) > 1 {
			inComp := map[*ssa.BasicBlock]bool{}
			for _, b := range comp {
				inComp[b] = true
			}
			if !inComp[wa.Instr.Block()] {
				for _, b := range comp {
					for _, p := range b.Preds {
						if !inComp[p] && len(b.Instrs) > 0 {
							succ = append(succ, b.Instrs[0])
						}
					}
				}
			}
		}
	}
	n := 0
	for _, b := range exec.Blocks {
		if len(b.Instrs) == 0 {
			continue
		}
		ret, ok := b.Instrs[len(b.Instrs)-1].(*ssa.Return)
		if !ok {
			continue
		}
		if reach, _ := g.PathExists(wa.At, posOf(ret), Avoid{}.withEdges(waOK...)); !reach {
			continue
		}
		n++
		a, _ := g.PathExists(wa.At, posOf(ret), Avoid{}.withEdges(waOK...).withInstrs(failed...))
		b2, _ := g.PathExists(wa.At, posOf(ret), Avoid{}.withEdges(waOK...).withInstrs(succ...))
		r.Check(!a && len(failed) > 0, "C12/POLICY-DELETE", fmt.Sprintf("on-failure/hook-failed/return#%d", n), w.InstrPos(ret), "after a failed wait this return is reached only through the hook-failed deleter", "after a failed wait the executor can return without applying the hook-failed delete policy")
		r.Check(!b2 && len(succ) > 0, "C12/POLICY-DELETE", fmt.Sprintf("on-failure/previous-succeeded/return#%d", n), w.InstrPos(ret), "after a failed wait this return is reached only through the hook-succeeded deleter for the hooks that had succeeded", "after a failed wait the executor can return without applying hook-succeeded to the hooks that had succeeded")
	}
	if n == 0 {
		r.Unk("C12/POLICY-DELETE", "on-failure/no-return", w.InstrPos(wa.Instr), "no return reachable from the wait's error edge")
	}
	// success: a hook-succeeded deleter call in a loop all of whose iterations pass it, and every success return is dominated by that loop's header
	var succLoop []ssa.Instruction
	for _, c := range byPolicy["hook-succeeded"] {
		if reach, _ := g.PathExists(wa.At, posOf(c), Avoid{}.withEdges(waOK...)); reach {
			continue // the failure-path one
		}
		succLoop = append(succLoop, c)
	}
	okLoop := len(succLoop) > 0 && loopBodyAlwaysCalls(g, succLoop)
	if len(succLoop) == 0 {
		// range-over-func form: for _, h := range slices.Backward(hooks) { … } — the body is the yield
		// function handed to the iterator; it must apply the deleter on every path and never stop early
		for _, c := range callInstrs(exec) {
			seq, isCall := c.Common().Value.(*ssa.Call)
			if !isCall || len(c.Common().Args) != 1 {
				continue
			}
			sf, _ := calleeOf(seq.Common())
			if sf == nil || fnPkgPath(sf) != "slices" || (genericName(sf) != "Backward" && genericName(sf) != "All" && genericName(sf) != "Values") {
				continue
			}
			mc, isMC := c.Common().Args[0].(*ssa.MakeClosure)
			if !isMC {
				continue
			}
			yf, _ := mc.Fn.(*ssa.Function)
			if yf == nil || len(yf.Blocks) == 0 {
				continue
			}
			// only on the success path (not reachable from the failed wait)
			if reach, _ := g.PathExists(wa.At, posOf(c), Avoid{}.withEdges(waOK...)); reach {
				continue
			}
			var dels []ssa.Instruction
			for _, yc := range callInstrs(yf) {
				if f, _ := calleeOf(yc.Common()); f != nil {
					if idx, ok := deleters[origin(f)]; ok && constPolicyArg(yc, idx) == "hook-succeeded" {
						dels = append(dels, yc)
					}
				}
			}
			if len(dels) == 0 {
				continue
			}
			yg := FullGraph(yf)
			all := true
			for _, yb := range yf.Blocks {
				if len(yb.Instrs) == 0 || !yg.Reachable()[yb] {
					continue
				}
				ret, isRet := yb.Instrs[len(yb.Instrs)-1].(*ssa.Return)
				if !isRet {
					continue
				}
				// a yield function returning false stops the iteration: only after the deleter failed (an
				// error is about to be reported) — here: every return is reached through the deleter
				if ex, _ := yg.PathExists(entryPos(yf), posOf(ret), avoidInstrs(dels...)); ex {
					all = false
				}
			}
			if all {
				okLoop = true
				succLoop = dels
			}
		}
	}
	pos := w.Pos(exec.Pos())
	if len(succLoop) > 0 {
		pos = w.InstrPos(succLoop[0])
	}
	r.Check(okLoop, "C12/POLICY-DELETE", "on-success/every-hook", pos, "after all hooks succeeded a loop applies the hook-succeeded deleter on every iteration", "after all hooks succeeded some hook can be skipped by the hook-succeeded deletion (or the deletion can be bypassed)")
	// that loop is on the way to every success return: the success return is not reachable from the main loop without entering the block region of the deletion loop header
	// DEFAULT-POLICY
	c12DefaultPolicy(w, r, exec, byPolicy["before-hook-creation"])
}

func c12DefaultPolicy(w *World, r *Report, exec *ssa.Function, before []ssa.CallInstruction) {
	g := FullGraph(exec)
	var st *ssa.Store
	for _, b := range exec.Blocks {
		for _, in := range b.Instrs {
			s, ok := in.(*ssa.Store)
			if !ok {
				continue
			}
			fa, ok := s.Addr.(*ssa.FieldAddr)
			if !ok || !isFieldOf(fa, relPkg, "Hook", "DeletePolicies") {
				continue
			}
			has := false
			backSlice(s.Val, func(x ssa.Value) bool {
				if c, ok := constString(x); ok && c == "before-hook-creation" {
					has = true
				}
				return false
			})
			if has {
				st = s
			}
		}
	}
	if st == nil || len(before) == 0 {
		r.Bad("C12/DEFAULT-POLICY", "default", w.Pos(exec.Pos()), "the executor does not default an empty policy list to [before-hook-creation]")
		return
	}
	// the len(...)==0 test that guards the store must be passed by every path to the deletion call
	var test ssa.Instruction
	if len(st.Block().Preds) == 1 {
		p := st.Block().Preds[0]
		test = p.Instrs[len(p.Instrs)-1]
	}
	ok := test != nil && g.DominatesInstr(test, posOf(before[0]))
	// and the deletion call is after the store on the defaulting path: the store block reaches the call
	reach, _ := g.PathExists(posOf(st), posOf(before[0]), Avoid{})
	r.Check(ok && reach, "C12/DEFAULT-POLICY", "default", w.InstrPos(st), "the defaulting of an empty policy list precedes the before-hook-creation deletion test", "the before-hook-creation deletion test can run before the empty policy list was defaulted")
}

// ---- gate ---------------------------------------------------------------------------------------

func c12Gate(w *World, r *Report, ef *Effects, exec *ssa.Function) {
	for _, op := range actionOps {
		on := newOpCtx(w, ef, op, map[string]aval{"DisableHooks": boolV(false)})
		off := newOpCtx(w, ef, op, map[string]aval{"DisableHooks": boolV(true)})
		if on == nil || off == nil {
			r.Unk("C12/GATE", op.Name+"/anchor", "-", "operation not resolved")
			continue
		}
		// hooks disabled: the executor is not in the cone
		coneOff := off.Cone(0)
		r.Check(!coneOff.Funcs[exec], "C12/GATE", op.Name+"/disabled", w.Pos(off.entry.Pos()), "with DisableHooks the hook executor is unreachable from "+op.Entry, "with DisableHooks the hook executor is still reachable from "+op.Entry)
		// hooks enabled: per function that calls the executor
		found := 0
		for fn := range on.Cone(0).Funcs {
			if fnPkgPath(fn) != actionPkg {
				continue
			}
			g := on.real.Graph(fn)
			var pre, post []Site
			for _, c := range callInstrs(fn) {
				f, _ := calleeOf(c.Common())
				if f == nil || origin(f) != exec || !g.Reachable()[c.Block()] {
					continue
				}
				ev := ""
				for _, a := range c.Common().Args {
					if s, ok := constString(a); ok && (strings.HasPrefix(s, "pre-") || strings.HasPrefix(s, "post-")) {
						ev = s
					}
				}
				s := Site{fn, c, posOf(c)}
				if strings.HasPrefix(ev, "pre-") {
					pre = append(pre, s)
				} else if strings.HasPrefix(ev, "post-") {
					post = append(post, s)
				}
			}
			if len(pre)+len(post) == 0 {
				continue
			}
			found++
			r.Fn(FuncName(fn))
			// manifest cluster writes in fn (other than the hook calls)
			var writes []Site
			for _, c := range callInstrs(fn) {
				if !g.Reachable()[c.Block()] {
					continue
				}
				if f, _ := calleeOf(c.Common()); f != nil && origin(f) == exec {
					continue
				}
				if SpecCallEffect(w, ef, on.real.Graph, c.Common(), WCluster) == 0 {
					continue
				}
				writes = append(writes, Site{fn, c, posOf(c)})
			}
			for _, p := range pre {
				pOK := okEdgesOfCall(p.Instr)
				for _, wr := range writes {
					key := fmt.Sprintf("%s/%s/pre-hook-before/%s", op.Name, FuncName(fn), describeCall(wr.Common()))
					// failure handling of the pre-hook itself: reachable from the hook call only through its error edges, and handed the hook's error
					_, pBad := nilTestEdges(errResult(p.Instr))
					viaOK, _ := g.PathExists(p.At, wr.At, Avoid{}.withEdges(pBad...))
					viaBad, _ := g.PathExists(p.At, wr.At, Avoid{}.withEdges(pOK...))
					if !viaOK && viaBad && !g.Reachable()[wr.At.B] == false {
						handed := false
						for _, a := range wr.Common().Args {
							if isErrorType(a.Type()) && derivesFromValue(a, errResult(p.Instr)) {
								handed = true
							}
						}
						if before, _ := g.PathExists(entryPos(fn), wr.At, avoidInstrs(p.Instr)); !before && handed {
							r.OKTrivial("C12/GATE", key+"#"+fmt.Sprint(ordinal(writes, wr)), w.InstrPos(wr.Instr), "failure handling of the pre-hook (receives the hook's error): not a write of the operation proper")
							continue
						}
					}
					okDom := g.AfterOK(p.Instr, wr.At)
					r.Check(okDom, "C12/GATE", key+"#"+fmt.Sprint(ordinal(writes, wr)), w.InstrPos(wr.Instr), "this cluster write is reached only after the pre-hook succeeded", "this cluster write ("+describeCall(wr.Common())+") can be reached without the pre-hook having succeeded")
					_ = pOK
				}
				// error edge reaches an error exit only
				c12ErrEdgeFails(w, r, g, p, op.Name+"/"+FuncName(fn)+"/pre-hook-error")
			}
			for _, p := range post {
				c12ErrEdgeFails(w, r, g, p, op.Name+"/"+FuncName(fn)+"/post-hook-error")
			}
			if len(pre) == 0 {
				r.Bad("C12/GATE", op.Name+"/"+FuncName(fn)+"/no-pre-hook", w.Pos(fn.Pos()), "post-hooks are run here but no pre-hook")
			}
		}
		if found == 0 {
			r.Bad("C12/GATE", op.Name+"/no-hooks", w.Pos(on.entry.Pos()), "with hooks enabled "+op.Entry+" never runs the hook executor")
		}
	}
}

func ordinal(list []Site, s Site) int {
	for i, x := range list {
		if x.Instr == s.Instr {
			return i + 1
		}
	}
	return 0
}

// c12ErrEdgeFails: from the error edges of the hook call, no success exit is reachable without
// passing … anything: the function must leave with an error (return or report).
func c12ErrEdgeFails(w *World, r *Report, g *Graph, p Site, key string) {
	oks := okEdgesOfCall(p.Instr)
	_, bad := nilTestEdges(errResult(p.Instr))
	if len(bad) == 0 {
		r.Bad("C12/GATE", key, w.InstrPos(p.Instr), "the hook executor's error is not tested")
		return
	}
	okAll := true
	what := ""
	exits := exitsOf(g)
	for _, ex := range exits {
		if !ex.Success {
			continue
		}
		to := ex.At
		if ex.Pred != nil {
			to = IPos{ex.Pred, len(ex.Pred.Instrs) - 1}
		}
		if reach, _ := g.PathExists(p.At, to, Avoid{}.withEdges(oks...)); reach {
			// uninstall accumulates post-hook errors into errs and fails later: accept when the error is appended to a slice that is tested before every success exit
			if errAccumulated(g, p) {
				continue
			}
			okAll = false
			what = w.InstrPos(ex.Instr)
		}
	}
	r.Check(okAll, "C12/GATE", key, w.InstrPos(p.Instr), "a failing hook leads only to error exits", "a failing hook can be followed by a success exit at "+what)
}

// errAccumulated: the hook error is appended to an []error that decides the final return.
func errAccumulated(g *Graph, p Site) bool {
	ev := errResult(p.Instr)
	if ev == nil {
		return false
	}
	for a := range forwardAliases(ev) {
		refs := a.Referrers()
		if refs == nil {
			continue
		}
		for _, rf := range *refs {
			// stored into a slice literal that is appended: t = new [1]error; store; slice; append
			if st, ok := rf.(*ssa.Store); ok {
				if ia, ok := st.Addr.(*ssa.IndexAddr); ok {
					if sl, ok := ia.X.Type().Underlying().(*types.Pointer); ok {
						if arr, ok := sl.Elem().Underlying().(*types.Array); ok && isErrorType(arr.Elem()) {
							return true
						}
					}
				}
			}
		}
	}
	return false
}

// c12HookSource: the hooks run before and after an operation's resource changes come from one release
// object (the revision being created or removed). Sibling agreement inside each operation function.
func c12HookSource(w *World, r *Report, exec *ssa.Function) {
	r.Rule("C12/HOOK-SOURCE", "within one operation the pre- and post- hook executor calls receive the same release object", 3)
	n := 0
	for _, fn := range w.FuncsIn("pkg/action") {
		if fn.Parent() != nil || isNewFunc(fn) {
			continue
		}
		rels := map[ssa.Value]string{}
		cnt := 0
		for _, f := range withAnon(fn) {
			for _, c := range callInstrs(f) {
				if cf, _ := calleeOf(c.Common()); cf == nil || origin(cf) != exec {
					continue
				}
				for _, a := range c.Common().Args {
					if isReleasePtr(a.Type()) {
						cnt++
						rels[stripConv(a)] = w.InstrPos(c)
					}
				}
			}
		}
		if cnt < 2 {
			continue
		}
		n++
		r.Fn(FuncName(fn))
		pos := ""
		for _, p := range rels {
			if pos == "" || p > pos {
				pos = p
			}
		}
		r.Check(len(rels) == 1, "C12/HOOK-SOURCE", FuncName(fn), w.Pos(fn.Pos()), fmt.Sprintf("%d hook executor calls, one release object", cnt), fmt.Sprintf("the hook executor calls of this operation receive %d different release objects (one at %s): hooks of another revision would run, and this revision's hooks would not gate its changes", len(rels), pos))
	}
	if n == 0 {
		r.Unk("C12/HOOK-SOURCE", "no-site", "-", "no operation with a pre- and a post- hook call found")
	}
}

// c12WeightParse: hook weights are decimal integers ("010" is ten, "08" is eight).
func c12WeightParse(w *World, r *Report) {
	r.Rule("C12/WEIGHT-PARSE", "the manifest sorter parses integer annotations (hook weights) in base 10", 1)
	n := 0
	for _, fn := range w.FuncsIn("pkg/release/util") {
		for _, c := range callInstrs(fn) {
			f, _ := calleeOf(c.Common())
			if f == nil || fnPkgPath(f) != "strconv" {
				continue
			}
			switch f.Name() {
			case "Atoi":
				n++
				r.OK("C12/WEIGHT-PARSE", siteKey(Site{fn, c, posOf(c)}), w.InstrPos(c), "strconv.Atoi: decimal")
			case "ParseInt", "ParseUint":
				n++
				base, ok := constInt(c.Common().Args[1])
				r.Check(ok && base == 10, "C12/WEIGHT-PARSE", siteKey(Site{fn, c, posOf(c)}), w.InstrPos(c), "parsed in base 10", "an integer annotation is parsed with a base other than 10 (base 0 reads a leading zero as octal: weights \"08\" and \"09\" become invalid, \"010\" becomes 8): hooks run in another order than their weights say")
			}
		}
	}
	if n == 0 {
		r.Unk("C12/WEIGHT-PARSE", "no-site", "-", "no integer parse found in pkg/release/util")
	}
}

// c12PrefixOfRunList: when a hook fails, the hooks that already succeeded are the ones before it in
// the list that is being run. The prefix handed to the clean-up (list[:i]) is cut from that very list,
// not from another ordering of the same hooks.
func c12PrefixOfRunList(w *World, r *Report, exec *ssa.Function) {
	r.Rule("C12/PREFIX-OF-RUN-LIST", "in the hook executor a prefix list[:i] taken with the loop index i is a prefix of the list that the loop indexes with i", 0)
	n := 0
	for _, b := range exec.Blocks {
		for _, in := range b.Instrs {
			sl, ok := in.(*ssa.Slice)
			if !ok || sl.High == nil {
				continue
			}
			st, isSl := sl.X.Type().Underlying().(*types.Slice)
			if !isSl || !isNamedPtr(st.Elem(), relPkg, "Hook") {
				continue
			}
			idx := sl.High
			if _, isConst := idx.(*ssa.Const); isConst || idx.Referrers() == nil {
				continue
			}
			// the list(s) indexed with the same index value
			var lists []ssa.Value
			for _, rf := range *idx.Referrers() {
				if ia, ok := rf.(*ssa.IndexAddr); ok && ia.Index == idx {
					lists = append(lists, ia.X)
				}
			}
			if len(lists) == 0 {
				continue
			}
			n++
			same := true
			for _, l := range lists {
				if !sameValue(l, sl.X) {
					same = false
				}
			}
			r.Check(same, "C12/PREFIX-OF-RUN-LIST", fmt.Sprintf("prefix#%d", n), w.InstrPos(sl), "the prefix is cut from the list being run", "the prefix [:i] is cut from another list than the one the loop runs with index i: after a failure the clean-up of 'the hooks that had succeeded' hits the wrong hooks when the two lists are ordered differently")
		}
	}
	if n == 0 {
		r.OKTrivial("C12/PREFIX-OF-RUN-LIST", "none", w.Pos(exec.Pos()), "the hook executor takes no index-bounded prefix of a hook list")
	}
}
