package main

// world.go — loading /repo (syntax + types + SSA) and resolving program entities.

import (
	"fmt"
	"go/ast"
	"go/parser"
	"go/token"
	"go/types"
	"os"
	"sort"
	"strings"

	"golang.org/x/tools/go/packages"
	"golang.org/x/tools/go/ssa"
	"golang.org/x/tools/go/ssa/ssautil"
)

const helmMod = "helm.sh/helm/v4"

type World struct {
	RepoDir  string
	Fset     *token.FileSet
	Roots    []*packages.Package
	All      map[string]*packages.Package // by import path (all transitive)
	Prog     *ssa.Program
	GOOS     string
	GOARCH   string
	helmFns  []*ssa.Function // every function (incl. anonymous, methods) of helm module packages
	fnByName map[string]*ssa.Function

	InlineLog []string          // what inline.go expanded / kept
	Renamed   map[string]string // new key -> reference key
	RenamedTo map[string]string // reference key -> new key
}

// typeNameAlias: "import/path.NewName" -> name on the reference tree, for types renamed since.
var typeNameAlias = map[string]string{}

func refTypeName(o *types.TypeName) string {
	if len(typeNameAlias) > 0 && o.Pkg() != nil {
		if a, ok := typeNameAlias[o.Pkg().Path()+"."+o.Name()]; ok {
			return a
		}
	}
	return o.Name()
}

// displayName renders a reference key ("pkg/action:Install.failRelease" with signature "(*)…") the way
// FuncName does: "(*pkg/action.Install).failRelease".
func displayName(key, sig string) string {
	pkg, rest, _ := strings.Cut(key, ":")
	if i := strings.Index(rest, "."); i >= 0 {
		recv, name := rest[:i], rest[i+1:]
		if strings.HasPrefix(sig, "(*)") {
			return "(*" + pkg + "." + recv + ")." + name
		}
		return "(" + pkg + "." + recv + ")." + name
	}
	return pkg + "." + rest
}

// RefList is the set of function keys of the reference tree (reference/funcs.txt); nil disables the
// normalisation of extract-function refactorings (inline.go).
var RefList map[string]string

// funcNameAlias maps the display name of a renamed function to its name on the reference tree, so that
// rule tables and obligation keys stay those of the reference tree (filled by Load).
var funcNameAlias = map[string]string{}

func loadPkgs(repoDir, goos, goarch string, fset *token.FileSet, overlay map[string]*ast.File) ([]*packages.Package, error) {
	env := append(os.Environ(), "GOWORK=off", "GOFLAGS=-mod=mod", "GOPROXY=off", "CGO_ENABLED=0")
	if goos != "" {
		env = append(env, "GOOS="+goos)
	}
	if goarch != "" {
		env = append(env, "GOARCH="+goarch)
	}
	cfg := &packages.Config{Mode: packages.LoadAllSyntax, Dir: repoDir, Tests: false, Env: env, Fset: fset}
	if overlay != nil {
		cfg.ParseFile = func(fs *token.FileSet, filename string, src []byte) (*ast.File, error) {
			if f := overlay[filename]; f != nil {
				return f, nil
			}
			return parser.ParseFile(fs, filename, src, parser.AllErrors|parser.ParseComments)
		}
	}
	return packages.Load(cfg, "./...")
}

func collect(w *World, pkgs []*packages.Package) error {
	w.Roots = pkgs
	w.All = map[string]*packages.Package{}
	var errs []string
	packages.Visit(pkgs, nil, func(p *packages.Package) {
		w.All[p.PkgPath] = p
		for _, e := range p.Errors {
			errs = append(errs, e.Error())
		}
	})
	if len(errs) > 0 {
		sort.Strings(errs)
		if len(errs) > 10 {
			errs = errs[:10]
		}
		return fmt.Errorf("load/type errors (%d shown): %s", len(errs), strings.Join(errs, "; "))
	}
	if len(pkgs) < 50 {
		return fmt.Errorf("only %d root packages loaded (expected >= 50): the build was not covered", len(pkgs))
	}
	return nil
}

// Load type-checks ./... of repoDir for the given platform and builds SSA for the whole program.
// Helpers that do not exist on the reference tree are expanded into their callers first (inline.go).
func Load(repoDir, goos, goarch string) (*World, error) {
	fset := token.NewFileSet()
	w := &World{RepoDir: repoDir, Fset: fset, GOOS: goos, GOARCH: goarch, fnByName: map[string]*ssa.Function{}}
	needInline := false
	known := map[string]bool{}
	if RefList != nil {
		for k := range RefList {
			known[k] = true
		}
		if keys, err := refKeys(repoDir); err == nil {
			w.Renamed = detectRenames(RefList, keys)
			w.RenamedTo = map[string]string{}
			for nk, ok := range w.Renamed {
				known[nk] = true // a renamed function is not a new helper
				if strings.Contains(nk, ":type:") {
					w.RenamedTo[ok] = nk
					pkg, newT, _ := strings.Cut(nk, ":type:")
					_, oldT, _ := strings.Cut(ok, ":type:")
					typeNameAlias[helmMod+"/"+pkg+"."+newT] = oldT
					w.InlineLog = append(w.InlineLog, "renamed type: "+ok+" is now "+nk)
					continue
				}
				w.RenamedTo[ok] = nk
				w.InlineLog = append(w.InlineLog, "renamed: "+ok+" is now "+nk)
				// closure-bound locals of a renamed function keep their reference status
				for k := range keys {
					if strings.HasPrefix(k, nk+"/var:") && RefList[ok+strings.TrimPrefix(k, nk)] != "" {
						known[k] = true
					}
				}
				funcNameAlias[displayName(nk, keys[nk])] = displayName(ok, RefList[ok])
			}
			// packages that lost a reference function for which no renamed successor was found: a large
			// new function there is more likely the successor in another form (method turned function,
			// signature changed) than an extracted helper, and is left standing for the by-role finders
			for k := range RefList {
				if strings.Contains(k, "/var:") || strings.Contains(k, ":type:") {
					continue
				}
				if _, still := keys[k]; still {
					continue
				}
				if _, renamed := w.RenamedTo[k]; renamed {
					continue
				}
				if pkg, _, ok := strings.Cut(k, ":"); ok {
					VanishedIn[pkg] = true
				}
			}
			for k := range keys {
				if !known[k] {
					needInline = true
					if !strings.Contains(k, "/var:") && !strings.Contains(k, ":type:") {
						NewFuncKeys[displayName(k, keys[k])] = true
					}
				}
			}
		}
	}
	pkgs, err := loadPkgs(repoDir, goos, goarch, fset, nil)
	if err != nil {
		return nil, err
	}
	if err := collect(w, pkgs); err != nil {
		return nil, err
	}
	if needInline {
		overlay, log, undo := planAndInline(w, known)
		w.InlineLog = append(w.InlineLog, log...)
		if len(overlay) > 0 {
			pkgs2, err2 := loadPkgs(repoDir, goos, goarch, fset, overlay)
			var cerr error
			if err2 == nil {
				cerr = collect(w, pkgs2)
			}
			if err2 != nil || cerr != nil {
				// keep the expanded helpers' declarations (an unused import or an interface may need them)
				w.InlineLog = append(w.InlineLog, fmt.Sprintf("removal of expanded helpers abandoned: %v %v", err2, cerr))
				undo()
				pkgs2, err2 = loadPkgs(repoDir, goos, goarch, fset, overlay)
				cerr = nil
				if err2 == nil {
					cerr = collect(w, pkgs2)
				}
			}
			if err2 != nil || cerr != nil {
				// the expansion produced something the type checker rejects: analyse the program as written
				w.InlineLog = append(w.InlineLog, fmt.Sprintf("expansion abandoned: %v %v", err2, cerr))
				fset = token.NewFileSet()
				w.Fset = fset
				pkgs, err = loadPkgs(repoDir, goos, goarch, fset, nil)
				if err != nil {
					return nil, err
				}
				if err := collect(w, pkgs); err != nil {
					return nil, err
				}
			}
		}
	}
	pkgs = w.Roots
	prog, _ := ssautil.AllPackages(pkgs, ssa.InstantiateGenerics)
	prog.Build()
	w.Prog = prog
	for fn := range ssautil.AllFunctions(prog) {
		p := fnPkgPath(fn)
		if p == helmMod || strings.HasPrefix(p, helmMod+"/") {
			if fn.Synthetic != "" && fn.Syntax() == nil {
				continue // wrappers/thunks: the wrapped function is analysed itself
			}
			w.helmFns = append(w.helmFns, fn)
		}
	}
	sort.Slice(w.helmFns, func(i, j int) bool { return w.helmFns[i].Pos() < w.helmFns[j].Pos() })
	return w, nil
}

func fnPkgPath(fn *ssa.Function) string {
	for f := fn; f != nil; f = f.Parent() {
		if f.Pkg != nil {
			return f.Pkg.Pkg.Path()
		}
		if o := f.Object(); o != nil && o.Pkg() != nil {
			return o.Pkg().Path()
		}
		if f.Origin() != nil && f.Origin().Pkg != nil {
			return f.Origin().Pkg.Pkg.Path()
		}
	}
	return ""
}

func inHelm(fn *ssa.Function) bool {
	p := fnPkgPath(fn)
	return p == helmMod || strings.HasPrefix(p, helmMod+"/")
}

// HelmFuncs returns all source functions of the helm module (methods, functions, closures).
func (w *World) HelmFuncs() []*ssa.Function { return w.helmFns }

// FuncsIn returns source functions whose package path is helmMod+"/"+rel.
func (w *World) FuncsIn(rel string) []*ssa.Function {
	var out []*ssa.Function
	for _, f := range w.helmFns {
		if fnPkgPath(f) == helmMod+"/"+rel {
			out = append(out, f)
		}
	}
	return out
}

// Pkg returns the loaded package for an import path.
func (w *World) Pkg(path string) *packages.Package { return w.All[path] }

func (w *World) HelmPkg(rel string) *packages.Package { return w.All[helmMod+"/"+rel] }

// Obj resolves a package-level object ("Name") or a method ("Type.Method") in a package.
func (w *World) Obj(pkgPath, name string) types.Object {
	if o := w.obj1(pkgPath, name); o != nil {
		return o
	}
	// renamed since the reference tree?
	if rel := strings.TrimPrefix(pkgPath, helmMod+"/"); rel != pkgPath && w.RenamedTo != nil {
		if nk, ok := w.RenamedTo[rel+":"+name]; ok {
			_, rest, _ := strings.Cut(nk, ":")
			return w.obj1(pkgPath, rest)
		}
		// a renamed type: "Old" or "Old.Method"
		tname, meth, hasM := strings.Cut(name, ".")
		if nt, ok := w.RenamedTo[rel+":type:"+tname]; ok {
			_, rest, _ := strings.Cut(nt, ":type:")
			if hasM {
				return w.obj1(pkgPath, rest+"."+meth)
			}
			return w.obj1(pkgPath, rest)
		}
	}
	return nil
}

func (w *World) obj1(pkgPath, name string) types.Object {
	p := w.All[pkgPath]
	if p == nil || p.Types == nil {
		return nil
	}
	if i := strings.Index(name, "."); i >= 0 {
		tn, _ := p.Types.Scope().Lookup(name[:i]).(*types.TypeName)
		if tn == nil {
			return nil
		}
		obj, _, _ := types.LookupFieldOrMethod(tn.Type(), true, p.Types, name[i+1:])
		if obj == nil {
			obj, _, _ = types.LookupFieldOrMethod(types.NewPointer(tn.Type()), true, p.Types, name[i+1:])
		}
		return obj
	}
	return p.Types.Scope().Lookup(name)
}

// TFunc resolves a *types.Func (function or method, "Type.Method").
func (w *World) TFunc(pkgPath, name string) *types.Func {
	f, _ := w.Obj(pkgPath, name).(*types.Func)
	return f
}

// Fn resolves an *ssa.Function for a helm-relative package and name ("Type.Method" or "func").
func (w *World) Fn(rel, name string) *ssa.Function {
	return w.FnAbs(helmMod+"/"+rel, name)
}

func (w *World) FnAbs(pkgPath, name string) *ssa.Function {
	key := pkgPath + "#" + name
	if f, ok := w.fnByName[key]; ok {
		return f
	}
	tf := w.TFunc(pkgPath, name)
	var f *ssa.Function
	if tf != nil {
		f = w.Prog.FuncValue(tf)
	}
	w.fnByName[key] = f
	return f
}

// Named returns the named type pkg.Name.
func (w *World) Named(pkgPath, name string) *types.Named {
	tn, _ := w.Obj(pkgPath, name).(*types.TypeName)
	if tn == nil {
		return nil
	}
	n, _ := tn.Type().(*types.Named)
	return n
}

// Pos renders a position relative to the repository / module cache.
func (w *World) Pos(p token.Pos) string {
	if !p.IsValid() {
		return "?"
	}
	pp := w.Fset.Position(p)
	f := pp.Filename
	if strings.HasPrefix(f, w.RepoDir+"/") {
		f = strings.TrimPrefix(f, w.RepoDir+"/")
	} else if i := strings.Index(f, "/pkg/mod/"); i >= 0 {
		f = f[i+len("/pkg/mod/"):]
	}
	return fmt.Sprintf("%s:%d", f, pp.Line)
}

func (w *World) InstrPos(in ssa.Instruction) string {
	p := in.Pos()
	if !p.IsValid() {
		// fall back: nearest instruction in the block with a position
		if b := in.Block(); b != nil {
			for _, x := range b.Instrs {
				if x.Pos().IsValid() {
					p = x.Pos()
					break
				}
			}
			if !p.IsValid() {
				// walk to predecessors / fall back to the function
				for _, pr := range b.Preds {
					for k := len(pr.Instrs) - 1; k >= 0 && !p.IsValid(); k-- {
						p = pr.Instrs[k].Pos()
					}
				}
			}
			if !p.IsValid() && b.Parent() != nil {
				p = b.Parent().Pos()
			}
		}
	}
	return w.Pos(p)
}

// FuncName gives a stable human-readable name: pkgrel.(*T).M, pkgrel.f, pkgrel.f$1.
func FuncName(fn *ssa.Function) string {
	if fn == nil {
		return "<nil>"
	}
	s := fn.String()
	s = strings.ReplaceAll(s, helmMod+"/", "")
	if len(funcNameAlias) > 0 {
		base, rest := s, ""
		if i := strings.Index(s, "$"); i >= 0 {
			base, rest = s[:i], s[i:]
		}
		if a, ok := funcNameAlias[base]; ok {
			return a + rest
		}
	}
	return s
}

// refBareName: the function's own name on the reference tree (renames undone).
func refBareName(fn *ssa.Function) string {
	s := FuncName(fn)
	if i := strings.LastIndex(s, "."); i >= 0 {
		s = s[i+1:]
	}
	if i := strings.Index(s, "$"); i >= 0 {
		s = s[:i]
	}
	return s
}

// FileOf returns the repo-relative file a function is declared in.
func (w *World) FileOf(fn *ssa.Function) string {
	s := w.Pos(fn.Pos())
	if i := strings.LastIndex(s, ":"); i >= 0 {
		return s[:i]
	}
	return s
}

// SyntaxFile finds the *ast.File of a repo-relative path.
func (w *World) SyntaxFile(rel string) (*ast.File, *packages.Package) {
	want := w.RepoDir + "/" + rel
	for _, p := range w.All {
		for i, f := range p.CompiledGoFiles {
			if f == want && i < len(p.Syntax) {
				return p.Syntax[i], p
			}
		}
	}
	return nil, nil
}

// HasFile reports whether the repo-relative file is part of the loaded build.
func (w *World) HasFile(rel string) bool {
	f, _ := w.SyntaxFile(rel)
	return f != nil
}
