package main

// selftest.go — positive examples for matchers whose expected count on helm is zero.

import (
	"go/types"
	"os"
	"path/filepath"

	"golang.org/x/tools/go/packages"
	"golang.org/x/tools/go/ssa"
	"golang.org/x/tools/go/ssa/ssautil"
)

func selfTest(verifDir string, r *Report) {
	r.Rule("SELFTEST", "the matchers used by rules whose expected number of matches is zero fire on the positive examples of checker/testdata/fixture", 10)
	dir := filepath.Join(verifDir, "checker", "testdata", "fixture")
	if _, err := os.Stat(dir); err != nil { // developer runs with a scratch -verif: fall back to the binary's own tree
		if exe, err := os.Executable(); err == nil {
			dir = filepath.Join(filepath.Dir(exe), "..", "checker", "testdata", "fixture")
		}
	}
	cfg := &packages.Config{Mode: packages.LoadAllSyntax, Dir: dir, Env: append(os.Environ(), "GOWORK=off", "GOFLAGS=-mod=mod", "GOPROXY=off")}
	pkgs, err := packages.Load(cfg, ".")
	if err != nil || len(pkgs) != 1 || len(pkgs[0].Errors) > 0 {
		r.Unk("SELFTEST", "load", "-", "fixture package does not load")
		return
	}
	prog, spkgs := ssautil.AllPackages(pkgs, ssa.InstantiateGenerics)
	prog.Build()
	sp := spkgs[0]
	fn := func(name string) *ssa.Function { return sp.Func(name) }
	check := func(key string, ok bool) {
		r.Check(ok, "SELFTEST", key, "-", "matcher fires on its positive example", "matcher does not fire on its positive example: the rule using it would pass vacuously")
	}
	// link creation / fs write
	okLink := false
	for _, c := range callInstrs(fn("LinkIt")) {
		if f, _ := calleeOf(c.Common()); f != nil {
			if w, _ := isFSWrite(f); w && f.Name() == "Symlink" {
				okLink = true
			}
		}
	}
	check("fs-write/symlink", okLink)
	// sink reachability
	sinks := reachSinks(fn("ReadsEnv"), func(string) bool { return true })
	_, env := sinks[sinkEnv]
	check("sink/environment", env)
	// auth header + basic auth
	hdr, basic := false, false
	for _, c := range callInstrs(fn("SetsAuth")) {
		if f, _ := calleeOf(c.Common()); f != nil {
			if FuncName(f) == "(net/http.Header).Set" {
				if k, ok := constString(c.Common().Args[1]); ok && k == "Authorization" {
					hdr = true
				}
			}
			if FuncName(f) == "(*net/http.Request).SetBasicAuth" {
				basic = true
			}
		}
	}
	check("auth/manual-header", hdr)
	check("auth/basic-auth-site", basic)
	// package-level mutable state
	state := 0
	for _, b := range fn("TouchesState").Blocks {
		for _, in := range b.Instrs {
			for _, op := range in.Operands(nil) {
				if gl, ok := (*op).(*ssa.Global); ok {
					_ = gl
					state++
				}
			}
		}
	}
	check("state/global-access", state >= 2)
	// ORDER classification both ways
	wfix := &World{Fset: pkgs[0].Fset, RepoDir: dir, Prog: prog}
	dep, indep := false, true
	for _, l := range mapLoops(fn("OrderDependent")) {
		if f, _ := classifyLoop(wfix, l); len(f) > 0 {
			dep = true
		}
	}
	for _, l := range mapLoops(fn("OrderIndependent")) {
		if f, _ := classifyLoop(wfix, l); len(f) > 0 {
			indep = false
		}
	}
	check("order/dependent-flagged", dep)
	check("order/sorted-accepted", indep)
	// assertions
	un, ck := 0, 0
	for _, name := range []string{"Unchecked", "Checked"} {
		for _, b := range fn(name).Blocks {
			for _, in := range b.Instrs {
				if ta, ok := in.(*ssa.TypeAssert); ok && !ta.CommaOk {
					if name == "Unchecked" {
						un++
					} else {
						ck++
					}
				}
			}
		}
	}
	check("panic/assert-sites", un == 1 && ck == 1)
	// decoder handed the address of a pointer variable
	dec := false
	for _, c := range callInstrs(fn("DecodesPtr")) {
		if dst, ok := isDecoderCall(c.Common()); ok && decodedPtrSlot(dst) != nil {
			dec = true
		}
	}
	check("decode/pointer-slot", dec)
	hostCmp := false
	for _, b := range fn("SameHost").Blocks {
		for _, in := range b.Instrs {
			if bo, ok := in.(*ssa.BinOp); ok && isHostnameValue(bo.X) && isHostnameValue(bo.Y) {
				hostCmp = true
			}
		}
	}
	check("origin/hostname-compare", hostCmp)
	check("purity/writes-through-params", writesThroughParams(fn("Mutates"), 0, map[*ssa.Function]bool{}) && !writesThroughParams(fn("Reads"), 0, map[*ssa.Function]bool{}))
	check("append/dead", len(deadAppends(fn("DeadAppend"), func(types.Type) bool { return true })) == 1)
}
