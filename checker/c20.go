package main

// C20 — malformed external input produces an error, never a crash (panic clause; structural part).

import (
	"fmt"
	"go/token"
	"go/types"
	"sort"
	"strings"

	"golang.org/x/tools/go/ssa"
)

func init() {
	register(&propDef{
		ID: "C20",
		Anchors: []string{"pkg/chart/v2/loader/load.go", "pkg/chart/v2/util/dependencies.go", "pkg/chart/v2/util/jsonschema.go", "pkg/strvals/parser.go", "pkg/strvals/literal_parser.go",
			"pkg/repo/index.go", "pkg/release/util/manifest_sorter.go", "pkg/storage/driver/secrets.go", "pkg/storage/driver/cfgmaps.go", "pkg/storage/driver/util.go", "pkg/provenance/sign.go",
			"pkg/ignore/rules.go", "pkg/plugin/plugin.go", "pkg/engine/engine.go", "pkg/lint/lint.go"},
		NotDec: []string{"hangs, unbounded allocation and stack exhaustion in general (only the presence and sharing of the declared depth counters is checked)", "panics inside third-party parsers that are not under one of helm's recover wrappers",
			"index-out-of-range sites (only the compiler's bounds-check elimination could speak to them)"},
		Run: runC20,
	})
}

var c20Entries = [][2]string{
	{"pkg/chart/v2/loader", "Load"}, {"pkg/chart/v2/loader", "LoadDir"}, {"pkg/chart/v2/loader", "LoadFile"}, {"pkg/chart/v2/loader", "LoadArchive"}, {"pkg/chart/v2/loader", "LoadFiles"},
	{"pkg/chart/v2/util", "ProcessDependencies"}, {"pkg/chart/v2/util", "CoalesceValues"}, {"pkg/chart/v2/util", "MergeValues"}, {"pkg/chart/v2/util", "ToRenderValues"},
	{"pkg/chart/v2/util", "ToRenderValuesWithSchemaValidation"}, {"pkg/chart/v2/util", "ValidateAgainstSchema"}, {"pkg/chart/v2/util", "ValidateAgainstSingleSchema"},
	{"pkg/chart/v2/util", "ReadValues"}, {"pkg/chart/v2/util", "ReadValuesFile"},
	{"pkg/engine", "Engine.Render"}, {"pkg/engine", "Render"},
	{"pkg/lint", "RunAll"},
	{"pkg/strvals", "Parse"}, {"pkg/strvals", "ParseString"}, {"pkg/strvals", "ParseInto"}, {"pkg/strvals", "ParseIntoString"}, {"pkg/strvals", "ParseFile"}, {"pkg/strvals", "ParseIntoFile"},
	{"pkg/strvals", "ParseJSON"}, {"pkg/strvals", "ParseLiteral"}, {"pkg/strvals", "ParseLiteralInto"}, {"pkg/strvals", "ToYAML"},
	{"pkg/repo", "LoadIndexFile"}, {"pkg/repo", "IndexFile.Get"}, {"pkg/repo", "IndexFile.Has"}, {"pkg/repo", "IndexFile.Merge"}, {"pkg/repo", "IndexFile.SortEntries"},
	{"pkg/release/util", "SplitManifests"}, {"pkg/release/util", "SortManifests"},
	{"pkg/storage/driver", "Secrets.Get"}, {"pkg/storage/driver", "Secrets.List"}, {"pkg/storage/driver", "Secrets.Query"},
	{"pkg/storage/driver", "ConfigMaps.Get"}, {"pkg/storage/driver", "ConfigMaps.List"}, {"pkg/storage/driver", "ConfigMaps.Query"},
	{"pkg/storage/driver", "Memory.Get"}, {"pkg/storage/driver", "Memory.List"}, {"pkg/storage/driver", "Memory.Query"},
	{"pkg/provenance", "Signatory.Verify"},
	{"pkg/ignore", "Parse"}, {"pkg/ignore", "ParseFile"},
	{"pkg/plugin", "LoadDir"}, {"pkg/plugin", "LoadAll"},
}

// assertions whose safety rests on a library contract rather than on a dominating test.
var assertExceptions = map[string]string{
	"pkg/chart/v2/util.copyValues":    "copystructure.Copy of a map[string]interface{} argument returns the same dynamic type (typed nil for nil)",
	"pkg/chart/v2/util.deepCopyMap":   "copystructure.Copy of a map[string]interface{} argument returns the same dynamic type",
	"pkg/chart/v2/util.trimNilValues": "copystructure.Copy of a map[string]interface{} argument returns the same dynamic type",
}

func runC20(w *World, r *Report) {
	r.Rule("C20/PANIC", "every single-result type assertion reachable from the public input-handling entry points is dominated by a matching type test of the same operand (comma-ok assertion, type predicate, or creation of the slot with that type), or is only reachable below one of helm's recover wrappers", 10)
	r.Rule("C20/V-ERR", "in those functions the pointer/map result of a (value, error) call is dereferenced only where the error was tested nil or the value tested non-nil", 25)
	r.Rule("C20/NIL-ELEM", "loaders that promise element-wise valid pointer slices remove or reject nil elements on every path (repository index entries; chart metadata dependencies and maintainers)", 3)
	r.Rule("C20/RECOVER-PRESENT", "the recover wrappers the property relies on exist and are installed before anything else in their function (template rendering, --set key parsing, schema validation)", 4)
	r.Rule("C20/DEPTH-LIMIT", "the template include/tpl depth counter is one shared map handed down to every nested closure, and the execution of an included template is unreachable on the over-limit edge; the --set nesting limit is tested on the recursive edge", 3)

	r.Rule("C20/DECODE-PTR", "a pointer variable filled by handing its address to a YAML/JSON/TOML decoder (nil after an empty or null document, without an error) is dereferenced, returned or handed on only where it was tested non-nil or the decoder's error is non-nil", 1)

	scope, entries := c20Scope(w, r)
	prot := recoverProtected(w, scope, entries)
	c20Panic(w, r, scope, prot)
	c20VErr(w, r, scope, prot)
	c20NilElem(w, r)
	c20LintNilElems(w, r)
	c20Recover(w, r)
	c20Depth(w, r)
	c20NilHole(w, r)
	c20IndexGuard(w, r)
	c20ValidateLast(w, r)
	c20DecodePtr(w, r)
	c20RegularOnly(w, r)
	c20HeaderSlice(w, r)
}

func c20Scope(w *World, r *Report) (map[*ssa.Function]bool, map[*ssa.Function]bool) {
	scope := map[*ssa.Function]bool{}
	entries := map[*ssa.Function]bool{}
	var walk func(f *ssa.Function)
	walk = func(f *ssa.Function) {
		f = origin(f)
		if f == nil || scope[f] || !inHelm(f) || len(f.Blocks) == 0 {
			return
		}
		p := fnPkgPath(f)
		if strings.Contains(p, "/pkg/kube") || strings.Contains(p, "/pkg/action") || strings.Contains(p, "/pkg/cmd") || strings.Contains(p, "/pkg/registry") || strings.Contains(p, "/pkg/getter") {
			return
		}
		scope[f] = true
		for _, b := range f.Blocks {
			for _, in := range b.Instrs {
				switch x := in.(type) {
				case ssa.CallInstruction:
					if g, _ := calleeOf(x.Common()); g != nil {
						walk(g)
					}
					for _, a := range x.Common().Args {
						if mc, ok := a.(*ssa.MakeClosure); ok {
							if g, ok := mc.Fn.(*ssa.Function); ok {
								walk(g)
							}
						}
						if g, ok := a.(*ssa.Function); ok {
							walk(g)
						}
					}
				case *ssa.MakeClosure:
					if g, ok := x.Fn.(*ssa.Function); ok {
						walk(g)
					}
				case *ssa.MakeInterface:
					ms := w.Prog.MethodSets.MethodSet(x.X.Type())
					for i := 0; i < ms.Len(); i++ {
						if m := w.Prog.MethodValue(ms.At(i)); m != nil && inHelm(m) {
							walk(m)
						}
					}
				}
			}
		}
	}
	for _, e := range c20Entries {
		f := w.Fn(e[0], e[1])
		if f == nil {
			r.Unk("C20/PANIC", "entry/"+e[0]+"."+e[1], "-", "entry point not found")
			continue
		}
		entries[f] = true
		walk(f)
	}
	// template functions are entered from templates
	for _, fn := range w.FuncsIn("pkg/engine") {
		walk(fn)
	}
	for f := range scope {
		r.Fn(FuncName(f))
	}
	return scope, entries
}

// hasRecover: the function defers, before anything else with effects, a closure that calls recover().
func hasRecover(fn *ssa.Function) bool {
	if len(fn.Blocks) == 0 {
		return false
	}
	for _, in := range fn.Blocks[0].Instrs {
		switch x := in.(type) {
		case *ssa.Defer:
			if mc, ok := x.Call.Value.(*ssa.MakeClosure); ok {
				if f, ok := mc.Fn.(*ssa.Function); ok && callsRecover(f) {
					return true
				}
			}
			if f, ok := x.Call.Value.(*ssa.Function); ok && callsRecover(f) {
				return true
			}
		case *ssa.Call:
			return false // something runs before the recover is installed
		}
	}
	return false
}

func callsRecover(f *ssa.Function) bool {
	for _, b := range f.Blocks {
		for _, in := range b.Instrs {
			if c, ok := in.(*ssa.Call); ok {
				if bi, ok := c.Call.Value.(*ssa.Builtin); ok && bi.Name() == "recover" {
					return true
				}
			}
		}
	}
	return false
}

// recoverProtected: functions all of whose static callers (inside the scope) are protected, or that install a recover themselves.
func recoverProtected(w *World, scope, entries map[*ssa.Function]bool) map[*ssa.Function]bool {
	callers := map[*ssa.Function][]*ssa.Function{}
	for f := range scope {
		add := func(g *ssa.Function) {
			g = origin(g)
			if g != nil && scope[g] {
				callers[g] = append(callers[g], f)
			}
		}
		for _, b := range f.Blocks {
			for _, in := range b.Instrs {
				switch x := in.(type) {
				case ssa.CallInstruction:
					if g, _ := calleeOf(x.Common()); g != nil {
						add(g)
					}
					for _, a := range x.Common().Args {
						if mc, ok := a.(*ssa.MakeClosure); ok {
							if g, ok := mc.Fn.(*ssa.Function); ok {
								add(g)
							}
						}
					}
				case *ssa.MakeClosure:
					if g, ok := x.Fn.(*ssa.Function); ok {
						add(g)
					}
				}
			}
		}
	}
	prot := map[*ssa.Function]bool{}
	for f := range scope {
		if hasRecover(f) {
			prot[f] = true
		}
		// methods of the unexported engine.files type and closures built for the template function map
		// are only entered from template execution, which runs inside Engine.render (recover installed first)
		if fnPkgPath(f) == enginePkg {
			if rv := f.Signature.Recv(); rv != nil && strings.HasSuffix(rv.Type().String(), "engine.files") {
				prot[f] = true
			}
		}
	}
	if rnd := w.Fn("pkg/engine", "Engine.render"); rnd == nil || !hasRecover(rnd) {
		for f := range prot {
			if fnPkgPath(f) == enginePkg {
				delete(prot, f)
			}
		}
	}
	for changed := true; changed; {
		changed = false
		for f := range scope {
			if prot[f] || entries[f] || len(callers[f]) == 0 {
				continue
			}
			// exported functions can be called from outside
			if f.Object() != nil && f.Object().Exported() && f.Parent() == nil {
				continue
			}
			all := true
			for _, c := range callers[f] {
				if !prot[c] && c != f {
					all = false
				}
			}
			if all {
				prot[f] = true
				changed = true
			}
		}
	}
	return prot
}

// nf: a normal form for operands so that two reads of the same slot compare equal (go/ssa has no CSE).
func nf(v ssa.Value, d int) string {
	if d > 8 {
		return "?"
	}
	switch x := v.(type) {
	case *ssa.Parameter:
		return "param:" + x.Name()
	case *ssa.FreeVar:
		return "free:" + x.Name()
	case *ssa.Const:
		return "const:" + x.String()
	case *ssa.Lookup:
		return "lookup(" + nf(x.X, d+1) + "," + nf(x.Index, d+1) + ")"
	case *ssa.Extract:
		if lk, ok := x.Tuple.(*ssa.Lookup); ok && x.Index == 0 {
			return nf(lk, d+1)
		}
		if nx, ok := x.Tuple.(*ssa.Next); ok {
			return fmt.Sprintf("next(%p)#%d", nx, x.Index)
		}
		return fmt.Sprintf("extract(%s)#%d", nf(x.Tuple, d+1), x.Index)
	case *ssa.Call:
		if f, _ := calleeOf(x.Common()); f != nil && inHelm(f) && pureGetter(f) {
			s := "call:" + FuncName(f) + "("
			for _, a := range x.Call.Args {
				s += nf(a, d+1) + ","
			}
			return s + ")"
		}
		return fmt.Sprintf("call@%p", x)
	case *ssa.UnOp:
		if x.Op == token.MUL {
			if fa, ok := x.X.(*ssa.FieldAddr); ok {
				_, t, f := fieldNameOf(fa)
				return "field(" + nf(fa.X, d+1) + "," + t + "." + f + ")"
			}
			if ia, ok := x.X.(*ssa.IndexAddr); ok {
				return "elem(" + nf(ia.X, d+1) + "," + nf(ia.Index, d+1) + ")"
			}
		}
	case *ssa.MakeInterface:
		return nf(x.X, d+1)
	case *ssa.ChangeType:
		return nf(x.X, d+1)
	case *ssa.Phi:
		return fmt.Sprintf("phi@%p", x)
	}
	return fmt.Sprintf("%T@%p", v, v)
}

func pureGetter(f *ssa.Function) bool {
	if len(f.Blocks) == 0 || len(f.Blocks) > 3 {
		return false
	}
	for _, b := range f.Blocks {
		for _, in := range b.Instrs {
			switch in.(type) {
			case *ssa.Store, *ssa.MapUpdate, *ssa.Send, *ssa.Go, *ssa.Defer, *ssa.Call:
				return false
			}
		}
	}
	return true
}

// typePredicateOf: f(x) returns the ok of a comma-ok assertion of its single parameter to T; returns T.
func typePredicateOf(f *ssa.Function) types.Type {
	if f == nil || !inHelm(f) || len(f.Params) != 1 || len(f.Blocks) != 1 {
		return nil
	}
	for _, in := range f.Blocks[0].Instrs {
		if ta, ok := in.(*ssa.TypeAssert); ok && ta.CommaOk && ta.X == ssa.Value(f.Params[0]) {
			return ta.AssertedType
		}
	}
	return nil
}

func c20Panic(w *World, r *Report, scope, prot map[*ssa.Function]bool) {
	var fns []*ssa.Function
	for f := range scope {
		fns = append(fns, f)
	}
	sort.Slice(fns, func(i, j int) bool { return fns[i].Pos() < fns[j].Pos() })
	for _, fn := range fns {
		g := FullGraph(fn)
		k := 0
		for _, b := range fn.Blocks {
			for _, in := range b.Instrs {
				ta, ok := in.(*ssa.TypeAssert)
				if !ok || ta.CommaOk {
					continue
				}
				// assertions to interface types with method sets can fail too; all count
				k++
				key := fmt.Sprintf("%s/assert#%d:%s", FuncName(fn), k, strings.ReplaceAll(ta.AssertedType.String(), helmMod+"/", ""))
				if prot[fn] {
					r.OKTrivial("C20/PANIC", key, w.InstrPos(ta), "only reachable below a recover wrapper")
					continue
				}
				if why, ok := assertExceptions[FuncName(fn)]; ok {
					r.OKTrivial("C20/PANIC", key, w.InstrPos(ta), "named exception: "+why)
					continue
				}
				target := nf(ta.X, 0)
				var guardE []Edge
				var guardI []ssa.Instruction
				for _, bb := range fn.Blocks {
					for _, i2 := range bb.Instrs {
						switch x := i2.(type) {
						case *ssa.TypeAssert:
							if x.CommaOk && types.Identical(x.AssertedType, ta.AssertedType) && nf(x.X, 0) == target && x.Referrers() != nil {
								for _, rf := range *x.Referrers() {
									if ex, ok := rf.(*ssa.Extract); ok && ex.Index == 1 {
										for _, e := range condEdges(ex) {
											if e.truth {
												guardE = append(guardE, e.Edge)
											}
										}
									}
								}
							}
						case *ssa.Call:
							if f, _ := calleeOf(x.Common()); f != nil {
								if t := typePredicateOf(origin(f)); t != nil && types.Identical(t, ta.AssertedType) && len(x.Call.Args) == 1 && nf(x.Call.Args[0], 0) == target {
									for _, e := range condEdges(x) {
										if e.truth {
											guardE = append(guardE, e.Edge)
										}
									}
								}
							}
						case *ssa.MapUpdate:
							// the slot is created with a value of the asserted type
							slot := "lookup(" + nf(x.Map, 1) + "," + nf(x.Key, 1) + ")"
							if slot == target && types.Identical(unwrapIface(x.Value).Type(), ta.AssertedType) {
								guardI = append(guardI, x)
							}
						}
					}
				}
				ex, wit := g.PathExists(entryPos(fn), posOf(ta), Avoid{}.withEdges(guardE...).withInstrs(guardI...))
				if !ex && len(guardE)+len(guardI) > 0 {
					r.OK("C20/PANIC", key, w.InstrPos(ta), fmt.Sprintf("dominated by %d matching type tests / slot creations of the same operand", len(guardE)+len(guardI)))
				} else {
					r.Bad("C20/PANIC", key, w.InstrPos(ta), fmt.Sprintf("unchecked type assertion on input-derived data reachable without a matching type test (path via %s) and not below a recover wrapper", witnessLine(w, wit)))
				}
			}
		}
	}
}

// V-ERR exceptions: call whose error is deliberately discarded because the argument is a constant known valid.
var vErrExceptions = map[string]string{}

func derefsOf(v ssa.Value) []ssa.Instruction {
	var out []ssa.Instruction
	if v.Referrers() == nil {
		return nil
	}
	for _, rf := range *v.Referrers() {
		switch x := rf.(type) {
		case *ssa.FieldAddr:
			if x.X == v {
				out = append(out, x)
			}
		case *ssa.UnOp:
			if x.Op == token.MUL && x.X == v {
				out = append(out, x)
			}
		case *ssa.IndexAddr:
			if x.X == v {
				if _, isPtr := v.Type().Underlying().(*types.Pointer); isPtr {
					out = append(out, x)
				}
			}
		case ssa.CallInstruction:
			// method call with v as receiver of pointer type (a nil receiver dereferences inside) — only for invoke on interfaces or pointer receivers declared in helm
			cc := x.Common()
			if cc.IsInvoke() && cc.Value == v {
				out = append(out, x)
			} else if len(cc.Args) > 0 && cc.Args[0] == v && cc.Signature().Recv() != nil {
				if _, isPtr := v.Type().Underlying().(*types.Pointer); isPtr {
					out = append(out, x)
				}
			}
		}
	}
	return out
}

func c20VErr(w *World, r *Report, scope, prot map[*ssa.Function]bool) {
	var fns []*ssa.Function
	for f := range scope {
		fns = append(fns, f)
	}
	sort.Slice(fns, func(i, j int) bool { return fns[i].Pos() < fns[j].Pos() })
	for _, fn := range fns {
		g := FullGraph(fn)
		seen := map[string]int{}
		for _, c := range callInstrs(fn) {
			call, ok := c.(*ssa.Call)
			if !ok {
				continue
			}
			sig := call.Common().Signature()
			if sig.Results().Len() != 2 || !isErrorType(sig.Results().At(1).Type()) {
				continue
			}
			switch sig.Results().At(0).Type().Underlying().(type) {
			case *types.Pointer, *types.Interface:
			default:
				continue
			}
			val := resultN(call, 0)
			if val == nil {
				continue
			}
			var derefs []ssa.Instruction
			for a := range forwardAliases(val) {
				derefs = append(derefs, derefsOf(a)...)
			}
			if len(derefs) == 0 {
				continue
			}
			key := siteKey(Site{fn, c, posOf(c)})
			seen[key]++
			if seen[key] > 1 {
				key = fmt.Sprintf("%s@%d", key, seen[key])
			}
			if prot[fn] {
				r.OKTrivial("C20/V-ERR", key, w.InstrPos(c), "only reachable below a recover wrapper")
				continue
			}
			// constant input with the error deliberately discarded: the outcome does not depend on external data
			allConst := len(call.Call.Args) > 0
			for _, a := range call.Call.Args {
				if _, isC := a.(*ssa.Const); !isC {
					allConst = false
				}
			}
			errUnused := errResult(call) == nil
			if ev := errResult(call); ev != nil {
				errUnused = ev.Referrers() == nil || len(*ev.Referrers()) == 0
			}
			if allConst && errUnused {
				r.OKTrivial("C20/V-ERR", key, w.InstrPos(c), "constant arguments, error discarded: the result does not depend on external input")
				continue
			}
			okNil, _ := nilTestEdges(val)
			_, valNonNil := nilTestEdges(val)
			_ = okNil
			errOK := okEdgesOfCall(call)
			bad := ""
			for _, d := range derefs {
				ex, _ := g.PathExists(posOf(call), posOf(d), Avoid{}.withEdges(errOK...).withEdges(valNonNil...))
				if ex {
					// no test of either kind on some path
					if len(errOK)+len(valNonNil) == 0 || ex {
						bad = w.InstrPos(d)
					}
				}
			}
			if bad == "" {
				r.OK("C20/V-ERR", key, w.InstrPos(c), "the value is dereferenced only after its error (or the value itself) was tested")
			} else if why, ok := vErrExceptions[FuncName(fn)+"|"+describeCall(call.Common())]; ok {
				r.OKTrivial("C20/V-ERR", key, w.InstrPos(c), "named exception: "+why)
			} else {
				r.Bad("C20/V-ERR", key, bad, fmt.Sprintf("the result of %s is dereferenced here although its error may be non-nil (value nil)", describeCall(call.Common())))
			}
		}
	}
}

func c20NilElem(w *World, r *Report) {
	// repository index: shared with C18/FILTER
	c18Filter(w, r, "C20/NIL-ELEM")
	// chart metadata: Dependency.Validate and Maintainer.Validate test the receiver for nil before anything else, and Metadata.Validate calls them for every element
	for _, t := range []string{"Dependency", "Maintainer"} {
		fn := w.Fn("pkg/chart/v2", t+".Validate")
		if fn == nil {
			r.Unk("C20/NIL-ELEM", "metadata/"+t, "-", t+".Validate not found")
			continue
		}
		r.Fn(FuncName(fn))
		g := FullGraph(fn)
		recv := ssa.Value(fn.Params[0])
		_, nonNil := nilTestEdges(recv)
		bad := ""
		for _, d := range derefsOf(recv) {
			if ex, _ := g.PathExists(entryPos(fn), posOf(d), Avoid{}.withEdges(nonNil...)); ex {
				bad = w.InstrPos(d)
			}
		}
		r.Check(bad == "" && len(nonNil) > 0, "C20/NIL-ELEM", "metadata/"+t+".Validate", w.Pos(fn.Pos()), "a nil "+t+" entry is rejected before any field is read", "a nil "+t+" entry (null list element in Chart.yaml) is dereferenced at "+bad)
	}
}

// c20LintNilElems: the chart linter reads Chart.yaml without validating it, so in its rules an element of
// a decoded list of pointers (maintainers, dependencies) is dereferenced only after a nil test — unless the
// chart came from the loader, which rejects null elements.
func c20LintNilElems(w *World, r *Report) {
	n := 0
	seen := map[string]int{}
	for _, fn := range w.FuncsIn("pkg/lint/rules") {
		var g *Graph
		for _, b := range fn.Blocks {
			for _, in := range b.Instrs {
				// element loads: *(&list[i]) with list a load of a decoded field of pointers
				ld, ok := in.(*ssa.UnOp)
				if !ok || ld.Op != token.MUL {
					continue
				}
				ia, ok := ld.X.(*ssa.IndexAddr)
				if !ok {
					continue
				}
				lst, ok := ia.X.(*ssa.UnOp)
				if !ok || lst.Op != token.MUL {
					continue
				}
				fa, ok := lst.X.(*ssa.FieldAddr)
				if !ok {
					continue
				}
				fld, isDecoded := decodedListField(fa)
				if !isDecoded {
					continue
				}
				if _, isPtr := ld.Type().Underlying().(*types.Pointer); !isPtr {
					continue
				}
				// the metadata came from the validating loader?
				fromLoader := false
				backSlice(fa.X, func(v ssa.Value) bool {
					if c, isC := v.(*ssa.Call); isC {
						if f, _ := calleeOf(c.Common()); f != nil && strings.HasSuffix(fnPkgPath(f), "/pkg/chart/v2/loader") {
							fromLoader = true
						}
						return true
					}
					return false
				})
				if !fromLoader {
					// a parameter: every caller hands in a chart that came from the loader?
					var prm *ssa.Parameter
					backSlice(fa.X, func(v ssa.Value) bool {
						if p, isP := v.(*ssa.Parameter); isP {
							prm = p
							return true
						}
						_, isC := v.(*ssa.Call)
						return isC
					})
					if prm != nil && prm.Parent() == fn {
						idx := paramIndex(fn, prm)
						callers, all := 0, true
						for _, cf := range w.FuncsIn("pkg/lint/rules") {
							for _, c := range callInstrs(cf) {
								if f, _ := calleeOf(c.Common()); f == nil || origin(f) != fn || idx >= len(c.Common().Args) {
									continue
								}
								callers++
								okArg := false
								backSlice(c.Common().Args[idx], func(v ssa.Value) bool {
									if cc, isC := v.(*ssa.Call); isC {
										if f, _ := calleeOf(cc.Common()); f != nil && strings.HasSuffix(fnPkgPath(f), "/pkg/chart/v2/loader") {
											okArg = true
										}
										return true
									}
									return false
								})
								if !okArg {
									all = false
								}
							}
						}
						fromLoader = callers > 0 && all
					}
				}
				if fromLoader {
					continue
				}
				derefs := derefsOf(ld)
				if len(derefs) == 0 {
					continue
				}
				if g == nil {
					g = FullGraph(fn)
				}
				_, nonNil := nilTestEdges(ld)
				bad := ""
				for _, d := range derefs {
					if ex, _ := g.PathExists(posOf(ld), posOf(d), Avoid{}.withEdges(nonNil...)); ex {
						bad = w.InstrPos(d)
					}
				}
				n++
				key := "lint/" + FuncName(fn) + "/" + fld
				seen[key]++
				if seen[key] > 1 {
					key = fmt.Sprintf("%s#%d", key, seen[key])
				}
				r.Fn(FuncName(fn))
				r.Check(bad == "", "C20/NIL-ELEM", key, w.InstrPos(ld), "the list element is dereferenced only after a nil test", "an element of "+fld+" is dereferenced at "+bad+" without a nil test: the linter reads Chart.yaml without validation, a null list entry panics")
			}
		}
	}
	if n == 0 {
		r.OKTrivial("C20/NIL-ELEM", "lint/none", "-", "no lint rule dereferences elements of an unvalidated decoded list")
	}
}

func c20Recover(w *World, r *Report) {
	for _, e := range []struct{ rel, name, what string }{
		{"pkg/engine", "Engine.render", "template rendering"},
		{"pkg/strvals", "parser.key", "--set key parsing"},
		{"pkg/strvals", "literalParser.key", "--set-literal key parsing"},
		{"pkg/chart/v2/util", "ValidateAgainstSingleSchema", "schema validation"},
	} {
		fn := w.Fn(e.rel, e.name)
		if fn == nil {
			r.Unk("C20/RECOVER-PRESENT", e.name, "-", "function not found")
			continue
		}
		r.Fn(FuncName(fn))
		r.Check(hasRecover(fn), "C20/RECOVER-PRESENT", FuncName(fn), w.Pos(fn.Pos()), "a recovering deferred closure is installed first ("+e.what+")", "the recover wrapper of "+e.what+" is missing or is installed after other calls")
	}
}

func c20Depth(w *World, r *Report) {
	inc := w.Fn("pkg/engine", "includeFun")
	tpl := w.Fn("pkg/engine", "tplFun")
	if inc == nil || tpl == nil {
		r.Unk("C20/DEPTH-LIMIT", "anchor", "-", "engine.includeFun / tplFun not found")
		return
	}
	// the counter map parameter index
	mapParam := func(f *ssa.Function) int {
		for i, p := range f.Params {
			if m, ok := p.Type().Underlying().(*types.Map); ok {
				if b, ok := m.Elem().Underlying().(*types.Basic); ok && b.Kind() == types.Int {
					return i
				}
			}
		}
		return -1
	}
	// every call of includeFun/tplFun inside tplFun's closures passes tplFun's own counter map
	bad := ""
	n := 0
	for _, f := range withAnon(tpl) {
		for _, c := range callInstrs(f) {
			g, _ := calleeOf(c.Common())
			if g == nil || (origin(g) != inc && origin(g) != tpl) {
				continue
			}
			n++
			k := mapParam(origin(g))
			arg := resolveToParam(c.Common().Args[k])
			if p, ok := arg.(*ssa.Parameter); !ok || p.Parent() != tpl || paramIndex(tpl, p) != mapParam(tpl) {
				bad = w.InstrPos(c)
			}
		}
	}
	r.Check(bad == "" && n >= 2, "C20/DEPTH-LIMIT", "tpl/shared-counter", w.Pos(tpl.Pos()), "nested include/tpl closures receive the enclosing counter map", "a nested include/tpl closure gets a fresh depth counter (at "+bad+"): recursion through tpl is no longer bounded")
	// includeFun and tplFun: the template execution is unreachable on the over-limit edge
	type lim struct {
		outer *ssa.Function
		exec  string
		key   string
	}
	for _, l := range []lim{{inc, "ExecuteTemplate", "include/limit"}, {tpl, "Execute", "tpl/limit"}} {
		for _, f := range withAnon(l.outer) {
			if f == l.outer {
				continue
			}
			hasExec := false
			for _, c := range callInstrs(f) {
				if cal, _ := calleeOf(c.Common()); cal != nil && fnPkgPath(cal) == "text/template" && cal.Name() == l.exec {
					hasExec = true
				}
			}
			if !hasExec {
				continue
			}
			g := FullGraph(f)
			var over []Edge
			for _, e := range relEdges(f, func(v ssa.Value) bool { _, c := v.(*ssa.Const); return !c }, func(v ssa.Value) bool { _, c := constInt(v); return c }) {
				if e.Rel == token.GTR || e.Rel == token.GEQ { // counter above / at the limit
					over = append(over, e.Edge)
				}
			}
			var exec ssa.CallInstruction
			for _, c := range callInstrs(f) {
				if cal, _ := calleeOf(c.Common()); cal != nil && fnPkgPath(cal) == "text/template" && cal.Name() == l.exec {
					exec = c
				}
			}
			okLimit := false
			if exec != nil && len(over) > 0 {
				okLimit = true
				for _, e := range over {
					if len(e.To().Instrs) > 0 {
						if reach, _ := g.PathExists(IPos{e.To(), -1}, posOf(exec), Avoid{}); reach {
							okLimit = false
						}
					}
				}
				// and the counter is incremented before executing
				incd := false
				for _, b := range f.Blocks {
					for _, in := range b.Instrs {
						if mu, ok := in.(*ssa.MapUpdate); ok {
							if bo, ok := mu.Value.(*ssa.BinOp); ok && bo.Op == token.ADD && g.DominatesInstr(mu, posOf(exec)) || isOneConst(mu.Value) {
								incd = true
							}
						}
					}
				}
				okLimit = okLimit && incd
			}
			r.Check(okLimit, "C20/DEPTH-LIMIT", l.key, w.Pos(f.Pos()), "the template is executed only below the depth limit, after the counter was raised", "the "+strings.TrimSuffix(l.key, "/limit")+" depth limit does not stop execution (or the counter is not raised): a template that reaches itself recurses until the stack overflows")
		}
	}
	// strvals: nestedNameLevel compared with MaxNestedNameLevel on the recursive edge
	key := w.Fn("pkg/strvals", "parser.key")
	if key == nil {
		r.Unk("C20/DEPTH-LIMIT", "strvals/anchor", "-", "strvals parser.key not found")
		return
	}
	okS := false
	isLimit := func(v ssa.Value) bool {
		if ld, ok := v.(*ssa.UnOp); ok {
			if gl, ok := ld.X.(*ssa.Global); ok && gl.Name() == "MaxNestedNameLevel" {
				return true
			}
		}
		return false
	}
	for _, e := range relEdges(key, func(v ssa.Value) bool { return !isLimit(v) }, isLimit) {
		if e.Rel == token.GTR || e.Rel == token.GEQ {
			okS = true
		}
	}
	r.Check(okS, "C20/DEPTH-LIMIT", "strvals/nesting", w.Pos(key.Pos()), "the nesting level is compared with MaxNestedNameLevel in the recursive key parser", "the recursive key parser no longer tests the nesting level against MaxNestedNameLevel")
}

func isOneConst(v ssa.Value) bool {
	i, ok := constInt(v)
	return ok && i == 1
}
