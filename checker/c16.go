package main

// C16 — file-writing operations never escape their directory or exceed size limits (structural part).

import (
	"fmt"
	"go/token"
	"go/types"
	"strings"

	"golang.org/x/tools/go/ssa"
)

func init() {
	register(&propDef{
		ID: "C16",
		Anchors: []string{"pkg/chart/v2/loader/archive.go", "pkg/chart/v2/util/expand.go", "pkg/plugin/installer/http_installer.go", "pkg/downloader/chart_downloader.go",
			"pkg/downloader/manager.go", "pkg/action/pull.go"},
		NotDec:  []string{"that securejoin.SecureJoin itself confines (trusted library)", "actual file-system effects and races with a concurrently changing destination", "byte counts of real archives"},
		Trusted: []string{"github.com/cyphar/filepath-securejoin SecureJoin", "archive/tar, compress/gzip readers"},
		Run:     runC16,
	})
}

func isFSWrite(f *ssa.Function) (bool, int) {
	if f == nil {
		return false, 0
	}
	p, n := fnPkgPath(f), f.Name()
	switch {
	case p == "os" && (n == "WriteFile" || n == "Create" || n == "OpenFile" || n == "Mkdir" || n == "MkdirAll" || n == "Symlink" || n == "Link" || n == "Rename"):
		if n == "Symlink" || n == "Link" || n == "Rename" {
			return true, 1
		}
		return true, 0
	case p == helmMod+"/internal/fileutil" && n == "AtomicWriteFile":
		return true, 0
	}
	return false, 0
}

// untrusted: the value carries an archive entry name, a chart name from a document, or a URL path.
func untrustedSource(v ssa.Value) string {
	src := ""
	backSlice(v, func(x ssa.Value) bool {
		if src != "" {
			return true
		}
		if p, t, f := fieldNameOf(x); p != "" {
			switch {
			case p == "archive/tar" && t == "Header" && (f == "Name" || f == "Linkname"):
				src = "tar.Header." + f
			case strings.HasSuffix(p, "pkg/chart/v2/loader") && t == "BufferedFile" && f == "Name":
				src = "BufferedFile.Name"
			case strings.HasSuffix(p, "pkg/chart/v2") && t == "Metadata" && f == "Name":
				src = "Metadata.Name"
			case p == "net/url" && t == "URL" && f == "Path":
				src = "URL.Path"
			}
			if src != "" {
				return true
			}
		}
		return false
	})
	return src
}

// pathForm classifies how a path value is produced.
//
//	"securejoin"  — result 0 of SecureJoin / of a helm function ending in SecureJoin (cleanJoin), or Dir/Clean of such
//	"base-join"   — filepath.Join(trusted…, filepath.Base(x))
//	"other"       — anything else
func pathForm(w *World, v ssa.Value, depth int) string {
	if depth > 6 {
		return "other"
	}
	switch x := v.(type) {
	case *ssa.Extract:
		if c, ok := x.Tuple.(*ssa.Call); ok && x.Index == 0 {
			if f, _ := calleeOf(c.Common()); f != nil && endsInSecureJoin(f, 0) {
				return "securejoin"
			}
		}
	case *ssa.Call:
		f, _ := calleeOf(x.Common())
		if f == nil {
			return "other"
		}
		p, n := fnPkgPath(f), f.Name()
		if p == "path/filepath" && (n == "Dir" || n == "Clean" || n == "ToSlash" || n == "FromSlash") {
			return pathForm(w, x.Call.Args[0], depth+1)
		}
		if p == "path/filepath" && n == "Join" {
			// variadic: the elements are stored into a slice literal
			elems := sliceElems(x.Call.Args[0])
			ok := len(elems) > 0
			for _, e := range elems {
				if untrustedSource(e) == "" {
					continue
				}
				if c, isC := e.(*ssa.Call); isC {
					if g, _ := calleeOf(c.Common()); g != nil && fnPkgPath(g) == "path/filepath" && g.Name() == "Base" {
						continue
					}
				}
				// the element may itself be a local that was assigned filepath.Base(...)
				if allDefsAreBase(e) {
					continue
				}
				ok = false
			}
			if ok {
				return "base-join"
			}
		}
	case *ssa.Phi:
		form := ""
		for _, e := range x.Edges {
			f := pathForm(w, e, depth+1)
			if form == "" {
				form = f
			} else if form != f {
				return "other"
			}
		}
		return form
	case *ssa.BinOp:
		if x.Op == token.ADD {
			// destfile + ".prov": suffix constant on a classified path
			if _, isC := x.Y.(*ssa.Const); isC {
				return pathForm(w, x.X, depth+1)
			}
		}
	}
	return "other"
}

func allDefsAreBase(v ssa.Value) bool {
	switch x := v.(type) {
	case *ssa.Call:
		if g, _ := calleeOf(x.Common()); g != nil {
			if fnPkgPath(g) == "path/filepath" && g.Name() == "Base" {
				return true
			}
			if fnPkgPath(g) == "fmt" && g.Name() == "Sprintf" {
				// name rebuilt from pieces of a Base()d name
				ok := true
				for _, e := range sliceElems(x.Call.Args[1]) {
					if untrustedSource(e) != "" && !derivesOnlyFromBase(e) {
						ok = false
					}
				}
				return ok
			}
		}
	case *ssa.Phi:
		for _, e := range x.Edges {
			if !allDefsAreBase(e) {
				return false
			}
		}
		return true
	case *ssa.BinOp:
		// name rebuilt by concatenation from pieces of a Base()d name and constants
		if x.Op == token.ADD {
			for _, o := range []ssa.Value{x.X, x.Y} {
				if _, isC := o.(*ssa.Const); isC {
					continue
				}
				if untrustedSource(o) != "" && !derivesOnlyFromBase(o) && !allDefsAreBase(o) {
					return false
				}
			}
			return true
		}
	}
	return false
}

func derivesOnlyFromBase(v ssa.Value) bool {
	ok := false
	bad := false
	backSlice(v, func(x ssa.Value) bool {
		if c, isC := x.(*ssa.Call); isC {
			if g, _ := calleeOf(c.Common()); g != nil && fnPkgPath(g) == "path/filepath" && g.Name() == "Base" {
				ok = true
				return true
			}
		}
		if _, _, f := fieldNameOf(x); f == "Path" {
			bad = true
		}
		return false
	})
	return ok && !bad
}

// sliceElems: the values stored into the backing array of a variadic slice literal.
func sliceElems(v ssa.Value) []ssa.Value {
	sl, ok := v.(*ssa.Slice)
	if !ok {
		return nil
	}
	al, ok := sl.X.(*ssa.Alloc)
	if !ok || al.Referrers() == nil {
		return nil
	}
	var out []ssa.Value
	for _, rf := range *al.Referrers() {
		if ia, ok := rf.(*ssa.IndexAddr); ok && ia.Referrers() != nil {
			for _, rr := range *ia.Referrers() {
				if st, ok := rr.(*ssa.Store); ok && st.Addr == ia {
					out = append(out, unwrapIface(st.Val))
				}
			}
		}
	}
	return out
}

// endsInSecureJoin: every success return of f yields result 0 of securejoin.SecureJoin (directly or through a helm wrapper).
func endsInSecureJoin(f *ssa.Function, depth int) bool {
	if f == nil || depth > 3 {
		return false
	}
	if fnPkgPath(f) == "github.com/cyphar/filepath-securejoin" && f.Name() == "SecureJoin" {
		return true
	}
	if !inHelm(f) || len(f.Blocks) == 0 {
		return false
	}
	n := 0
	for _, b := range f.Blocks {
		if len(b.Instrs) == 0 {
			continue
		}
		ret, ok := b.Instrs[len(b.Instrs)-1].(*ssa.Return)
		if !ok || len(ret.Results) == 0 {
			continue
		}
		v := ret.Results[0]
		if c, isC := constString(v); isC && c == "" {
			continue // error returns
		}
		n++
		okThis := false
		// lexical wrappers around the joined path
		for {
			c, isC := v.(*ssa.Call)
			if !isC {
				break
			}
			g, _ := calleeOf(c.Common())
			if g != nil && fnPkgPath(g) == "path/filepath" && (g.Name() == "ToSlash" || g.Name() == "FromSlash" || g.Name() == "Clean") {
				v = c.Call.Args[0]
				continue
			}
			break
		}
		switch x := v.(type) {
		case *ssa.Extract:
			if c, isC := x.Tuple.(*ssa.Call); isC && x.Index == 0 {
				if g, _ := calleeOf(c.Common()); g != nil && endsInSecureJoin(g, depth+1) {
					okThis = true
				}
			}
		case *ssa.Call:
			_ = x
		}
		// `return securejoin.SecureJoin(root, dest)` returns the tuple's components
		if !okThis {
			if ex, isEx := v.(*ssa.Extract); isEx {
				_ = ex
			}
			return false
		}
	}
	return n > 0
}

var archiveWriters = map[string]bool{"pkg/chart/v2/util.Expand": true, "(*pkg/plugin/installer.TarGzExtractor).Extract": true}

func runC16(w *World, r *Report) {
	r.Rule("C16/JOIN", "every file-system write whose path derives from an archive entry name, a chart name or a URL path uses a confined path: in the archive expanders the direct result of SecureJoin/cleanJoin over the whole relative name (or its Dir), elsewhere additionally Join(dir, Base(name))", 6)
	r.Rule("C16/NAMES", "an archive entry becomes a loaded file only after its cleaned name passed the absolute / \".\" / \"..\"-prefix / drive-letter rejections", 5)
	r.Rule("C16/TYPES", "the plugin extractor writes only directories and regular files and errors on any other entry type; no symlink/hard-link creation is reachable from the archive loaders and expanders", 3)
	r.Rule("C16/LIMITS", "each archive entry is read through a LimitReader bounded by the remaining total budget after its declared size was checked against that budget and the per-file limit; the budget is a loop-carried value decreased by the bytes copied; the directory loader checks the file size before reading", 5)
	r.Rule("C16/LOCK-SYMLINK", "the lock file is written only after an Lstat of the very same path whose symlink bit leads to an error return", 1)
	c16Join(w, r)
	c16Names(w, r)
	c16Types(w, r)
	c16Limits(w, r)
	c16LockSymlink(w, r)
}

// c16JoinRoot: the directory a SecureJoin confines to must itself be trustworthy: the caller's
// destination (cleaned) or the result of another SecureJoin — not a plain filepath.Join with a name
// taken from the archive (a chart name ".." or a symlink planted under it would move the root).
func c16JoinRoot(w *World, r *Report) {
	n := 0
	for _, rel := range []string{"pkg/chart/v2/util", "pkg/plugin/installer"} {
		for _, fn := range w.FuncsIn(rel) {
			seen := 0
			for _, c := range callInstrs(fn) {
				f, _ := calleeOf(c.Common())
				if f == nil || !strings.HasSuffix(FuncName(f), "securejoin.SecureJoin") || len(c.Common().Args) < 2 {
					continue
				}
				n++
				seen++
				bad := ""
				backSlice(c.Common().Args[0], func(v ssa.Value) bool {
					switch x := v.(type) {
					case *ssa.Parameter:
						return true
					case *ssa.Call:
						g, _ := calleeOf(x.Common())
						if g == nil {
							bad = "a dynamic call"
							return true
						}
						switch {
						case strings.HasSuffix(FuncName(g), "securejoin.SecureJoin"):
							return true
						case fnPkgPath(g) == "path/filepath" && (g.Name() == "Clean" || g.Name() == "Abs" || g.Name() == "Dir"):
							return false // look at its argument
						default:
							bad = describeCall(x.Common())
							return true
						}
					case *ssa.BinOp:
						bad = "a string concatenation"
						return true
					}
					return false
				})
				r.Fn(FuncName(fn))
				r.Check(bad == "", "C16/JOIN", fmt.Sprintf("%s/join-root#%d", FuncName(fn), seen), w.InstrPos(c), "the confining directory is the caller's destination or itself a SecureJoin result", "the directory this SecureJoin confines to is built with "+bad+": a hostile chart name (\"..\", or a name under which a symlink was planted) moves the root outside the destination")
			}
		}
	}
	_ = n
}

func c16Join(w *World, r *Report) {
	c16JoinRoot(w, r)
	c16SkipOnlyByType(w, r)
	var scope []*ssa.Function
	for _, rel := range []string{"pkg/chart/v2/util", "pkg/plugin/installer", "pkg/downloader", "pkg/action"} {
		scope = append(scope, w.FuncsIn(rel)...)
	}
	n := 0
	for _, fn := range scope {
		g := FullGraph(fn)
		for _, c := range callInstrs(fn) {
			f, _ := calleeOf(c.Common())
			ok, argi := isFSWrite(f)
			if !ok || argi >= len(c.Common().Args) {
				continue
			}
			pathArg := c.Common().Args[argi]
			src := untrustedSource(pathArg)
			if src == "" {
				continue
			}
			n++
			r.Fn(FuncName(fn))
			form := pathForm(w, pathArg, 0)
			key := siteKey(Site{fn, c, posOf(c)})
			strict := archiveWriters[FuncName(fn)]
			good := form == "securejoin" || (!strict && form == "base-join")
			// the sanitiser's ok edge must be passed
			if good && form == "securejoin" {
				var sj ssa.CallInstruction
				backSlice(pathArg, func(x ssa.Value) bool {
					if cc, isC := x.(*ssa.Call); isC {
						if ff, _ := calleeOf(cc.Common()); ff != nil && endsInSecureJoin(ff, 0) {
							if sj == nil {
								sj = cc
							}
							return true
						}
					}
					return sj != nil
				})
				if sj == nil || !g.AfterOK(sj, posOf(c)) {
					good = false
					form += " without passing its error test"
				}
			}
			r.Check(good, "C16/JOIN", key, w.InstrPos(c), fmt.Sprintf("path built from %s is confined (%s)", src, form),
				fmt.Sprintf("path built from %s reaches %s.%s as %q: %s", src, fnPkgPath(f), f.Name(), form, map[bool]string{true: "in an archive expander every write path must be the direct result of the secure join (a pre-planted symlink at the final component would be followed)", false: "the name is neither securely joined nor reduced to its base"}[strict]))
		}
	}
	if n == 0 {
		r.Unk("C16/JOIN", "no-flow", "-", "no file-system write fed by an archive/chart/URL name found")
	}
}

func c16Names(w *World, r *Report) {
	fn := w.Fn("pkg/chart/v2/loader", "LoadArchiveFiles")
	if fn == nil {
		r.Unk("C16/NAMES", "anchor", "-", "loader.LoadArchiveFiles not found")
		return
	}
	r.Fn(FuncName(fn))
	g := FullGraph(fn)
	// the store BufferedFile.Name = n
	var nameStore *ssa.Store
	for _, b := range fn.Blocks {
		for _, in := range b.Instrs {
			if st, ok := in.(*ssa.Store); ok {
				if _, t, f := fieldNameOf(st.Addr); t == "BufferedFile" && f == "Name" {
					nameStore = st
				}
			}
		}
	}
	if nameStore == nil {
		r.Bad("C16/NAMES", "file-name", w.Pos(fn.Pos()), "no BufferedFile is built from the archive entries")
		return
	}
	n := g.resolveAt(nameStore.Val, posOf(nameStore))
	// n must be the result of path.Clean
	cleaned := false
	if c, ok := n.(*ssa.Call); ok {
		if f, _ := calleeOf(c.Common()); f != nil && fnPkgPath(f) == "path" && f.Name() == "Clean" {
			cleaned = true
		}
	}
	r.Check(cleaned, "C16/NAMES", "cleaned", w.InstrPos(nameStore), "the exposed file name is the result of path.Clean", "the exposed file name is not the cleaned name that was checked")
	type chk struct {
		key  string
		pass []Edge
	}
	var checks []chk
	add := func(key string, cond ssa.Value, rejectOn bool) {
		var pass []Edge
		for _, e := range condEdges(cond) {
			if e.truth != rejectOn {
				pass = append(pass, e.Edge)
			}
		}
		checks = append(checks, chk{key, pass})
	}
	var preClean ssa.Value
	if c, ok := n.(*ssa.Call); ok && cleaned {
		preClean = c.Call.Args[0]
	}
	for _, c := range callInstrs(fn) {
		cc, isCall := c.(*ssa.Call)
		if !isCall {
			continue
		}
		f, _ := calleeOf(cc.Common())
		if f == nil {
			continue
		}
		switch {
		case fnPkgPath(f) == "path" && f.Name() == "IsAbs" && (cc.Call.Args[0] == n || cc.Call.Args[0] == preClean):
			add("absolute", cc, true)
		case fnPkgPath(f) == "strings" && f.Name() == "HasPrefix" && cc.Call.Args[0] == n:
			if s, _ := constString(cc.Call.Args[1]); s == ".." {
				add("parent-prefix", cc, true)
			}
		case fnPkgPath(f) == "regexp" && f.Name() == "MatchString" && len(cc.Call.Args) > 1 && cc.Call.Args[1] == n:
			add("drive-letter", cc, true)
		}
	}
	for _, b := range fn.Blocks {
		for _, in := range b.Instrs {
			if bo, ok := in.(*ssa.BinOp); ok && bo.Op == token.EQL && bo.X == n {
				if s, isC := constString(bo.Y); isC && s == "." {
					add("dot", bo, true)
				}
			}
		}
	}
	want := map[string]bool{"absolute": false, "parent-prefix": false, "drive-letter": false, "dot": false}
	for _, c := range checks {
		want[c.key] = true
		ex, _ := g.PathExists(entryPos(fn), posOf(nameStore), Avoid{}.withEdges(c.pass...))
		r.Check(!ex && len(c.pass) > 0, "C16/NAMES", "reject:"+c.key, w.InstrPos(nameStore), "the file is kept only on the passing edge of the "+c.key+" test", "an entry can be kept without passing the "+c.key+" test")
	}
	for k, seen := range want {
		if !seen {
			r.Bad("C16/NAMES", "reject:"+k, w.Pos(fn.Pos()), "the "+k+" rejection of archive entry names is missing (or no longer applied to the cleaned name)")
		}
	}
}

func c16Types(w *World, r *Report) {
	ext := w.Fn("pkg/plugin/installer", "TarGzExtractor.Extract")
	if ext == nil {
		r.Unk("C16/TYPES", "anchor", "-", "TarGzExtractor.Extract not found")
		return
	}
	r.Fn(FuncName(ext))
	g := FullGraph(ext)
	// writes guarded by Typeflag == TypeDir / TypeReg
	var okEdges []Edge
	for _, b := range ext.Blocks {
		for _, in := range b.Instrs {
			bo, isBo := in.(*ssa.BinOp)
			if !isBo || (bo.Op != token.EQL && bo.Op != token.NEQ) {
				continue
			}
			isFlag := func(v ssa.Value) bool {
				if ld, ok := v.(*ssa.UnOp); ok {
					_, t, f := fieldNameOf(ld.X)
					return t == "Header" && f == "Typeflag"
				}
				return false
			}
			var cv ssa.Value
			if isFlag(bo.X) {
				cv = bo.Y
			} else if isFlag(bo.Y) {
				cv = bo.X
			}
			if cv == nil {
				continue
			}
			if i, ok := constInt(cv); ok && (i == '0' || i == '5') { // tar.TypeReg, tar.TypeDir
				for _, e := range condEdges(bo) {
					if e.truth == (bo.Op == token.EQL) {
						okEdges = append(okEdges, e.Edge)
					}
				}
			}
		}
	}
	bad := ""
	n := 0
	for _, c := range callInstrs(ext) {
		f, _ := calleeOf(c.Common())
		if ok, _ := isFSWrite(f); !ok {
			continue
		}
		if untrustedSource(c.Common().Args[0]) == "" {
			continue
		}
		n++
		if ex, _ := g.PathExists(entryPos(ext), posOf(c), Avoid{}.withEdges(okEdges...)); ex {
			bad = w.InstrPos(c)
		}
	}
	r.Check(bad == "" && n > 0 && len(okEdges) > 0, "C16/TYPES", "extract/only-dir-and-regular", w.Pos(ext.Pos()), "entry-driven writes happen only on the TypeDir / TypeReg arms", "an entry-driven write at "+bad+" is reachable for entry types other than directory and regular file")
	// no symlink / link creation reachable
	for _, e := range [][2]string{{"pkg/plugin/installer", "TarGzExtractor.Extract"}, {"pkg/chart/v2/util", "Expand"}, {"pkg/chart/v2/util", "ExpandFile"}, {"pkg/chart/v2/loader", "LoadArchiveFiles"}, {"pkg/chart/v2/loader", "LoadArchive"}} {
		fn := w.Fn(e[0], e[1])
		if fn == nil {
			continue
		}
		found := ""
		seen := map[*ssa.Function]bool{}
		var walk func(f *ssa.Function, d int)
		walk = func(f *ssa.Function, d int) {
			f = origin(f)
			if f == nil || seen[f] || d > 6 {
				return
			}
			seen[f] = true
			if fnPkgPath(f) == "os" && (f.Name() == "Symlink" || f.Name() == "Link") {
				found = "os." + f.Name()
				return
			}
			if !inHelm(f) {
				return
			}
			for _, c := range callInstrs(f) {
				if g, _ := calleeOf(c.Common()); g != nil {
					walk(g, d+1)
				}
			}
		}
		walk(fn, 0)
		if e[1] == "TarGzExtractor.Extract" || e[1] == "Expand" {
			r.Check(found == "", "C16/TYPES", "no-link-creation/"+e[1], w.Pos(fn.Pos()), "no symlink or hard-link creation is reachable", found+" is reachable: archive entries could be materialised as links")
		} else if found != "" {
			r.Bad("C16/TYPES", "no-link-creation/"+e[1], w.Pos(fn.Pos()), found+" is reachable: archive entries could be materialised as links")
		}
	}
}

func c16Limits(w *World, r *Report) {
	fn := w.Fn("pkg/chart/v2/loader", "LoadArchiveFiles")
	if fn == nil {
		return
	}
	findCopy := func(f *ssa.Function) (cp, lim *ssa.Call) {
		for _, c := range callInstrs(f) {
			cc, ok := c.(*ssa.Call)
			if !ok {
				continue
			}
			g, _ := calleeOf(cc.Common())
			if g == nil || fnPkgPath(g) != "io" {
				continue
			}
			switch g.Name() {
			case "Copy", "CopyN", "ReadAll":
				cp = cc
			case "LimitReader":
				lim = cc
			}
		}
		return
	}
	host := fn // the function holding the copy
	var hostCall *ssa.Call
	copyCall, limitCall := findCopy(fn)
	if copyCall == nil {
		// a helper of the loader that does the copy for one entry
		for _, c := range callInstrs(fn) {
			cc, ok := c.(*ssa.Call)
			if !ok {
				continue
			}
			if h, _ := calleeOf(cc.Common()); h != nil && fnPkgPath(h) == loaderPkg {
				if cp, lim := findCopy(origin(h)); cp != nil {
					host, hostCall, copyCall, limitCall = origin(h), cc, cp, lim
				}
			}
		}
	}
	if copyCall == nil {
		r.Bad("C16/LIMITS", "copy", w.Pos(fn.Pos()), "no entry copy found in LoadArchiveFiles or a helper it calls directly")
		return
	}
	r.Fn(FuncName(host))
	hg := FullGraph(host)
	src := copyCall.Call.Args[len(copyCall.Call.Args)-1]
	if copyCall.Call.Value.Name() == "Copy" {
		src = copyCall.Call.Args[1]
	}
	limited := limitCall != nil && unwrapIface(src) == ssa.Value(limitCall)
	r.Check(limited, "C16/LIMITS", "limit-reader", w.InstrPos(copyCall), "the entry is read through io.LimitReader", "the entry is read without a limiting reader")
	if !limited {
		return
	}
	budget := limitCall.Call.Args[1]
	// lift a helper's budget parameter to the loader's argument
	loopBudget := budget
	var copied ssa.Value = copyCall
	if hostCall != nil {
		if p, ok := budget.(*ssa.Parameter); ok {
			loopBudget = hostCall.Call.Args[paramIndex(host, p)]
			copied = hostCall
		} else {
			loopBudget = nil
		}
	}
	dec := false
	if phi, isPhi := loopBudget.(*ssa.Phi); isPhi {
		for _, e := range phi.Edges {
			if bo, ok := e.(*ssa.BinOp); ok && bo.Op == token.SUB && bo.X == ssa.Value(phi) && derivesFromValue(bo.Y, copied) {
				dec = true
			}
			// helper returns the new remaining budget
			if hostCall != nil && derivesFromValue(e, copied) && e != ssa.Value(phi) {
				if _, isConst := e.(*ssa.Const); !isConst {
					dec = true
				}
			}
		}
	}
	r.Check(dec, "C16/LIMITS", "budget-decreases", w.InstrPos(limitCall), "the limit is the remaining budget, a loop-carried value decreased by the bytes copied", "the limit given to the reader is not a loop-carried budget decreased by the bytes copied: the total size limit never tightens")
	// declared size checks dominate the copy: hd.Size > budget, hd.Size > MaxDecompressedFileSize (reject on true)
	sizeChecks := func(f *ssa.Function, bud ssa.Value) (passBudget, passFile []Edge) {
		isDeclared := func(v ssa.Value) bool {
			ld, ok := v.(*ssa.UnOp)
			if !ok {
				return false
			}
			_, t, fld := fieldNameOf(ld.X)
			return t == "Header" && fld == "Size"
		}
		isFileLimit := func(v ssa.Value) bool {
			if y, ok := v.(*ssa.UnOp); ok {
				if gl, ok := y.X.(*ssa.Global); ok && gl.Name() == "MaxDecompressedFileSize" {
					return true
				}
			}
			return false
		}
		passBudget = withinEdges(f, isDeclared, func(v ssa.Value) bool { return v == bud })
		passFile = withinEdges(f, isDeclared, isFileLimit)
		return
	}
	pb, pf := sizeChecks(host, budget)
	at := posOf(copyCall)
	cg := hg
	if hostCall != nil && (len(pb) == 0 || len(pf) == 0) {
		// the checks may sit in the loader before the helper call
		pb2, pf2 := sizeChecks(fn, loopBudget)
		if len(pb) == 0 && len(pf) == 0 {
			pb, pf, at, cg = pb2, pf2, posOf(hostCall), FullGraph(fn)
		}
	}
	exB, _ := cg.PathExists(entryPos(cg.Fn), at, Avoid{}.withEdges(pb...))
	exF, _ := cg.PathExists(entryPos(cg.Fn), at, Avoid{}.withEdges(pf...))
	r.Check(!exB && len(pb) > 0, "C16/LIMITS", "declared-size-vs-budget", w.InstrPos(copyCall), "the copy follows the rejection of entries whose declared size exceeds the remaining budget", "an entry is copied without its declared size having been checked against the remaining budget")
	r.Check(!exF && len(pf) > 0, "C16/LIMITS", "declared-size-vs-file-limit", w.InstrPos(copyCall), "the copy follows the rejection of entries whose declared size exceeds the per-file limit", "an entry is copied without its declared size having been checked against the per-file limit")
	over := false
	for _, b := range host.Blocks {
		for _, in := range b.Instrs {
			if bo, ok := in.(*ssa.BinOp); ok && isOrdering(bo.Op) && (derivesFromValue(bo.X, copyCall) || derivesFromValue(bo.Y, copyCall)) {
				over = true
			}
		}
	}
	r.Check(over, "C16/LIMITS", "overrun-detected", w.InstrPos(copyCall), "a short copy / exhausted budget is detected after the copy", "hitting the limit is not detected after the copy (a truncated entry would be accepted)")
	// directory loader: size test before ReadFile
	ld := w.Fn("pkg/chart/v2/loader", "LoadDir")
	if ld == nil {
		r.Unk("C16/LIMITS", "dir/anchor", "-", "loader.LoadDir not found")
		return
	}
	okDir, nDir := true, 0
	for _, f := range withAnon(ld) {
		fg := FullGraph(f)
		for _, c := range callInstrs(f) {
			cal, _ := calleeOf(c.Common())
			if cal == nil || fnPkgPath(cal) != "os" || cal.Name() != "ReadFile" {
				continue
			}
			nDir++
			pass := withinEdges(f, func(v ssa.Value) bool {
				cc, ok := v.(*ssa.Call)
				return ok && cc.Call.IsInvoke() && cc.Call.Method.Name() == "Size"
			}, func(ssa.Value) bool { return true })
			if ex, _ := fg.PathExists(entryPos(f), posOf(c), Avoid{}.withEdges(pass...)); ex || len(pass) == 0 {
				okDir = false
			}
		}
	}
	r.Check(okDir && nDir > 0, "C16/LIMITS", "dir/size-before-read", w.Pos(ld.Pos()), "the directory loader reads a file only after its size passed the per-file limit", "the directory loader can read a file without checking its size first")
}

func c16LockSymlink(w *World, r *Report) {
	// by role: the function of pkg/downloader that marshals a chart.Lock and writes it
	var fn *ssa.Function
	for _, f := range w.FuncsIn("pkg/downloader") {
		for _, p := range f.Params {
			if isNamedPtr(p.Type(), helmMod+"/pkg/chart/v2", "Lock") {
				for _, c := range callInstrs(f) {
					if cal, _ := calleeOf(c.Common()); cal != nil {
						if ok, _ := isFSWrite(cal); ok {
							fn = f
						}
					}
				}
			}
		}
	}
	if fn == nil {
		// folded into its caller: the function that marshals a *chart.Lock and writes a file
		for _, f := range w.FuncsIn("pkg/downloader") {
			marshals, writes := false, false
			for _, c := range callInstrs(f) {
				cal, _ := calleeOf(c.Common())
				if cal == nil {
					continue
				}
				if ok, _ := isFSWrite(cal); ok {
					writes = true
				}
				if cal.Name() == "Marshal" && len(c.Common().Args) > 0 {
					if mi, ok := c.Common().Args[0].(*ssa.MakeInterface); ok && isNamedPtr(mi.X.Type(), helmMod+"/pkg/chart/v2", "Lock") {
						marshals = true
					}
				}
			}
			if marshals && writes {
				fn = f
			}
		}
	}
	if fn == nil {
		r.Unk("C16/LOCK-SYMLINK", "anchor", "-", "no function of pkg/downloader writes a chart.Lock")
		return
	}
	r.Fn(FuncName(fn))
	g := FullGraph(fn)
	for _, c := range callInstrs(fn) {
		cal, _ := calleeOf(c.Common())
		if ok, _ := isFSWrite(cal); !ok {
			continue
		}
		dest := c.Common().Args[0]
		var lstat *ssa.Call
		for _, cc := range callInstrs(fn) {
			if f, _ := calleeOf(cc.Common()); f != nil && fnPkgPath(f) == "os" && f.Name() == "Lstat" {
				if samePath(cc.Common().Args[0], dest) {
					lstat, _ = cc.(*ssa.Call)
				}
			}
		}
		key := siteKey(Site{fn, c, posOf(c)})
		if cal.Name() == "AtomicWriteFile" {
			r.OK("C16/LOCK-SYMLINK", key, w.InstrPos(c), "the lock file is written by atomic rename (a symlink at the destination is replaced, not followed)")
			continue
		}
		if lstat == nil {
			r.Bad("C16/LOCK-SYMLINK", key, w.InstrPos(c), "the lock file is written without an Lstat of the same path: a symlink planted at the lock file's path is followed")
			continue
		}
		// symlink bit test: info.Mode() & ModeSymlink != 0 → error return; write reachable only via the == 0 edge or the not-exist edge
		var notLink []Edge
		for _, b := range fn.Blocks {
			for _, in := range b.Instrs {
				bo, ok := in.(*ssa.BinOp)
				if !ok || (bo.Op != token.NEQ && bo.Op != token.EQL) {
					continue
				}
				and, ok := bo.X.(*ssa.BinOp)
				if !ok || and.Op != token.AND {
					continue
				}
				isSym := false
				for _, x := range []ssa.Value{and.X, and.Y} {
					if i, ok := constInt(x); ok && uint32(i) == uint32(1<<27) { // fs.ModeSymlink
						isSym = true
					}
					if cv, ok := x.(*ssa.Const); ok && cv.Value != nil && strings.Contains(cv.Type().String(), "FileMode") {
						if u, ok2 := constUint(cv); ok2 && u == 1<<27 {
							isSym = true
						}
					}
				}
				if !isSym {
					continue
				}
				for _, e := range condEdges(bo) {
					if e.truth == (bo.Op == token.EQL) {
						notLink = append(notLink, e.Edge)
					}
				}
			}
		}
		// the Lstat error edge with IsNotExist is also a legitimate way to the write
		_, lstatBad := nilTestEdges(errResult(lstat))
		allowed := append(append([]Edge{}, notLink...), lstatBad...)
		ex, _ := g.PathExists(entryPos(fn), posOf(c), Avoid{}.withEdges(allowed...))
		r.Check(!ex && len(notLink) > 0 && g.DominatesInstr(lstat, posOf(c)), "C16/LOCK-SYMLINK", key, w.InstrPos(c), "the write follows an Lstat of the same path and is unreachable when the symlink bit is set", "the write can be reached although the path is a symlink (or the mode bit is not tested)")
	}
}

func constUint(c *ssa.Const) (uint64, bool) {
	if c.Value == nil {
		return 0, false
	}
	if i, ok := constInt(c); ok {
		return uint64(i), true
	}
	return 0, false
}

// samePath: a and b are the same SSA value, or both filepath.Join of element lists that are pairwise the same values.
func samePath(a, b ssa.Value) bool {
	if a == b {
		return true
	}
	ca, ok1 := a.(*ssa.Call)
	cb, ok2 := b.(*ssa.Call)
	if !ok1 || !ok2 {
		return false
	}
	fa, _ := calleeOf(ca.Common())
	fb, _ := calleeOf(cb.Common())
	if fa == nil || fb == nil || fa != fb || fnPkgPath(fa) != "path/filepath" || fa.Name() != "Join" {
		return false
	}
	ea, eb := sliceElems(ca.Call.Args[0]), sliceElems(cb.Call.Args[0])
	if len(ea) != len(eb) || len(ea) == 0 {
		return false
	}
	for i := range ea {
		if ea[i] != eb[i] {
			return false
		}
	}
	_ = types.Typ
	return true
}

// c16SkipOnlyByType: in the archive loader an entry is passed over without being counted against the
// size budget only because of its type (a directory, a pax/global header); any other skip (by name, say)
// lets an unlimited amount of data be decompressed and thrown away.
func c16SkipOnlyByType(w *World, r *Report) {
	fn := w.Fn("pkg/chart/v2/loader", "LoadArchiveFiles")
	if fn == nil {
		return
	}
	g := FullGraph(fn)
	var next ssa.CallInstruction
	var counted []ssa.Instruction
	var typeEdges []Edge
	for _, c := range callInstrs(fn) {
		if c.Common().IsInvoke() && c.Common().Method.Name() == "IsDir" {
			if cv := c.Value(); cv != nil {
				for _, e := range condEdges(cv) {
					if e.truth {
						typeEdges = append(typeEdges, e.Edge)
					}
				}
			}
			continue
		}
		f, _ := calleeOf(c.Common())
		if f == nil {
			continue
		}
		switch {
		case FuncName(f) == "(*archive/tar.Reader).Next":
			next = c
		case fnPkgPath(f) == "io" && (f.Name() == "Copy" || f.Name() == "CopyN" || f.Name() == "ReadAll"):
			counted = append(counted, c)
		case c.Common().IsInvoke() && c.Common().Method.Name() == "IsDir":
			if cv := c.Value(); cv != nil {
				for _, e := range condEdges(cv) {
					if e.truth {
						typeEdges = append(typeEdges, e.Edge)
					}
				}
			}
		}
		// a helper that reads the entry (budget passed on): counts as accounting
		if inHelm(f) && f != fn {
			for _, cc := range callInstrs(f) {
				if ff, _ := calleeOf(cc.Common()); ff != nil && fnPkgPath(ff) == "io" && (ff.Name() == "Copy" || ff.Name() == "CopyN") {
					counted = append(counted, c)
				}
			}
		}
	}
	// declared-size rejections also end the iteration (with an error): error returns are not "skips"
	for _, b := range fn.Blocks {
		for _, in := range b.Instrs {
			bo, ok := in.(*ssa.BinOp)
			if !ok || (bo.Op != token.EQL && bo.Op != token.NEQ) {
				continue
			}
			isTF := func(v ssa.Value) bool {
				ld, ok := v.(*ssa.UnOp)
				if !ok {
					return false
				}
				_, t, f := fieldNameOf(ld.X)
				return t == "Header" && f == "Typeflag"
			}
			if isTF(bo.X) || isTF(bo.Y) {
				for _, e := range condEdges(bo) {
					if e.truth == (bo.Op == token.EQL) {
						typeEdges = append(typeEdges, e.Edge)
					}
				}
			}
		}
	}
	if next == nil || len(counted) == 0 {
		r.Unk("C16/LIMITS", "skip-only-by-type", w.Pos(fn.Pos()), "tar.Reader.Next or the limited copy not found in LoadArchiveFiles")
		return
	}
	oks := okEdgesOfCall(next)
	bad := ""
	for _, e := range oks {
		if len(e.To().Instrs) == 0 {
			continue
		}
		if ex, path := g.PathExists(IPos{e.To(), -1}, posOf(next), avoidInstrs(counted...).withEdges(typeEdges...)); ex {
			bad = ""
			for _, pb := range path {
				bad += w.InstrPos(firstInstr(pb)) + " "
			}
		}
	}
	r.Check(bad == "" && len(oks) > 0, "C16/LIMITS", "skip-only-by-type", w.InstrPos(next), "an entry is passed over without being counted only because of its type", "an entry can be passed over before the size checks for a reason other than its type (near "+bad+"): its data is decompressed and discarded without any limit")
}
