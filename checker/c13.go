package main

// C13 — upgrade carries user values forward exactly as the chosen flag says (structural part).

import (
	"fmt"
	"go/token"
	"go/types"
	"strings"

	"golang.org/x/tools/go/ssa"
)

func init() {
	register(&propDef{
		ID:      "C13",
		Anchors: []string{"pkg/action/upgrade.go", "pkg/action/rollback.go", "pkg/chart/v2/util/coalesce.go"},
		NotDec:  []string{"the merged trees themselves over chains of upgrades (values of the key-by-key overlay)", "null/type-change corner cases inside the merge (partly covered by C04/NULL-DELETES)"},
		Run:     runC13,
	})
}

func runC13(w *World, r *Report) {
	r.Rule("C13/BRANCHES", "per flag mode (reset / reuse / reset-then-reuse / none) the value-reuse function returns exactly: the new values; CoalesceTables(new, deployed.Config) with new in the winning slot; the same; new, or deployed.Config only where new is empty — and assigns the old chart defaults (CoalesceValues(deployed.Chart, deployed.Config)) on every reuse path and on no other", 4)
	r.Rule("C13/CURRENT", "the revision whose values are carried forward is the one selected as currently deployed (the value returned as the current release), and the result is what the new record stores as Config and what is rendered", 3)
	r.Rule("C13/ROLLBACK", "the rollback record takes Config, Chart, Manifest and Hooks from the revision fetched with Storage.Get(name, target version)", 4)
	r.Rule("C13/OVERLAY", "the key-by-key overlay used for carrying values forward deletes a key exactly on (present, null, not merging), stores a deployed value only where the new values lack the key, and keeps (new, deployed) slots in its recursion", 6)
	c13Branches(w, r)
	c13Current(w, r, "C13/CURRENT", false)
	c13InstallValues(w, r, "C13/CURRENT")
	c13Rollback(w, r)
	r.Remap = func(rule string) string {
		if rule == "C04/NULL-DELETES" || rule == "C04/DEST-WINS" {
			return "C13/OVERLAY"
		}
		return rule
	}
	c04NullDeletes(w, r)
	if ctfk := overlayFn(w); ctfk != nil {
		c04MergeBody(w, r, ctfk, 1, 2, "coalesceTablesFullKey")
		c04ReturnsDest(w, r, ctfk)
	}
	r.Remap = nil
	r.Rule("C13/WIRING", "the value-reuse options are fed only from the options of the same name and bound to their own command-line flags", 3)
	checkWiring(w, r, "C13/WIRING", map[string]bool{"ResetValues": true, "ReuseValues": true, "ResetThenReuseValues": true})
	checkFlagBinding(w, r, "C13/WIRING", map[string]bool{"ResetValues": true, "ReuseValues": true, "ResetThenReuseValues": true})
}

type c13mode struct {
	name   string
	fields map[string]aval
}

func c13Branches(w *World, r *Report) {
	fn := w.Fn("pkg/action", "Upgrade.reuseValues")
	obj := w.Named(actionPkg, "Upgrade")
	if fn == nil || obj == nil {
		r.Unk("C13/BRANCHES", "anchor", "-", "Upgrade.reuseValues not found")
		return
	}
	r.Fn(FuncName(fn))
	var newVals, current, chartP ssa.Value
	for _, p := range fn.Params {
		switch {
		case isTreeType(p.Type()):
			newVals = p
		case isReleasePtr(p.Type()):
			current = p
		case isNamedPtr(p.Type(), helmMod+"/pkg/chart/v2", "Chart"):
			chartP = p
		}
	}
	if newVals == nil || current == nil || chartP == nil {
		r.Unk("C13/BRANCHES", "params", w.Pos(fn.Pos()), "expected parameters (chart, current release, new values)")
		return
	}
	isCurrentField := func(v ssa.Value, field string) bool {
		ld, ok := v.(*ssa.UnOp)
		if !ok || ld.Op != token.MUL {
			return false
		}
		fa, ok := ld.X.(*ssa.FieldAddr)
		return ok && isFieldOf(fa, relPkg, "Release", field) && fa.X == current
	}
	isOverlay := func(v ssa.Value) bool { // CoalesceTables(newVals, current.Config)
		c, ok := v.(*ssa.Call)
		if !ok {
			return false
		}
		f, _ := calleeOf(c.Common())
		return f != nil && FuncName(f) == "pkg/chart/v2/util.CoalesceTables" && c.Call.Args[0] == newVals && isCurrentField(c.Call.Args[1], "Config")
	}
	isOldDefaults := func(v ssa.Value) bool { // CoalesceValues(current.Chart, current.Config) result 0
		v = unwrapIface(v)
		ex, ok := v.(*ssa.Extract)
		if !ok || ex.Index != 0 {
			return false
		}
		c, ok := ex.Tuple.(*ssa.Call)
		if !ok {
			return false
		}
		f, _ := calleeOf(c.Common())
		return f != nil && FuncName(f) == "pkg/chart/v2/util.CoalesceValues" && isCurrentField(c.Call.Args[0], "Chart") && isCurrentField(c.Call.Args[1], "Config")
	}
	modes := []c13mode{
		{"reset", map[string]aval{"ResetValues": boolV(true)}},
		{"reuse", map[string]aval{"ResetValues": boolV(false), "ReuseValues": boolV(true)}},
		{"reset-then-reuse", map[string]aval{"ResetValues": boolV(false), "ReuseValues": boolV(false), "ResetThenReuseValues": boolV(true)}},
		{"none", map[string]aval{"ResetValues": boolV(false), "ReuseValues": boolV(false), "ResetThenReuseValues": boolV(false)}},
	}
	for _, m := range modes {
		spec := NewSpec(w, obj, m.name, m.fields)
		g := spec.Graph(fn)
		// stores to chart.Values reachable in this mode
		var defStores []*ssa.Store
		for _, b := range fn.Blocks {
			if !g.Reachable()[b] {
				continue
			}
			for _, in := range b.Instrs {
				if st, ok := in.(*ssa.Store); ok {
					if fa, ok := st.Addr.(*ssa.FieldAddr); ok && isFieldOf(fa, helmMod+"/pkg/chart/v2", "Chart", "Values") && fa.X == chartP {
						defStores = append(defStores, st)
					}
				}
			}
		}
		n := 0
		noneDone := false
		for i, rp := range g.classifyReturns() {
			if rp.Class != RetSuccess {
				continue
			}
			n++
			v := rp.Ret.Results[0]
			key := fmt.Sprintf("%s/return#%d", m.name, i)
			switch m.name {
			case "reset":
				readsOld := false
				for _, b := range fn.Blocks {
					if !g.Reachable()[b] {
						continue
					}
					for _, in := range b.Instrs {
						if fa, ok := in.(*ssa.FieldAddr); ok && fa.X == current {
							readsOld = true
						}
					}
				}
				r.Check(v == newVals && !readsOld && len(defStores) == 0, "C13/BRANCHES", key, w.InstrPos(rp.Ret), "reset-values returns the new values alone and never reads the deployed revision", "with reset-values the result is not the new values alone (or the deployed revision is consulted)")
			case "reuse":
				okDef := len(defStores) > 0
				for _, st := range defStores {
					if !isOldDefaults(st.Val) {
						okDef = false
					}
				}
				var ins []ssa.Instruction
				for _, st := range defStores {
					ins = append(ins, st)
				}
				passes := false
				if okDef {
					ex, _ := g.PathExists(entryPos(fn), retPos(rp), avoidInstrs(ins...))
					passes = !ex
				}
				r.Check(isOverlay(v) && okDef && passes, "C13/BRANCHES", key, w.InstrPos(rp.Ret), "reuse-values returns CoalesceTables(new, deployed.Config) and, on every path, restores the chart defaults in force at the deployed revision", "with reuse-values the result is not new-over-deployed, or some path returns without restoring the deployed revision's chart defaults")
			case "reset-then-reuse":
				r.Check(isOverlay(v) && len(defStores) == 0, "C13/BRANCHES", key, w.InstrPos(rp.Ret), "reset-then-reuse returns CoalesceTables(new, deployed.Config) and keeps the new chart's defaults", "with reset-then-reuse-values the result is not new-over-deployed or the chart defaults are replaced")
			case "none":
				// judged once over all success returns of the mode (a single return of a phi, or one
				// return per case)
				if noneDone {
					continue
				}
				noneDone = true
				ok, why := true, ""
				carried := false
				type rv struct {
					v  ssa.Value
					at *ssa.BasicBlock
				}
				var vals []rv
				for _, rp2 := range g.classifyReturns() {
					if rp2.Class != RetSuccess {
						continue
					}
					v2 := rp2.Ret.Results[0]
					if phi, isPhi := v2.(*ssa.Phi); isPhi {
						for k, e := range phi.Edges {
							if g.Reachable()[phi.Block().Preds[k]] && g.edgeFeasible(phi.Block().Preds[k], phi.Block()) {
								vals = append(vals, rv{e, phi.Block().Preds[k]})
							}
						}
					} else {
						vals = append(vals, rv{v2, rp2.Ret.Block()})
					}
				}
				for _, x := range vals {
					switch {
					case x.v == newVals:
					case isCurrentField(x.v, "Config"):
						carried = true
						if !lenZeroGuard(g, fn, newVals, x.at) {
							ok, why = false, "deployed values replace new values that are not empty"
						}
					default:
						ok, why = false, "a value other than new / deployed.Config is returned"
					}
				}
				if ok && !carried {
					ok, why = false, "the deployed values are never carried forward"
				}
				key = "none/returns"
				r.Check(ok && len(defStores) == 0, "C13/BRANCHES", key, w.InstrPos(rp.Ret), "without flags the new values are returned, the deployed revision's only where no new values were given", "without flags: "+why)
			}
		}
		if n == 0 {
			r.Bad("C13/BRANCHES", m.name+"/no-return", w.Pos(fn.Pos()), "no success return in mode "+m.name)
		}
	}
}

// lenZeroGuard: block b is reached only through the edge len(v) == 0.
func lenZeroGuard(g *Graph, fn *ssa.Function, v ssa.Value, b *ssa.BasicBlock) bool {
	edges := lenZeroBypassEdges(fn, v)
	if len(edges) == 0 || len(b.Instrs) == 0 {
		return false
	}
	ex, _ := g.PathExists(entryPos(fn), IPos{b, 0}, Avoid{}.withEdges(edges...))
	return !ex
}

func c13Current(w *World, r *Report, rule string, onlyValues bool) {
	reuse := w.Fn("pkg/action", "Upgrade.reuseValues")
	if reuse == nil {
		return
	}
	n := 0
	for _, fn := range w.FuncsIn("pkg/action") {
		for _, c := range callInstrs(fn) {
			f, _ := calleeOf(c.Common())
			if f == nil || origin(f) != reuse {
				continue
			}
			n++
			r.Fn(FuncName(fn))
			// the release argument
			var relArg ssa.Value
			for _, a := range c.Common().Args {
				if isReleasePtr(a.Type()) {
					relArg = a
				}
			}
			// is it the value returned as the current release (first *Release result on the success returns)?
			g := FullGraph(fn)
			same := false
			for _, rp := range g.classifyReturns() {
				for _, rv := range rp.Ret.Results {
					if isReleasePtr(rv.Type()) && !isNilConst(rv) {
						if rv == relArg {
							same = true
						}
						break
					}
				}
			}
			if !onlyValues {
				r.Check(same, rule, FuncName(fn)+"/reuse-arg", w.InstrPos(c), "values are carried forward from the release selected as current (deployed)", "values are carried forward from a different revision than the one selected as currently deployed")
			}
			// the result is stored as Config of the new record and is what the gate receives
			res := resultN(c, 0)
			storedCfg, rendered := false, false
			otherVals := ""
			for _, b := range fn.Blocks {
				for _, in := range b.Instrs {
					switch x := in.(type) {
					case *ssa.Store:
						if fa, ok := x.Addr.(*ssa.FieldAddr); ok && isFieldOf(fa, relPkg, "Release", "Config") && (x.Val == res || forwardAliases(res)[x.Val]) {
							storedCfg = true
						}
					case ssa.CallInstruction:
						if ff, _ := calleeOf(x.Common()); ff != nil && valuesConsumer(ff) {
							if a := stripConv(x.Common().Args[1]); a == res || forwardAliases(res)[a] {
								if strings.HasPrefix(ff.Name(), "ToRenderValues") {
									rendered = true
								}
							} else if ex, _ := g.PathExists(posOf(c), posOf(x), Avoid{}); ex {
								otherVals = w.InstrPos(x)
							}
						}
					}
				}
			}
			r.Check(otherVals == "", rule, FuncName(fn)+"/one-values-object", w.InstrPos(c), "dependency processing and rendering both receive the carried-forward values", "after the value-reuse step another values object is used at "+otherVals+": dependencies would be enabled, or templates rendered, from values that are not the ones recorded")
			if onlyValues {
				continue
			}
			r.Check(storedCfg, rule, FuncName(fn)+"/recorded", w.InstrPos(c), "the carried-forward values are recorded as the new revision's Config", "the new revision's Config is not the result of the value-reuse step")
			r.Check(rendered, rule, FuncName(fn)+"/rendered", w.InstrPos(c), "the carried-forward values are the ones rendered", "the rendered values are not the result of the value-reuse step")
		}
	}
	if n == 0 {
		r.Bad(rule, "no-call", "-", "upgrade does not call the value-reuse step")
	}
}

// stripConv: v without type conversions and interface boxing.
func stripConv(v ssa.Value) ssa.Value {
	for {
		switch x := v.(type) {
		case *ssa.ChangeType:
			v = x.X
		case *ssa.MakeInterface:
			v = x.X
		case *ssa.Convert:
			v = x.X
		default:
			return v
		}
	}
}

// valuesConsumer: the chart-util entry points that decide from user values what is enabled and rendered.
func valuesConsumer(f *ssa.Function) bool {
	switch FuncName(f) {
	case "pkg/chart/v2/util.ToRenderValuesWithSchemaValidation", "pkg/chart/v2/util.ToRenderValues", "pkg/chart/v2/util.ProcessDependencies", "pkg/chart/v2/util.ProcessDependenciesWithMerge":
		return true
	}
	return false
}

// c13InstallValues: install hands one values object to dependency processing, to rendering and to the
// record it creates.
func c13InstallValues(w *World, r *Report, rule string) {
	fn := w.Fn("pkg/action", "Install.RunWithContext")
	if fn == nil {
		r.Unk(rule, "install/anchor", "-", "Install.RunWithContext not found")
		return
	}
	r.Fn(FuncName(fn))
	vals := map[ssa.Value]string{}
	n := 0
	for _, c := range callInstrs(fn) {
		f, _ := calleeOf(c.Common())
		if f == nil || len(c.Common().Args) < 2 {
			continue
		}
		if valuesConsumer(f) {
			n++
			vals[stripConv(c.Common().Args[1])] = w.InstrPos(c)
		}
		if FuncName(f) == "(*pkg/action.Install).createRelease" {
			for _, a := range c.Common().Args {
				if mp, ok := a.Type().Underlying().(*types.Map); ok && isStringType(mp.Key()) {
					if _, isIface := mp.Elem().Underlying().(*types.Interface); isIface {
						n++
						vals[stripConv(a)] = w.InstrPos(c)
					}
				}
			}
		}
	}
	pos := ""
	for _, p := range vals {
		if pos == "" || p < pos {
			pos = p
		}
	}
	r.Check(len(vals) == 1 && n >= 3, rule, "install/one-values-object", w.Pos(fn.Pos()), fmt.Sprintf("%d uses (dependency processing, rendering, the new record) receive the same values object", n), fmt.Sprintf("install uses %d different values objects (%d uses; one at %s): dependencies would be enabled, or templates rendered, from values that are not the ones recorded", len(vals), n, pos))
}

func c13Rollback(w *World, r *Report) {
	// the function of rollback that builds the pending-rollback record
	var fn *ssa.Function
	for _, f := range w.FuncsIn("pkg/action") {
		for _, b := range f.Blocks {
			for _, in := range b.Instrs {
				if st, ok := in.(*ssa.Store); ok {
					if s, ok := constString(st.Val); ok && s == "pending-rollback" {
						fn = f
					}
				}
			}
		}
	}
	if fn == nil {
		r.Unk("C13/ROLLBACK", "anchor", "-", "no function builds a pending-rollback record")
		return
	}
	r.Fn(FuncName(fn))
	var get *ssa.Call
	for _, c := range callInstrs(fn) {
		if f, _ := calleeOf(c.Common()); f != nil && FuncName(f) == "(*pkg/storage.Storage).Get" {
			get, _ = c.(*ssa.Call)
		}
	}
	if get == nil {
		r.Bad("C13/ROLLBACK", "source", w.Pos(fn.Pos()), "the rollback target is not fetched with Storage.Get")
		return
	}
	prev := resultN(get, 0)
	for _, field := range []string{"Config", "Chart", "Manifest", "Hooks"} {
		ok := false
		var at ssa.Instruction = get
		for _, b := range fn.Blocks {
			for _, in := range b.Instrs {
				st, isSt := in.(*ssa.Store)
				if !isSt {
					continue
				}
				fa, isFa := st.Addr.(*ssa.FieldAddr)
				if !isFa || !isFieldOf(fa, relPkg, "Release", field) {
					continue
				}
				if _, isAlloc := fa.X.(*ssa.Alloc); !isAlloc {
					continue
				}
				at = st
				if ld, isLd := st.Val.(*ssa.UnOp); isLd {
					if fa2, isFa2 := ld.X.(*ssa.FieldAddr); isFa2 && isFieldOf(fa2, relPkg, "Release", field) && (fa2.X == prev || forwardAliases(prev)[fa2.X]) {
						ok = true
					}
				}
			}
		}
		r.Check(ok, "C13/ROLLBACK", "field:"+field, w.InstrPos(at), "the new record's "+field+" is the fetched target revision's "+field, "the new record's "+field+" does not come from the revision fetched with Storage.Get(name, target version)")
	}
}
