package main

// C03 — a failed operation is contained; --atomic restores the last good state (structural part).

import (
	"fmt"
	"go/token"
	"go/types"
	"sort"
	"strings"

	"golang.org/x/tools/go/ssa"
)

func init() {
	register(&propDef{
		ID:      "C03",
		Anchors: []string{"pkg/action/upgrade.go", "pkg/action/install.go", "pkg/action/rollback.go", "pkg/action/hooks.go", "pkg/kube/client.go"},
		NotDec:  []string{"that the cluster actually equals the restored manifest after --atomic", "per-resource fault placement inside kube.Client", "failures of the storage backend while recording the failure"},
		Run:     runC03,
	})
}

func runC03(w *World, r *Report) {
	ef := NewEffects(w)
	r.Rule("C03/FAILED", "from the ok-edge of Storage.Create of the new record, every error exit of install/upgrade/rollback (returns, and error messages sent on the result channel) passes a write of that record with status failed (or, for atomic install, Uninstall.Run with KeepHistory=false)", 6)
	r.Rule("C03/FAILER", "each function used as the failure handler stores StatusFailed into its record parameter and records it (or purges it) on every path, and always returns a non-nil error", 3)
	r.Rule("C03/ERR-SWALLOWED", "in pkg/action, no return inside the region entered only through the err != nil edge of a call returns an error variable that is known to be nil there (a stale or wrong error variable)", 40)
	r.Rule("C03/OLD-STAYS", "the previously deployed record's status is only ever changed to superseded, and no error exit is reachable after that store", 1)
	r.Rule("C03/CLEANUP", "after the resource update, every error report hands the update's Created list to the failure handler, which deletes exactly that list under CleanupOnFail", 5)
	r.Rule("C03/ATOMIC", "under Atomic the upgrade failure handler rolls back to element 0 of the history filtered to {superseded, deployed} after Reverse(SortByRevision); the install failure handler uninstalls with KeepHistory=false", 2)

	for _, op := range mutatingOps {
		o := newOpCtx(w, ef, op, nil)
		if o == nil {
			r.Unk("C03/FAILED", op.Name+"/anchor", "-", "cannot resolve "+op.Entry)
			continue
		}
		c03Failed(o, r)
	}
	r.Rule("C03/WIRING", "Atomic, CleanupOnFail, KeepHistory and the wait options are never fed from a differently named option; upgrade --install carries Atomic over", 3)
	checkWiring(w, r, "C03/WIRING", map[string]bool{"Atomic": true, "CleanupOnFail": true, "KeepHistory": true, "WaitForJobs": true, "WaitStrategy": true, "Force": true, "Recreate": true, "Timeout": true})
	checkCarried(w, r, "C03/WIRING", []string{"Atomic"})
	checkFlagBinding(w, r, "C03/WIRING", map[string]bool{"Atomic": true, "CleanupOnFail": true, "KeepHistory": true, "WaitForJobs": true, "Force": true, "Recreate": true, "Timeout": true})
	c03ErrSwallowed(w, r)
	r.Rule("C03/ERR-COLLECT", "in pkg/action and pkg/kube a list of errors that was filled or received from a call reaches a success return only over an edge on which it is empty (or is itself handed on)", 4)
	errCollect(w, r, "C03/ERR-COLLECT", []string{"pkg/action", "pkg/kube"}, nil)
	c03OldStaysAndCleanup(w, r, ef)
	c03Atomic(w, r, ef)
	c03UninstallAccepts(w, r)
	c03NestedWait(w, r)
	// the rollback (also the one of a failed atomic upgrade) diffs the manifests of the two records it was
	// handed: the revision being left and the target — never another stored revision
	r.Rule("C03/ROLLBACK-BASE", "performRollback builds its two resource lists only from the manifests of the records it is given (the current revision and the target), never from another stored revision", 2)
	if pr := w.Fn("pkg/action", "Rollback.performRollback"); pr != nil {
		r.Remap = func(rule string) string {
			if rule == "C07/DIFF-BASE" {
				return "C03/ROLLBACK-BASE"
			}
			return rule
		}
		c07DiffBase(w, r, pr, FullGraph(pr))
		r.Remap = nil
	} else {
		r.Unk("C03/ROLLBACK-BASE", "anchor", "-", "Rollback.performRollback not found")
	}
	r.Rule("C03/ERROR-KEPT", "in pkg/action and pkg/kube an error carried across loop iterations is never overwritten by a value that may be nil", 0)
	if errOverwritten(w, r, "C03/ERROR-KEPT", []string{"pkg/action", "pkg/kube"}) == 0 {
		r.OKTrivial("C03/ERROR-KEPT", "none", "-", "no error is carried across loop iterations")
	}
	r.Rule("C03/CREATE-ERROR-KEPT", "a cluster create that was rejected fails the operation: its non-nil error is handed back by pkg/kube whatever its kind", 1)
	c07CreateErrorKept(w, r, "C03/CREATE-ERROR-KEPT")
}

// ---- failers -----------------------------------------------------------------------------------

type failerInfo struct {
	ok  bool
	why string
}

// recordCallsOn: call sites in fn that pass rel and whose real-run cone calls Storage.Update.
func recordCallsOn(o *OpCtx, g *Graph, rel ssa.Value) []ssa.CallInstruction {
	var out []ssa.CallInstruction
	for _, c := range callInstrs(g.Fn) {
		if !g.Reachable()[c.Block()] {
			continue
		}
		has := false
		for _, a := range c.Common().Args {
			if sameValue(a, rel) {
				has = true
			}
		}
		if has && coneCalls(o, c.Common(), o.update) {
			out = append(out, c)
		}
	}
	return out
}

// purgingUninstallCalls: calls of (*Uninstall).Run on an object whose KeepHistory was set to false.
func purgingUninstallCalls(w *World, g *Graph) []ssa.CallInstruction {
	run := w.Fn("pkg/action", "Uninstall.Run")
	var out []ssa.CallInstruction
	for _, c := range callInstrs(g.Fn) {
		f, _ := calleeOf(c.Common())
		if f == nil || origin(f) != run || !g.Reachable()[c.Block()] {
			continue
		}
		recv := c.Common().Args[0]
		okKeep := false
		if refs := recv.Referrers(); refs != nil {
			for _, rf := range *refs {
				if fa, ok := rf.(*ssa.FieldAddr); ok && isFieldOf(fa, actionPkg, "Uninstall", "KeepHistory") {
					for _, rr := range *fa.Referrers() {
						if st, ok := rr.(*ssa.Store); ok {
							if b, isC := constBool(st.Val); isC && !b && g.DominatesInstr(st, posOf(c)) {
								okKeep = true
							}
						}
					}
				}
			}
		}
		if okKeep {
			out = append(out, c)
		}
	}
	return out
}

// failSitesIn: instructions in g.Fn after which the record `rel` is durably failed (or purged).
func failSitesIn(o *OpCtx, g *Graph, rel ssa.Value, failers map[*ssa.Function]int) []ssa.Instruction {
	var out []ssa.Instruction
	for _, c := range recordCallsOn(o, g, rel) {
		st := statusesAt(o.w, g, rel, posOf(c), 0)
		if len(st) == 1 && st["failed"] {
			out = append(out, c)
		}
	}
	for _, c := range purgingUninstallCalls(o.w, g) {
		out = append(out, c)
	}
	for _, c := range callInstrs(g.Fn) {
		f, _ := calleeOf(c.Common())
		if f == nil {
			continue
		}
		if idx, ok := failers[origin(f)]; ok && idx < len(c.Common().Args) && derivesFromValue(c.Common().Args[idx], rel) {
			out = append(out, c)
		}
	}
	return out
}

// checkFailer: fn marks parameter idx failed and records it on every path to every return.
func checkFailer(o *OpCtx, fn *ssa.Function, idx int) failerInfo {
	g := o.real.Graph(fn)
	rel := ssa.Value(fn.Params[idx])
	sites := failSitesIn(o, g, rel, nil)
	if len(sites) == 0 {
		return failerInfo{false, "no write of the record with status failed (and no purging uninstall) in " + FuncName(fn)}
	}
	for _, b := range fn.Blocks {
		if !g.Reachable()[b] || len(b.Instrs) == 0 {
			continue
		}
		ret, ok := b.Instrs[len(b.Instrs)-1].(*ssa.Return)
		if !ok {
			continue
		}
		if ex, _ := g.PathExists(entryPos(fn), posOf(ret), avoidInstrs(sites...)); ex {
			return failerInfo{false, fmt.Sprintf("a path to the return at %s avoids every failed-status write", o.w.InstrPos(ret))}
		}
	}
	if hasErrorResult(fn) {
		for _, rp := range g.classifyReturns() {
			if rp.Class == RetSuccess {
				return failerInfo{false, fmt.Sprintf("returns success at %s", o.w.InstrPos(rp.Ret))}
			}
		}
	}
	return failerInfo{true, fmt.Sprintf("every return passes one of %d failed-status writes; never returns nil", len(sites))}
}

func hasErrorResult(fn *ssa.Function) bool {
	res := fn.Signature.Results()
	for i := 0; i < res.Len(); i++ {
		if isErrorType(res.At(i).Type()) {
			return true
		}
	}
	return false
}

// derivesFromValue: v is computed from target (through calls' arguments, phis, loads).
func derivesFromValue(v, target ssa.Value) bool {
	if sameValue(v, target) {
		return true
	}
	found := false
	backSlice(v, func(x ssa.Value) bool {
		if sameValue(x, target) {
			found = true
			return true
		}
		return false
	})
	return found
}

// failerCandidates: functions of pkg/action in the operation's cone that store StatusFailed into a
// *Release parameter.
func failerCandidates(o *OpCtx) map[*ssa.Function]int {
	out := map[*ssa.Function]int{}
	for fn := range o.Cone(0).Funcs {
		if fnPkgPath(fn) != actionPkg || fn.Parent() != nil {
			continue
		}
		for i, p := range fn.Params {
			if !isReleasePtr(p.Type()) {
				continue
			}
			for _, s := range statusStores(fn, p) {
				if s.Status == "failed" {
					out[fn] = i
				}
			}
		}
	}
	return out
}

// ---- FAILED --------------------------------------------------------------------------------------

func c03Failed(o *OpCtx, r *Report) {
	w := o.w
	fns, _, leaf := o.creatorChain()
	if leaf == nil {
		r.Unk("C03/FAILED", o.op.Name+"/no-create", w.Pos(o.entry.Pos()), "no Storage.Create in the operation")
		return
	}
	F := fns[len(fns)-1]
	g := o.real.Graph(F)
	rel := leaf.Common().Args[1]
	r.Fn(FuncName(F))

	// failers: candidates used at call sites of the cone; each is verified
	cands := failerCandidates(o)
	failers := map[*ssa.Function]int{}
	var names []*ssa.Function
	for fn := range cands {
		names = append(names, fn)
	}
	sort.Slice(names, func(i, j int) bool { return names[i].Pos() < names[j].Pos() })
	for _, fn := range names {
		// a candidate that is itself the creator (inline failure handling) is not a handler
		if fn == F {
			continue
		}
		// only functions that look like handlers: called with an error argument
		hasErrParam := false
		for _, p := range fn.Params {
			if isErrorType(p.Type()) {
				hasErrParam = true
			}
		}
		if !hasErrParam {
			continue
		}
		info := checkFailer(o, fn, cands[fn])
		r.Fn(FuncName(fn))
		r.Check(info.ok, "C03/FAILER", o.op.Name+"/"+FuncName(fn), w.Pos(fn.Pos()), info.why, "failure handler is not total: "+info.why)
		if info.ok {
			failers[fn] = cands[fn]
		}
	}

	createErr := errResult(leaf)
	okEdges := okEdgesOfCall(leaf)
	_, errEdges := nilTestEdges(createErr)
	start := posOf(leaf)
	checkExits := func(fg *Graph, frel ssa.Value, from IPos, avoidE []Edge, label string, chanDelivered *bool) {
		sites := failSitesIn(o, fg, frel, failers)
		for i, ex := range exitsOf(fg) {
			if ex.Success || !fg.Reachable()[ex.At.B] {
				continue
			}
			to := ex.At
			if ex.Pred != nil { // phi-carried error: the path arrives through Pred
				to = IPos{ex.Pred, len(ex.Pred.Instrs) - 1}
			}
			if reach, _ := fg.PathExists(from, to, Avoid{}.withEdges(avoidE...)); !reach && !(from.B == to.B && from.I < to.I) {
				continue // exit not reachable after the creation
			}
			key := fmt.Sprintf("%s/%s/exit#%d:%s", o.op.Name, label, i, ex.Desc)
			// exemptions: the error of a storage write of this very record; channel-delivered results
			if ret, ok := ex.Instr.(*ssa.Return); ok {
				ev := errOperand(ret, ex)
				if src := storageWriteErr(o, ev, frel); src != "" {
					r.OKTrivial("C03/FAILED", key, w.InstrPos(ex.Instr), "returns the error of "+src+" on the record itself (storage unavailable: nothing can be recorded)")
					continue
				}
				if fromChannel(ev) {
					if chanDelivered != nil {
						*chanDelivered = true
					}
					r.OKTrivial("C03/FAILED", key, w.InstrPos(ex.Instr), "result delivered over a channel: the obligation is checked at every sender")
					continue
				}
			}
			exists, wit := fg.PathExists(from, to, Avoid{}.withEdges(avoidE...).withInstrs(sites...))
			if !exists {
				r.OK("C03/FAILED", key, w.InstrPos(ex.Instr), fmt.Sprintf("every path from the record's creation to this error exit passes one of %d failed-status writes", len(sites)))
			} else {
				r.Bad("C03/FAILED", key, w.InstrPos(ex.Instr), fmt.Sprintf("error exit reachable after the record was created without marking it failed (path through %d blocks, first line %s)", len(wit), witnessLine(w, wit)))
			}
		}
	}
	_ = okEdges
	chanDelivered := false
	checkExits(g, rel, start, errEdges, FuncName(F), &chanDelivered)

	if chanDelivered {
		// every function of the cone that sends a result message: its error-carrying sends must pass a fail site
		n := 0
		for fn := range o.Cone(0).Funcs {
			if fnPkgPath(fn) != actionPkg {
				continue
			}
			fg := o.real.Graph(fn)
			for _, b := range fn.Blocks {
				if !fg.Reachable()[b] {
					continue
				}
				for _, in := range b.Instrs {
					send, ok := in.(*ssa.Send)
					if !ok {
						continue
					}
					ev, relv := sentErrorAndRelease(send)
					if ev == nil {
						continue
					}
					n++
					key := fmt.Sprintf("%s/%s/send", o.op.Name, FuncName(fn))
					if relv == nil {
						r.Unk("C03/FAILED", key, w.InstrPos(send), "cannot identify the record sent with the error")
						continue
					}
					paths := fg.classifyErrVal(nil, ev, send.Block(), nil, 0)
					sites := failSitesIn(o, fg, relParamOf(fn, relv), failers)
					bad := false
					for _, p := range paths {
						if p.Class == RetSuccess {
							continue
						}
						// the failing value may itself be the handler's result
						if producedBy(p.Val, sites) {
							continue
						}
						to := posOf(send)
						if p.Pred != nil {
							to = IPos{p.Pred, len(p.Pred.Instrs) - 1}
						}
						if ex, _ := fg.PathExists(entryPos(fn), to, avoidInstrs(sites...)); ex {
							bad = true
						}
					}
					r.Check(!bad, "C03/FAILED", key, w.InstrPos(send), "an error is sent on the result channel only after the failure handler ran", "an error can be sent on the result channel without the record having been marked failed")
				}
			}
		}
		if n == 0 {
			r.Unk("C03/FAILED", o.op.Name+"/no-sender", w.Pos(F.Pos()), "result is received from a channel but no sender was found in the cone")
		}
		// every caller of a sending function with an error argument is a reporter: covered by the send rule
	}
}

func witnessLine(w *World, wit []*ssa.BasicBlock) string {
	for _, b := range wit {
		for _, in := range b.Instrs {
			if in.Pos().IsValid() {
				return w.Pos(in.Pos())
			}
		}
	}
	return "?"
}

func errOperand(ret *ssa.Return, ex exitPoint) ssa.Value {
	for i := len(ret.Results) - 1; i >= 0; i-- {
		if isErrorType(ret.Results[i].Type()) {
			v := ret.Results[i]
			if phi, ok := v.(*ssa.Phi); ok && ex.Pred != nil {
				for k, p := range phi.Block().Preds {
					if p == ex.Pred {
						return phi.Edges[k]
					}
				}
			}
			// defer-spilled result: the value stored into the result slot by the block this exit comes from
			if ex.Pred != nil {
				if sv, ok := spilledResults(ret, i)[ex.Pred]; ok && sv != v {
					return sv
				}
			}
			return v
		}
	}
	return nil
}

// storageWriteErr: v is the error result of Storage.Create/Update called with rel.
func storageWriteErr(o *OpCtx, v ssa.Value, rel ssa.Value) string {
	if v == nil {
		return ""
	}
	if inner, ok := nilPreservingArg(v); ok {
		v = inner
	}
	c, ok := v.(*ssa.Call)
	if !ok {
		return ""
	}
	_, tf := calleeOf(c.Common())
	if (sameTFunc(tf, o.create) || sameTFunc(tf, o.update)) && len(c.Call.Args) >= 2 && sameValue(c.Call.Args[1], rel) {
		return "Storage." + tf.Name()
	}
	return ""
}

func fromChannel(v ssa.Value) bool {
	found := false
	backSlice(v, func(x ssa.Value) bool {
		switch x := x.(type) {
		case *ssa.Select:
			found = true
			return true
		case *ssa.UnOp:
			if x.Op == token.ARROW {
				found = true
				return true
			}
		case *ssa.Call:
			return true
		}
		return false
	})
	return found
}

// sentErrorAndRelease: for `c <- T{r: rel, e: err}` returns (err, rel).
func sentErrorAndRelease(send *ssa.Send) (ssa.Value, ssa.Value) {
	x := send.X
	ld, ok := x.(*ssa.UnOp)
	if !ok || ld.Op != token.MUL {
		return nil, nil
	}
	al, ok := ld.X.(*ssa.Alloc)
	if !ok {
		return nil, nil
	}
	var ev, rv ssa.Value
	for _, rf := range *al.Referrers() {
		fa, ok := rf.(*ssa.FieldAddr)
		if !ok {
			continue
		}
		for _, rr := range *fa.Referrers() {
			st, ok := rr.(*ssa.Store)
			if !ok || st.Addr != fa {
				continue
			}
			if isErrorType(st.Val.Type()) {
				ev = st.Val
			} else if isReleasePtr(st.Val.Type()) {
				rv = st.Val
			}
		}
	}
	return ev, rv
}

// relParamOf: the parameter of fn the sent record value derives from (phi of param and handler result).
func relParamOf(fn *ssa.Function, v ssa.Value) ssa.Value {
	var p ssa.Value = v
	backSlice(v, func(x ssa.Value) bool {
		if pp, ok := x.(*ssa.Parameter); ok && isReleasePtr(pp.Type()) {
			p = pp
			return true
		}
		_, isCall := x.(*ssa.Call)
		return isCall
	})
	return p
}

func producedBy(v ssa.Value, sites []ssa.Instruction) bool {
	res := false
	backSlice(v, func(x ssa.Value) bool {
		if c, ok := x.(*ssa.Call); ok {
			for _, s := range sites {
				if s == ssa.Instruction(c) {
					res = true
				}
			}
			return true
		}
		return false
	})
	return res
}

// ---- ERR-SWALLOWED -------------------------------------------------------------------------------

// exceptions: function → callee whose error may legitimately turn into a success return (flag-driven).
var errSwallowExceptions = map[string]string{
	"(*pkg/action.Uninstall).Run|(*pkg/storage.Storage).History": "IgnoreNotFound: the user asked for a missing release to be a success",
}

func c03ErrSwallowed(w *World, r *Report) {
	for _, fn := range w.FuncsIn("pkg/action") {
		if len(fn.Blocks) == 0 || !hasErrorResult(fn) {
			continue
		}
		g := FullGraph(fn)
		var rets []RetPath
		for _, c := range callInstrs(fn) {
			ev := errResult(c)
			if ev == nil {
				continue
			}
			_, bad := nilTestEdges(ev)
			if len(bad) == 0 {
				continue
			}
			if rets == nil {
				rets = g.classifyReturns()
			}
			key := fmt.Sprintf("%s", siteKey(Site{fn, c, posOf(c)}))
			flagged := false
			for _, e := range bad {
				T := e.To()
				// region entered only through e: blocks dominated by the edge
				for _, rp := range rets {
					if rp.Class != RetSuccess || rp.Val == nil || isNilConst(rp.Val) {
						continue // a literal nil is a decision, not a stale variable
					}
					rb := rp.Ret.Block()
					if rp.Pred != nil {
						rb = rp.Pred
					}
					if !edgeDominates(g, e, rb) {
						continue
					}
					_ = T
					// the success may come from a different error variable that was re-tested: require
					// that the nil value is not the result of a later successful call in the region
					if laterOKCall(g, rp, e) {
						continue
					}
					exk := FuncName(fn) + "|" + describeCall(c.Common())
					if why, ok := errSwallowExceptions[exk]; ok {
						r.OKTrivial("C03/ERR-SWALLOWED", key, w.InstrPos(c), "named exception: "+why)
						flagged = true
						break
					}
					r.Bad("C03/ERR-SWALLOWED", key, w.InstrPos(rp.Ret), fmt.Sprintf("on the error edge of %s the function returns an error variable that is nil there: the failure is reported as success", describeCall(c.Common())))
					flagged = true
					break
				}
				if flagged {
					break
				}
			}
			if !flagged {
				r.OK("C03/ERR-SWALLOWED", key, w.InstrPos(c), "no success return inside the region entered through this call's error edge")
			}
		}
	}
}

// edgeDominates: block b is reachable from entry only through edge e.
func edgeDominates(g *Graph, e Edge, b *ssa.BasicBlock) bool {
	if len(b.Instrs) == 0 {
		return false
	}
	if !g.Reachable()[b] {
		return false
	}
	ex, _ := g.PathExists(entryPos(g.Fn), IPos{b, 0}, Avoid{}.withEdges(e))
	return !ex
}

// laterOKCall: the nil error operand of rp is the (tested-nil) result of a call made inside the
// region, i.e. a different error than the one that opened the region.
func laterOKCall(g *Graph, rp RetPath, e Edge) bool {
	v := rp.Val
	if v == nil || isNilConst(v) {
		return false
	}
	if inner, ok := nilPreservingArg(v); ok {
		v = inner
	}
	if def, ok := v.(ssa.Instruction); ok && def.Block() != nil {
		return edgeDominates(g, e, def.Block())
	}
	return false
}

// ---- OLD-STAYS / CLEANUP -----------------------------------------------------------------------------

func c03OldStaysAndCleanup(w *World, r *Report, ef *Effects) {
	for _, op := range []opDef{actionOps[1], actionOps[2]} {
		o := newOpCtx(w, ef, op, nil)
		if o == nil {
			continue
		}
		upd := w.TFunc(helmMod+"/pkg/kube", "Interface.Update")
		found := false
		for fn := range o.Cone(0).Funcs {
			if fnPkgPath(fn) != actionPkg {
				continue
			}
			g := o.real.Graph(fn)
			for _, s := range SitesOf([]*ssa.Function{fn}, upd) {
				if !g.Reachable()[s.At.B] {
					continue
				}
				found = true
				r.Fn(FuncName(fn))
				c03Cleanup(o, r, g, s)
			}
		}
		if !found {
			r.Unk("C03/CLEANUP", op.Name+"/no-update", w.Pos(o.entry.Pos()), "no kube.Interface.Update call in the operation")
		}
	}
	// OLD-STAYS (upgrade): in the performer, status stores on the original release
	o := newOpCtx(w, ef, actionOps[1], nil)
	if o == nil {
		return
	}
	n := 0
	for fn := range o.Cone(0).Funcs {
		if fnPkgPath(fn) != actionPkg {
			continue
		}
		g := o.real.Graph(fn)
		var newRel ssa.Value
		for _, rel := range releaseValues(fn) {
			for _, s := range statusStores(fn, rel) {
				if s.Status == "deployed" {
					newRel = rel
				}
			}
		}
		if newRel == nil {
			continue
		}
		for _, u := range releaseValues(fn) {
			if sameValue(u, newRel) {
				continue
			}
			for _, s := range statusStores(fn, u) {
				n++
				key := fmt.Sprintf("upgrade/%s/status-store:%s", FuncName(fn), s.Status)
				if s.Status != "superseded" {
					r.Bad("C03/OLD-STAYS", key, w.InstrPos(s.Instr), "the previously deployed record's status is changed to "+s.Status)
					continue
				}
				bad := ""
				for _, ex := range exitsOf(g) {
					if ex.Success {
						continue
					}
					if reach, _ := g.PathExists(posOf(s.Instr), ex.At, Avoid{}); reach {
						bad = w.InstrPos(ex.Instr)
					}
				}
				r.Check(bad == "", "C03/OLD-STAYS", key, w.InstrPos(s.Instr), "no error exit is reachable after the old record is marked superseded", "an error exit ("+bad+") is reachable after the old record was marked superseded: a failed upgrade would leave no deployed revision")
			}
		}
	}
	if n == 0 {
		r.Unk("C03/OLD-STAYS", "upgrade/no-store", "-", "no status store on the previous record found")
	}
}

// c03Cleanup: s is the kube Update call; error reports reachable after it must carry result.Created.
func c03Cleanup(o *OpCtx, r *Report, g *Graph, s Site) {
	w := o.w
	fn := g.Fn
	res := resultN(s.Instr, 0)
	isCreatedOfRes := func(v ssa.Value) bool {
		ok := false
		backSlice(v, func(x ssa.Value) bool {
			if p, t, f := fieldNameOf(x); p == helmMod+"/pkg/kube" && t == "Result" && f == "Created" {
				// base must be res
				var base ssa.Value
				switch x := x.(type) {
				case *ssa.FieldAddr:
					base = x.X
				case *ssa.Field:
					base = x.X
				}
				if base == res || forwardAliases(res)[base] {
					ok = true
				}
				return true
			}
			_, isCall := x.(*ssa.Call)
			return isCall
		})
		return ok
	}
	n := 0
	for _, c := range callInstrs(fn) {
		if c == s.Instr || !g.Reachable()[c.Block()] {
			continue
		}
		if reach, _ := g.PathExists(s.At, posOf(c), Avoid{}); !reach {
			continue
		}
		callee, _ := calleeOf(c.Common())
		if callee == nil || !inHelm(callee) {
			// rollback: inline cleanup — KubeClient.Delete(results.Created)
			if o.ef.Leaf(c.Common())&WCluster != 0 && describeCall(c.Common()) == "pkg/kube.Interface.Delete" {
				n++
				r.Check(isCreatedOfRes(c.Common().Args[0]), "C03/CLEANUP", fmt.Sprintf("%s/%s", o.op.Name, siteKey(Site{fn, c, posOf(c)})), w.InstrPos(c),
					"cleanup deletes exactly the Created list of this operation's update", "cleanup deletes something other than the Created list of this operation's update")
			}
			continue
		}
		// a call that may report an error to the result channel
		if !mayReportError(o, c) {
			continue
		}
		n++
		carries := false
		for _, a := range c.Common().Args {
			if _, isSlice := a.Type().Underlying().(*types.Slice); isSlice && isCreatedOfRes(a) {
				carries = true
			}
		}
		key := fmt.Sprintf("%s/%s", o.op.Name, siteKey(Site{fn, c, posOf(c)}))
		r.Check(carries, "C03/CLEANUP", key, w.InstrPos(c), "the error report after the update carries result.Created", "an error report reachable after the resource update does not carry the update's Created list: cleanup-on-fail would delete nothing")
	}
	if n == 0 {
		r.Unk("C03/CLEANUP", o.op.Name+"/"+FuncName(fn)+"/no-report", w.InstrPos(s.Instr), "no error report or cleanup call found after the update")
	}
	// the failure handler deletes its `created` parameter under CleanupOnFail
	if o.op.Name == "upgrade" {
		for cand, _ := range failerCandidates(o) {
			for _, c := range callInstrs(cand) {
				if describeCall(c.Common()) != "pkg/kube.Interface.Delete" {
					continue
				}
				arg := c.Common().Args[0]
				isParam := false
				backSlice(arg, func(x ssa.Value) bool {
					if p, ok := x.(*ssa.Parameter); ok && p.Parent() == cand {
						if _, isSl := p.Type().Underlying().(*types.Slice); isSl {
							isParam = true
						}
						return true
					}
					_, isCall := x.(*ssa.Call)
					return isCall
				})
				// guarded by CleanupOnFail
				spec := realSpecFor(w, o.op, map[string]aval{"CleanupOnFail": boolV(false)})
				off := !spec.Graph(cand).Reachable()[c.Block()]
				r.Check(isParam && off, "C03/CLEANUP", "upgrade/"+FuncName(cand)+"/delete", w.InstrPos(c),
					"the handler deletes exactly the list handed to it, and only under CleanupOnFail", "the handler's delete is not the handed-over list or is not guarded by CleanupOnFail")
			}
		}
	}
}

// mayReportError: the call passes a possibly non-nil error to a function that sends on a channel (directly or nested).
func mayReportError(o *OpCtx, c ssa.CallInstruction) bool {
	callee, _ := calleeOf(c.Common())
	if callee == nil {
		return false
	}
	if sendsOnChannel(callee) {
		for _, a := range c.Common().Args {
			if isErrorType(a.Type()) && !isNilConst(a) {
				return true
			}
		}
		return false
	}
	// nested: the callee's cone contains a call to a sending function with a non-nil error
	found := false
	seen := map[*ssa.Function]bool{}
	var walk func(f *ssa.Function, d int)
	walk = func(f *ssa.Function, d int) {
		f = origin(f)
		if seen[f] || found || d > 4 || !inHelm(f) || fnPkgPath(f) != actionPkg {
			return
		}
		seen[f] = true
		for _, cc := range callInstrs(f) {
			g, _ := calleeOf(cc.Common())
			if g == nil {
				continue
			}
			if sendsOnChannel(g) {
				for _, a := range cc.Common().Args {
					if isErrorType(a.Type()) && !isNilConst(a) {
						found = true
					}
				}
			} else {
				walk(g, d+1)
			}
		}
	}
	walk(callee, 0)
	return found
}

// ---- ATOMIC ---------------------------------------------------------------------------------------

func c03Atomic(w *World, r *Report, ef *Effects) {
	// upgrade: the store to Rollback.Version in a function that calls Rollback.Run
	o := newOpCtx(w, ef, actionOps[1], nil)
	run := w.Fn("pkg/action", "Rollback.Run")
	if o == nil || run == nil {
		r.Unk("C03/ATOMIC", "anchor", "-", "upgrade / Rollback.Run not resolved")
		return
	}
	found := false
	for fn := range o.Cone(0).Funcs {
		if fnPkgPath(fn) != actionPkg {
			continue
		}
		callsRun := false
		for _, c := range callInstrs(fn) {
			if f, _ := calleeOf(c.Common()); f != nil && origin(f) == run {
				callsRun = true
			}
		}
		if !callsRun {
			continue
		}
		for _, b := range fn.Blocks {
			for _, in := range b.Instrs {
				st, ok := in.(*ssa.Store)
				if !ok {
					continue
				}
				fa, ok := st.Addr.(*ssa.FieldAddr)
				if !ok || !isFieldOf(fa, actionPkg, "Rollback", "Version") {
					continue
				}
				found = true
				ok2, why := atomicTargetForm(w, fn, st.Val)
				r.Check(ok2, "C03/ATOMIC", "upgrade/"+FuncName(fn)+"/rollback-target", w.InstrPos(st), why, why)
			}
		}
	}
	if !found {
		r.Bad("C03/ATOMIC", "upgrade/rollback-target", w.Pos(o.entry.Pos()), "no function of upgrade sets a rollback target version and runs Rollback: --atomic cannot restore the last good revision")
	}
	// install: handler uninstalls with KeepHistory=false under Atomic — checked as part of C03/FAILER; here: it is reached only under Atomic
	oi := newOpCtx(w, ef, actionOps[0], map[string]aval{"Atomic": boolV(false)})
	if oi != nil {
		un := w.Fn("pkg/action", "Uninstall.Run")
		reach := false
		for _, s := range WalkConeSkip(w, ef, oi.entry, oi.real.Graph, 0, nil).Sites {
			_ = s
		}
		cone := WalkConeSkip(w, ef, oi.entry, oi.real.Graph, 0, nil)
		if cone.Funcs[un] {
			reach = true
		}
		r.Check(!reach, "C03/ATOMIC", "install/uninstall-only-under-atomic", w.Pos(oi.entry.Pos()), "without Atomic a failed install never uninstalls (the failed revision is kept for inspection)", "a failed install can uninstall the release although Atomic is off")
	}
}

func atomicTargetForm(w *World, fn *ssa.Function, v ssa.Value) (bool, string) {
	ld, ok := v.(*ssa.UnOp)
	if !ok || ld.Op != token.MUL {
		return false, "rollback target is not a Version field load"
	}
	fa, ok := ld.X.(*ssa.FieldAddr)
	if !ok || !isFieldOf(fa, relPkg, "Release", "Version") {
		return false, "rollback target is not X.Version"
	}
	srcs := map[string]bool{}
	var idx0 *ssa.IndexAddr
	var filterCall *ssa.Call
	backSlice(fa.X, func(x ssa.Value) bool {
		switch x := x.(type) {
		case *ssa.IndexAddr:
			if i, ok := constInt(x.Index); ok && i == 0 {
				idx0 = x
			}
		case *ssa.Call:
			f, _ := calleeOf(x.Common())
			name := describeCall(x.Common())
			if f != nil && FuncName(f) == "(pkg/release/util.FilterFunc).Filter" {
				filterCall = x
				return false // continue into its arguments (the history)
			}
			srcs[name] = true
			return true
		}
		return false
	})
	var list []string
	for s := range srcs {
		list = append(list, s)
	}
	sort.Strings(list)
	hist := srcs["(*pkg/action.History).Run"] || srcs["(*pkg/storage.Storage).History"]
	for s := range srcs {
		if s != "(*pkg/action.History).Run" && s != "(*pkg/storage.Storage).History" && s != "pkg/action.NewHistory" {
			return false, "rollback target derives from " + strings.Join(list, ",") + " instead of the filtered history"
		}
	}
	if !hist || idx0 == nil || filterCall == nil {
		return false, "rollback target is not element 0 of the filtered release history (sources: " + strings.Join(list, ",") + ")"
	}
	if !reverseSortDominates(fn, idx0) {
		return false, "the filtered history is not reversed by revision before element 0 is taken"
	}
	// the filter's accepted statuses
	statuses := map[string]bool{}
	backSlice(filterCall.Call.Args[0], func(x ssa.Value) bool {
		if mc, ok := x.(*ssa.MakeClosure); ok {
			if f, ok := mc.Fn.(*ssa.Function); ok {
				collectStatusConsts(f, statuses)
			}
		}
		if f, ok := x.(*ssa.Function); ok {
			collectStatusConsts(f, statuses)
		}
		return false
	})
	if len(statuses) != 2 || !statuses["superseded"] || !statuses["deployed"] {
		return false, "the history filter accepts " + setString(statuses) + " (must be exactly {deployed,superseded})"
	}
	return true, "rollback target = Reverse(SortByRevision)(history filtered to {deployed,superseded})[0].Version"
}

func collectStatusConsts(f *ssa.Function, out map[string]bool) {
	for _, b := range f.Blocks {
		for _, in := range b.Instrs {
			if bo, ok := in.(*ssa.BinOp); ok && (bo.Op == token.EQL || bo.Op == token.NEQ) {
				for _, x := range []ssa.Value{bo.X, bo.Y} {
					if s, ok := constString(x); ok {
						out[s] = true
					}
				}
			}
		}
	}
}

// c03UninstallAccepts: an atomic install that failed cleans up by running Uninstall on a release whose
// stored status is still pending-install (the failed status is only set in memory), and a failed or
// superseded release must be removable too: Uninstall.Run refuses a release because of its status only
// when it is already uninstalled.
func c03UninstallAccepts(w *World, r *Report) {
	r.Rule("C03/UNINSTALL-ACCEPTS", "Uninstall.Run turns a release away because of its status only when that status is uninstalled: no other status test (pending, failed, …) leads to an error return before the resources are deleted", 1)
	fn := w.Fn("pkg/action", "Uninstall.Run")
	if fn == nil {
		r.Unk("C03/UNINSTALL-ACCEPTS", "anchor", "-", "Uninstall.Run not found")
		return
	}
	r.Fn(FuncName(fn))
	g := FullGraph(fn)
	var deletes []ssa.Instruction
	for _, c := range callInstrs(fn) {
		if f, _ := calleeOf(c.Common()); f != nil && strings.HasSuffix(FuncName(f), ".deleteRelease") {
			deletes = append(deletes, c)
		}
	}
	isStatus := func(v ssa.Value) bool {
		n, ok := v.Type().(*types.Named)
		return ok && n.Obj().Pkg() != nil && n.Obj().Pkg().Path() == relPkg && n.Obj().Name() == "Status"
	}
	type cond struct {
		at    ssa.Instruction
		what  string
		edges []Edge
	}
	var conds []cond
	for _, b := range fn.Blocks {
		for _, in := range b.Instrs {
			switch x := in.(type) {
			case *ssa.BinOp:
				if (x.Op != token.EQL && x.Op != token.NEQ) || !isStatus(x.X) {
					continue
				}
				c, okc := constString(x.Y)
				if !okc {
					c, okc = constString(x.X)
				}
				if !okc || c == "uninstalled" {
					continue
				}
				var es []Edge
				for _, e := range condEdges(x) {
					if e.truth == (x.Op == token.EQL) {
						es = append(es, e.Edge)
					}
				}
				conds = append(conds, cond{x, "status " + c, es})
			case *ssa.Call:
				f, _ := calleeOf(x.Common())
				if f == nil || len(x.Call.Args) == 0 || !isStatus(x.Call.Args[0]) {
					continue
				}
				if f.Signature.Results().Len() != 1 {
					continue
				}
				var es []Edge
				for _, e := range condEdges(x) {
					if e.truth {
						es = append(es, e.Edge)
					}
				}
				conds = append(conds, cond{x, "(Status)." + f.Name() + "()", es})
			}
		}
	}
	bad := ""
	for _, c := range conds {
		for _, e := range c.edges {
			for _, rp := range g.classifyReturns() {
				if rp.Class != RetError {
					continue
				}
				if ex, _ := g.PathExists(IPos{e.To(), -1}, retPos(rp), avoidInstrs(deletes...).withEdges()); ex {
					// only if that return is not reachable the same way without the condition (a refusal caused by it):
					// the other edge of the same test must be able to reach the delete
					bad = c.what + " at " + w.InstrPos(c.at)
				}
			}
		}
	}
	r.Check(bad == "" && len(deletes) > 0, "C03/UNINSTALL-ACCEPTS", "Run", w.Pos(fn.Pos()), "only the uninstalled status is turned away", "uninstall turns a release away on "+bad+": the clean-up of a failed atomic install (stored status still pending-install) is refused and the pending revision stays")
}

// c03NestedWait: an action that pkg/action starts on behalf of another (the rollback of a failed atomic
// upgrade, the uninstall of a failed atomic install) is given a wait strategy before it runs: the
// real client rejects the zero value, so without it the recovery itself fails.
func c03NestedWait(w *World, r *Report) {
	r.Rule("C03/NESTED-WAIT", "every Rollback or Uninstall that pkg/action creates and runs itself has its WaitStrategy field stored (from the starting action's WaitStrategy or a strategy constant) on every path to its Run", 2)
	n := 0
	for _, fn := range w.FuncsIn("pkg/action") {
		var g *Graph
		for _, c := range callInstrs(fn) {
			f, _ := calleeOf(c.Common())
			if f == nil {
				continue
			}
			name := FuncName(f)
			if name != "(*pkg/action.Rollback).Run" && name != "(*pkg/action.Uninstall).Run" {
				continue
			}
			obj := c.Common().Args[0]
			// created here?
			created := false
			backSlice(obj, func(v ssa.Value) bool {
				if cc, ok := v.(*ssa.Call); ok {
					if nf, _ := calleeOf(cc.Common()); nf != nil && (FuncName(nf) == "pkg/action.NewRollback" || FuncName(nf) == "pkg/action.NewUninstall") {
						created = true
					}
					return true
				}
				return false
			})
			if !created {
				continue
			}
			if g == nil {
				g = FullGraph(fn)
			}
			var stores []ssa.Instruction
			for _, b := range fn.Blocks {
				for _, in := range b.Instrs {
					st, ok := in.(*ssa.Store)
					if !ok {
						continue
					}
					fa, ok := st.Addr.(*ssa.FieldAddr)
					if !ok || !sameValue(fa.X, obj) {
						continue
					}
					if _, _, fld := fieldNameOf(fa); fld == "WaitStrategy" {
						stores = append(stores, st)
					}
				}
			}
			n++
			ok := len(stores) > 0
			if ok {
				ex, _ := g.PathExists(entryPos(fn), posOf(c), avoidInstrs(stores...))
				ok = !ex
			}
			r.Fn(FuncName(fn))
			r.Check(ok, "C03/NESTED-WAIT", FuncName(fn)+"/"+name, w.InstrPos(c), "the nested action is given a wait strategy on every path", "the nested action can run without a wait strategy: the real client's GetWaiter rejects the zero value, so the recovery (atomic rollback / uninstall) fails and the release is left as it is")
		}
	}
	if n == 0 {
		r.Unk("C03/NESTED-WAIT", "none", "-", "no nested Rollback/Uninstall found in pkg/action (atomic handling expected)")
	}
}
