// Package fixture holds tiny positive examples for the checker's matchers whose expected number of
// matches on helm is zero (no link creation from archive loaders, no hand-set Authorization header, no
// package-level state on the verification path, ...). Every run loads this package and fails if a
// matcher does not fire on its example: a rule that silently matches nothing would pass forever.
package fixture

import (
	"encoding/json"
	"net/http"
	"net/url"
	"os"
	"sort"
	"strings"
	"sync"
)

var cache sync.Map
var table = map[string]int{}

func LinkIt(a, b string) error { return os.Symlink(a, b) }

func ReadsEnv() string { return os.Getenv("HOME") }

func SetsAuth(r *http.Request) { r.Header.Set("Authorization", "Basic x"); r.SetBasicAuth("u", "p") }

func TouchesState(k string) int { cache.Store(k, 1); table[k]++; return table[k] }

// OrderDependent writes in map order.
func OrderDependent(m map[string]string) string {
	var sb strings.Builder
	for k, v := range m {
		sb.WriteString(k + v)
	}
	return sb.String()
}

// OrderIndependent collects and sorts.
func OrderIndependent(m map[string]string) []string {
	var ks []string
	for k := range m {
		ks = append(ks, k)
	}
	sort.Strings(ks)
	return ks
}

// Unchecked asserts without a test.
func Unchecked(v interface{}) string { return v.(string) }

// Checked asserts after a test.
func Checked(v interface{}) string {
	if _, ok := v.(string); ok {
		return v.(string)
	}
	return ""
}

type doc struct{ Files map[string]string }

// DecodesPtr leaves p nil for the document "null" and reports no error.
func DecodesPtr(b []byte) (*doc, error) {
	var p *doc
	if err := json.Unmarshal(b, &p); err != nil {
		return nil, err
	}
	return p, nil
}

// DeadAppend loses the appended element: nobody reads xs afterwards.
func DeadAppend(xs []string, flag bool) int {
	n := len(xs)
	if flag {
		xs = append(xs, "lost")
	}
	return n
}

// SameHost compares two URLs by bare host name (scheme and port are lost).
func SameHost(a, b *url.URL) bool { return a.Hostname() == b.Hostname() }

// Mutates writes through its argument; Reads does not.
func Mutates(d *doc)   { d.Files = nil }
func Reads(d *doc) int { return len(d.Files) }
