module fixture

go 1.24
