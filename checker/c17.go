package main

// C17 — provenance verification accepts exactly untampered, trusted-key-signed charts (structural half).

import (
	"fmt"
	"go/constant"
	"go/token"
	"go/types"
	"strings"

	"golang.org/x/tools/go/ssa"
)

func init() {
	register(&propDef{
		ID:      "C17",
		Anchors: []string{"pkg/provenance/sign.go", "pkg/downloader/chart_downloader.go", "pkg/action/verify.go", "pkg/action/package.go"},
		NotDec:  []string{"the 'if and only if': cryptographic validity of signatures, rejection of every mutation, sign-then-verify round trip (openpgp and sha256 are trusted)", "what the bytes on disk are at verification time"},
		Trusted: []string{"golang.org/x/crypto/openpgp", "crypto/sha256"},
		Run:     runC17,
	})
}

const provPkg = helmMod + "/pkg/provenance"
const dlPkg = helmMod + "/pkg/downloader"

func runC17(w *World, r *Report) {
	r.Rule("C17/VERIFY-MPT", "Signatory.Verify can return success only after the ok-edges of signature decoding, signature verification against the keyring, digesting the archive, parsing the signed message, the presence of an entry under the archive's base name, and the equality of that entry with \"sha256:\"+digest; the signature check uses the receiver's keyring and the same block", 8)
	r.Rule("C17/REQUIRED", "with verification required, a download returns success only through the ok-edge of VerifyChart and a missing provenance file is an error; LocateChart verifies local files and requires verification for remote ones; the verify action returns VerifyChart's error", 4)
	r.Rule("C17/NO-STATE", "the verification path keeps no package-level mutable state (no cache of keyrings or signatories between calls)", 1)
	r.Rule("C17/NILERR", "in pkg/provenance no return inside a region entered through an err != nil edge reports a nil error", 10)
	c17Verify(w, r)
	c17Required(w, r)
	c17NoState(w, r)
	c17NilErr(w, r)
	c17SignVerifyKey(w, r)
	r.Rule("C17/WIRING", "the verification options (Verify, Keyring, VerifyLater) are fed only from the options of the same name and bound to their own command-line flags", 2)
	checkWiring(w, r, "C17/WIRING", map[string]bool{"Verify": true, "Keyring": true, "VerifyLater": true})
	checkFlagBinding(w, r, "C17/WIRING", map[string]bool{"Verify": true, "Keyring": true, "VerifyLater": true})
	r.Rule("C17/ERROR-KEPT", "where dependencies are downloaded and verified in a loop, the error kept for the end is never overwritten by a value that may be nil (a later success cannot erase a verification failure)", 0)
	if errOverwritten(w, r, "C17/ERROR-KEPT", []string{"pkg/downloader"}) == 0 {
		r.OKTrivial("C17/ERROR-KEPT", "none", "-", "no error is carried across loop iterations in pkg/downloader (a failure ends the loop)")
	}
	c17PullVerify(w, r)
	c17VerifyErrorFatal(w, r)
	c17VerifyName(w, r)
	c17DepUpdateVerify(w, r)
}

func c17Verify(w *World, r *Report) {
	fn := w.Fn("pkg/provenance", "Signatory.Verify")
	if fn == nil {
		r.Unk("C17/VERIFY-MPT", "anchor", "-", "Signatory.Verify not found")
		return
	}
	r.Fn(FuncName(fn))
	g := FullGraph(fn)
	type step struct {
		key   string
		edges []Edge
		at    ssa.Instruction
	}
	var steps []step
	byName := map[string]ssa.CallInstruction{}
	for _, c := range callInstrs(fn) {
		f, _ := calleeOf(c.Common())
		if f == nil {
			continue
		}
		byName[FuncName(origin(f))] = c
	}
	// the decoder and the verifier are found by what they do (whatever they are called, method or
	// function): the provenance function called from Verify that decodes the clear-signed block, and the
	// one that checks the detached signature
	decName, verName := "(*pkg/provenance.Signatory).decodeSignature", "(*pkg/provenance.Signatory).verifySignature"
	var verFn *ssa.Function
	var verCall ssa.CallInstruction
	for _, c := range callInstrs(fn) {
		f, _ := calleeOf(c.Common())
		if f == nil || !inHelm(f) {
			continue
		}
		for _, cc := range callInstrs(f) {
			g2, _ := calleeOf(cc.Common())
			if g2 == nil {
				continue
			}
			switch {
			case strings.HasSuffix(fnPkgPath(g2), "openpgp/clearsign") && g2.Name() == "Decode":
				decName = FuncName(origin(f))
			case strings.HasSuffix(fnPkgPath(g2), "/openpgp") && g2.Name() == "CheckDetachedSignature":
				verName = FuncName(origin(f))
				verFn, verCall = origin(f), c
			}
		}
	}
	for _, e := range []struct{ key, fn string }{
		{"decode-signature", decName},
		{"verify-signature", verName},
		{"digest-archive", "pkg/provenance.DigestFile"},
		{"parse-signed-message", "pkg/provenance.parseMessageBlock"},
	} {
		c := byName[e.fn]
		if c == nil {
			// the step may be written out in Verify itself (or have been expanded into it)
			var direct ssa.CallInstruction
			var edges []Edge
			for _, dc := range callInstrs(fn) {
				g2, _ := calleeOf(dc.Common())
				if g2 == nil {
					continue
				}
				switch {
				case e.key == "decode-signature" && strings.HasSuffix(fnPkgPath(g2), "openpgp/clearsign") && g2.Name() == "Decode":
					direct = dc
					_, nonNil := nilTestEdges(resultN(dc, 0)) // a nil block means "not a signed message"
					edges = nonNil
				case e.key == "verify-signature" && strings.HasSuffix(fnPkgPath(g2), "/openpgp") && g2.Name() == "CheckDetachedSignature":
					direct = dc
					edges = okEdgesOfCall(dc)
					verFn, verCall = fn, nil
				}
			}
			if direct == nil {
				r.Bad("C17/VERIFY-MPT", e.key, w.Pos(fn.Pos()), "Verify no longer calls "+e.fn)
				continue
			}
			if e.key == "decode-signature" {
				byName[decName] = direct
			}
			steps = append(steps, step{e.key, edges, direct})
			continue
		}
		steps = append(steps, step{e.key, okEdgesOfCall(c), c})
	}
	// presence test: comma-ok lookup of Files[filepath.Base(chartpath)]
	var presence, equal []Edge
	var lkAt, eqAt ssa.Instruction
	for _, b := range fn.Blocks {
		for _, in := range b.Instrs {
			switch x := in.(type) {
			case *ssa.Lookup:
				if !x.CommaOk {
					continue
				}
				if ld, ok := x.X.(*ssa.UnOp); ok {
					if _, t, f := fieldNameOf(ld.X); t == "SumCollection" && f == "Files" {
						// key is filepath.Base(chartpath)
						if kc, ok := x.Index.(*ssa.Call); ok {
							if kf, _ := calleeOf(kc.Common()); kf != nil && fnPkgPath(kf) == "path/filepath" && kf.Name() == "Base" && kc.Call.Args[0] == ssa.Value(fn.Params[1]) {
								lkAt = x
								for _, rf := range *x.Referrers() {
									if ex, ok := rf.(*ssa.Extract); ok && ex.Index == 1 {
										for _, e := range condEdges(ex) {
											if e.truth {
												presence = append(presence, e.Edge)
											}
										}
									}
								}
							}
						}
					}
				}
			case *ssa.BinOp:
				if (x.Op == token.NEQ || x.Op == token.EQL) && isStringType(x.X.Type()) {
					// sha (from the lookup) vs "sha256:"+sum (sum from DigestFile)
					fromLookup := func(v ssa.Value) bool {
						ex, ok := v.(*ssa.Extract)
						if !ok {
							return false
						}
						_, isLk := ex.Tuple.(*ssa.Lookup)
						return isLk && ex.Index == 0
					}
					isPrefixed := func(v ssa.Value) bool {
						bo, ok := v.(*ssa.BinOp)
						if !ok || bo.Op != token.ADD {
							return false
						}
						p, _ := constString(bo.X)
						d := byName["pkg/provenance.DigestFile"]
						return p == "sha256:" && d != nil && derivesFromValue(bo.Y, resultN(d, 0))
					}
					if (fromLookup(x.X) && isPrefixed(x.Y)) || (fromLookup(x.Y) && isPrefixed(x.X)) {
						eqAt = x
						for _, e := range condEdges(x) {
							if e.truth == (x.Op == token.EQL) {
								equal = append(equal, e.Edge)
							}
						}
					}
				}
			}
		}
	}
	steps = append(steps, step{"entry-under-base-name", presence, lkAt}, step{"digest-equality", equal, eqAt})
	var succ []RetPath
	for _, rp := range g.classifyReturns() {
		if rp.Class == RetSuccess {
			succ = append(succ, rp)
		}
	}
	if len(succ) == 0 {
		r.Unk("C17/VERIFY-MPT", "no-success", w.Pos(fn.Pos()), "Verify has no success return")
	}
	for _, s := range steps {
		pos := w.Pos(fn.Pos())
		if s.at != nil {
			pos = w.InstrPos(s.at)
		}
		ok := len(s.edges) > 0
		for _, rp := range succ {
			if ex, _ := g.PathExists(entryPos(fn), retPos(rp), Avoid{}.withEdges(s.edges...)); ex {
				ok = false
			}
		}
		r.Check(ok, "C17/VERIFY-MPT", s.key, pos, "success is unreachable without the ok-edge of "+s.key, "Verify can return success without passing "+s.key+" (another way to success exists)")
	}
	// verifySignature: CheckDetachedSignature(s.KeyRing, block.Bytes, block.ArmoredSignature.Body)
	vs := verFn
	if vs == nil {
		vs = w.Fn("pkg/provenance", "Signatory.verifySignature")
	}
	if vs == nil {
		r.Unk("C17/VERIFY-MPT", "signature-operands", "-", "verifySignature not found")
		return
	}
	r.Fn(FuncName(vs))
	okOps := false
	for _, c := range callInstrs(vs) {
		f, _ := calleeOf(c.Common())
		if f == nil || f.Name() != "CheckDetachedSignature" {
			continue
		}
		args := c.Common().Args
		kr := false
		isKeyRing := func(v ssa.Value) bool {
			found := false
			backSlice(v, func(x ssa.Value) bool {
				if _, t, fld := fieldNameOf(x); t == "Signatory" && fld == "KeyRing" {
					found = true
				}
				return found
			})
			return found
		}
		kr = isKeyRing(args[0])
		if !kr && verCall != nil {
			// the keyring is a parameter: the caller hands in the receiver's keyring
			if p, isP := resolveToParam(args[0]).(*ssa.Parameter); isP && p.Parent() == vs {
				if i := paramIndex(vs, p); i >= 0 && i < len(verCall.Common().Args) {
					kr = isKeyRing(verCall.Common().Args[i])
				}
			}
		}
		var blockParam ssa.Value
		for _, p := range vs.Params {
			if strings.HasSuffix(p.Type().String(), "clearsign.Block") {
				blockParam = p
			}
		}
		if blockParam == nil {
			// written out in Verify: the block is the decoder's result
			if d := byName[decName]; d != nil {
				blockParam = resultN(d, 0)
			}
		}
		if blockParam == nil {
			continue
		}
		okOps = kr && derivesFromValue(args[1], blockParam) && derivesFromValue(args[2], blockParam)
		// its error is returned
	}
	r.Check(okOps, "C17/VERIFY-MPT", "signature-operands", w.Pos(vs.Pos()), "the detached signature is checked against the receiver's keyring over the bytes and armor of the same block", "the signature check does not use (receiver keyring, block bytes, block signature)")
	// the message parsed for the digests is the verified block's plaintext
	okMsg := false
	if c := byName["pkg/provenance.parseMessageBlock"]; c != nil {
		if d := byName[decName]; d != nil {
			okMsg = derivesFromValue(c.Common().Args[0], resultN(d, 0))
		}
	}
	r.Check(okMsg, "C17/VERIFY-MPT", "same-block", w.Pos(fn.Pos()), "the digests are read from the plaintext of the very block whose signature was verified", "the digests are not read from the signed block")
}

func c17Required(w *World, r *Report) {
	dl := w.Fn("pkg/downloader", "ChartDownloader.DownloadTo")
	vc := w.Fn("pkg/downloader", "VerifyChart")
	obj := w.Named(dlPkg, "ChartDownloader")
	if dl == nil || vc == nil || obj == nil {
		r.Unk("C17/REQUIRED", "anchor", "-", "ChartDownloader.DownloadTo / VerifyChart not found")
		return
	}
	r.Fn(FuncName(dl))
	// VerifyAlways constant
	always := int64(-1)
	if c, ok := w.Obj(dlPkg, "VerifyAlways").(*types.Const); ok {
		if v, ok2 := constInt64(c); ok2 {
			always = v
		}
	}
	spec := NewSpec(w, obj, "Verify=VerifyAlways", map[string]aval{"Verify": intV(always)})
	g := spec.Graph(dl)
	var call ssa.CallInstruction
	for _, c := range callInstrs(dl) {
		if f, _ := calleeOf(c.Common()); f != nil && origin(f) == vc {
			call = c
		}
	}
	if call == nil || always < 0 {
		r.Bad("C17/REQUIRED", "download/verify-call", w.Pos(dl.Pos()), "DownloadTo does not call VerifyChart")
	} else {
		ok := g.Reachable()[call.Block()]
		n := 0
		for i, rp := range g.classifyReturns() {
			if rp.Class != RetSuccess {
				// `return …, err` with VerifyChart's own error: a success exactly when the verification succeeded
				v := rp.Val
				for d := 0; d < 4; d++ {
					inner, ok := nilPreservingArg(v)
					if !ok {
						break
					}
					v = inner
				}
				if ev := errResult(call); ev != nil && v == ev && g.Reachable()[call.Block()] {
					n++
					r.OK("C17/REQUIRED", fmt.Sprintf("download/return#%d", i), w.InstrPos(rp.Ret), "with VerifyAlways this return hands back VerifyChart's own error: it is a success only if the verification succeeded")
				}
				continue
			}
			n++
			after := g.AfterOK(call, retPos(rp))
			ok = ok && after
			r.Check(after, "C17/REQUIRED", fmt.Sprintf("download/return#%d", i), w.InstrPos(rp.Ret), "with VerifyAlways this success return follows the ok-edge of VerifyChart", "with verification required the download can report success without VerifyChart having succeeded (e.g. on a missing or empty provenance file)")
		}
		if n == 0 {
			r.Unk("C17/REQUIRED", "download/no-success", w.Pos(dl.Pos()), "no success return under VerifyAlways")
		}
	}
	// LocateChart: local file + Verify → VerifyChart; remote + Verify → dl.Verify = VerifyAlways
	lc := w.Fn("pkg/action", "ChartPathOptions.LocateChart")
	cpo := w.Named(actionPkg, "ChartPathOptions")
	if lc != nil && cpo != nil {
		r.Fn(FuncName(lc))
		sp := NewSpec(w, cpo, "Verify=true", map[string]aval{"Verify": boolV(true)})
		lg := sp.Graph(lc)
		var dlCall, vcCall ssa.CallInstruction
		var setAlways ssa.Instruction
		for _, c := range callInstrs(lc) {
			f, _ := calleeOf(c.Common())
			if f == nil {
				continue
			}
			if origin(f) == dl {
				dlCall = c
			}
			if origin(f) == vc {
				vcCall = c
			}
		}
		for _, b := range lc.Blocks {
			for _, in := range b.Instrs {
				if st, ok := in.(*ssa.Store); ok {
					if _, t, f := fieldNameOf(st.Addr); t == "ChartDownloader" && f == "Verify" {
						if i, ok := constInt(st.Val); ok && i == always {
							setAlways = st
						} else if a := sp.Eval(lc, st.Val); a.k == 4 && a.i == always && lg.Reachable()[st.Block()] {
							setAlways = st // chosen before the literal: the value is VerifyAlways whenever Verify is set
						}
					}
				}
			}
		}
		okRemote := dlCall != nil && setAlways != nil && lg.DominatesInstr(setAlways, posOf(dlCall))
		r.Check(okRemote, "C17/REQUIRED", "locate/remote", w.Pos(lc.Pos()), "with Verify set, the downloader is switched to VerifyAlways before the download", "with Verify set a remote chart can be downloaded without VerifyAlways")
		// local: every success return before the download passes VerifyChart
		okLocal := vcCall != nil
		if okLocal {
			for _, rp := range lg.classifyReturns() {
				if rp.Class != RetSuccess {
					continue
				}
				if dlCall != nil && lg.DominatesInstr(dlCall, retPos(rp)) {
					continue
				}
				if !lg.AfterOK(vcCall, retPos(rp)) {
					okLocal = false
				}
			}
		}
		r.Check(okLocal, "C17/REQUIRED", "locate/local", w.Pos(lc.Pos()), "with Verify set, a local chart path is returned only after VerifyChart succeeded", "with Verify set a local chart can be accepted without verification")
	} else {
		r.Unk("C17/REQUIRED", "locate/anchor", "-", "ChartPathOptions.LocateChart not found")
	}
	// Verify action returns VerifyChart's error
	va := w.Fn("pkg/action", "Verify.Run")
	if va != nil {
		r.Fn(FuncName(va))
		vg := FullGraph(va)
		var c0 ssa.CallInstruction
		for _, c := range callInstrs(va) {
			if f, _ := calleeOf(c.Common()); f != nil && origin(f) == vc {
				c0 = c
			}
		}
		ok := c0 != nil
		if ok {
			for _, rp := range vg.classifyReturns() {
				if rp.Class == RetSuccess && !vg.AfterOK(c0, retPos(rp)) {
					ok = false
				}
			}
		}
		r.Check(ok, "C17/REQUIRED", "verify-action", w.Pos(va.Pos()), "helm verify succeeds only through the ok-edge of VerifyChart", "helm verify can succeed without VerifyChart having succeeded")
	}
}

func constInt64(c *types.Const) (int64, bool) {
	v := c.Val()
	if v == nil {
		return 0, false
	}
	s := v.ExactString()
	var n int64
	_, err := fmt.Sscan(s, &n)
	return n, err == nil
}

func c17NoState(w *World, r *Report) {
	roots := []*ssa.Function{w.Fn("pkg/downloader", "VerifyChart"), w.Fn("pkg/provenance", "NewFromKeyring"), w.Fn("pkg/provenance", "Signatory.Verify")}
	seen := map[*ssa.Function]bool{}
	bad := ""
	var walk func(f *ssa.Function, d int)
	walk = func(f *ssa.Function, d int) {
		f = origin(f)
		if f == nil || seen[f] || !inHelm(f) || d > 6 {
			return
		}
		seen[f] = true
		r.Fn(FuncName(f))
		for _, b := range f.Blocks {
			for _, in := range b.Instrs {
				for _, op := range in.Operands(nil) {
					gl, ok := (*op).(*ssa.Global)
					if !ok || gl.Pkg == nil || !strings.HasPrefix(gl.Pkg.Pkg.Path(), helmMod) {
						continue
					}
					t := gl.Type().(*types.Pointer).Elem()
					if mutableStateType(t) {
						bad = gl.Name() + " (" + t.String() + ") in " + FuncName(f)
					}
				}
				if c, ok := in.(ssa.CallInstruction); ok {
					if g, _ := calleeOf(c.Common()); g != nil {
						walk(g, d+1)
					}
				}
			}
		}
	}
	for _, f := range roots {
		if f == nil {
			r.Unk("C17/NO-STATE", "anchor", "-", "verification entry point not found")
			return
		}
		walk(f, 0)
	}
	r.Check(bad == "", "C17/NO-STATE", "verification-path", "-", fmt.Sprintf("no package-level mutable state is touched in the %d functions of the verification path", len(seen)), "the verification path uses package-level mutable state: "+bad+" — trust decisions of an earlier call can outlive a change of the keyring")
}

func mutableStateType(t types.Type) bool {
	switch u := t.Underlying().(type) {
	case *types.Map, *types.Slice, *types.Chan:
		return true
	case *types.Struct:
		s := t.String()
		if strings.HasPrefix(s, "sync.") {
			return true
		}
		for i := 0; i < u.NumFields(); i++ {
			if mutableStateType(u.Field(i).Type()) {
				return true
			}
		}
	case *types.Pointer:
		s := u.Elem().String()
		if strings.HasPrefix(s, "regexp.") {
			return false
		}
		return mutableStateType(u.Elem())
	}
	return false
}

func c17NilErr(w *World, r *Report) {
	for _, fn := range w.FuncsIn("pkg/provenance") {
		if len(fn.Blocks) == 0 || !hasErrorResult(fn) {
			continue
		}
		g := FullGraph(fn)
		rets := g.classifyReturns()
		for _, c := range callInstrs(fn) {
			ev := errResult(c)
			if ev == nil {
				continue
			}
			_, bad := nilTestEdges(ev)
			if len(bad) == 0 {
				continue
			}
			r.Fn(FuncName(fn))
			key := siteKey(Site{fn, c, posOf(c)})
			flagged := ""
			for _, e := range bad {
				for _, rp := range rets {
					if rp.Class != RetSuccess {
						continue
					}
					rb := rp.Ret.Block()
					if rp.Pred != nil {
						rb = rp.Pred
					}
					if edgeDominates(g, e, rb) && !laterOKCall(g, rp, e) {
						flagged = w.InstrPos(rp.Ret)
					}
				}
			}
			r.Check(flagged == "", "C17/NILERR", key, w.InstrPos(c), "the error edge of this call never ends in a nil-error return", "on the error edge of "+describeCall(c.Common())+" the function returns a nil error at "+flagged+": a failure on the verification path is reported as success")
		}
	}
}

// c17SignVerifyKey: the signer records the archive's digest under the same key the verifier looks up:
// the base name of the path each was given (so a chart signed and then verified as the same file passes,
// whatever the file is called), and the digest recorded is that of the file itself.
func c17SignVerifyKey(w *World, r *Report) {
	r.Rule("C17/SIGN-VERIFY-KEY", "the signer stores the archive digest in the signed message under filepath.Base of the path it was given and the verifier looks it up under filepath.Base of the path it was given; the digest on both sides is DigestFile of that same path", 2)
	baseOfParam := func(fn *ssa.Function, v ssa.Value) bool {
		c, ok := unwrapIface(v).(*ssa.Call)
		if !ok {
			return false
		}
		f, _ := calleeOf(c.Common())
		if f == nil || fnPkgPath(f) != "path/filepath" || f.Name() != "Base" {
			return false
		}
		_, isParam := resolveToParam(c.Call.Args[0]).(*ssa.Parameter)
		return isParam
	}
	// signer
	mb := w.Fn("pkg/provenance", "messageBlock")
	if mb == nil {
		r.Unk("C17/SIGN-VERIFY-KEY", "sign/anchor", "-", "provenance.messageBlock not found")
	} else {
		r.Fn(FuncName(mb))
		ok, why := false, "no digest entry is written into the signed message"
		for _, b := range mb.Blocks {
			for _, in := range b.Instrs {
				mu, isMU := in.(*ssa.MapUpdate)
				if !isMU {
					continue
				}
				if mt, isMap := mu.Map.Type().Underlying().(*types.Map); !isMap || !isStringType(mt.Key()) || !isStringType(mt.Elem()) {
					continue
				}
				keyOK := baseOfParam(mb, mu.Key)
				digOK := false
				backSlice(mu.Value, func(v ssa.Value) bool {
					if c, isC := v.(*ssa.Call); isC {
						if f, _ := calleeOf(c.Common()); f != nil && FuncName(f) == "pkg/provenance.DigestFile" {
							if _, isParam := resolveToParam(c.Call.Args[0]).(*ssa.Parameter); isParam {
								digOK = true
							}
							return true
						}
					}
					return false
				})
				ok = keyOK && digOK
				if !keyOK {
					why = "the digest is recorded under a name other than the base name of the file being signed"
				} else if !digOK {
					why = "the recorded digest is not DigestFile of the file being signed"
				}
			}
		}
		r.Check(ok, "C17/SIGN-VERIFY-KEY", "sign", w.Pos(mb.Pos()), "digest of the signed file recorded under its base name", why+": a chart signed under one file name no longer verifies under it")
	}
	// verifier
	vf := w.Fn("pkg/provenance", "Signatory.Verify")
	if vf == nil {
		r.Unk("C17/SIGN-VERIFY-KEY", "verify/anchor", "-", "Signatory.Verify not found")
		return
	}
	ok, why := false, "no lookup of the archive's name in the signed digest list"
	for _, b := range vf.Blocks {
		for _, in := range b.Instrs {
			lk, isLk := in.(*ssa.Lookup)
			if !isLk {
				continue
			}
			if mt, isMap := lk.X.Type().Underlying().(*types.Map); !isMap || !isStringType(mt.Key()) || !isStringType(mt.Elem()) {
				continue
			}
			if _, _, f := fieldNameOf(loadBase(lk.X)); f != "Files" {
				continue
			}
			ok = baseOfParam(vf, lk.Index)
			if !ok {
				why = "the digest is looked up under a name other than the base name of the file being verified"
			}
		}
	}
	r.Check(ok, "C17/SIGN-VERIFY-KEY", "verify", w.Pos(vf.Pos()), "digest looked up under the base name of the verified file", why)
}

// loadBase: for a load *addr returns addr, else v.
func loadBase(v ssa.Value) ssa.Value {
	if ld, ok := v.(*ssa.UnOp); ok && ld.Op == token.MUL {
		return ld.X
	}
	return v
}

// c17PullVerify: `helm pull --verify` verifies, whatever else is given: under Verify=true the downloader's
// mode is VerifyAlways on every path to the download (VerifyLater, which only fetches the provenance file,
// may be chosen only when Verify is off).
func c17PullVerify(w *World, r *Report) {
	r.Rule("C17/PULL-VERIFY", "in Pull.Run, specialised to Verify=true, the last store into the downloader's Verify mode before DownloadTo is the constant VerifyAlways on every path", 1)
	fn := w.Fn("pkg/action", "Pull.Run")
	obj := w.Named(actionPkg, "ChartPathOptions") // Verify is a field of the embedded options struct
	if fn == nil || obj == nil {
		r.Unk("C17/PULL-VERIFY", "anchor", "-", "Pull.Run not found")
		return
	}
	r.Fn(FuncName(fn))
	spec := NewSpec(w, obj, "Verify=true", map[string]aval{"Verify": boolV(true)})
	g := spec.Graph(fn)
	var dl ssa.CallInstruction
	for _, c := range callInstrs(fn) {
		if f, _ := calleeOf(c.Common()); f != nil && FuncName(f) == "(*pkg/downloader.ChartDownloader).DownloadTo" && g.Reachable()[c.Block()] {
			dl = c
		}
	}
	if dl == nil {
		r.Unk("C17/PULL-VERIFY", "download", w.Pos(fn.Pos()), "no reachable DownloadTo call in Pull.Run")
		return
	}
	// stores into ChartDownloader.Verify reachable under the specialisation
	var always, other []ssa.Instruction
	for _, b := range fn.Blocks {
		if !g.Reachable()[b] {
			continue
		}
		for _, in := range b.Instrs {
			st, ok := in.(*ssa.Store)
			if !ok {
				continue
			}
			if _, t, f := fieldNameOf(st.Addr); t != "ChartDownloader" || f != "Verify" {
				continue
			}
			if k, isC := constInt(st.Val); isC && k == verifyAlwaysValue(w) {
				always = append(always, st)
			} else if a := spec.Eval(fn, st.Val); a.k == 4 && a.i == verifyAlwaysValue(w) {
				always = append(always, st) // the mode was chosen before the literal: it is VerifyAlways under --verify
			} else {
				other = append(other, st)
			}
		}
	}
	ok := len(always) > 0
	why := "the verification mode is never set to VerifyAlways under --verify"
	if ok {
		// every path to the download passes a VerifyAlways store …
		if ex, _ := g.PathExists(entryPos(fn), posOf(dl), avoidInstrs(always...)); ex {
			ok, why = false, "a path to the download does not set VerifyAlways although --verify was given"
		}
		// … and no other store follows it
		for _, a := range always {
			for _, o := range other {
				if _, isInit := o.(*ssa.Store); isInit {
					if ex, _ := g.PathExists(posOf(a), posOf(o), Avoid{}); ex {
						if ex2, _ := g.PathExists(posOf(o), posOf(dl), avoidInstrs(always...)); ex2 {
							ok, why = false, "the mode is changed again after it was set to VerifyAlways"
						}
					}
				}
			}
		}
		// a weaker mode chosen on a path that avoids the VerifyAlways store
		for _, o := range other {
			if ex, _ := g.PathExists(posOf(o), posOf(dl), avoidInstrs(always...)); ex {
				if ex0, _ := g.PathExists(entryPos(fn), posOf(o), avoidInstrs(always...)); ex0 {
					if _, isLit := o.(*ssa.Store).Val.(*ssa.Const); isLit {
						if k, _ := constInt(o.(*ssa.Store).Val); k != 0 || true {
							// the composite-literal initialisation (VerifyNever) precedes everything: only a store
							// that is not dominated-then-overwritten matters, which the first test already covers
							_ = k
						}
					}
				}
			}
		}
	}
	r.Check(ok, "C17/PULL-VERIFY", "Run", w.InstrPos(dl), "with --verify the download runs in VerifyAlways mode", why+": the chart is saved without its signature having been checked")
}

// verifyAlwaysValue: the numeric value of downloader.VerifyAlways.
func verifyAlwaysValue(w *World) int64 {
	if p := w.All[helmMod+"/pkg/downloader"]; p != nil && p.Types != nil {
		if c, ok := p.Types.Scope().Lookup("VerifyAlways").(*types.Const); ok {
			if v, ok := constant.Int64Val(c.Val()); ok {
				return v
			}
		}
	}
	return -1
}

// c17VerifyErrorFatal: whatever the strategy, once the verification was attempted its failure fails the
// download (VerifyIfPossible tolerates a missing provenance file, not one that does not verify).
func c17VerifyErrorFatal(w *World, r *Report) {
	r.Rule("C17/VERIFY-ERROR-FATAL", "in DownloadTo no success return is reachable from the error edge of VerifyChart (under any verification strategy)", 1)
	dl := w.Fn("pkg/downloader", "ChartDownloader.DownloadTo")
	vc := w.Fn("pkg/downloader", "VerifyChart")
	if dl == nil || vc == nil {
		r.Unk("C17/VERIFY-ERROR-FATAL", "anchor", "-", "DownloadTo / VerifyChart not found")
		return
	}
	r.Fn(FuncName(dl))
	g := FullGraph(dl)
	n := 0
	for _, c := range callInstrs(dl) {
		if f, _ := calleeOf(c.Common()); f == nil || origin(f) != vc {
			continue
		}
		n++
		e := errResult(c)
		_, bad := nilTestEdges(e)
		viol := ""
		for _, rp := range g.classifyReturns() {
			if rp.Class != RetSuccess {
				continue
			}
			for _, be := range bad {
				if ex, _ := g.PathExists(IPos{be.To(), -1}, retPos(rp), Avoid{StartPrev: be.From}); ex {
					viol = w.InstrPos(rp.Ret)
				}
			}
		}
		// a tail `return …, err` of the call's own error is fine; an error edge that is never tested must be that form
		r.Check(viol == "", "C17/VERIFY-ERROR-FATAL", siteKey(Site{dl, c, posOf(c)}), w.InstrPos(c), "a failed verification always ends in an error return", "after VerifyChart failed the download can still report success at "+viol+": a chart whose digest or signature does not verify is accepted (with a warning at most)")
	}
	if n == 0 {
		r.Unk("C17/VERIFY-ERROR-FATAL", "no-call", w.Pos(dl.Pos()), "DownloadTo does not call VerifyChart")
	}
}

// c17VerifyName: VerifyChart verifies the file it was asked about, under the name it was asked about:
// the path handed to the signature check is the parameter itself (a resolved link target has another
// base name, and the provenance is keyed by base name).
func c17VerifyName(w *World, r *Report) {
	r.Rule("C17/VERIFY-NAME", "VerifyChart hands its own path parameter (unchanged) to the signature verification, and the provenance path is that parameter plus a suffix", 1)
	vc := w.Fn("pkg/downloader", "VerifyChart")
	if vc == nil {
		r.Unk("C17/VERIFY-NAME", "anchor", "-", "VerifyChart not found")
		return
	}
	r.Fn(FuncName(vc))
	n := 0
	for _, c := range callInstrs(vc) {
		f, _ := calleeOf(c.Common())
		if f == nil || FuncName(f) != "(*pkg/provenance.Signatory).Verify" {
			continue
		}
		n++
		args := c.Common().Args // recv, chartpath, sigpath
		okPath := len(args) == 3 && stripConv(args[1]) == ssa.Value(vc.Params[0])
		okSig := false
		if len(args) == 3 {
			if bo, ok := stripConv(args[2]).(*ssa.BinOp); ok && bo.Op == token.ADD && stripConv(bo.X) == ssa.Value(vc.Params[0]) {
				okSig = true
			}
		}
		r.Check(okPath && okSig, "C17/VERIFY-NAME", siteKey(Site{vc, c, posOf(c)}), w.InstrPos(c), "the archive is verified under the path it was given", "the signature check is given another path than the one VerifyChart was asked about (or a provenance path not built from it): a file reached through a link or a rewritten name is verified under its target's name, which the provenance may list although it does not list the name asked for")
	}
	if n == 0 {
		r.Unk("C17/VERIFY-NAME", "no-call", w.Pos(vc.Pos()), "VerifyChart does not call Signatory.Verify")
	}
}

// c17DepUpdateVerify: `helm dependency update --verify` requires a provenance file for every archive
// (VerifyAlways). `dependency build --verify` is the lenient sibling (VerifyIfPossible); sharing code
// between the two must not make update lenient too.
func c17DepUpdateVerify(w *World, r *Report) {
	r.Rule("C17/DEP-UPDATE-VERIFY", "in `helm dependency update` every constant stored into the manager's verification mode is VerifyAlways", 1)
	fn := w.Fn("pkg/cmd", "newDependencyUpdateCmd")
	if fn == nil {
		r.Unk("C17/DEP-UPDATE-VERIFY", "anchor", "-", "pkg/cmd.newDependencyUpdateCmd not found")
		return
	}
	r.Fn(FuncName(fn))
	always := verifyAlwaysValue(w)
	n := 0
	for _, f := range withAnon(fn) {
		for _, b := range f.Blocks {
			for _, in := range b.Instrs {
				st, ok := in.(*ssa.Store)
				if !ok {
					continue
				}
				if _, t, fl := fieldNameOf(st.Addr); t != "Manager" || fl != "Verify" {
					continue
				}
				k, isC := constInt(st.Val)
				if !isC {
					continue
				}
				n++
				r.Check(k == always, "C17/DEP-UPDATE-VERIFY", fmt.Sprintf("store#%d", n), w.InstrPos(st), "dependency update --verify uses VerifyAlways", "dependency update sets a verification mode other than VerifyAlways: with --verify an archive that is served without a provenance file is accepted with a warning")
			}
		}
	}
	if n == 0 {
		r.Unk("C17/DEP-UPDATE-VERIFY", "no-store", w.Pos(fn.Pos()), "dependency update never sets the manager's verification mode")
	}
}
