package main

// errcollect.go — collected errors are not dropped (shared by C03 and C12).

import (
	"fmt"
	"go/types"

	"golang.org/x/tools/go/ssa"
)

func isErrSlice(t types.Type) bool {
	sl, ok := t.Underlying().(*types.Slice)
	return ok && isErrorType(sl.Elem())
}

// errCollect: in every function of the given packages, a list of errors that was filled (by append) or
// received from a call is either handed on (returned, passed to a call) on the way to a success return,
// or the success return is reached only over an edge on which the list is known to be empty.
func errCollect(w *World, r *Report, rule string, pkgs []string, only func(fn *ssa.Function) bool) int {
	n := 0
	for _, rel := range pkgs {
		for _, fn := range w.FuncsIn(rel) {
			if only != nil && !only(fn) {
				continue
			}
			res := fn.Signature.Results()
			hasErr := false
			for i := 0; i < res.Len(); i++ {
				if isErrorType(res.At(i).Type()) {
					hasErr = true
				}
			}
			if !hasErr {
				continue
			}
			// definitions: append(…, err) results and []error call results
			var defs []ssa.Value
			for _, b := range fn.Blocks {
				for _, in := range b.Instrs {
					switch x := in.(type) {
					case *ssa.Call:
						if bi, ok := x.Call.Value.(*ssa.Builtin); ok && bi.Name() == "append" && isErrSlice(x.Type()) {
							defs = append(defs, x)
							continue
						}
						if isErrSlice(x.Type()) {
							defs = append(defs, x)
						}
					case *ssa.Extract:
						if isErrSlice(x.Type()) {
							if _, isCall := x.Tuple.(*ssa.Call); isCall {
								defs = append(defs, x)
							}
						}
					}
				}
			}
			if len(defs) == 0 {
				continue
			}
			g := FullGraph(fn)
			rets := g.classifyReturns()
			seenKey := map[string]int{}
			for _, d := range defs {
				// forward aliases: phis and appends that extend it
				al := map[ssa.Value]bool{d: true}
				work := []ssa.Value{d}
				returned := false
				for len(work) > 0 {
					v := work[len(work)-1]
					work = work[:len(work)-1]
					if v.Referrers() == nil {
						continue
					}
					for _, rf := range *v.Referrers() {
						switch x := rf.(type) {
						case *ssa.Phi:
							if !al[x] {
								al[x] = true
								work = append(work, x)
							}
						case *ssa.Call:
							if bi, ok := x.Call.Value.(*ssa.Builtin); ok && bi.Name() == "append" && len(x.Call.Args) > 0 && x.Call.Args[0] == v {
								if !al[x] {
									al[x] = true
									work = append(work, x)
								}
							}
						case *ssa.Return:
							returned = true
						case *ssa.Store:
							returned = true // kept in a variable or field that outlives this path: not followed
						}
					}
				}
				if returned {
					continue
				}
				empty, _ := emptyEdges(fn, func(v ssa.Value) bool { return al[v] })
				di, ok := d.(ssa.Instruction)
				if !ok {
					continue
				}
				bad := ""
				for _, rp := range rets {
					if rp.Class != RetSuccess {
						continue
					}
					if ex, _ := g.PathExists(posOf(di), retPos(rp), Avoid{}.withEdges(empty...)); ex {
						bad = w.InstrPos(rp.Ret)
					}
				}
				key := fmt.Sprintf("%s/%s", FuncName(fn), describeDef(d))
				seenKey[key]++
				if seenKey[key] > 1 {
					key = fmt.Sprintf("%s#%d", key, seenKey[key])
				}
				n++
				r.Fn(FuncName(fn))
				r.Check(bad == "", rule, key, w.InstrPos(di), "the collected errors are empty on every path to a success return", "the success return at "+bad+" is reachable although errors were collected here: the failure is dropped")
			}
		}
	}
	return n
}

func describeDef(v ssa.Value) string {
	switch x := v.(type) {
	case *ssa.Call:
		if bi, ok := x.Call.Value.(*ssa.Builtin); ok {
			if len(x.Call.Args) > 1 {
				return bi.Name() + ":" + describeVal(x.Call.Args[1])
			}
			return bi.Name()
		}
		return "result:" + describeCall(x.Common())
	case *ssa.Extract:
		if c, ok := x.Tuple.(*ssa.Call); ok {
			return "result:" + describeCall(c.Common())
		}
	}
	return "list"
}

// describeVal names the origin of an appended error (the call that produced it), for stable keys.
func describeVal(v ssa.Value) string {
	out := "value"
	backSlice(v, func(s ssa.Value) bool {
		if c, ok := s.(*ssa.Call); ok {
			if _, isB := c.Call.Value.(*ssa.Builtin); !isB {
				out = describeCall(c.Common())
				return true
			}
		}
		return false
	})
	return out
}

// errOverwritten: an error variable that is carried from one loop iteration to the next (and reported
// after the loop) must not be assigned a value that may be nil inside the loop: a later successful
// iteration would erase the failure of an earlier one.
func errOverwritten(w *World, r *Report, rule string, pkgs []string) int {
	n := 0
	for _, rel := range pkgs {
		for _, fn := range w.FuncsIn(rel) {
			var scc map[*ssa.BasicBlock][]*ssa.BasicBlock
			var g *Graph
			seen := 0
			for _, b := range fn.Blocks {
				for _, in := range b.Instrs {
					phi, ok := in.(*ssa.Phi)
					if !ok {
						break
					}
					if !isErrorType(phi.Type()) {
						continue
					}
					if scc == nil {
						scc = sccOf(fn)
						g = FullGraph(fn)
					}
					comp := scc[b]
					if len(comp) < 2 {
						continue
					}
					inLoop := map[*ssa.BasicBlock]bool{}
					for _, x := range comp {
						inLoop[x] = true
					}
					// loop-carried: some incoming edge comes from inside the loop, and the value reaches a return
					carried := false
					for i := range phi.Edges {
						if inLoop[b.Preds[i]] {
							carried = true
						}
					}
					if !carried || !reachesReturn(phi) {
						continue
					}
					bad := ""
					for i, e := range phi.Edges {
						p := b.Preds[i]
						if !inLoop[p] || e == ssa.Value(phi) {
							continue
						}
						if inner, isPhi := e.(*ssa.Phi); isPhi {
							// a merge inside the loop: judge its own incoming values
							for k, e2 := range inner.Edges {
								if e2 == ssa.Value(phi) || e2 == ssa.Value(inner) {
									continue
								}
								if g.nilnessAtEnd(e2, inner.Block().Preds[k], inner.Block(), 0) != 2 {
									bad = w.InstrPos(firstInstr(inner.Block().Preds[k]))
								}
							}
							continue
						}
						if g.nilnessAtEnd(e, p, b, 0) != 2 {
							bad = w.InstrPos(firstInstr(p))
						}
					}
					n++
					seen++
					r.Fn(FuncName(fn))
					r.Check(bad == "", rule, fmt.Sprintf("%s/loop-error#%d", FuncName(fn), seen), w.InstrPos(phi), "inside the loop the carried error is only ever replaced by a non-nil error", "the error carried across iterations can be overwritten with a value that may be nil (assignment near "+bad+"): a failure of an earlier iteration is erased by a later one")
				}
			}
		}
	}
	return n
}

func firstInstr(b *ssa.BasicBlock) ssa.Instruction {
	for _, in := range b.Instrs {
		if in.Pos().IsValid() {
			return in
		}
	}
	return b.Instrs[0]
}

// reachesReturn: the value (through further phis and nil-preserving wrappers) is an operand of a return.
func reachesReturn(v ssa.Value) bool {
	seen := map[ssa.Value]bool{}
	var walk func(x ssa.Value, d int) bool
	walk = func(x ssa.Value, d int) bool {
		if seen[x] || d > 6 || x.Referrers() == nil {
			return false
		}
		seen[x] = true
		for _, rf := range *x.Referrers() {
			switch y := rf.(type) {
			case *ssa.Return:
				return true
			case *ssa.Phi:
				if walk(y, d+1) {
					return true
				}
			case *ssa.Call:
				if inner, ok := nilPreservingArg(y); ok && inner == x && walk(y, d+1) {
					return true
				}
			case *ssa.Store:
				if al, ok := y.Addr.(*ssa.Alloc); ok && isResultSlot(al) {
					return true
				}
			}
		}
		return false
	}
	return walk(v, 0)
}
