package main

// errcollect.go — collected errors are not dropped (shared by C03 and C12).

import (
	"fmt"
	"go/types"

	"golang.org/x/tools/go/ssa"
)

func isErrSlice(t types.Type) bool {
	sl, ok := t.Underlying().(*types.Slice)
	return ok && isErrorType(sl.Elem())
}

// errCollect: in every function of the given packages, a list of errors that was filled (by append) or
// received from a call is either handed on (returned, passed to a call) on the way to a success return,
// or the success return is reached only over an edge on which the list is known to be empty.
func errCollect(w *World, r *Report, rule string, pkgs []string, only func(fn *ssa.Function) bool) int {
	n := 0
	for _, rel := range pkgs {
		for _, fn := range w.FuncsIn(rel) {
			if only != nil && !only(fn) {
				continue
			}
			res := fn.Signature.Results()
			hasErr := false
			for i := 0; i < res.Len(); i++ {
				if isErrorType(res.At(i).Type()) {
					hasErr = true
				}
			}
			if !hasErr {
				continue
			}
			// definitions: append(…, err) results and []error call results
			var defs []ssa.Value
			for _, b := range fn.Blocks {
				for _, in := range b.Instrs {
					switch x := in.(type) {
					case *ssa.Call:
						if bi, ok := x.Call.Value.(*ssa.Builtin); ok && bi.Name() == "append" && isErrSlice(x.Type()) {
							defs = append(defs, x)
							continue
						}
						if isErrSlice(x.Type()) {
							defs = append(defs, x)
						}
					case *ssa.Extract:
						if isErrSlice(x.Type()) {
							if _, isCall := x.Tuple.(*ssa.Call); isCall {
								defs = append(defs, x)
							}
						}
					}
				}
			}
			if len(defs) == 0 {
				continue
			}
			g := FullGraph(fn)
			rets := g.classifyReturns()
			seenKey := map[string]int{}
			for _, d := range defs {
				// forward aliases: phis and appends that extend it
				al := map[ssa.Value]bool{d: true}
				work := []ssa.Value{d}
				returned := false
				for len(work) > 0 {
					v := work[len(work)-1]
					work = work[:len(work)-1]
					if v.Referrers() == nil {
						continue
					}
					for _, rf := range *v.Referrers() {
						switch x := rf.(type) {
						case *ssa.Phi:
							if !al[x] {
								al[x] = true
								work = append(work, x)
							}
						case *ssa.Call:
							if bi, ok := x.Call.Value.(*ssa.Builtin); ok && bi.Name() == "append" && len(x.Call.Args) > 0 && x.Call.Args[0] == v {
								if !al[x] {
									al[x] = true
									work = append(work, x)
								}
							}
						case *ssa.Return:
							returned = true
						case *ssa.Store:
							returned = true // kept in a variable or field that outlives this path: not followed
						}
					}
				}
				if returned {
					continue
				}
				empty, _ := emptyEdges(fn, func(v ssa.Value) bool { return al[v] })
				di, ok := d.(ssa.Instruction)
				if !ok {
					continue
				}
				bad := ""
				for _, rp := range rets {
					if rp.Class != RetSuccess {
						continue
					}
					if ex, _ := g.PathExists(posOf(di), retPos(rp), Avoid{}.withEdges(empty...)); ex {
						bad = w.InstrPos(rp.Ret)
					}
				}
				key := fmt.Sprintf("%s/%s", FuncName(fn), describeDef(d))
				seenKey[key]++
				if seenKey[key] > 1 {
					key = fmt.Sprintf("%s#%d", key, seenKey[key])
				}
				n++
				r.Fn(FuncName(fn))
				r.Check(bad == "", rule, key, w.InstrPos(di), "the collected errors are empty on every path to a success return", "the success return at "+bad+" is reachable although errors were collected here: the failure is dropped")
			}
		}
	}
	return n
}

func describeDef(v ssa.Value) string {
	switch x := v.(type) {
	case *ssa.Call:
		if bi, ok := x.Call.Value.(*ssa.Builtin); ok {
			if len(x.Call.Args) > 1 {
				return bi.Name() + ":" + describeVal(x.Call.Args[1])
			}
			return bi.Name()
		}
		return "result:" + describeCall(x.Common())
	case *ssa.Extract:
		if c, ok := x.Tuple.(*ssa.Call); ok {
			return "result:" + describeCall(c.Common())
		}
	}
	return "list"
}

// describeVal names the origin of an appended error (the call that produced it), for stable keys.
func describeVal(v ssa.Value) string {
	out := "value"
	backSlice(v, func(s ssa.Value) bool {
		if c, ok := s.(*ssa.Call); ok {
			if _, isB := c.Call.Value.(*ssa.Builtin); !isB {
				out = describeCall(c.Common())
				return true
			}
		}
		return false
	})
	return out
}
