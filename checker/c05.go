package main

// C05 — rendering is deterministic and hermetic (structural part).

import (
	"fmt"
	"go/types"
	"sort"
	"strings"

	"golang.org/x/tools/go/ssa"
)

func init() {
	register(&propDef{
		ID: "C05",
		Anchors: []string{"pkg/engine/engine.go", "pkg/engine/funcs.go", "pkg/engine/files.go", "pkg/action/action.go", "pkg/release/util/manifest_sorter.go",
			"pkg/release/util/kind_sorter.go", "pkg/chart/v2/util/jsonschema.go"},
		NotDec:  []string{"byte identity of actual renders", "Go text/template internals and third-party template functions beyond the call boundary", "data races between concurrent renders inside library code"},
		Trusted: []string{"sink table (os/net/exec primitives) in checker/c05.go", "sprig v3 as pinned by go.sum (its source is analysed from the module cache)"},
		Run:     runC05,
	})
}

const sprigPkg = "github.com/Masterminds/sprig/v3"

// entry points of the render path (resolved; missing ones fail the check)
var renderEntries = [][2]string{
	{"pkg/engine", "Engine.Render"},
	{"pkg/action", "Configuration.renderResources"},
	{"pkg/release/util", "SortManifests"},
	{"pkg/chart/v2/util", "ToRenderValuesWithSchemaValidation"},
	{"pkg/chart/v2/util", "ProcessDependencies"},
	{"pkg/chart/v2/loader", "LoadFiles"},
	{"pkg/chart/v2/loader", "LoadDir"},
	{"pkg/chart/v2/loader", "LoadArchive"},
	{"pkg/chart/v2", "Chart.CRDObjects"},
	{"pkg/engine", "files.Glob"},
	{"pkg/engine", "files.AsConfig"},
	{"pkg/engine", "files.AsSecrets"},
	{"pkg/engine", "files.Lines"},
	{"pkg/engine", "files.Get"},
	{"pkg/engine", "funcMap"},
}

// order-dependent loops that are deliberate: function|ranged type → reason
var orderExceptions = map[string]string{}

func runC05(w *World, r *Report) {
	r.Rule("C05/ORDER", "no map range on the render path (functions statically reachable from the render entry points) has an order-dependent body: writes keyed by the range key, collect-then-total-sort, key-equality lookups and commutative accumulation are the only forms; map iterators (maps.Keys/Values/All) are sorted before use", 8)
	r.Rule("C05/STABLE-SORT", "sorts that carry an ordering guarantee on the render path use stable variants (kind sort of manifests and hooks), and the template order comparator is total", 3)
	r.Rule("C05/FUNCMAP", "no template function reaches environment, file-system, network or process primitives: sprig entries that do are deleted on every path of funcMap(), getHostByName is stubbed unless EnableDNS, helm's own functions and Files methods reach none; time/randomness functions are a frozen named list", 12)
	r.Rule("C05/SCHEMA-LOADER", "every jsonschema Compile is preceded by UseLoader with a loader type declared in helm whose Load reaches no file-system or network primitive", 1)
	r.Rule("C05/ENGINE-STATE", "no package-level variable of the helm module is written on the render path (concurrent renders share nothing mutable of helm's)", 1)

	scope := c05Scope(w, r)
	c05Order(w, r, scope)
	c05StableSort(w, r)
	c05FuncMap(w, r)
	c05SchemaLoader(w, r)
	c05EngineState(w, r, scope)
	c05NoEnv(w, r, scope)
	r.Rule("C05/WIRING", "EnableDNS is fed only from the option of the same name, carried into the install started by upgrade --install, and bound to its own command-line flag", 3)
	checkWiring(w, r, "C05/WIRING", map[string]bool{"EnableDNS": true})
	checkCarried(w, r, "C05/WIRING", []string{"EnableDNS"})
	checkFlagBinding(w, r, "C05/WIRING", map[string]bool{"EnableDNS": true})
}

func c05Scope(w *World, r *Report) map[*ssa.Function]bool {
	scope := map[*ssa.Function]bool{}
	var walk func(f *ssa.Function)
	walk = func(f *ssa.Function) {
		f = origin(f)
		if f == nil || scope[f] || !inHelm(f) || len(f.Blocks) == 0 {
			return
		}
		scope[f] = true
		for _, b := range f.Blocks {
			for _, in := range b.Instrs {
				switch x := in.(type) {
				case ssa.CallInstruction:
					if g, _ := calleeOf(x.Common()); g != nil {
						walk(g)
					}
					for _, a := range x.Common().Args {
						if mc, ok := a.(*ssa.MakeClosure); ok {
							if g, ok := mc.Fn.(*ssa.Function); ok {
								walk(g)
							}
						}
						if g, ok := a.(*ssa.Function); ok {
							walk(g)
						}
					}
				case *ssa.MakeClosure:
					if g, ok := x.Fn.(*ssa.Function); ok {
						walk(g)
					}
				case *ssa.MakeInterface:
					// methods of values converted to interfaces (sort.Interface implementations)
					ms := w.Prog.MethodSets.MethodSet(x.X.Type())
					for i := 0; i < ms.Len(); i++ {
						if m := w.Prog.MethodValue(ms.At(i)); m != nil && inHelm(m) {
							walk(m)
						}
					}
				}
			}
		}
	}
	for _, e := range renderEntries {
		f := w.Fn(e[0], e[1])
		if f == nil {
			r.Unk("C05/ORDER", "entry/"+e[0]+"."+e[1], "-", "render entry point not found")
			continue
		}
		walk(f)
	}
	// all methods of engine.files are callable from templates
	for _, fn := range w.FuncsIn("pkg/engine") {
		if fn.Signature.Recv() != nil && strings.HasSuffix(fn.Signature.Recv().Type().String(), "engine.files") {
			walk(fn)
		}
	}
	for f := range scope {
		r.Fn(FuncName(f))
	}
	return scope
}

func c05Order(w *World, r *Report, scope map[*ssa.Function]bool) {
	var fns []*ssa.Function
	for f := range scope {
		fns = append(fns, f)
	}
	sort.Slice(fns, func(i, j int) bool { return fns[i].Pos() < fns[j].Pos() })
	seenKey := map[string]int{}
	for _, fn := range fns {
		for _, l := range mapLoops(fn) {
			key := loopKey(l)
			seenKey[key]++
			if seenKey[key] > 1 {
				key = fmt.Sprintf("%s#%d", key, seenKey[key])
			}
			findings, class := classifyLoop(w, l)
			if len(findings) == 0 {
				r.OK("C05/ORDER", key, w.InstrPos(l.Range), "order-independent body ("+class+")")
				continue
			}
			if why, ok := orderExceptions[loopKey(l)]; ok {
				r.OKTrivial("C05/ORDER", key, w.InstrPos(l.Range), "named exception: "+why)
				continue
			}
			f := findings[0]
			r.Bad("C05/ORDER", key, w.InstrPos(f.At), "map iteration order reaches the result: "+f.What)
		}
		// iterator forms: maps.Keys / maps.Values / maps.All
		for _, c := range callInstrs(fn) {
			f, _ := calleeOf(c.Common())
			if f == nil || fnPkgPath(f) != "maps" {
				continue
			}
			gn := genericName(f)
			if gn != "Keys" && gn != "Values" && gn != "All" {
				continue
			}
			key := FuncName(fn) + "/iter:maps." + gn
			seenKey[key]++
			if seenKey[key] > 1 {
				key = fmt.Sprintf("%s#%d", key, seenKey[key])
			}
			ok, why := iterOrderIndependent(w, fn, c)
			r.Check(ok, "C05/ORDER", key, w.InstrPos(c), "map iterator consumed order-independently ("+why+")", "map iteration order reaches the result: "+why)
		}
	}
}

// iterOrderIndependent: the sequence produced by maps.Keys/Values/All is sorted before anything can
// observe its order (slices.Sorted*, or slices.Collect followed by a sort that dominates every other
// use), or it is ranged over with a body that only writes entries keyed by the element.
func iterOrderIndependent(w *World, fn *ssa.Function, c ssa.CallInstruction) (bool, string) {
	v := c.Value()
	if v == nil || v.Referrers() == nil {
		return true, "unused"
	}
	g := FullGraph(fn)
	for _, rf := range *v.Referrers() {
		call, ok := rf.(ssa.CallInstruction)
		if !ok {
			if _, isDbg := rf.(*ssa.DebugRef); isDbg {
				continue
			}
			return false, "the iterator escapes"
		}
		if call.Common().Value == v {
			// for … := range seq { body }: the body is the yield closure
			if len(call.Common().Args) == 1 {
				if mc, ok := call.Common().Args[0].(*ssa.MakeClosure); ok {
					if yf, ok := mc.Fn.(*ssa.Function); ok {
						for _, yc := range callInstrs(yf) {
							if bi, ok := yc.Common().Value.(*ssa.Builtin); ok && bi.Name() == "append" {
								return false, "elements are appended in iteration order"
							}
							if s := isOrderSink(yc.Common()); s != "" {
								return false, "the loop body writes to " + s + " in iteration order"
							}
						}
						continue
					}
				}
			}
			return false, "the iterator is driven by hand"
		}
		cf, _ := calleeOf(call.Common())
		if cf == nil || fnPkgPath(cf) != "slices" {
			return false, "the iterator is handed to " + describeCall(call.Common())
		}
		switch genericName(cf) {
		case "Sorted", "SortedFunc", "SortedStableFunc":
			continue
		case "Collect", "AppendSeq":
			cv := call.Value()
			if cv == nil || cv.Referrers() == nil {
				continue
			}
			// a sort of the collected slice must dominate every other use (the slice may be converted to
			// a sort.Interface type first)
			aliases := map[ssa.Value]bool{cv: true}
			work := []ssa.Value{cv}
			var uses []ssa.Instruction
			for len(work) > 0 {
				x := work[len(work)-1]
				work = work[:len(work)-1]
				if x.Referrers() == nil {
					continue
				}
				for _, u := range *x.Referrers() {
					switch y := u.(type) {
					case *ssa.ChangeType:
						if !aliases[y] {
							aliases[y] = true
							work = append(work, y)
						}
					case *ssa.Convert:
						if !aliases[y] {
							aliases[y] = true
							work = append(work, y)
						}
					case *ssa.MakeInterface:
						if !aliases[y] {
							aliases[y] = true
							work = append(work, y)
						}
					case *ssa.DebugRef:
					default:
						// sort.Reverse(x) wraps the same slice
						if rc, ok := u.(*ssa.Call); ok {
							if rf, _ := calleeOf(rc.Common()); rf != nil && fnPkgPath(rf) == "sort" && rf.Name() == "Reverse" {
								if !aliases[rc] {
									aliases[rc] = true
									work = append(work, rc)
								}
								continue
							}
						}
						uses = append(uses, u)
					}
				}
			}
			var sorts []ssa.Instruction
			for _, u := range uses {
				if uc, ok := u.(ssa.CallInstruction); ok {
					if sf, _ := calleeOf(uc.Common()); sf != nil && (fnPkgPath(sf) == "sort" || fnPkgPath(sf) == "slices") && strings.HasPrefix(genericName(sf), "S") && !strings.HasPrefix(genericName(sf), "Search") {
						if fnPkgPath(sf) == "sort" && (sf.Name() == "Sort" || sf.Name() == "Stable") {
							if tot, why := lessIsTotal(w, uc.Common().Args[0]); !tot {
								return false, "the collected keys are sorted with a comparator that is not total: " + why
							}
						}
						sorts = append(sorts, uc)
					}
				}
			}
			if len(sorts) == 0 {
				return false, "the collected keys are used unsorted"
			}
			for _, u := range uses {
				isSort := false
				for _, s := range sorts {
					if s == u {
						isSort = true
					}
				}
				if isSort {
					continue
				}
				if ex, _ := g.PathExists(entryPos(fn), posOf(u), avoidInstrs(sorts...)); ex {
					return false, "the collected keys are used before they are sorted"
				}
			}
		default:
			return false, "the iterator is handed to slices." + genericName(cf)
		}
	}
	return true, "sorted before use"
}

func c05StableSort(w *World, r *Report) {
	for _, name := range []string{"sortManifestsByKind", "sortHooksByKind"} {
		fn := w.Fn("pkg/release/util", name)
		if fn == nil {
			r.Unk("C05/STABLE-SORT", name, "-", "function not found")
			continue
		}
		sortName := ""
		var at ssa.Instruction
		for _, c := range callInstrs(fn) {
			if f, _ := calleeOf(c.Common()); f != nil && (fnPkgPath(f) == "sort" || fnPkgPath(f) == "slices") {
				sortName, at = fnPkgPath(f)+"."+origin(f).Name(), c
			}
		}
		stable := sortName == "sort.SliceStable" || sortName == "sort.Stable" || sortName == "slices.SortStableFunc"
		pos := w.Pos(fn.Pos())
		if at != nil {
			pos = w.InstrPos(at)
		}
		r.Check(stable, "C05/STABLE-SORT", name, pos, "kind sort uses "+sortName+": documents of one kind keep their order", "kind sort uses "+sortName+" (unstable or missing): documents of one kind may be reordered from run to run")
	}
	// template order
	st := w.Fn("pkg/engine", "sortTemplates")
	if st == nil {
		r.Unk("C05/STABLE-SORT", "sortTemplates", "-", "function not found")
		return
	}
	ok := false
	why := "no sort call"
	for _, c := range callInstrs(st) {
		if f, _ := calleeOf(c.Common()); f != nil && fnPkgPath(f) == "sort" && (f.Name() == "Sort" || f.Name() == "Stable") {
			ok, why = lessIsTotal(w, c.Common().Args[0])
		}
		if f, _ := calleeOf(c.Common()); f != nil && fnPkgPath(f) == "sort" && f.Name() == "Strings" {
			ok, why = true, "sort.Strings"
		}
		if f, _ := calleeOf(c.Common()); f != nil && fnPkgPath(f) == "slices" && len(c.Common().Args) >= 1 {
			switch genericName(f) {
			case "Sort":
				ok, why = true, "slices.Sort"
			case "SortFunc", "SortStableFunc":
				if len(c.Common().Args) == 2 {
					ok, why = funcComparesElements(c.Common().Args[1])
				}
			}
		}
	}
	r.Check(ok, "C05/STABLE-SORT", "sortTemplates", w.Pos(st.Pos()), "template parse/execute order: "+why, "template order comparator is not total: "+why)
}

// ---- FUNCMAP -------------------------------------------------------------------------------------

type sinkKind string

const (
	sinkEnv  sinkKind = "environment"
	sinkFS   sinkKind = "file system"
	sinkNet  sinkKind = "network/DNS"
	sinkProc sinkKind = "process"
	sinkTime sinkKind = "clock"
	sinkRand sinkKind = "randomness"
)

func classifySink(f *ssa.Function) sinkKind {
	if f == nil {
		return ""
	}
	p := fnPkgPath(f)
	n := f.Name()
	switch p {
	case "os":
		switch n {
		case "Getenv", "LookupEnv", "Environ", "ExpandEnv", "Setenv", "Unsetenv", "Clearenv":
			return sinkEnv
		case "ReadFile", "Open", "OpenFile", "ReadDir", "Stat", "Lstat", "Create", "WriteFile", "Mkdir", "MkdirAll", "Remove", "RemoveAll", "Rename", "Getwd", "Chdir", "Readlink", "Symlink", "CreateTemp", "MkdirTemp", "UserHomeDir", "UserCacheDir", "UserConfigDir", "Hostname", "Executable", "TempDir":
			return sinkFS
		case "StartProcess", "Exit":
			return sinkProc
		}
	case "io/ioutil":
		return sinkFS
	case "path/filepath":
		switch n {
		case "Glob", "Walk", "WalkDir", "Abs", "EvalSymlinks":
			return sinkFS
		}
	case "os/exec":
		return sinkProc
	case "os/user":
		return sinkEnv
	case "net":
		if strings.HasPrefix(n, "Lookup") || strings.HasPrefix(n, "Dial") || strings.HasPrefix(n, "Listen") || n == "ResolveIPAddr" || n == "ResolveTCPAddr" || n == "Interfaces" || n == "InterfaceAddrs" {
			return sinkNet
		}
	case "net/http":
		switch n {
		case "Get", "Post", "Head", "PostForm", "Do", "RoundTrip":
			return sinkNet
		}
	case "time":
		if n == "Now" || n == "Since" || n == "Until" {
			return sinkTime
		}
	case "crypto/rand", "math/rand", "math/rand/v2":
		return sinkRand
	}
	return ""
}

// reachSinks: sink kinds reachable from f through static callees inside followPkgs (other packages'
// functions are matched as leaves only).
func reachSinks(f *ssa.Function, follow func(pkg string) bool) map[sinkKind]string {
	out := map[sinkKind]string{}
	seen := map[*ssa.Function]bool{}
	var walk func(g *ssa.Function, depth int, chain string)
	walk = func(g *ssa.Function, depth int, chain string) {
		g = origin(g)
		if g == nil || seen[g] || depth > 8 {
			return
		}
		seen[g] = true
		if k := classifySink(g); k != "" {
			if _, ok := out[k]; !ok {
				out[k] = chain + " → " + fnPkgPath(g) + "." + g.Name()
			}
			return
		}
		if !follow(fnPkgPath(g)) || len(g.Blocks) == 0 {
			return
		}
		for _, b := range g.Blocks {
			for _, in := range b.Instrs {
				switch x := in.(type) {
				case ssa.CallInstruction:
					if h, _ := calleeOf(x.Common()); h != nil {
						walk(h, depth+1, chain+" → "+g.Name())
					}
					for _, a := range x.Common().Args {
						if h, ok := a.(*ssa.Function); ok {
							walk(h, depth+1, chain+" → "+g.Name())
						}
						if mc, ok := a.(*ssa.MakeClosure); ok {
							if h, ok := mc.Fn.(*ssa.Function); ok {
								walk(h, depth+1, chain+" → "+g.Name())
							}
						}
					}
				case *ssa.MakeClosure:
					if h, ok := x.Fn.(*ssa.Function); ok {
						walk(h, depth+1, chain+" → "+g.Name())
					}
				}
			}
		}
	}
	walk(f, 0, "")
	return out
}

func followTemplateFuncs(pkg string) bool {
	return pkg == sprigPkg || pkg == helmMod || strings.HasPrefix(pkg, helmMod+"/") || strings.HasPrefix(pkg, "github.com/Masterminds/goutils") ||
		strings.HasPrefix(pkg, "github.com/huandu/xstrings") || strings.HasPrefix(pkg, "github.com/google/uuid") || strings.HasPrefix(pkg, "github.com/Masterminds/semver") ||
		strings.HasPrefix(pkg, "github.com/spf13/cast") || strings.HasPrefix(pkg, "github.com/mitchellh/") || strings.HasPrefix(pkg, "github.com/shopspring/decimal") ||
		strings.HasPrefix(pkg, "dario.cat/mergo") || strings.HasPrefix(pkg, "golang.org/x/crypto/bcrypt") || strings.HasPrefix(pkg, "golang.org/x/crypto/scrypt")
}

// funcOf: the function stored as a map value (possibly wrapped in an interface).
func funcOf(v ssa.Value) *ssa.Function {
	v = unwrapIface(v)
	switch x := v.(type) {
	case *ssa.Function:
		return x
	case *ssa.MakeClosure:
		f, _ := x.Fn.(*ssa.Function)
		return f
	}
	return nil
}

// frozen list of sprig functions that are documented to be nondeterministic (clock / randomness).
var nondeterministicSprig = map[string]bool{
	"now": true, "ago": true, "date": true, "dateInZone": true, "date_in_zone": true, "dateModify": true, "date_modify": true, "mustDateModify": true, "must_date_modify": true,
	"htmlDate": true, "htmlDateInZone": true, "duration": true, "durationRound": true, "unixEpoch": true, "toDate": true, "mustToDate": true,
	"randAlphaNum": true, "randAlpha": true, "randAscii": true, "randNumeric": true, "randBytes": true, "randInt": true, "uuidv4": true, "shuffle": true,
	"genPrivateKey": true, "derivePassword": true, "buildCustomCert": true, "genCA": true, "genCAWithKey": true, "genSelfSignedCert": true, "genSelfSignedCertWithKey": true,
	"genSignedCert": true, "genSignedCertWithKey": true, "getHostByName": true, "encryptAES": true, "decryptAES": true, "htpasswd": true, "bcrypt": true, "semver": false,
}

func c05FuncMap(w *World, r *Report) {
	sp := w.Prog.ImportedPackage(sprigPkg)
	if sp == nil {
		r.Unk("C05/FUNCMAP", "sprig", "-", "sprig package not loaded")
		return
	}
	initFn := sp.Func("init")
	gm, _ := sp.Members["genericMap"].(*ssa.Global)
	if initFn == nil || gm == nil {
		r.Unk("C05/FUNCMAP", "sprig/genericMap", "-", "sprig's genericMap table not found")
		return
	}
	// entries of genericMap
	entries := map[string]*ssa.Function{}
	for _, b := range initFn.Blocks {
		for _, in := range b.Instrs {
			mu, ok := in.(*ssa.MapUpdate)
			if !ok {
				continue
			}
			isGM := false
			backSlice(mu.Map, func(v ssa.Value) bool {
				if v == gm {
					isGM = true
				}
				return false
			})
			// the literal is built in a temporary and stored to the global afterwards
			if !isGM {
				if refs := mu.Map.Referrers(); refs != nil {
					for _, rf := range *refs {
						if st, ok := rf.(*ssa.Store); ok && st.Addr == gm {
							isGM = true
						}
					}
				}
			}
			if !isGM {
				continue
			}
			if k, ok := constString(unwrapIface(mu.Key)); ok {
				entries[k] = funcOf(mu.Value)
			}
		}
	}
	if len(entries) < 150 {
		r.Unk("C05/FUNCMAP", "sprig/entries", "-", fmt.Sprintf("only %d sprig entries recovered from the table (expected ~200)", len(entries)))
		return
	}
	hostile := map[string]string{} // key → sink description (env/fs/net/proc)
	var names []string
	for k := range entries {
		names = append(names, k)
	}
	sort.Strings(names)
	nUnknown := 0
	for _, k := range names {
		f := entries[k]
		if f == nil {
			nUnknown++
			continue
		}
		sinks := reachSinks(f, followTemplateFuncs)
		for kind, chain := range sinks {
			switch kind {
			case sinkEnv, sinkFS, sinkNet, sinkProc:
				hostile[k] = string(kind) + " via" + chain
			case sinkTime, sinkRand:
				if !nondeterministicSprig[k] {
					r.Bad("C05/FUNCMAP", "sprig/nondeterministic:"+k, w.Pos(f.Pos()), "sprig function "+k+" reaches "+string(kind)+" ("+chain+") and is not in the frozen list of documented nondeterministic helpers")
				}
			}
		}
	}
	if nUnknown > 5 {
		r.Unk("C05/FUNCMAP", "sprig/unresolved", "-", fmt.Sprintf("%d sprig entries are not resolvable function values", nUnknown))
	}
	// (ii) funcMap deletes every env/fs/proc entry on all paths; net entries are handled in initFunMap
	fm := w.Fn("pkg/engine", "funcMap")
	ifm := w.Fn("pkg/engine", "Engine.initFunMap")
	if fm == nil || ifm == nil {
		r.Unk("C05/FUNCMAP", "anchor", "-", "engine.funcMap / Engine.initFunMap not found")
		return
	}
	g := FullGraph(fm)
	deleted := map[string][]ssa.Instruction{}
	var loopSkips []Edge // zero-iteration exits of loops over constant tables
	var txt ssa.Instruction
	for _, c := range callInstrs(fm) {
		if bi, ok := c.Common().Value.(*ssa.Builtin); ok && bi.Name() == "delete" {
			if k, ok := constString(unwrapIface(c.Common().Args[1])); ok {
				deleted[k] = append(deleted[k], c)
			} else if cr, ok := constRangeOf(w, unwrapIface(c.Common().Args[1])); ok {
				// table-driven: for _, name := range []string{…} { delete(f, name) }
				if ex, _ := g.PathExists(IPos{cr.Header.Succs[0], -1}, IPos{cr.Header, 0}, avoidInstrs(c)); !ex {
					for _, k := range cr.Elems {
						deleted[k] = append(deleted[k], c)
					}
					loopSkips = append(loopSkips, cr.Skip)
				}
			}
		}
		if f, _ := calleeOf(c.Common()); f != nil && fnPkgPath(f) == sprigPkg {
			txt = c
			if f.Name() != "TxtFuncMap" && f.Name() != "GenericFuncMap" && f.Name() != "FuncMap" && f.Name() != "HermeticTxtFuncMap" {
				r.Unk("C05/FUNCMAP", "funcMap/source", w.InstrPos(c), "unexpected sprig constructor "+f.Name())
			}
		}
	}
	if txt == nil {
		r.Unk("C05/FUNCMAP", "funcMap/source", w.Pos(fm.Pos()), "funcMap() does not start from a sprig function map")
		return
	}
	hostileKeys := []string{}
	for k := range hostile {
		hostileKeys = append(hostileKeys, k)
	}
	sort.Strings(hostileKeys)
	nNet := 0
	for _, k := range hostileKeys {
		if strings.HasPrefix(hostile[k], string(sinkNet)) {
			nNet++
			// must be overwritten in initFunMap unless EnableDNS
			c05DNSStub(w, r, ifm, k, hostile[k])
			continue
		}
		ok := len(deleted[k]) > 0
		if ok {
			for _, rp := range g.classifyReturns() {
				if ex, _ := g.PathExists(posOf(txt), retPos(rp), avoidInstrs(deleted[k]...).withEdges(loopSkips...)); ex {
					ok = false
				}
			}
		}
		r.Check(ok, "C05/FUNCMAP", "deleted:"+k, w.Pos(fm.Pos()), "sprig "+k+" ("+hostile[k]+") is deleted on every path of funcMap()", "sprig "+k+" reaches "+hostile[k]+" and is not removed from the template function map")
	}
	if len(hostileKeys)-nNet < 2 {
		r.Unk("C05/FUNCMAP", "sprig/hostile-count", "-", fmt.Sprintf("sink search found only %d env/fs entries in sprig (expected env, expandenv at least): the sink table lost its subjects", len(hostileKeys)-nNet))
	}
	if nNet == 0 {
		r.Unk("C05/FUNCMAP", "sprig/dns-count", "-", "sink search found no DNS-reaching sprig entry (expected getHostByName)")
	}
	// (iv) helm's own entries: every function value stored into a FuncMap in pkg/engine reaches no env/fs/net/proc sink
	for _, fn := range w.FuncsIn("pkg/engine") {
		for _, b := range fn.Blocks {
			for _, in := range b.Instrs {
				mu, ok := in.(*ssa.MapUpdate)
				if !ok {
					continue
				}
				mt := strings.ReplaceAll(mu.Map.Type().String(), helmMod+"/", "")
				if !strings.Contains(mt, "template.FuncMap") && !strings.Contains(mt, "map[string]interface{}") && !strings.Contains(mt, "map[string]any") {
					continue
				}
				k, isC := constString(unwrapIface(mu.Key))
				f := funcOf(mu.Value)
				if !isC || f == nil {
					continue
				}
				sinks := reachSinks(f, func(p string) bool { return p == helmMod || strings.HasPrefix(p, helmMod+"/") })
				bad := ""
				for kind, chain := range sinks {
					if kind == sinkEnv || kind == sinkFS || kind == sinkNet || kind == sinkProc {
						bad = string(kind) + " via" + chain
					}
				}
				key := "helm-func:" + k + "@" + FuncName(fn)
				if k == "lookup" && strings.Contains(FuncName(f), "newLookupFunction") || (k == "lookup" && fn == ifm && f.Name() != "funcMap$4") {
					// cluster-backed lookup: only installed when a client provider is present and not linting
					spec := NewSpec(w, w.Named(enginePkg, "Engine"), "LintMode", map[string]aval{"LintMode": boolV(true)})
					reach := spec.Graph(ifm).Reachable()[mu.Block()]
					r.Check(!reach, "C05/FUNCMAP", key, w.InstrPos(mu), "the cluster-backed lookup is not installed in lint mode (and only with an explicit client provider)", "the cluster-backed lookup is installed even in lint mode")
					continue
				}
				r.Check(bad == "", "C05/FUNCMAP", key, w.InstrPos(mu), "helm template function "+k+" reaches no environment/file/network/process primitive", "helm template function "+k+" reaches "+bad)
			}
		}
	}
	// Files methods
	for _, fn := range w.FuncsIn("pkg/engine") {
		if fn.Signature.Recv() == nil || !strings.HasSuffix(fn.Signature.Recv().Type().String(), "engine.files") {
			continue
		}
		sinks := reachSinks(fn, func(p string) bool { return p == helmMod || strings.HasPrefix(p, helmMod+"/") })
		bad := ""
		for kind, chain := range sinks {
			if kind == sinkEnv || kind == sinkFS || kind == sinkNet || kind == sinkProc {
				bad = string(kind) + " via" + chain
			}
		}
		r.Check(bad == "", "C05/FUNCMAP", "files-method:"+fn.Name(), w.Pos(fn.Pos()), ".Files."+fn.Name()+" works on the in-memory chart files only", ".Files."+fn.Name()+" reaches "+bad)
	}
}

// c05DNSStub: with EnableDNS=false every path of initFunMap to t.Funcs passes an overwrite of key k by a sink-free function.
func c05DNSStub(w *World, r *Report, ifm *ssa.Function, k, why string) {
	spec := NewSpec(w, w.Named(enginePkg, "Engine"), "EnableDNS=false", map[string]aval{"EnableDNS": boolV(false)})
	g := spec.Graph(ifm)
	var stubs []ssa.Instruction
	for _, b := range ifm.Blocks {
		if !g.Reachable()[b] {
			continue
		}
		for _, in := range b.Instrs {
			mu, ok := in.(*ssa.MapUpdate)
			if !ok {
				continue
			}
			if kk, ok := constString(unwrapIface(mu.Key)); ok && kk == k {
				f := funcOf(mu.Value)
				if f != nil && len(reachSinks(f, followTemplateFuncs)) == 0 {
					stubs = append(stubs, mu)
				}
			}
		}
	}
	ok := len(stubs) > 0
	n := 0
	for _, c := range callInstrs(ifm) {
		if f, _ := calleeOf(c.Common()); f != nil && fnPkgPath(f) == "text/template" && f.Name() == "Funcs" && g.Reachable()[c.Block()] {
			n++
			if ex, _ := g.PathExists(entryPos(ifm), posOf(c), avoidInstrs(stubs...)); ex {
				ok = false
			}
		}
	}
	r.Check(ok && n > 0, "C05/FUNCMAP", "dns-stub:"+k, w.Pos(ifm.Pos()), "with EnableDNS off, "+k+" ("+why+") is replaced by a stub before the functions are installed", "with EnableDNS off, "+k+" still reaches "+why)
}

// ---- SCHEMA-LOADER ----------------------------------------------------------------------------

func c05SchemaLoader(w *World, r *Report) {
	n := 0
	for _, fn := range w.HelmFuncs() {
		for _, c := range callInstrs(fn) {
			f, _ := calleeOf(c.Common())
			if f == nil || !strings.HasSuffix(FuncName(f), "jsonschema/v6.Compiler).Compile") && !strings.HasSuffix(FuncName(f), "jsonschema/v6.Compiler).MustCompile") {
				continue
			}
			n++
			g := FullGraph(fn)
			comp := c.Common().Args[0]
			var use ssa.CallInstruction
			for _, cc := range callInstrs(fn) {
				if ff, _ := calleeOf(cc.Common()); ff != nil && strings.HasSuffix(FuncName(ff), "jsonschema/v6.Compiler).UseLoader") && cc.Common().Args[0] == comp {
					use = cc
				}
			}
			key := FuncName(fn)
			r.Fn(FuncName(fn))
			if use == nil || !g.DominatesInstr(use, posOf(c)) {
				r.Bad("C05/SCHEMA-LOADER", key, w.InstrPos(c), "a schema is compiled with the library's default loader (reads file:// references from the host)")
				continue
			}
			lt := unwrapIface(use.Common().Args[1]).Type()
			named, _ := lt.(*types.Named)
			if p, ok := lt.(*types.Pointer); ok {
				named, _ = p.Elem().(*types.Named)
			}
			if named == nil || named.Obj().Pkg() == nil || !strings.HasPrefix(named.Obj().Pkg().Path(), helmMod) {
				r.Bad("C05/SCHEMA-LOADER", key, w.InstrPos(use), "the schema loader is a library type ("+lt.String()+") that may read files or the network for $ref")
				continue
			}
			ms := w.Prog.MethodSets.MethodSet(lt)
			bad := ""
			found := false
			for i := 0; i < ms.Len(); i++ {
				if ms.At(i).Obj().Name() == "Load" {
					found = true
					m := w.Prog.MethodValue(ms.At(i))
					sinks := reachSinks(m, func(p string) bool { return true })
					for kind, chain := range sinks {
						if kind == sinkFS || kind == sinkNet || kind == sinkEnv || kind == sinkProc {
							bad = string(kind) + " via" + chain
						}
					}
					// dynamic calls inside Load (delegation to other loaders) are not followable: reject
					for _, cc := range callInstrs(m) {
						if cc.Common().IsInvoke() && cc.Common().Method.Name() == "Load" {
							bad = "delegates to another loader dynamically"
						}
					}
				}
			}
			r.Check(found && bad == "", "C05/SCHEMA-LOADER", key, w.InstrPos(use), "schemas are compiled with "+named.Obj().Name()+", whose Load reaches no file/network primitive", "the schema loader "+named.Obj().Name()+" reaches "+bad)
		}
	}
	if n == 0 {
		r.Unk("C05/SCHEMA-LOADER", "no-compile", "-", "no jsonschema Compile call found")
	}
}

func c05EngineState(w *World, r *Report, scope map[*ssa.Function]bool) {
	// rendering is sequential: no goroutine is started on the render path (results gathered from
	// goroutines arrive in completion order)
	goAt := ""
	for fn := range scope {
		if !inHelm(fn) {
			continue
		}
		for _, b := range fn.Blocks {
			for _, in := range b.Instrs {
				if _, ok := in.(*ssa.Go); ok {
					goAt = w.InstrPos(in) + " in " + FuncName(fn)
				}
			}
		}
	}
	r.Check(goAt == "", "C05/ENGINE-STATE", "no-goroutines", "-", "no goroutine is started on the render path", "a goroutine is started on the render path ("+goAt+"): what it produces is collected in completion order, which differs from run to run")
	bad := ""
	for fn := range scope {
		if !inHelm(fn) {
			continue
		}
		for _, b := range fn.Blocks {
			for _, in := range b.Instrs {
				if st, ok := in.(*ssa.Store); ok {
					root := st.Addr
					for {
						switch x := root.(type) {
						case *ssa.FieldAddr:
							root = x.X
							continue
						case *ssa.IndexAddr:
							root = x.X
							continue
						}
						break
					}
					if gl, ok := root.(*ssa.Global); ok && gl.Pkg != nil && strings.HasPrefix(gl.Pkg.Pkg.Path(), helmMod) {
						bad = gl.Name() + " in " + FuncName(fn)
					}
				}
				if mu, ok := in.(*ssa.MapUpdate); ok {
					if ld, ok := mu.Map.(*ssa.UnOp); ok {
						if gl, ok := ld.X.(*ssa.Global); ok && gl.Pkg != nil && strings.HasPrefix(gl.Pkg.Pkg.Path(), helmMod) {
							bad = gl.Name() + " in " + FuncName(fn)
						}
					}
				}
			}
		}
	}
	r.Check(bad == "", "C05/ENGINE-STATE", "render-path", "-", fmt.Sprintf("no package-level variable of helm is written in the %d functions of the render path", len(scope)), "package-level state is written during rendering: "+bad)
}

// c05NoEnv: nothing on the render path consults the process environment (a feature gate, a default
// taken from a variable): the rendered output is a function of chart, values and options only.
func c05NoEnv(w *World, r *Report, scope map[*ssa.Function]bool) {
	r.Rule("C05/NO-ENV", "no function statically reachable from the render entry points calls an environment primitive (os.Getenv, os.LookupEnv, os.Environ, os.ExpandEnv, os/user)", 1)
	var fns []*ssa.Function
	for f := range scope {
		fns = append(fns, f)
	}
	sort.Slice(fns, func(i, j int) bool { return fns[i].Pos() < fns[j].Pos() })
	n := 0
	for _, fn := range fns {
		for _, c := range callInstrs(fn) {
			f, _ := calleeOf(c.Common())
			if classifySink(f) != sinkEnv {
				continue
			}
			n++
			r.Bad("C05/NO-ENV", siteKey(Site{fn, c, posOf(c)}), w.InstrPos(c), "the render path reads the process environment through "+fnPkgPath(f)+"."+f.Name()+": the same chart, values and options render differently in another environment")
		}
	}
	if n == 0 {
		r.OK("C05/NO-ENV", "none", "-", fmt.Sprintf("%d functions on the render path, none calls an environment primitive", len(fns)))
	}
}
