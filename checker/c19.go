package main

// C19 — repository credentials are sent only to the repository's own origin (structural part).

import (
	"fmt"
	"go/token"
	"go/types"
	"strings"

	"golang.org/x/tools/go/ssa"
)

func init() {
	register(&propDef{
		ID:      "C19",
		Anchors: []string{"pkg/getter/httpgetter.go", "pkg/getter/getter.go", "pkg/downloader/chart_downloader.go", "pkg/downloader/manager.go", "pkg/action/install.go", "pkg/repo/chartrepo.go"},
		NotDec:  []string{"URL-spelling equivalences (case, default ports, userinfo) beyond exact Scheme/Host equality", "redirect handling inside net/http (trusted to strip credentials across hosts)", "what a capture server would actually receive"},
		Trusted: []string{"net/url.Parse", "net/http redirect policy"},
		Run:     runC19,
	})
}

const getterPkg = helmMod + "/pkg/getter"

func runC19(w *World, r *Report) {
	r.Rule("C19/ONE-SINK", "the module has exactly one place that attaches basic-auth credentials to a request, and none that sets an Authorization header by hand outside the OCI registry client", 1)
	r.Rule("C19/GUARD", "that place is reachable only when pass-credentials is set or when the Scheme and the Host of the URL being fetched equal, by direct comparison of the parsed URLs' own fields, those of the URL the credentials belong to; the fetched URL is the one the request is built for", 2)
	r.Rule("C19/SCOPED-OPTIONS", "every site that adds a repository entry's credentials to getter options also adds that same entry's URL as the credential scope; the owner lookup considers every configured repository", 4)
	r.Rule("C19/SIBLINGS", "every function that resolves a chart through --repo and then downloads it reaches the download only with pass-credentials set, or with scheme and host of repository URL and chart URL both equal, or after replacing the credentials by empty ones", 2)
	c19OneSinkAndGuard(w, r)
	c19Scoped(w, r)
	c19Siblings(w, r)
	c19SetterTotal(w, r)
	c19PerItem(w, r)
	r.Rule("C19/WIRING", "the credential options (Username, Password, PassCredentialsAll, RepoURL) are fed only from the options of the same name and bound to their own command-line flags", 3)
	checkWiring(w, r, "C19/WIRING", map[string]bool{"Username": true, "Password": true, "PassCredentialsAll": true, "RepoURL": true})
	checkFlagBinding(w, r, "C19/WIRING", map[string]bool{"Username": true, "Password": true, "PassCredentialsAll": true, "RepoURL": true})
	c19OptionsKept(w, r)
	c19OriginCompare(w, r)
	c19DownloaderConfig(w, r)
	c19NoOwnerOnly(w, r)
}

func urlFieldLoad(v ssa.Value, field string) (base ssa.Value, ok bool) {
	ld, isLd := v.(*ssa.UnOp)
	if !isLd || ld.Op != token.MUL {
		return nil, false
	}
	fa, isFa := ld.X.(*ssa.FieldAddr)
	if !isFa {
		return nil, false
	}
	if p, t, f := fieldNameOf(fa); p != "net/url" || t != "URL" || f != field {
		return nil, false
	}
	return fa.X, true
}

// originEqEdges: edges on which Scheme (resp. Host) of two parsed URLs are equal, by direct comparison
// of the URL values' own fields. Returns also the two URL values compared.
// sameOriginPredicate: f takes two *url.URL and answers true only where both their Scheme and their
// Host were compared equal (a helper like sameSchemeAndHost(a, b)).
func sameOriginPredicate(f *ssa.Function, depth int) bool {
	if f == nil || depth > 1 || len(f.Blocks) == 0 || len(f.Params) != 2 || f.Signature.Results().Len() != 1 || !isBoolType(f.Signature.Results().At(0).Type()) {
		return false
	}
	g := FullGraph(f)
	for _, field := range []string{"Scheme", "Host"} {
		eq, x, y := originEqEdgesD(f, field, depth+1)
		if x == nil || y == nil || stripConv(x) == stripConv(y) {
			return false
		}
		if _, ok := stripConv(x).(*ssa.Parameter); !ok {
			return false
		}
		if _, ok := stripConv(y).(*ssa.Parameter); !ok {
			return false
		}
		type ans struct {
			v  ssa.Value
			at IPos
		}
		var answers []ans
		var expand func(v ssa.Value, at IPos, d int)
		expand = func(v ssa.Value, at IPos, d int) {
			if phi, ok := v.(*ssa.Phi); ok && d < 4 {
				for i, e := range phi.Edges {
					pb := phi.Block().Preds[i]
					expand(e, IPos{pb, len(pb.Instrs) - 1}, d+1)
				}
				return
			}
			answers = append(answers, ans{v, at})
		}
		for _, b := range f.Blocks {
			if len(b.Instrs) == 0 {
				continue
			}
			if ret, ok := b.Instrs[len(b.Instrs)-1].(*ssa.Return); ok {
				expand(ret.Results[0], posOf(ret), 0)
			}
		}
		for _, a := range answers {
			if cb, isC := constBool(a.v); isC && !cb {
				continue
			}
			// an answer that may be true: either it IS the comparison of this field, or it lies behind its equal-edge
			if bo, ok := a.v.(*ssa.BinOp); ok && bo.Op == token.EQL {
				if _, okx := urlFieldLoad(bo.X, field); okx {
					if _, oky := urlFieldLoad(bo.Y, field); oky {
						continue
					}
				}
			}
			if ex, _ := g.PathExists(entryPos(f), a.at, Avoid{}.withEdges(eq...)); ex {
				return false
			}
		}
	}
	return true
}

func originEqEdges(fn *ssa.Function, field string) (eq []Edge, a, b ssa.Value) {
	return originEqEdgesD(fn, field, 0)
}

func originEqEdgesD(fn *ssa.Function, field string, depth int) (eq []Edge, a, b ssa.Value) {
	for _, blk := range fn.Blocks {
		for _, in := range blk.Instrs {
			if c, isCall := in.(*ssa.Call); isCall && depth == 0 {
				if f, _ := calleeOf(c.Common()); f != nil && inHelm(f) && len(c.Call.Args) == 2 && sameOriginPredicate(origin(f), 0) {
					a, b = c.Call.Args[0], c.Call.Args[1]
					for _, e := range condEdges(c) {
						if e.truth {
							eq = append(eq, e.Edge)
						}
					}
				}
				continue
			}
			bo, ok := in.(*ssa.BinOp)
			if !ok || (bo.Op != token.EQL && bo.Op != token.NEQ) {
				continue
			}
			x, okx := urlFieldLoad(bo.X, field)
			y, oky := urlFieldLoad(bo.Y, field)
			if !okx || !oky || x == y {
				continue
			}
			a, b = x, y
			for _, e := range condEdges(bo) {
				if e.truth == (bo.Op == token.EQL) {
					eq = append(eq, e.Edge)
				}
			}
		}
	}
	return
}

// parsedFrom: u is result 0 of url.Parse(x); returns x.
func parsedFrom(u ssa.Value) ssa.Value {
	if u == nil {
		return nil
	}
	ex, ok := u.(*ssa.Extract)
	if !ok {
		return nil
	}
	c, ok := ex.Tuple.(*ssa.Call)
	if !ok {
		return nil
	}
	if f, _ := calleeOf(c.Common()); f != nil && fnPkgPath(f) == "net/url" && f.Name() == "Parse" {
		return c.Call.Args[0]
	}
	return nil
}

// trueEdgesOfFieldOrParam: edges on which a boolean field named like name (or a bool parameter) is true.
func boolTrueEdges(fn *ssa.Function, nameContains string) []Edge {
	var out []Edge
	for _, blk := range fn.Blocks {
		for _, in := range blk.Instrs {
			ld, ok := in.(*ssa.UnOp)
			if !ok || ld.Op != token.MUL {
				continue
			}
			if _, _, f := fieldNameOf(ld.X); f != "" && strings.Contains(strings.ToLower(f), nameContains) {
				for _, e := range condEdges(ld) {
					if e.truth {
						out = append(out, e.Edge)
					}
				}
			}
		}
	}
	return out
}

func c19OneSinkAndGuard(w *World, r *Report) {
	var sinks []Site
	var manual []Site
	for _, fn := range w.HelmFuncs() {
		if strings.HasPrefix(fnPkgPath(fn), helmMod+"/pkg/registry") || strings.Contains(fnPkgPath(fn), "/repotest") || strings.Contains(fnPkgPath(fn), "internal/test") {
			continue
		}
		for _, c := range callInstrs(fn) {
			f, _ := calleeOf(c.Common())
			if f == nil {
				continue
			}
			name := FuncName(f)
			if name == "(*net/http.Request).SetBasicAuth" {
				sinks = append(sinks, Site{fn, c, posOf(c)})
			}
			if name == "(net/http.Header).Set" || name == "(net/http.Header).Add" {
				if k, ok := constString(c.Common().Args[1]); ok && strings.EqualFold(k, "Authorization") {
					manual = append(manual, Site{fn, c, posOf(c)})
				}
			}
		}
	}
	for _, m := range manual {
		r.Bad("C19/ONE-SINK", "manual-header/"+siteKey(m), w.InstrPos(m.Instr), "an Authorization header is set by hand outside the guarded getter")
	}
	if len(sinks) != 1 {
		pos := "-"
		if len(sinks) > 0 {
			pos = w.InstrPos(sinks[len(sinks)-1].Instr)
		}
		r.Bad("C19/ONE-SINK", "basic-auth-sites", pos, fmt.Sprintf("%d sites attach basic-auth credentials to a request (exactly one guarded site is expected)", len(sinks)))
		if len(sinks) == 0 {
			return
		}
	} else {
		r.OK("C19/ONE-SINK", "basic-auth-sites", w.InstrPos(sinks[0].Instr), "credentials are attached in one place only: "+FuncName(sinks[0].Fn))
	}
	for _, s := range sinks {
		fn := s.Fn
		r.Fn(FuncName(fn))
		g := FullGraph(fn)
		schemeEq, s1, s2 := originEqEdges(fn, "Scheme")
		hostEq, h1, h2 := originEqEdges(fn, "Host")
		pass := boolTrueEdges(fn, "passcredentialsall")
		key := FuncName(fn)
		if len(schemeEq) == 0 || len(hostEq) == 0 {
			r.Bad("C19/GUARD", key+"/comparison", w.InstrPos(s.Instr), "no direct comparison of the parsed URLs' Scheme and Host fields guards the credentials (a helper that rewrites the host before comparing is not accepted)")
			continue
		}
		ex1, _ := g.PathExists(entryPos(fn), s.At, Avoid{}.withEdges(pass...).withEdges(schemeEq...))
		ex2, _ := g.PathExists(entryPos(fn), s.At, Avoid{}.withEdges(pass...).withEdges(hostEq...))
		r.Check(!ex1 && !ex2, "C19/GUARD", key+"/reachability", w.InstrPos(s.Instr), "credentials are attached only with pass-credentials or with scheme and host both equal", "credentials can be attached although scheme or host differ and pass-credentials is off")
		// the same two URLs are compared for scheme and host, one parsed from the request's URL string, the other from the options' url
		same := (s1 == h1 && s2 == h2) || (s1 == h2 && s2 == h1)
		var reqURL ssa.Value
		for _, c := range callInstrs(fn) {
			if f, _ := calleeOf(c.Common()); f != nil && fnPkgPath(f) == "net/http" && (f.Name() == "NewRequest" || f.Name() == "NewRequestWithContext") {
				args := c.Common().Args
				reqURL = args[len(args)-2]
			}
		}
		p1, p2 := parsedFrom(s1), parsedFrom(s2)
		isOptURL := func(v ssa.Value) bool {
			if ld, ok := v.(*ssa.UnOp); ok {
				_, _, f := fieldNameOf(ld.X)
				return f == "url"
			}
			return false
		}
		okProv := same && reqURL != nil && ((p1 == reqURL && isOptURL(p2)) || (p2 == reqURL && isOptURL(p1)))
		r.Check(okProv, "C19/GUARD", key+"/operands", w.InstrPos(s.Instr), "the compared URLs are the request's own URL and the URL the credentials are scoped to", "the origin test does not compare the request's URL with the credentials' URL")
	}
}

func c19Scoped(w *World, r *Report) {
	wba := w.Fn("pkg/getter", "WithBasicAuth")
	wurl := w.Fn("pkg/getter", "WithURL")
	if wba == nil || wurl == nil {
		r.Unk("C19/SCOPED-OPTIONS", "anchor", "-", "getter.WithBasicAuth / WithURL not found")
		return
	}
	n := 0
	for _, fn := range w.HelmFuncs() {
		g := FullGraph(fn)
		for _, c := range callInstrs(fn) {
			f, _ := calleeOf(c.Common())
			if f == nil || origin(f) != wba {
				continue
			}
			// credentials taken from a repository entry (fields Username/Password of repo.Entry)
			entry := entryOfCreds(c.Common().Args[0])
			if entry == nil {
				continue
			}
			n++
			r.Fn(FuncName(fn))
			// a WithURL(entry.URL) call of the same entry on every path to this site or from it … same function, same entry
			ok := false
			for _, cc := range callInstrs(fn) {
				ff, _ := calleeOf(cc.Common())
				if ff == nil || origin(ff) != wurl {
					continue
				}
				if ld, isLd := cc.Common().Args[0].(*ssa.UnOp); isLd {
					if fa, isFa := ld.X.(*ssa.FieldAddr); isFa {
						if _, t, fld := fieldNameOf(fa); t == "Entry" && fld == "URL" && sameEntry(fa.X, entry) {
							if g.DominatesInstr(cc, posOf(c)) {
								ok = true
							}
						}
					}
				}
			}
			// options are applied in order and the last WithURL wins: no WithURL of anything else may be
			// added on a path that also adds these credentials
			other := ""
			for _, cc := range callInstrs(fn) {
				ff, _ := calleeOf(cc.Common())
				if ff == nil || origin(ff) != wurl {
					continue
				}
				same := false
				if ld, isLd := cc.Common().Args[0].(*ssa.UnOp); isLd {
					if fa, isFa := ld.X.(*ssa.FieldAddr); isFa {
						if _, t, fld := fieldNameOf(fa); t == "Entry" && fld == "URL" && sameEntry(fa.X, entry) {
							same = true
						}
					}
				}
				if same {
					continue
				}
				a, _ := g.PathExists(posOf(cc), posOf(c), Avoid{})
				b, _ := g.PathExists(posOf(c), posOf(cc), Avoid{})
				if a || b {
					other = w.InstrPos(cc)
				}
			}
			if other != "" {
				ok = false
			}
			r.Check(ok, "C19/SCOPED-OPTIONS", siteKey(Site{fn, c, posOf(c)}), w.InstrPos(c), "the entry's credentials are added only after the same entry's URL was set as their scope (and no other scope is added with them)", "a repository entry's credentials are added without that entry's URL as their (last) scope"+map[bool]string{true: ": another WithURL at " + other + " is added on the same path and wins", false: ""}[other != ""])
		}
	}
	if n == 0 {
		r.Unk("C19/SCOPED-OPTIONS", "no-site", "-", "no site adds a repository entry's credentials")
	}
	// owner lookup considers every repository: each iteration over the configured repositories loads and scans its index
	scan := w.Fn("pkg/downloader", "ChartDownloader.scanReposForURL")
	if scan == nil {
		r.Unk("C19/SCOPED-OPTIONS", "owner-lookup", "-", "ChartDownloader.scanReposForURL not found")
		return
	}
	r.Fn(FuncName(scan))
	sg := FullGraph(scan)
	var loads []ssa.Instruction
	for _, c := range callInstrs(scan) {
		if f, _ := calleeOf(c.Common()); f != nil && FuncName(f) == "pkg/repo.LoadIndexFile" {
			loads = append(loads, c)
		}
	}
	// outer loop header: the block indexing rf.Repositories
	okLoop := false
	for _, b := range scan.Blocks {
		for _, in := range b.Instrs {
			ia, ok := in.(*ssa.IndexAddr)
			if !ok {
				continue
			}
			if ld, ok := ia.X.(*ssa.UnOp); ok {
				if _, t, f := fieldNameOf(ld.X); t == "File" && f == "Repositories" {
					// every cycle from this element access back to the next one passes a LoadIndexFile (or returns)
					cyc, _ := sg.PathExists(posOf(ia), posOf(ia), avoidInstrs(loads...))
					okLoop = !cyc && len(loads) > 0
				}
			}
		}
	}
	r.Check(okLoop, "C19/SCOPED-OPTIONS", "owner-lookup/every-repository", w.Pos(scan.Pos()), "every configured repository's index is consulted when looking for the owner of a chart URL", "some repositories can be skipped when looking for the owner of a chart URL: the URL is then treated as owner-less and scoped to itself, so credentials in the options follow it")
}

// entryOfCreds: v is a load of Username of a *repo.Entry; returns the entry value.
func entryOfCreds(v ssa.Value) ssa.Value {
	ld, ok := v.(*ssa.UnOp)
	if !ok {
		return nil
	}
	fa, ok := ld.X.(*ssa.FieldAddr)
	if !ok {
		return nil
	}
	if _, t, f := fieldNameOf(fa); t == "Entry" && f == "Username" {
		return fa.X
	}
	return nil
}

// resolveEntry: r.Config of r := NewChartRepository(rc, …) is rc (the constructor stores its first
// parameter into the Config field of what it returns).
func resolveEntry(v ssa.Value) ssa.Value {
	ld, ok := v.(*ssa.UnOp)
	if !ok {
		return v
	}
	fa, ok := ld.X.(*ssa.FieldAddr)
	if !ok {
		return v
	}
	if _, _, f := fieldNameOf(fa); f != "Config" {
		return v
	}
	ex, ok := fa.X.(*ssa.Extract)
	if !ok {
		return v
	}
	c, ok := ex.Tuple.(*ssa.Call)
	if !ok {
		return v
	}
	callee, _ := calleeOf(c.Common())
	if callee == nil || !inHelm(callee) || len(callee.Params) == 0 {
		return v
	}
	for _, b := range callee.Blocks {
		for _, in := range b.Instrs {
			if st, ok := in.(*ssa.Store); ok {
				if _, _, f := fieldNameOf(st.Addr); f == "Config" && st.Val == ssa.Value(callee.Params[0]) {
					return c.Call.Args[0]
				}
			}
		}
	}
	return v
}

func sameEntry(a, b ssa.Value) bool {
	a, b = resolveEntry(a), resolveEntry(b)
	if a == b {
		return true
	}
	// both loads of the same field address (r.Config)
	la, ok1 := a.(*ssa.UnOp)
	lb, ok2 := b.(*ssa.UnOp)
	if ok1 && ok2 {
		fa, ok3 := la.X.(*ssa.FieldAddr)
		fb, ok4 := lb.X.(*ssa.FieldAddr)
		if ok3 && ok4 && fa.Field == fb.Field && fa.X == fb.X {
			return true
		}
	}
	return false
}

func c19Siblings(w *World, r *Report) {
	find := w.Fn("pkg/repo", "FindChartInRepoURL")
	dl := w.Fn("pkg/downloader", "ChartDownloader.DownloadTo")
	wba := w.Fn("pkg/getter", "WithBasicAuth")
	if find == nil || dl == nil || wba == nil {
		r.Unk("C19/SIBLINGS", "anchor", "-", "repo.FindChartInRepoURL / ChartDownloader.DownloadTo not found")
		return
	}
	n := 0
	for _, fn := range w.HelmFuncs() {
		var fc, dc ssa.CallInstruction
		for _, c := range callInstrs(fn) {
			f, _ := calleeOf(c.Common())
			if f == nil {
				continue
			}
			if origin(f) == find {
				fc = c
			}
			if origin(f) == dl {
				dc = c
			}
		}
		if fc == nil || dc == nil {
			continue
		}
		// does the function put caller credentials into the downloader's options?
		hasCreds := false
		var clearing []ssa.Instruction
		var clearingEdges []Edge
		for _, c := range callInstrs(fn) {
			f, _ := calleeOf(c.Common())
			if f == nil || origin(f) != wba {
				continue
			}
			u, isU := constString(c.Common().Args[0])
			p, isP := constString(c.Common().Args[1])
			if isU && isP && u == "" && p == "" {
				clearing = append(clearing, c)
			} else {
				hasCreds = true
				// WithBasicAuth(username, password) with both variables chosen before: on the edges where
				// both are the empty string the call clears the credentials
				pu, ok1 := c.Common().Args[0].(*ssa.Phi)
				pp, ok2 := c.Common().Args[1].(*ssa.Phi)
				if ok1 && ok2 && pu.Block() == pp.Block() {
					for i, pred := range pu.Block().Preds {
						su, isSU := constString(pu.Edges[i])
						sp, isSP := constString(pp.Edges[i])
						if isSU && isSP && su == "" && sp == "" {
							for k, sc := range pred.Succs {
								if sc == pu.Block() {
									clearingEdges = append(clearingEdges, Edge{From: pred, Succ: k})
								}
							}
						}
					}
				}
			}
		}
		if !hasCreds {
			continue
		}
		n++
		r.Fn(FuncName(fn))
		g := FullGraph(fn)
		schemeEq, s1, s2 := originEqEdges(fn, "Scheme")
		hostEq, _, _ := originEqEdges(fn, "Host")
		pass := boolTrueEdges(fn, "passcredentialsall")
		key := FuncName(fn)
		// only paths on which the --repo lookup happened matter
		from := posOf(fc)
		ex1, _ := g.PathExists(from, posOf(dc), Avoid{}.withEdges(pass...).withEdges(schemeEq...).withEdges(clearingEdges...).withInstrs(clearing...))
		ex2, _ := g.PathExists(from, posOf(dc), Avoid{}.withEdges(pass...).withEdges(hostEq...).withEdges(clearingEdges...).withInstrs(clearing...))
		ok := !ex1 && !ex2 && len(schemeEq) > 0 && len(hostEq) > 0
		// operands: one URL parsed from the repo URL field, the other from the lookup's result
		res := resultN(fc, 0)
		p1, p2 := parsedFrom(s1), parsedFrom(s2)
		okProv := (p1 == res || p2 == res) && p1 != nil && p2 != nil
		r.Check(ok && okProv, "C19/SIBLINGS", key, w.InstrPos(dc), "after a --repo lookup the download is reached only with pass-credentials, with scheme and host of repository and chart URL equal, or with the credentials cleared",
			"after a --repo lookup the download can be reached with the caller's credentials although the chart URL is on another origin (scheme or host differs) and pass-credentials is off")
	}
	if n == 0 {
		r.Unk("C19/SIBLINGS", "no-instance", "-", "no function combines a --repo lookup with a credentialed download")
	}
}

// c19SetterTotal: the option constructors that carry or scope credentials install what they were
// given, unconditionally. Callers rely on WithBasicAuth("", "") to wipe credentials taken from flags
// when a chart URL is on another origin, and on WithURL to scope them.
func c19SetterTotal(w *World, r *Report) {
	r.Rule("C19/SETTER-TOTAL", "the getter options WithBasicAuth, WithPassCredentialsAll and WithURL store their arguments into the option fields on every path (so that a later option always overrides an earlier one, including with empty values)", 3)
	want := map[string][]string{"WithBasicAuth": {"username", "password"}, "WithPassCredentialsAll": {"passCredentialsAll"}, "WithURL": {"url"}}
	for _, name := range []string{"WithBasicAuth", "WithPassCredentialsAll", "WithURL"} {
		fn := w.Fn("pkg/getter", name)
		if fn == nil {
			r.Unk("C19/SETTER-TOTAL", name, "-", "getter."+name+" not found")
			continue
		}
		r.Fn(FuncName(fn))
		var cl *ssa.Function
		for _, a := range fn.AnonFuncs {
			cl = a
		}
		if cl == nil || len(fn.AnonFuncs) != 1 {
			r.Bad("C19/SETTER-TOTAL", name, w.Pos(fn.Pos()), "the option is not a single closure over its arguments")
			continue
		}
		g := FullGraph(cl)
		bad := ""
		for i, fld := range want[name] {
			var stores []ssa.Instruction
			okVal := true
			for _, b := range cl.Blocks {
				for _, in := range b.Instrs {
					st, ok := in.(*ssa.Store)
					if !ok {
						continue
					}
					if _, _, f := fieldNameOf(st.Addr); f == fld {
						stores = append(stores, st)
						if i < len(fn.Params) && resolveToParam(st.Val) != ssa.Value(fn.Params[i]) {
							okVal = false
						}
					}
				}
			}
			if len(stores) == 0 {
				bad = "field " + fld + " is never set"
				continue
			}
			if !okVal {
				bad = "field " + fld + " is set from something other than the option's argument"
			}
			for _, rp := range g.classifyReturns() {
				if ex, _ := g.PathExists(entryPos(cl), posOf(rp.Ret), avoidInstrs(stores...)); ex {
					bad = "a path through the option leaves field " + fld + " as it was"
				}
			}
		}
		r.Check(bad == "", "C19/SETTER-TOTAL", name, w.Pos(fn.Pos()), "the option always installs its arguments", bad+": credentials set by an earlier option survive where the caller meant to replace or clear them")
	}
}

// c19PerItem: inside a loop over dependencies (or repositories) the object that receives the
// credentials option is created in the same iteration: nothing carries one item's credentials to the next.
func c19PerItem(w *World, r *Report) {
	r.Rule("C19/PER-ITEM", "where credentials are attached inside a loop (one repository or dependency per iteration) the downloader or option list that receives getter.WithBasicAuth is created inside that iteration", 1)
	wba := w.Fn("pkg/getter", "WithBasicAuth")
	if wba == nil {
		return
	}
	n := 0
	for _, fn := range w.HelmFuncs() {
		if strings.Contains(fnPkgPath(fn), "/pkg/getter") {
			continue
		}
		var scc map[*ssa.BasicBlock][]*ssa.BasicBlock
		for _, c := range callInstrs(fn) {
			f, _ := calleeOf(c.Common())
			if f == nil || origin(f) != wba {
				continue
			}
			if scc == nil {
				scc = sccOf(fn)
			}
			comp := scc[c.Block()]
			if len(comp) <= 1 {
				continue // not in a loop
			}
			in := map[*ssa.BasicBlock]bool{}
			for _, b := range comp {
				in[b] = true
			}
			// the containers the option flows into
			roots := optionContainers(c.Value())
			n++
			r.Fn(FuncName(fn))
			bad := ""
			for _, a := range roots {
				if !in[a.Block()] {
					bad = w.InstrPos(a)
				}
			}
			r.Check(bad == "" && len(roots) > 0, "C19/PER-ITEM", FuncName(fn)+"/"+siteKey(Site{fn, c, posOf(c)}), w.InstrPos(c), "the credentials go into an object created in the same iteration", "the credentials are added to an object created outside the loop ("+bad+"): they are carried over to the items that follow")
		}
	}
	if n == 0 {
		r.OKTrivial("C19/PER-ITEM", "none", "-", "no credentials option is built inside a loop")
	}
}

// optionContainers follows an option value forward into the allocations that end up holding it
// (array behind a slice literal, slice field of a struct, result of append stored back).
func optionContainers(v ssa.Value) []*ssa.Alloc {
	var out []*ssa.Alloc
	seen := map[ssa.Value]bool{}
	var fwd func(v ssa.Value, d int)
	rootOfAddr := func(a ssa.Value) *ssa.Alloc {
		for d := 0; d < 6; d++ {
			switch x := a.(type) {
			case *ssa.Alloc:
				return x
			case *ssa.IndexAddr:
				a = x.X
			case *ssa.FieldAddr:
				a = x.X
			default:
				return nil
			}
		}
		return nil
	}
	fwd = func(v ssa.Value, d int) {
		if v == nil || seen[v] || d > 8 || v.Referrers() == nil {
			return
		}
		seen[v] = true
		for _, rf := range *v.Referrers() {
			switch x := rf.(type) {
			case *ssa.Store:
				if x.Val != v {
					continue
				}
				if al := rootOfAddr(x.Addr); al != nil {
					out = append(out, al)
					// a slice literal's backing array: follow the slice made from it
					fwd(al, d+1)
				}
			case *ssa.Slice:
				fwd(x, d+1)
			case *ssa.Call:
				if bi, ok := x.Call.Value.(*ssa.Builtin); ok && bi.Name() == "append" {
					fwd(x, d+1)
				}
			case *ssa.Phi, *ssa.MakeInterface, *ssa.ChangeType:
				fwd(x.(ssa.Value), d+1)
			}
		}
	}
	fwd(v, 0)
	// keep the outermost holders: a struct alloc that received a slice built from an array alloc
	return out
}

// deadAppends: appends in fn whose result is never used (x = append(x, …) to a variable nobody reads
// afterwards): the appended element is lost.
func deadAppends(fn *ssa.Function, elemOK func(types.Type) bool) []*ssa.Call {
	var out []*ssa.Call
	for _, b := range fn.Blocks {
		for _, in := range b.Instrs {
			c, ok := in.(*ssa.Call)
			if !ok {
				continue
			}
			bi, ok := c.Call.Value.(*ssa.Builtin)
			if !ok || bi.Name() != "append" {
				continue
			}
			sl, ok := c.Type().Underlying().(*types.Slice)
			if !ok || !elemOK(sl.Elem()) {
				continue
			}
			used := false
			if refs := c.Referrers(); refs != nil {
				for _, rf := range *refs {
					if _, dbg := rf.(*ssa.DebugRef); !dbg {
						used = true
					}
				}
			}
			if !used {
				out = append(out, c)
			}
		}
	}
	return out
}

// c19OptionsKept: a getter option that was appended reaches the getter: in particular the option that
// clears the credentials for a foreign chart URL is not appended to a list nobody reads any more.
func c19OptionsKept(w *World, r *Report) {
	r.Rule("C19/OPTIONS-KEPT", "no append of a getter.Option is dead (its result unused): an option added to a list is seen by the downloader that is handed the list", 1)
	isOpt := func(t types.Type) bool {
		n, ok := t.(*types.Named)
		return ok && n.Obj().Pkg() != nil && n.Obj().Pkg().Path() == helmMod+"/pkg/getter" && n.Obj().Name() == "Option"
	}
	n, total := 0, 0
	for _, fn := range w.HelmFuncs() {
		if strings.HasSuffix(w.FileOf(fn), "_test.go") {
			continue
		}
		total++
		for _, c := range deadAppends(fn, isOpt) {
			n++
			r.Bad("C19/OPTIONS-KEPT", fmt.Sprintf("%s/append#%d", FuncName(fn), n), w.InstrPos(c), "the result of this append of a getter option is never used: the option (for instance the one that clears the credentials for a chart URL on another origin) never reaches the getter")
		}
	}
	if n == 0 {
		r.OK("C19/OPTIONS-KEPT", "none", "-", fmt.Sprintf("%d functions scanned, no dead append of a getter option", total))
	}
}

// c19OriginCompare: "the same origin" means scheme, host and port. A host name with scheme and port
// stripped (URL.Hostname, urlutil.ExtractHostname) is never what two URLs are compared by.
func c19OriginCompare(w *World, r *Report) {
	r.Rule("C19/ORIGIN-COMPARE", "no two URLs are compared through their bare host names (URL.Hostname / urlutil.ExtractHostname drop scheme and port): same-origin decisions use scheme and host:port", 1)
	isHostname := isHostnameValue
	n, total := 0, 0
	for _, fn := range w.HelmFuncs() {
		if strings.HasSuffix(w.FileOf(fn), "_test.go") {
			continue
		}
		total++
		for _, b := range fn.Blocks {
			for _, in := range b.Instrs {
				bo, ok := in.(*ssa.BinOp)
				if !ok || (bo.Op != token.EQL && bo.Op != token.NEQ) {
					continue
				}
				if !isStringType(bo.X.Type()) {
					continue
				}
				if _, isC := bo.X.(*ssa.Const); isC {
					continue
				}
				if _, isC := bo.Y.(*ssa.Const); isC {
					continue
				}
				if isHostname(bo.X) && isHostname(bo.Y) {
					n++
					r.Bad("C19/ORIGIN-COMPARE", fmt.Sprintf("%s/compare#%d", FuncName(fn), n), w.InstrPos(bo), "two URLs are compared by their bare host names: another port or scheme on the same host counts as the same server, and whatever is decided by this (keeping or sending credentials) also applies to that other origin")
				}
			}
		}
	}
	if n == 0 {
		r.OK("C19/ORIGIN-COMPARE", "none", "-", fmt.Sprintf("%d functions scanned, no comparison of two bare host names", total))
	}
}

// isHostnameValue: v derives from URL.Hostname() or urlutil.ExtractHostname().
func isHostnameValue(v ssa.Value) bool {
	hit := false
	backSlice(v, func(x ssa.Value) bool {
		if c, ok := x.(*ssa.Call); ok {
			if f, _ := calleeOf(c.Common()); f != nil {
				if n := FuncName(f); n == "(*net/url.URL).Hostname" || n == "internal/urlutil.ExtractHostname" {
					hit = true
				}
			}
			return true
		}
		return false
	})
	return hit
}

// c19DownloaderConfig: every ChartDownloader is given the repository configuration and cache: without
// them it cannot find the repository that owns an absolute chart URL, and scopes the credentials it
// carries to the chart URL itself.
func c19DownloaderConfig(w *World, r *Report) {
	r.Rule("C19/DOWNLOADER-CONFIG", "every ChartDownloader literal in helm sets RepositoryConfig and RepositoryCache (sibling agreement of the three construction sites)", 3)
	n := 0
	for _, fn := range w.HelmFuncs() {
		if strings.HasSuffix(w.FileOf(fn), "_test.go") {
			continue
		}
		for _, b := range fn.Blocks {
			for _, in := range b.Instrs {
				al, ok := in.(*ssa.Alloc)
				if !ok || !isNamedPtr(al.Type(), helmMod+"/pkg/downloader", "ChartDownloader") || al.Referrers() == nil {
					continue
				}
				set := map[string]bool{}
				isCopy := false
				for _, rf := range *al.Referrers() {
					if st, ok := rf.(*ssa.Store); ok && st.Addr == ssa.Value(al) {
						isCopy = true // filled by copying a whole struct (the literal's temporary): judged there
					}
				}
				if isCopy {
					continue
				}
				for _, rf := range *al.Referrers() {
					if fa, ok := rf.(*ssa.FieldAddr); ok && fa.Referrers() != nil {
						for _, rr := range *fa.Referrers() {
							if st, ok := rr.(*ssa.Store); ok && st.Addr == ssa.Value(fa) {
								_, _, f := fieldNameOf(fa)
								set[f] = true
							}
						}
					}
				}
				if len(set) < 3 {
					continue // not a construction site (a zero value, a copy)
				}
				n++
				r.Fn(FuncName(fn))
				r.Check(set["RepositoryConfig"] && set["RepositoryCache"], "C19/DOWNLOADER-CONFIG", FuncName(fn), w.Pos(al.Pos()), "the downloader knows the configured repositories", "a ChartDownloader is built without RepositoryConfig/RepositoryCache: it cannot find the repository that owns an absolute chart URL and sends the credentials it was given to that URL's own origin")
			}
		}
	}
	if n == 0 {
		r.Unk("C19/DOWNLOADER-CONFIG", "no-site", "-", "no ChartDownloader construction site found")
	}
}

// c19NoOwnerOnly: the downloader falls back to "no repository owns this URL: scope the options to the
// URL itself" only when the scan said exactly that (ErrNoOwnerRepo). A scan that failed for another
// reason has not looked at every repository: the owner — and the credentials that must stay with it —
// may be one it did not reach.
func c19NoOwnerOnly(w *World, r *Report) {
	r.Rule("C19/NO-OWNER-ONLY", "in ResolveChartVersion, after the repository scan, the option WithURL(ref) is appended only on the edge where the scan's error equals ErrNoOwnerRepo", 1)
	fn := w.Fn("pkg/downloader", "ChartDownloader.ResolveChartVersion")
	if fn == nil {
		r.Unk("C19/NO-OWNER-ONLY", "anchor", "-", "ResolveChartVersion not found")
		return
	}
	r.Fn(FuncName(fn))
	g := FullGraph(fn)
	var scan ssa.CallInstruction
	for _, c := range callInstrs(fn) {
		if f, _ := calleeOf(c.Common()); f != nil && FuncName(f) == "(*pkg/downloader.ChartDownloader).scanReposForURL" {
			scan = c
		}
	}
	if scan == nil {
		r.Unk("C19/NO-OWNER-ONLY", "no-scan", w.Pos(fn.Pos()), "ResolveChartVersion does not scan the repositories")
		return
	}
	e := errResult(scan)
	var isNoOwner []Edge
	if e != nil {
		for a := range forwardAliases(e) {
			if a.Referrers() == nil {
				continue
			}
			for _, rf := range *a.Referrers() {
				bo, ok := rf.(*ssa.BinOp)
				if !ok || (bo.Op != token.EQL && bo.Op != token.NEQ) {
					continue
				}
				other := bo.Y
				if other == a {
					other = bo.X
				}
				if ld, ok := other.(*ssa.UnOp); ok {
					if gl, ok := ld.X.(*ssa.Global); ok && gl.Name() == "ErrNoOwnerRepo" {
						for _, ce := range condEdges(bo) {
							if ce.truth == (bo.Op == token.EQL) {
								isNoOwner = append(isNoOwner, ce.Edge)
							}
						}
					}
				}
				if c2, ok := rf.(*ssa.Call); ok {
					_ = c2
				}
			}
			// errors.Is(err, ErrNoOwnerRepo)
			for _, rf := range *a.Referrers() {
				c2, ok := rf.(*ssa.Call)
				if !ok {
					continue
				}
				if f, _ := calleeOf(c2.Common()); f != nil && fnPkgPath(f) == "errors" && f.Name() == "Is" && len(c2.Call.Args) == 2 {
					if ld, ok := c2.Call.Args[1].(*ssa.UnOp); ok {
						if gl, ok := ld.X.(*ssa.Global); ok && gl.Name() == "ErrNoOwnerRepo" {
							for _, ce := range condEdges(c2) {
								if ce.truth {
									isNoOwner = append(isNoOwner, ce.Edge)
								}
							}
						}
					}
				}
			}
		}
	}
	okE, _ := nilTestEdges(e)
	n := 0
	for _, c := range callInstrs(fn) {
		f, _ := calleeOf(c.Common())
		if f == nil || FuncName(f) != "pkg/getter.WithURL" {
			continue
		}
		// only the appends reachable from the scan without passing its error's nil-edge matter
		if ex, _ := g.PathExists(posOf(scan), posOf(c), Avoid{}.withEdges(okE...)); !ex {
			continue
		}
		n++
		viol, _ := g.PathExists(posOf(scan), posOf(c), Avoid{}.withEdges(okE...).withEdges(isNoOwner...))
		r.Check(!viol && len(isNoOwner) > 0, "C19/NO-OWNER-ONLY", siteKey(Site{fn, c, posOf(c)}), w.InstrPos(c), "the options are scoped to the chart URL only where no configured repository owns it", "after a failed repository scan the options are scoped to the chart URL although the error is not ErrNoOwnerRepo: the scan stopped before it reached the owning repository, and the credentials the caller carries for that repository go to the chart URL's own origin")
	}
	if n == 0 {
		r.Unk("C19/NO-OWNER-ONLY", "no-site", w.Pos(fn.Pos()), "no WithURL on the error side of the repository scan")
	}
}
