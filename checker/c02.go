package main

// C02 — after a successful operation the cluster matches the recorded manifest (thin structural part).

import (
	"fmt"
	"go/token"
	"go/types"
	"strings"

	"golang.org/x/tools/go/ssa"
)

func init() {
	register(&propDef{
		ID: "C02",
		Anchors: []string{"pkg/kube/client.go", "pkg/kube/resource.go", "pkg/kube/wait.go", "pkg/kube/resource_policy.go", "pkg/action/upgrade.go", "pkg/action/rollback.go", "pkg/action/install.go",
			"pkg/action/uninstall.go", "pkg/action/resource_policy.go", "pkg/release/util/manifest.go"},
		NotDec:  []string{"field-level equality of live objects with the manifest", "results of three-way merges under out-of-band drift", "absence of effects on bystander objects (the API server decides)", "the keep policy as read from the live object's annotations at run time"},
		Trusted: []string{"k8s.io/apimachinery strategicpatch / jsonmergepatch", "k8s.io/cli-runtime resource.Helper"},
		Run:     runC02,
	})
}

func runC02(w *World, r *Report) {
	r.Rule("C02/DIFF-ARGS", "the set deleted by an update is original.Difference(target) in that operand order; the three-way patch is built from (old manifest object, new manifest object, live object) in that order, the live object fetched for the target", 4)
	r.Rule("C02/TARGET-PARTITION", "for every target resource the update visitor either creates it (only on the not-found edge of the live lookup) or patches it, never both and never neither on a non-error path", 2)
	r.Rule("C02/KEEP-GUARD", "a resource dropped from the manifest is deleted only on the edge where its live annotations do not carry the keep policy", 1)
	r.Rule("C02/IDENTITY", "two resources are the same only if name, namespace, kind and group all match", 1)
	r.Rule("C02/PATCH-KIND", "the two-way fallback patch is reachable only for unstructured/CRD objects without three-way merge, and the typed conversion that selects the strategic three-way patch targets the object's own mapping version whenever a mapping is given", 2)
	r.Rule("C02/UNINSTALL-PARTITION", "when uninstalling, every manifest goes to exactly one of the keep list and the delete list; the delete call is built from the delete list only and the kept text from the keep list only", 3)
	c02DiffArgs(w, r)
	c02Partition(w, r)
	c02KeepGuard(w, r)
	c02Identity(w, r)
	c02PatchKind(w, r)
	c02Uninstall(w, r)
	c01HistoryOrder(w, r, "C02/LATEST-REVISION")
	// the objects sent to the cluster are the manifest's: the pre-flight that looks at them first must not
	// replace them by the live objects (shared with C07)
	r.Rule("C02/PREFLIGHT", "the ownership pre-flight only reads: it never refreshes the resource infos that are sent to the cluster afterwards, and treats only not-found as absent", 4)
	r.Remap = func(rule string) string {
		if rule == "C07/PREFLIGHT" {
			return "C02/PREFLIGHT"
		}
		return rule
	}
	c07Preflight(w, r)
	r.Remap = nil
	c02Applied(w, r)
	c02UninstallDeletes(w, r)
}

func c02DiffArgs(w *World, r *Report) {
	up := w.Fn("pkg/kube", "Client.update")
	if up == nil {
		r.Unk("C02/DIFF-ARGS", "anchor", "-", "kube.Client.update not found")
		return
	}
	r.Fn(FuncName(up))
	var orig, targ ssa.Value
	for _, p := range up.Params {
		switch p.Name() {
		case "original":
			orig = p
		case "target":
			targ = p
		}
	}
	n := 0
	for _, c := range callInstrs(up) {
		if f, _ := calleeOf(c.Common()); f != nil && FuncName(f) == "(pkg/kube.ResourceList).Difference" {
			n++
			ok := resolveToParam(c.Common().Args[0]) == orig && resolveToParam(c.Common().Args[1]) == targ
			r.Check(ok, "C02/DIFF-ARGS", "update/difference", w.InstrPos(c), "deletion candidates = original minus target", "the deletion set is not original.Difference(target): resources of the new manifest would be deleted (or stale ones kept)")
		}
	}
	if n == 0 {
		r.Bad("C02/DIFF-ARGS", "update/difference", w.Pos(up.Pos()), "update no longer computes original minus target")
	}
	// the deletion loop deletes elements of that difference only
	var del ssa.CallInstruction
	for _, c := range callInstrs(up) {
		if f, _ := calleeOf(c.Common()); f != nil && FuncName(f) == "pkg/kube.deleteResource" {
			del = c
		}
	}
	if del != nil {
		fromDiff := false
		backSlice(del.Common().Args[0], func(v ssa.Value) bool {
			if c, ok := v.(*ssa.Call); ok {
				if f, _ := calleeOf(c.Common()); f != nil && FuncName(f) == "(pkg/kube.ResourceList).Difference" {
					fromDiff = true
				}
				return true
			}
			return false
		})
		r.Check(fromDiff, "C02/DIFF-ARGS", "update/deletes-difference", w.InstrPos(del), "only elements of the difference are deleted", "something other than the difference is deleted")
	}
	// createPatch operand order
	cp := w.Fn("pkg/kube", "createPatch")
	if cp == nil {
		r.Unk("C02/DIFF-ARGS", "patch/anchor", "-", "kube.createPatch not found")
		return
	}
	r.Fn(FuncName(cp))
	var cur, tgt ssa.Value
	for _, p := range cp.Params {
		switch p.Name() {
		case "current":
			cur = p
		case "target":
			tgt = p
		}
	}
	var liveGet ssa.CallInstruction
	for _, c := range callInstrs(cp) {
		if f, _ := calleeOf(c.Common()); f != nil && FuncName(f) == "(*k8s.io/cli-runtime/pkg/resource.Helper).Get" {
			liveGet = c
		}
	}
	marshalOf := func(v ssa.Value) ssa.Value {
		ex, ok := v.(*ssa.Extract)
		if !ok {
			return nil
		}
		c, ok := ex.Tuple.(*ssa.Call)
		if !ok {
			return nil
		}
		if f, _ := calleeOf(c.Common()); f != nil && fnPkgPath(f) == "encoding/json" && f.Name() == "Marshal" {
			return unwrapIface(c.Call.Args[0])
		}
		return nil
	}
	k := 0
	for _, c := range callInstrs(cp) {
		f, _ := calleeOf(c.Common())
		if f == nil || !(f.Name() == "CreateThreeWayMergePatch" || f.Name() == "CreateThreeWayJSONMergePatch") {
			continue
		}
		k++
		a := c.Common().Args
		m0, m1, m2 := marshalOf(a[0]), marshalOf(a[1]), marshalOf(a[2])
		ok := m0 == cur
		if ok && m1 != nil {
			ok = derivesFromValue(m1, tgt) && !derivesFromValue(m1, cur)
		}
		if ok && liveGet != nil && m2 != nil {
			ok = derivesFromValue(m2, resultN(liveGet, 0))
		} else {
			ok = false
		}
		r.Check(ok, "C02/DIFF-ARGS", fmt.Sprintf("patch/%s", f.Name()), w.InstrPos(c), "operands are (old manifest object, new manifest object, live object)", "the three-way patch operands are not (old manifest, new manifest, live object) in that order: out-of-band edits would not be reverted / deletions mis-computed")
	}
	if k == 0 {
		r.Bad("C02/DIFF-ARGS", "patch/three-way", w.Pos(cp.Pos()), "no three-way patch is computed")
	}
	// the live object is fetched for the target's own namespace/name
	if liveGet != nil {
		ok := derivesFromValue(liveGet.Common().Args[1], tgt) && derivesFromValue(liveGet.Common().Args[2], tgt)
		r.Check(ok, "C02/DIFF-ARGS", "patch/live-object", w.InstrPos(liveGet), "the live object is fetched by the target's namespace and name", "the live object is not fetched for the target resource")
	}
}

func c02Partition(w *World, r *Report) {
	up := w.Fn("pkg/kube", "Client.update")
	if up == nil {
		return
	}
	for _, fn := range up.AnonFuncs {
		var create, update ssa.CallInstruction
		var get ssa.CallInstruction
		for _, c := range callInstrs(fn) {
			f, _ := calleeOf(c.Common())
			if f == nil {
				continue
			}
			switch FuncName(f) {
			case "pkg/kube.createResource":
				create = c
			case "pkg/kube.updateResource":
				update = c
			case "(*k8s.io/cli-runtime/pkg/resource.Helper).Get":
				get = c
			}
		}
		if create == nil && update == nil {
			continue
		}
		r.Fn(FuncName(fn))
		g := FullGraph(fn)
		if create == nil || update == nil || get == nil {
			r.Bad("C02/TARGET-PARTITION", FuncName(fn), w.Pos(fn.Pos()), "the visitor no longer has both a create arm and a patch arm after a live lookup")
			continue
		}
		// create only on the IsNotFound true edge... the code tests !IsNotFound → return; so create is on the IsNotFound true edge
		var nf []Edge
		for _, c := range callInstrs(fn) {
			cc, ok := c.(*ssa.Call)
			if !ok {
				continue
			}
			if f, _ := calleeOf(cc.Common()); f != nil && f.Name() == "IsNotFound" {
				for _, e := range condEdges(cc) {
					if e.truth {
						nf = append(nf, e.Edge)
					}
				}
			}
		}
		ex, _ := g.PathExists(entryPos(fn), posOf(create), Avoid{}.withEdges(nf...))
		_, getBad := nilTestEdges(errResult(get))
		ex0, _ := g.PathExists(entryPos(fn), posOf(create), Avoid{}.withEdges(getBad...))
		r.Check(!ex && !ex0 && len(nf) > 0, "C02/TARGET-PARTITION", FuncName(fn)+"/create-only-if-absent", w.InstrPos(create), "a target is created only where the live lookup reported not-found", "a target can be created although it exists (or the lookup failed for another reason)")
		// never both; success returns pass exactly one
		both1, _ := g.PathExists(posOf(create), posOf(update), Avoid{})
		both2, _ := g.PathExists(posOf(update), posOf(create), Avoid{})
		neither := false
		for _, rp := range g.classifyReturns() {
			if rp.Class != RetSuccess {
				continue
			}
			if x, _ := g.PathExists(entryPos(fn), retPos(rp), avoidInstrs(create, update)); x {
				// the error-parameter passthrough `if err != nil { return err }` is an error return; anything else is a miss
				neither = true
			}
		}
		r.Check(!both1 && !both2 && !neither, "C02/TARGET-PARTITION", FuncName(fn)+"/exactly-one", w.Pos(fn.Pos()), "every successful visit passes exactly one of create and patch", "a target can be visited successfully without being created or patched (or with both)")
	}
	c02PartitionLoop(w, r, up)
}

// c02PartitionLoop: the same partition where the visitor was turned into a plain loop over the targets
// inside update itself: per iteration exactly one of create and patch.
func c02PartitionLoop(w *World, r *Report, up *ssa.Function) {
	var create, update, get ssa.CallInstruction
	for _, c := range callInstrs(up) {
		f, _ := calleeOf(c.Common())
		if f == nil {
			continue
		}
		switch FuncName(f) {
		case "pkg/kube.createResource":
			create = c
		case "pkg/kube.updateResource":
			update = c
		case "(*k8s.io/cli-runtime/pkg/resource.Helper).Get":
			if get == nil {
				get = c
			}
		}
	}
	if create == nil || update == nil {
		return
	}
	fn := up
	r.Fn(FuncName(fn))
	g := FullGraph(fn)
	if get == nil {
		r.Bad("C02/TARGET-PARTITION", FuncName(fn)+"/loop", w.Pos(fn.Pos()), "the loop over the targets has a create arm and a patch arm but no live lookup")
		return
	}
	scc := sccOf(fn)
	comp := scc[create.Block()]
	in := map[*ssa.BasicBlock]bool{}
	for _, b := range comp {
		in[b] = true
	}
	var hdr *ssa.BasicBlock
	for _, b := range comp {
		for _, p := range b.Preds {
			if !in[p] {
				hdr = b
			}
		}
	}
	if hdr == nil || !in[update.Block()] || len(hdr.Instrs) == 0 {
		r.Unk("C02/TARGET-PARTITION", FuncName(fn)+"/loop", w.Pos(fn.Pos()), "create and patch are not arms of one loop over the targets")
		return
	}
	var nf []Edge
	for _, c := range callInstrs(fn) {
		cc, ok := c.(*ssa.Call)
		if !ok || !in[cc.Block()] {
			continue
		}
		if f, _ := calleeOf(cc.Common()); f != nil && f.Name() == "IsNotFound" {
			for _, e := range condEdges(cc) {
				if e.truth {
					nf = append(nf, e.Edge)
				}
			}
		}
	}
	ex, _ := g.PathExists(entryPos(fn), posOf(create), Avoid{}.withEdges(nf...))
	r.Check(!ex && len(nf) > 0, "C02/TARGET-PARTITION", FuncName(fn)+"/loop/create-only-if-absent", w.InstrPos(create), "a target is created only where the live lookup reported not-found", "a target can be created although it exists (or the lookup failed for another reason)")
	top := hdr.Instrs[0]
	both1, _ := g.PathExists(posOf(create), posOf(update), avoidInstrs(top))
	both2, _ := g.PathExists(posOf(update), posOf(create), avoidInstrs(top))
	neither, _ := g.PathExists(IPos{hdr, len(hdr.Instrs) - 1}, IPos{hdr, 0}, avoidInstrs(create, update))
	r.Check(!both1 && !both2 && !neither, "C02/TARGET-PARTITION", FuncName(fn)+"/loop/exactly-one", w.Pos(fn.Pos()), "every iteration that goes on to the next target passes exactly one of create and patch", "a target can be passed over without being created or patched (or gets both)")
}

func c02KeepGuard(w *World, r *Report) {
	up := w.Fn("pkg/kube", "Client.update")
	if up == nil {
		return
	}
	g := FullGraph(up)
	var del ssa.CallInstruction
	for _, c := range callInstrs(up) {
		if f, _ := calleeOf(c.Common()); f != nil && FuncName(f) == "pkg/kube.deleteResource" {
			del = c
		}
	}
	if del == nil {
		r.Bad("C02/KEEP-GUARD", "update/delete", w.Pos(up.Pos()), "update no longer deletes dropped resources")
		return
	}
	// comparison annotations[ResourcePolicyAnno] == KeepPolicy: the delete must avoid its true edge
	var keepTrue []Edge
	for _, b := range up.Blocks {
		for _, in := range b.Instrs {
			bo, ok := in.(*ssa.BinOp)
			if !ok || (bo.Op != token.EQL && bo.Op != token.NEQ) {
				continue
			}
			isKeep := func(v ssa.Value) bool { s, ok := constString(v); return ok && s == "keep" }
			isAnno := func(v ssa.Value) bool {
				lk, ok := v.(*ssa.Lookup)
				if !ok {
					return false
				}
				k, ok := constString(lk.Index)
				return ok && k == "helm.sh/resource-policy"
			}
			if (isKeep(bo.X) && isAnno(bo.Y)) || (isKeep(bo.Y) && isAnno(bo.X)) {
				for _, e := range condEdges(bo) {
					if e.truth == (bo.Op == token.EQL) {
						keepTrue = append(keepTrue, e.Edge)
					}
				}
			}
		}
	}
	ok := len(keepTrue) > 0
	for _, e := range keepTrue {
		if len(e.To().Instrs) > 0 {
			if x, _ := g.PathExists(IPos{e.To(), -1}, posOf(del), avoidInstrs(loopNextOf(up)...)); x {
				ok = false
			}
		}
	}
	// the annotations consulted are the live object's: read after info.Get() refreshed the object
	var get ssa.CallInstruction
	var annoCalls []ssa.CallInstruction
	for _, c := range callInstrs(up) {
		f, _ := calleeOf(c.Common())
		if f != nil && FuncName(f) == "(*k8s.io/cli-runtime/pkg/resource.Info).Get" {
			get = c
		}
		if c.Common().IsInvoke() && c.Common().Method.Name() == "Annotations" {
			annoCalls = append(annoCalls, c)
		}
	}
	live := get != nil && len(annoCalls) > 0
	for _, ac := range annoCalls {
		if get == nil || !g.AfterOK(get, posOf(ac)) {
			live = false
		}
	}
	r.Check(live, "C02/KEEP-GUARD", "update/live-object", w.InstrPos(del), "the keep policy is read from the object as refreshed from the cluster (after info.Get succeeded)", "the keep policy is not read from the live object (the annotations are read before, or without, info.Get): an out-of-band keep annotation is ignored")
	// and the test is on the way to every delete: the delete is dominated by the comparison
	r.Check(ok, "C02/KEEP-GUARD", "update/delete", w.InstrPos(del), "the delete is unreachable on the edge where the live object carries the keep policy", "a resource carrying the keep policy can be deleted (or the policy is no longer consulted)")
}

func c02Identity(w *World, r *Report) {
	fn := w.Fn("pkg/kube", "isMatchingInfo")
	if fn == nil {
		r.Unk("C02/IDENTITY", "anchor", "-", "kube.isMatchingInfo not found")
		return
	}
	r.Fn(FuncName(fn))
	g := FullGraph(fn)
	want := []string{"Name", "Namespace", "Kind", "Group"}
	// edges on which the two resources agree on a field
	eq := map[string][]Edge{}
	eqVal := map[ssa.Value]string{} // comparison value -> field (when it is an equality)
	for _, b := range fn.Blocks {
		for _, in := range b.Instrs {
			bo, ok := in.(*ssa.BinOp)
			if !ok || (bo.Op != token.EQL && bo.Op != token.NEQ) {
				continue
			}
			fx, fy := leafField(bo.X), leafField(bo.Y)
			if fx == "" || fx != fy {
				// two GroupKind() values compared as structs: Group and Kind at once
				if gkCall(bo.X) && gkCall(bo.Y) {
					for _, f := range []string{"Group", "Kind"} {
						for _, e := range condEdges(bo) {
							if e.truth == (bo.Op == token.EQL) {
								eq[f] = append(eq[f], e.Edge)
							}
						}
					}
					if bo.Op == token.EQL {
						eqVal[bo] = "Group+Kind"
					}
				}
				continue
			}
			if bo.Op == token.EQL {
				eqVal[bo] = fx
			}
			for _, e := range condEdges(bo) {
				if e.truth == (bo.Op == token.EQL) {
					eq[fx] = append(eq[fx], e.Edge)
				}
			}
		}
	}
	pathImplied := func(at IPos) map[string]bool {
		out := map[string]bool{}
		for _, f := range want {
			if len(eq[f]) == 0 {
				continue
			}
			if ex, _ := g.PathExists(entryPos(fn), at, Avoid{}.withEdges(eq[f]...)); !ex {
				out[f] = true
			}
		}
		return out
	}
	var valueImplied func(v ssa.Value, at IPos, d int) map[string]bool
	all := func() map[string]bool {
		m := map[string]bool{}
		for _, f := range want {
			m[f] = true
		}
		return m
	}
	valueImplied = func(v ssa.Value, at IPos, d int) map[string]bool {
		if cb, isC := constBool(v); isC {
			if !cb {
				return all() // a false result claims nothing
			}
			return pathImplied(at)
		}
		out := pathImplied(at)
		if f, ok := eqVal[v]; ok {
			for _, x := range strings.Split(f, "+") {
				out[x] = true
			}
			return out
		}
		if phi, ok := v.(*ssa.Phi); ok && d < 4 {
			var acc map[string]bool
			for i, e := range phi.Edges {
				p := phi.Block().Preds[i]
				if len(p.Instrs) == 0 {
					continue
				}
				m := valueImplied(e, IPos{p, len(p.Instrs) - 1}, d+1)
				if acc == nil {
					acc = m
				} else {
					for k := range acc {
						if !m[k] {
							delete(acc, k)
						}
					}
				}
			}
			for k := range acc {
				out[k] = true
			}
		}
		return out
	}
	implied := all()
	for _, b := range fn.Blocks {
		if len(b.Instrs) == 0 || !g.Reachable()[b] {
			continue
		}
		if ret, ok := b.Instrs[len(b.Instrs)-1].(*ssa.Return); ok && len(ret.Results) == 1 {
			m := valueImplied(ret.Results[0], posOf(ret), 0)
			for k := range implied {
				if !m[k] {
					delete(implied, k)
				}
			}
		}
	}
	missing := []string{}
	for _, f := range want {
		if !implied[f] {
			missing = append(missing, f)
		}
	}
	r.Check(len(missing) == 0, "C02/IDENTITY", "isMatchingInfo", w.Pos(fn.Pos()), "a true result implies equal name, namespace, kind and group", "resource identity ignores "+strings.Join(missing, ", ")+": distinct resources are treated as one (a dropped one would not be deleted, or the wrong one patched)")
}

// gkCall: v is the result of schema.GroupVersionKind.GroupKind().
func gkCall(v ssa.Value) bool {
	c, ok := v.(*ssa.Call)
	if !ok {
		return false
	}
	f, _ := calleeOf(c.Common())
	return f != nil && f.Name() == "GroupKind" && strings.HasSuffix(fnPkgPath(f), "apimachinery/pkg/runtime/schema")
}

func leafField(v ssa.Value) string {
	if fd, ok := v.(*ssa.Field); ok { // a field of a struct value copied into a local
		_, _, f := fieldNameOf(fd)
		return f
	}
	ld, ok := v.(*ssa.UnOp)
	if !ok || ld.Op != token.MUL {
		return ""
	}
	_, _, f := fieldNameOf(ld.X)
	return f
}

func c02PatchKind(w *World, r *Report) {
	cp := w.Fn("pkg/kube", "createPatch")
	if cp != nil {
		g := FullGraph(cp)
		var twoWay ssa.CallInstruction
		for _, c := range callInstrs(cp) {
			if f, _ := calleeOf(c.Common()); f != nil && f.Name() == "CreateMergePatch" {
				twoWay = c
			}
		}
		if twoWay != nil {
			// guards: comma-ok type assertions to runtime.Unstructured / CRD true edges
			var un []Edge
			for _, b := range cp.Blocks {
				for _, in := range b.Instrs {
					if ta, ok := in.(*ssa.TypeAssert); ok && ta.CommaOk && ta.Referrers() != nil {
						for _, rf := range *ta.Referrers() {
							if ex, ok := rf.(*ssa.Extract); ok && ex.Index == 1 {
								for _, e := range condEdges(ex) {
									if e.truth {
										un = append(un, e.Edge)
									}
								}
							}
						}
					}
				}
			}
			ex, _ := g.PathExists(entryPos(cp), posOf(twoWay), Avoid{}.withEdges(un...))
			r.Check(!ex && len(un) > 0, "C02/PATCH-KIND", "two-way-only-for-unstructured", w.InstrPos(twoWay), "the live-object-blind two-way patch is reachable only for unstructured objects / CRDs", "the two-way patch (which never looks at the live object) is reachable for typed built-in kinds")
		} else {
			r.OKTrivial("C02/PATCH-KIND", "two-way-only-for-unstructured", w.Pos(cp.Pos()), "no two-way patch in createPatch")
		}
	}
	cv := w.Fn("pkg/kube", "convertWithMapper")
	if cv == nil {
		r.Unk("C02/PATCH-KIND", "conversion/anchor", "-", "kube.convertWithMapper not found")
		return
	}
	r.Fn(FuncName(cv))
	g := FullGraph(cv)
	var mappingParam ssa.Value
	for _, p := range cv.Params {
		if strings.HasSuffix(p.Type().String(), "meta.RESTMapping") {
			mappingParam = p
		}
	}
	var conv ssa.CallInstruction
	for _, c := range callInstrs(cv) {
		if c.Common().IsInvoke() && c.Common().Method.Name() == "ConvertToVersion" {
			conv = c
		}
	}
	if mappingParam == nil || conv == nil {
		r.Unk("C02/PATCH-KIND", "conversion/shape", w.Pos(cv.Pos()), "convertWithMapper lost its mapping parameter or its ConvertToVersion call")
		return
	}
	// the instruction computing the mapping's own GroupVersion
	var own []ssa.Instruction
	for _, c := range callInstrs(cv) {
		if f, _ := calleeOf(c.Common()); f != nil && f.Name() == "GroupVersion" && derivesFromValue(c.Common().Args[0], mappingParam) {
			own = append(own, c)
		}
	}
	_, nonNil := nilTestEdges(mappingParam)
	ok := len(own) > 0 && len(nonNil) > 0
	for _, e := range nonNil {
		if len(e.To().Instrs) > 0 {
			if x, _ := g.PathExists(IPos{e.To(), -1}, posOf(conv), avoidInstrs(own...)); x {
				ok = false
			}
		}
	}
	r.Check(ok, "C02/PATCH-KIND", "conversion/own-version", w.InstrPos(conv), "with a mapping the object is converted to the mapping's own group/version", "with a mapping the object may be converted to another version than its own: the conversion fails for non-preferred versions and the patch silently degrades to a two-way merge that ignores the live object")
}

func c02Uninstall(w *World, r *Report) {
	fn := w.Fn("pkg/action", "filterManifestsToKeep")
	if fn == nil {
		r.Unk("C02/UNINSTALL-PARTITION", "anchor", "-", "action.filterManifestsToKeep not found")
		return
	}
	r.Fn(FuncName(fn))
	g := FullGraph(fn)
	var apps []ssa.Instruction
	for _, c := range callInstrs(fn) {
		if bi, ok := c.Common().Value.(*ssa.Builtin); ok && bi.Name() == "append" {
			apps = append(apps, c)
		}
	}
	nx := loopNextOf(fn)
	ok := len(apps) >= 2 && len(nx) > 0
	for _, n := range nx {
		if cyc, _ := g.PathExists(posOf(n), posOf(n), avoidInstrs(apps...)); cyc {
			ok = false
		}
	}
	r.Check(ok, "C02/UNINSTALL-PARTITION", "filterManifestsToKeep/every-manifest", w.Pos(fn.Pos()), "every manifest is appended to the keep list or the delete list", "a manifest can end up in neither list: it is neither deleted nor reported as kept")
	twice := false
	for i, a := range apps {
		for j, b := range apps {
			if i != j {
				if x, _ := g.PathExists(posOf(a), posOf(b), avoidInstrs(nx...)); x {
					twice = true
				}
			}
		}
	}
	r.Check(!twice, "C02/UNINSTALL-PARTITION", "filterManifestsToKeep/at-most-once", w.Pos(fn.Pos()), "no manifest is appended twice in one iteration", "a manifest can be appended to two lists")
	// deleteRelease: Build argument derives from result #1 (remaining) only; kept text from result #0
	dr := w.Fn("pkg/action", "Uninstall.deleteRelease")
	if dr == nil {
		r.Unk("C02/UNINSTALL-PARTITION", "deleteRelease/anchor", "-", "Uninstall.deleteRelease not found")
		return
	}
	r.Fn(FuncName(dr))
	var fc ssa.CallInstruction
	for _, c := range callInstrs(dr) {
		if f, _ := calleeOf(c.Common()); f != nil && origin(f) == fn {
			fc = c
		}
	}
	if fc == nil {
		r.Bad("C02/UNINSTALL-PARTITION", "deleteRelease/source", w.Pos(dr.Pos()), "uninstall does not filter the manifests by resource policy")
		return
	}
	keep, rem := resultN(fc, 0), resultN(fc, 1)
	okSrc := false
	for _, c := range callInstrs(dr) {
		if describeCall(c.Common()) == "pkg/kube.Interface.Build" {
			okSrc = derivesFromValue(c.Common().Args[0], rem) && !derivesFromValue(c.Common().Args[0], keep)
		}
	}
	r.Check(okSrc, "C02/UNINSTALL-PARTITION", "deleteRelease/source", w.InstrPos(fc), "the resources to delete are built from the delete list only", "the resources to delete are not built from the delete list only (kept resources would be deleted)")
}

// c02Applied: a revision is marked deployed only after the cluster was brought to its manifest: on every
// path to the "deployed" status write the operation has called the client's Create/Update on the
// manifest resources (apart from the path on which the resource list is empty). Update is also what
// repairs out-of-band edits and deletions, so "nothing changed in the manifest" is no reason to skip it.
func c02Applied(w *World, r *Report) {
	r.Rule("C02/APPLIED", "install, upgrade and rollback mark the new revision deployed only after the client's Create/Update on the manifest resources was called on that path (or the resource list is empty)", 3)
	ef := NewEffects(w)
	n := 0
	for _, fn := range w.FuncsIn("pkg/action") {
		if fn.Parent() != nil || isNewFunc(fn) || strings.HasSuffix(w.FileOf(fn), "_test.go") {
			continue
		}
		var deps []ssa.Instruction
		for _, rel := range releaseValues(fn) {
			for _, s := range statusStores(fn, rel) {
				if s.Status == "deployed" {
					deps = append(deps, s.Instr)
				}
			}
		}
		if len(deps) == 0 {
			continue
		}
		var applies []ssa.Instruction
		lists := map[ssa.Value]bool{}
		for _, c := range callInstrs(fn) {
			if ef.Leaf(c.Common()) != WCluster {
				continue
			}
			switch c.Common().Method.Name() {
			case "Create", "Update", "UpdateThreeWayMerge":
				applies = append(applies, c)
				for _, a := range c.Common().Args {
					if _, isSlice := a.Type().Underlying().(*types.Slice); isSlice {
						lists[a] = true
					}
				}
			}
		}
		if len(applies) == 0 {
			continue // not an operation that applies a manifest (uninstall, release testing, …)
		}
		n++
		r.Fn(FuncName(fn))
		g := FullGraph(fn)
		empty, _ := emptyEdges(fn, func(v ssa.Value) bool { return lists[v] })
		seen := map[string]int{}
		for _, d := range deps {
			if !g.Reachable()[d.Block()] {
				continue
			}
			key := FuncName(fn) + "/deployed"
			seen[key]++
			if seen[key] > 1 {
				key = fmt.Sprintf("%s#%d", key, seen[key])
			}
			ex, _ := g.PathExists(entryPos(fn), posOf(d), avoidInstrs(applies...).withEdges(empty...))
			r.Check(!ex, "C02/APPLIED", key, w.InstrPos(d), "the deployed status is written only after the client's Create/Update", "the revision can be marked deployed on a path that never called the client's Create/Update on its resources: the cluster is not brought to the manifest (drift from out-of-band edits or deletions stays) although the operation reports success")
		}
	}
	if n == 0 {
		r.Unk("C02/APPLIED", "no-site", "-", "no operation writes the deployed status after a cluster apply")
	}
}

// c02UninstallDeletes: uninstall reports success only after it asked the cluster to delete the
// release's resources — or after it found the record in status "uninstalled" (a previous uninstall
// --keep-history has already deleted them). No other state of the record is proof that nothing is left.
func c02UninstallDeletes(w *World, r *Report) {
	r.Rule("C02/UNINSTALL-DELETES", "every success return of a real uninstall lies behind the cluster delete of the release's resources or behind the test that the record's status is exactly uninstalled", 1)
	fn := w.Fn("pkg/action", "Uninstall.Run")
	obj := w.Named(actionPkg, "Uninstall")
	if fn == nil || obj == nil {
		r.Unk("C02/UNINSTALL-DELETES", "anchor", "-", "Uninstall.Run not found")
		return
	}
	r.Fn(FuncName(fn))
	ef := NewEffects(w)
	spec := NewSpec(w, obj, "DryRun=false", map[string]aval{"DryRun": boolV(false)})
	g := spec.Graph(fn)
	var dels []ssa.Instruction
	for _, c := range callInstrs(fn) {
		if ef.CallEffect(c.Common())&WCluster != 0 {
			// hook execution also writes to the cluster: only calls that can delete manifest resources count
			if f, _ := calleeOf(c.Common()); f != nil && inHelm(f) {
				reaches := false
				for _, s := range ef.EffectSites(f, WCluster) {
					if n := s.Instr.Common().Method; n != nil && strings.HasPrefix(n.Name(), "Delete") {
						reaches = true
					}
				}
				if !reaches {
					continue
				}
			}
			dels = append(dels, c)
		}
	}
	var isUninstalled []Edge
	for _, b := range fn.Blocks {
		for _, in := range b.Instrs {
			bo, ok := in.(*ssa.BinOp)
			if !ok || (bo.Op != token.EQL && bo.Op != token.NEQ) {
				continue
			}
			var other ssa.Value
			if s, ok := constString(bo.X); ok && s == "uninstalled" {
				other = bo.Y
			} else if s, ok := constString(bo.Y); ok && s == "uninstalled" {
				other = bo.X
			}
			ld, isLd := other.(*ssa.UnOp)
			if other == nil || !isLd {
				continue
			}
			if fa, ok := ld.X.(*ssa.FieldAddr); !ok || !isFieldOf(fa, relPkg, "Info", "Status") {
				continue
			}
			for _, e := range condEdges(bo) {
				if e.truth == (bo.Op == token.EQL) {
					isUninstalled = append(isUninstalled, e.Edge)
				}
			}
		}
	}
	// no record at all (the history lookup failed; --ignore-not-found): nothing to delete
	var noRecord []Edge
	for _, c := range callInstrs(fn) {
		if f, _ := calleeOf(c.Common()); f != nil && FuncName(f) == "(*pkg/storage.Storage).History" {
			_, bad := nilTestEdges(errResult(c))
			noRecord = append(noRecord, bad...)
		}
	}
	n := 0
	for i, rp := range g.classifyReturns() {
		if rp.Class != RetSuccess || !g.Reachable()[rp.Ret.Block()] {
			continue
		}
		n++
		ex, _ := g.PathExists(entryPos(fn), retPos(rp), avoidInstrs(dels...).withEdges(isUninstalled...).withEdges(noRecord...))
		r.Check(!ex && len(dels) > 0, "C02/UNINSTALL-DELETES", fmt.Sprintf("return#%d", i), w.InstrPos(rp.Ret), "success only after the cluster delete or for a record already in status uninstalled", "uninstall can report success (and purge the history) without deleting the release's resources although the record is not in status uninstalled: after an interrupted uninstall the leftover resources stay in the cluster with no release owning them")
	}
	if n == 0 {
		r.Unk("C02/UNINSTALL-DELETES", "no-success", w.Pos(fn.Pos()), "no success return in a real uninstall")
	}
}
