package main

// inline.go — normalisation of extract-function refactorings.
//
// Every rule of the checker is stated over the functions that exist on the reference tree (the tree
// on which the rule instances were confirmed by hand). A change that moves part of such a function
// into a NEW helper (function, method or local closure) leaves behaviour unchanged but would hide the
// moved statements from an intraprocedural rule. Before the program is type-checked for analysis,
// calls to helpers that do not exist in reference/funcs.txt are therefore expanded in place, at the
// syntax level, when that can be done exactly:
//
//   - callee declared in the same package, with a body, not generic, no defer/recover/labels/goto,
//     not (mutually) recursive;
//   - the call is the first call evaluated by its statement (so hoisting it in front of the statement
//     keeps the evaluation order), the statement is an expression, assignment, return, if, switch or
//     range statement, and the call is not under the right operand of && / || nor inside a literal;
//   - no package-level name used by the callee is shadowed at the call site.
//
// A call that does not satisfy this stays a call (and the rules treat the helper as any other callee).
// The expansion is semantics-preserving: arguments are evaluated once, in order, into temporaries;
// `return e` becomes an assignment to result temporaries and a labelled break. The expanded program is
// type-checked again; if that fails the expansion is abandoned and the unexpanded program is analysed.
// Nothing is expanded on a tree whose functions are all in the reference list.

import (
	"bufio"
	"fmt"
	"go/ast"
	"go/parser"
	"go/token"
	"go/types"
	"hash/fnv"
	"os"
	"path/filepath"
	"reflect"
	"sort"
	"strings"

	"golang.org/x/tools/go/packages"
)

// ---- reference list ----------------------------------------------------------------------------------

// refKeys scans the non-test Go files below dir (syntax only, every build configuration) and returns
// the keys of declared functions ("pkg/action:Install.failRelease", "pkg/action:newX") and of local
// variables bound to function literals ("pkg/action:Upgrade.releasingUpgrade/var:name").
func refKeys(dir string) (map[string]string, error) {
	keys := map[string]string{}
	fset := token.NewFileSet()
	err := filepath.Walk(dir, func(p string, fi os.FileInfo, err error) error {
		if err != nil {
			return nil
		}
		if fi.IsDir() {
			n := fi.Name()
			if p != dir && (strings.HasPrefix(n, ".") || strings.HasPrefix(n, "_") || n == "testdata" || n == "vendor") {
				return filepath.SkipDir
			}
			return nil
		}
		if !strings.HasSuffix(p, ".go") || strings.HasSuffix(p, "_test.go") {
			return nil
		}
		f, perr := parser.ParseFile(fset, p, nil, parser.SkipObjectResolution)
		if perr != nil || f == nil {
			return nil
		}
		rel, _ := filepath.Rel(dir, filepath.Dir(p))
		for _, d := range f.Decls {
			if gd, ok := d.(*ast.GenDecl); ok && gd.Tok == token.TYPE {
				for _, sp := range gd.Specs {
					if ts, ok := sp.(*ast.TypeSpec); ok {
						keys[filepath.ToSlash(rel)+":type:"+ts.Name.Name] = types.ExprString(ts.Type)
					}
				}
			}
			fd, ok := d.(*ast.FuncDecl)
			if !ok {
				continue
			}
			k := declKey(rel, fd)
			keys[k] = declSig(fd) + "|" + bodyShape(fd)
			if fd.Body != nil {
				for _, v := range closureVars(fd.Body) {
					keys[k+"/var:"+v] = "closure"
				}
			}
		}
		return nil
	})
	return keys, err
}

func declKey(rel string, fd *ast.FuncDecl) string {
	name := fd.Name.Name
	if fd.Recv != nil && len(fd.Recv.List) == 1 {
		name = recvTypeName(fd.Recv.List[0].Type) + "." + name
	}
	return filepath.ToSlash(rel) + ":" + name
}

// declSig: receiver form and parameter/result types, without names (syntactic, configuration independent).
func declSig(fd *ast.FuncDecl) string {
	var sb strings.Builder
	if fd.Recv != nil && len(fd.Recv.List) == 1 {
		if _, ptr := fd.Recv.List[0].Type.(*ast.StarExpr); ptr {
			sb.WriteString("(*)")
		} else {
			sb.WriteString("()")
		}
	}
	list := func(fl *ast.FieldList) {
		sb.WriteString("(")
		if fl != nil {
			for _, f := range fl.List {
				n := len(f.Names)
				if n == 0 {
					n = 1
				}
				for i := 0; i < n; i++ {
					sb.WriteString(types.ExprString(f.Type))
					sb.WriteString(",")
				}
			}
		}
		sb.WriteString(")")
	}
	list(fd.Type.Params)
	list(fd.Type.Results)
	return sb.String()
}

func recvTypeName(e ast.Expr) string {
	switch e := e.(type) {
	case *ast.StarExpr:
		return recvTypeName(e.X)
	case *ast.Ident:
		return e.Name
	case *ast.IndexExpr:
		return recvTypeName(e.X)
	case *ast.IndexListExpr:
		return recvTypeName(e.X)
	case *ast.ParenExpr:
		return recvTypeName(e.X)
	}
	return "?"
}

// closureVars lists local variables defined as `v := func…` / `var v = func…` in a body.
func closureVars(body *ast.BlockStmt) []string {
	var out []string
	ast.Inspect(body, func(n ast.Node) bool {
		switch s := n.(type) {
		case *ast.AssignStmt:
			if s.Tok == token.DEFINE && len(s.Lhs) == len(s.Rhs) {
				for i, r := range s.Rhs {
					if _, ok := r.(*ast.FuncLit); ok {
						if id, ok := s.Lhs[i].(*ast.Ident); ok && id.Name != "_" {
							out = append(out, id.Name)
						}
					}
				}
			}
		}
		return true
	})
	return out
}

func readRefList(path string) (map[string]string, error) {
	f, err := os.Open(path)
	if err != nil {
		return nil, err
	}
	defer f.Close()
	keys := map[string]string{}
	sc := bufio.NewScanner(f)
	sc.Buffer(make([]byte, 1<<20), 1<<20)
	for sc.Scan() {
		l := strings.TrimRight(sc.Text(), "\r\n ")
		if l == "" || strings.HasPrefix(l, "#") {
			continue
		}
		k, sig, _ := strings.Cut(l, "\t")
		keys[k] = sig
	}
	return keys, sc.Err()
}

type renEnt struct{ pkg, recv, name, sig, shape, key string }

// detectRenames pairs functions that vanished from the reference list with new functions of the same
// package that have the same receiver and the same signature; candidates are told apart by the shape
// of their bodies (syntax with identifier names erased). A pairing must be unique both ways. A renamed
// receiver type is recognised when the package lost exactly one receiver type and gained exactly one.
// Returns new key -> old key.
func detectRenames(ref, cur map[string]string) map[string]string {
	out := map[string]string{}
	// types: a vanished type and a new type of the same package with the same definition (after
	// substituting the type renames found so far)
	typeOld := map[string]map[string]string{} // pkg -> new name -> old name
	for pass := 0; pass < 3; pass++ {
		norm := func(pkg, def string) string {
			for n, o := range typeOld[pkg] {
				def = replaceWord(def, n, o)
			}
			return def
		}
		for k, def := range ref {
			pkg, name, ok := strings.Cut(k, ":type:")
			if !ok {
				continue
			}
			if _, still := cur[k]; still {
				continue
			}
			var cands []string
			for k2, def2 := range cur {
				pkg2, name2, ok2 := strings.Cut(k2, ":type:")
				if !ok2 || pkg2 != pkg {
					continue
				}
				if _, known := ref[k2]; known {
					continue
				}
				if _, used := out[k2]; used {
					continue
				}
				if norm(pkg, replaceWord(def2, name2, name)) == def {
					cands = append(cands, k2)
				}
			}
			if len(cands) == 1 {
				taken := false
				for _, o := range out {
					if o == k {
						taken = true
					}
				}
				if !taken {
					out[cands[0]] = k
					_, n2, _ := strings.Cut(cands[0], ":type:")
					if typeOld[pkg] == nil {
						typeOld[pkg] = map[string]string{}
					}
					typeOld[pkg][n2] = name
				}
			}
		}
	}
	normSig := func(pkg, sig string) string {
		for n, o := range typeOld[pkg] {
			sig = replaceWord(sig, n, o)
		}
		return sig
	}
	parse := func(k, v string) (renEnt, bool) {
		if strings.Contains(k, "/var:") || strings.Contains(k, ":type:") {
			return renEnt{}, false
		}
		pkg, rest, ok := strings.Cut(k, ":")
		if !ok {
			return renEnt{}, false
		}
		recv, name := "", rest
		if i := strings.Index(rest, "."); i >= 0 {
			recv, name = rest[:i], rest[i+1:]
		}
		sig, shape, _ := strings.Cut(v, "|")
		return renEnt{pkg, recv, name, sig, shape, k}, true
	}
	van := map[string][]renEnt{}
	fresh := map[string][]renEnt{}
	recvRef := map[string]map[string]bool{}
	recvCur := map[string]map[string]bool{}
	note := func(m map[string]map[string]bool, e renEnt) {
		if e.recv == "" {
			return
		}
		if m[e.pkg] == nil {
			m[e.pkg] = map[string]bool{}
		}
		m[e.pkg][e.recv] = true
	}
	for k, v := range ref {
		if e, ok := parse(k, v); ok {
			note(recvRef, e)
			if _, still := cur[k]; !still {
				van[e.pkg] = append(van[e.pkg], e)
			}
		}
	}
	for k, v := range cur {
		if e, ok := parse(k, v); ok {
			note(recvCur, e)
			if _, known := ref[k]; !known {
				fresh[e.pkg] = append(fresh[e.pkg], e)
			}
		}
	}
	for pkg, vs := range van {
		typeMap := map[string]string{}
		for n, o := range typeOld[pkg] {
			typeMap[o] = n
		}
		var goneT, newT []string
		for t := range recvRef[pkg] {
			if !recvCur[pkg][t] {
				goneT = append(goneT, t)
			}
		}
		for t := range recvCur[pkg] {
			if !recvRef[pkg][t] {
				newT = append(newT, t)
			}
		}
		if len(goneT) == 1 && len(newT) == 1 && typeMap[goneT[0]] == "" {
			typeMap[goneT[0]] = newT[0]
		}
		sameRecv := func(v, f renEnt) bool {
			return v.recv == f.recv || (typeMap[v.recv] != "" && typeMap[v.recv] == f.recv)
		}
		arity := func(sig string) int { return strings.Count(sig, ",")*16 + strings.Count(sig, "(") }
		for _, level := range []int{0, 1, 2} { // 0: signature and shape, 1: signature only, 2: shape and arity (a type in the signature was renamed too)
			match := func(v, f renEnt) bool {
				if !sameRecv(v, f) {
					return false
				}
				switch level {
				case 0:
					return v.sig == normSig(pkg, f.sig) && v.shape == f.shape
				case 1:
					return v.sig == normSig(pkg, f.sig)
				}
				return v.shape == f.shape && v.shape != "-" && arity(v.sig) == arity(f.sig)
			}
			taken := map[string]bool{}
			for _, o := range out {
				taken[o] = true
			}
			for _, v := range vs {
				if taken[v.key] {
					continue
				}
				var cands []renEnt
				for _, f := range fresh[pkg] {
					if _, used := out[f.key]; !used && match(v, f) {
						cands = append(cands, f)
					}
				}
				if len(cands) != 1 {
					continue
				}
				n := 0
				for _, v2 := range vs {
					if !taken[v2.key] && match(v2, cands[0]) {
						n++
					}
				}
				if n == 1 {
					out[cands[0].key] = v.key
				}
			}
		}
	}
	return out
}

// replaceWord substitutes whole identifiers.
func replaceWord(s, from, to string) string {
	if from == to || !strings.Contains(s, from) {
		return s
	}
	var sb strings.Builder
	isId := func(c byte) bool {
		return c == '_' || c >= '0' && c <= '9' || c >= 'a' && c <= 'z' || c >= 'A' && c <= 'Z'
	}
	for i := 0; i < len(s); {
		if strings.HasPrefix(s[i:], from) && (i == 0 || !isId(s[i-1])) && (i+len(from) == len(s) || !isId(s[i+len(from)])) {
			sb.WriteString(to)
			i += len(from)
			continue
		}
		sb.WriteByte(s[i])
		i++
	}
	return sb.String()
}

// bodyShape: a hash of the body's syntax with identifier names erased (stable under renames).
func bodyShape(fd *ast.FuncDecl) string {
	if fd.Body == nil {
		return "-"
	}
	h := fnv.New64a()
	ast.Inspect(fd.Body, func(n ast.Node) bool {
		if n == nil {
			h.Write([]byte(")"))
			return true
		}
		switch x := n.(type) {
		case *ast.Ident:
			h.Write([]byte("I"))
		case *ast.BasicLit:
			h.Write([]byte(x.Value))
		case *ast.BinaryExpr:
			h.Write([]byte(x.Op.String()))
		case *ast.UnaryExpr:
			h.Write([]byte(x.Op.String()))
		case *ast.AssignStmt:
			h.Write([]byte(x.Tok.String()))
		case *ast.BranchStmt:
			h.Write([]byte(x.Tok.String()))
		case *ast.CommentGroup, *ast.Comment:
			return false
		default:
			h.Write([]byte(fmt.Sprintf("%T(", n)))
		}
		return true
	})
	return fmt.Sprintf("%x", h.Sum64())
}

func writeRefList(path string, keys map[string]string) error {
	var ks []string
	for k, sig := range keys {
		ks = append(ks, k+"\t"+sig)
	}
	sort.Strings(ks)
	os.MkdirAll(filepath.Dir(path), 0o755)
	return os.WriteFile(path, []byte("# functions, methods and closure-bound locals of the reference tree with their signatures (helmverif -emit-ref)\n"+strings.Join(ks, "\n")+"\n"), 0o644)
}

// ---- cloning -------------------------------------------------------------------------------------------

var (
	objPtrType   = reflect.TypeOf((*ast.Object)(nil))
	scopePtrType = reflect.TypeOf((*ast.Scope)(nil))
)

func cloneValue(v reflect.Value) reflect.Value {
	switch v.Kind() {
	case reflect.Ptr:
		if v.IsNil() {
			return v
		}
		if v.Type() == objPtrType || v.Type() == scopePtrType {
			return reflect.Zero(v.Type())
		}
		n := reflect.New(v.Type().Elem())
		n.Elem().Set(cloneValue(v.Elem()))
		return n
	case reflect.Interface:
		if v.IsNil() {
			return v
		}
		c := cloneValue(v.Elem())
		n := reflect.New(v.Type()).Elem()
		n.Set(c)
		return n
	case reflect.Slice:
		if v.IsNil() {
			return v
		}
		n := reflect.MakeSlice(v.Type(), v.Len(), v.Len())
		for i := 0; i < v.Len(); i++ {
			n.Index(i).Set(cloneValue(v.Index(i)))
		}
		return n
	case reflect.Struct:
		n := reflect.New(v.Type()).Elem()
		for i := 0; i < v.NumField(); i++ {
			if n.Field(i).CanSet() {
				n.Field(i).Set(cloneValue(v.Field(i)))
			}
		}
		return n
	}
	return v
}

func cloneExpr(e ast.Expr) ast.Expr {
	if e == nil {
		return nil
	}
	return cloneValue(reflect.ValueOf(e)).Interface().(ast.Expr)
}

func cloneBlock(b *ast.BlockStmt) *ast.BlockStmt {
	return cloneValue(reflect.ValueOf(b)).Interface().(*ast.BlockStmt)
}

// ---- the inliner ---------------------------------------------------------------------------------------

type inlCallee struct {
	key     string
	pkg     *packages.Package
	file    *ast.File
	decl    *ast.FuncDecl // nil for a closure
	lit     *ast.FuncLit  // closure
	typ     *ast.FuncType
	body    *ast.BlockStmt
	free    map[string]types.Object // package-level / imported names used by signature and body (transitively)
	capt    map[string]types.Object // closure: captured locals
	ok      bool
	why     string
	done    bool // body already normalised (its own sites expanded)
	visited bool

	usesExpanded int
}

type inliner struct {
	w       *World
	newKeys map[string]bool
	byObj   map[types.Object]*inlCallee
	counter int
	log     []string
	touched map[*ast.File]bool
	stack   []*inlCallee
	keep    map[*ast.CallExpr]bool   // calls that stay calls
	decls   map[types.Object]*declAt // function declarations of the root packages
	pure    map[types.Object]int8    // 1 pure, 2 impure, 3 in progress
}

type declAt struct {
	pkg  *packages.Package
	decl *ast.FuncDecl
}

// InlineLog is kept for the evidence file.
var InlineLog []string

func relPkgDir(w *World, p *packages.Package) string {
	if len(p.CompiledGoFiles) == 0 {
		return ""
	}
	rel, _ := filepath.Rel(w.RepoDir, filepath.Dir(p.CompiledGoFiles[0]))
	return filepath.ToSlash(rel)
}

// planAndInline mutates the syntax trees of the loaded root packages; returns the files touched.
// VanishedIn: package directories (relative to the module) in which a reference function disappeared
// without a renamed successor.
var VanishedIn = map[string]bool{}

func stmtCount(b *ast.BlockStmt) int {
	n := 0
	ast.Inspect(b, func(x ast.Node) bool {
		if _, ok := x.(ast.Stmt); ok {
			n++
		}
		return true
	})
	return n
}

func planAndInline(w *World, ref map[string]bool) (map[string]*ast.File, []string, func()) { // ref: keys that are NOT new
	in := &inliner{w: w, byObj: map[types.Object]*inlCallee{}, touched: map[*ast.File]bool{}, newKeys: map[string]bool{}}
	// collect new helpers
	for _, p := range w.Roots {
		rel := relPkgDir(w, p)
		for _, f := range p.Syntax {
			for _, d := range f.Decls {
				fd, ok := d.(*ast.FuncDecl)
				if !ok || fd.Body == nil {
					continue
				}
				k := declKey(rel, fd)
				if !ref[k] {
					if VanishedIn[rel] && stmtCount(fd.Body) >= 30 {
						in.log = append(in.log, "not expanded: "+k+" (large, and a reference function of its package has no successor: taken for that successor in another form)")
						continue
					}
					if obj := p.TypesInfo.Defs[fd.Name]; obj != nil {
						c := &inlCallee{key: k, pkg: p, file: f, decl: fd, typ: fd.Type, body: fd.Body}
						in.byObj[obj] = c
					}
					continue // closures inside a new helper travel with it
				}
				// new closure-bound locals in reference functions
				ast.Inspect(fd.Body, func(n ast.Node) bool {
					s, ok := n.(*ast.AssignStmt)
					if !ok || s.Tok != token.DEFINE || len(s.Lhs) != len(s.Rhs) {
						return true
					}
					for i, r := range s.Rhs {
						lit, ok := r.(*ast.FuncLit)
						if !ok {
							continue
						}
						id, ok := s.Lhs[i].(*ast.Ident)
						if !ok || id.Name == "_" || ref[k+"/var:"+id.Name] {
							continue
						}
						if obj := p.TypesInfo.Defs[id]; obj != nil {
							in.byObj[obj] = &inlCallee{key: k + "/var:" + id.Name, pkg: p, file: f, lit: lit, typ: lit.Type, body: lit.Body}
						}
					}
					return true
				})
			}
		}
	}
	if len(in.byObj) == 0 {
		return nil, nil, nil
	}
	var cs []*inlCallee
	for _, c := range in.byObj {
		cs = append(cs, c)
	}
	sort.Slice(cs, func(i, j int) bool { return cs[i].key < cs[j].key })
	for _, c := range cs {
		in.qualify(c)
	}
	// expand sites in every function of the root packages (helpers first, through prepare())
	for _, p := range w.Roots {
		for _, f := range p.Syntax {
			for _, d := range f.Decls {
				fd, ok := d.(*ast.FuncDecl)
				if !ok || fd.Body == nil {
					continue
				}
				if c := in.byObj[p.TypesInfo.Defs[fd.Name]]; c != nil {
					in.prepare(c)
					continue
				}
				in.expandBody(p, f, fd.Body)
			}
		}
	}
	// a helper whose every use was expanded no longer exists in the normalised program
	saved := map[*ast.File][]ast.Decl{}
	for obj, c := range in.byObj {
		if c.decl == nil || c.usesExpanded == 0 || ast.IsExported(c.decl.Name.Name) {
			continue
		}
		uses := 0
		for _, o := range c.pkg.TypesInfo.Uses {
			if o == obj {
				uses++
			}
		}
		if uses != c.usesExpanded {
			continue
		}
		if _, ok := saved[c.file]; !ok {
			saved[c.file] = append([]ast.Decl{}, c.file.Decls...)
		}
		for i, d := range c.file.Decls {
			if d == ast.Decl(c.decl) {
				c.file.Decls = append(c.file.Decls[:i:i], c.file.Decls[i+1:]...)
				in.touched[c.file] = true
				in.log = append(in.log, "removed fully expanded helper "+c.key)
				break
			}
		}
	}
	undo := func() {
		for f, d := range saved {
			f.Decls = d
		}
	}
	out := map[string]*ast.File{}
	for _, p := range w.Roots {
		for i, f := range p.Syntax {
			if in.touched[f] && i < len(p.CompiledGoFiles) {
				out[p.CompiledGoFiles[i]] = f
			}
		}
	}
	sort.Strings(in.log)
	return out, in.log, undo
}

// qualify decides whether a callee can be expanded at all and computes its free package-level names.
func (in *inliner) qualify(c *inlCallee) {
	c.ok = true
	fail := func(s string) { c.ok = false; c.why = s }
	if c.decl != nil {
		if c.decl.Type.TypeParams != nil && len(c.decl.Type.TypeParams.List) > 0 {
			fail("generic")
			return
		}
		if c.decl.Recv != nil {
			switch t := c.decl.Recv.List[0].Type.(type) {
			case *ast.Ident:
			case *ast.StarExpr:
				if _, ok := t.X.(*ast.Ident); !ok {
					fail("generic receiver")
					return
				}
			default:
				fail("generic receiver")
				return
			}
		}
	}
	info := c.pkg.TypesInfo
	c.free = map[string]types.Object{}
	c.capt = map[string]types.Object{}
	var inner token.Pos = c.body.Pos()
	if c.lit != nil {
		inner = c.lit.Pos()
	}
	end := c.body.End()
	scan := func(n ast.Node) {
		ast.Inspect(n, func(n ast.Node) bool {
			switch x := n.(type) {
			case *ast.DeferStmt:
				fail("defer")
			case *ast.LabeledStmt:
				fail("label")
			case *ast.BranchStmt:
				if x.Tok == token.GOTO {
					fail("goto")
				}
			case *ast.Ident:
				obj := info.Uses[x]
				if obj == nil {
					return true
				}
				if b, ok := obj.(*types.Builtin); ok && b.Name() == "recover" {
					fail("recover")
				}
				if _, isPkg := obj.(*types.PkgName); isPkg {
					c.free[x.Name] = obj
					return true
				}
				if obj.Pkg() == nil {
					return true // universe
				}
				if obj.Parent() == obj.Pkg().Scope() {
					if obj.Pkg() == c.pkg.Types {
						c.free[x.Name] = obj
					}
					return true
				}
				// local object declared outside the literal: captured
				if c.lit != nil && obj.Parent() != nil && obj.Pos().IsValid() && (obj.Pos() < inner || obj.Pos() >= end) {
					c.capt[x.Name] = obj
				}
			}
			return true
		})
	}
	scan(c.typ)
	if c.decl != nil && c.decl.Recv != nil {
		scan(c.decl.Recv)
	}
	scan(c.body)
	// struct-literal keys and selector names resolve through Uses as fields: they were filtered by Parent()==pkg scope
}

// prepare normalises a helper's own body first (nested helpers), detecting recursion.
func (in *inliner) prepare(c *inlCallee) {
	if c.done || !c.ok {
		return
	}
	if c.visited {
		c.ok = false
		c.why = "recursive"
		return
	}
	c.visited = true
	in.stack = append(in.stack, c)
	in.expandBody(c.pkg, c.file, c.body)
	in.stack = in.stack[:len(in.stack)-1]
	c.done = true
}

// ---- walking a body ----------------------------------------------------------------------------------

func (in *inliner) expandBody(p *packages.Package, f *ast.File, body *ast.BlockStmt) {
	in.expandList(p, f, &body.List)
}

// realCall: a call expression that is neither a conversion nor a builtin.
func isRealCall(info *types.Info, c *ast.CallExpr) bool {
	if tv, ok := info.Types[c.Fun]; ok && tv.IsType() {
		return false
	}
	fun := ast.Unparen(c.Fun)
	if id, ok := fun.(*ast.Ident); ok {
		if _, isB := info.Uses[id].(*types.Builtin); isB {
			return false
		}
	}
	return true
}

// calleeAt resolves an expandable callee for a call expression.
func (in *inliner) calleeAt(p *packages.Package, call *ast.CallExpr) *inlCallee {
	if in.keep[call] {
		return nil
	}
	info := p.TypesInfo
	switch fun := ast.Unparen(call.Fun).(type) {
	case *ast.Ident:
		if c := in.byObj[info.Uses[fun]]; c != nil && c.pkg == p {
			return c
		}
	case *ast.SelectorExpr:
		sel := info.Selections[fun]
		if sel == nil || sel.Kind() != types.MethodVal {
			return nil
		}
		if c := in.byObj[sel.Obj()]; c != nil && c.pkg == p && c.decl != nil && c.decl.Recv != nil && len(sel.Index()) == 1 {
			return c
		}
	}
	return nil
}

// firstHoistable returns the first call evaluated by the expressions es when it is an expandable call
// that is not conditional; nil otherwise.
func (in *inliner) firstHoistable(p *packages.Package, es []ast.Expr) (*ast.CallExpr, *inlCallee) {
	info := p.TypesInfo
	var found *ast.CallExpr
	var fc *inlCallee
	stop := false
	passedPure := false
	var visit func(e ast.Node, cond bool)
	visit = func(e ast.Node, cond bool) {
		if stop || e == nil {
			return
		}
		switch x := e.(type) {
		case *ast.FuncLit:
			return
		case *ast.BinaryExpr:
			visit(x.X, cond)
			if x.Op == token.LAND || x.Op == token.LOR {
				visit(x.Y, true)
			} else {
				visit(x.Y, cond)
			}
			return
		case *ast.UnaryExpr:
			if x.Op == token.ARROW {
				visit(x.X, cond)
				stop = true // a receive is an event: nothing after it may be hoisted
				return
			}
		case *ast.CallExpr:
			if !isRealCall(info, x) {
				visit(x.Fun, cond)
				for _, a := range x.Args {
					visit(a, cond)
				}
				return
			}
			if c := in.calleeAt(p, x); c != nil && !cond {
				// its own operands are evaluated first, but they travel with the hoisted call; when calls
				// without effects were passed on the way, the helper must be without effects as well
				if !passedPure || (c.decl != nil && in.pureDecl(c.pkg, c.decl)) {
					found, fc = x, c
					stop = true
					return
				}
			}
			visit(x.Fun, cond)
			for _, a := range x.Args {
				visit(a, cond)
			}
			if stop {
				return
			}
			if in.pureCall(p, x) {
				// a call without effects: a later pure helper may be evaluated before it
				passedPure = true
				return
			}
			stop = true // some other call comes first
			return
		}
		// generic descent in source order
		ast.Inspect(e, func(n ast.Node) bool {
			if n == nil || n == e {
				return n != nil
			}
			if ex, ok := n.(ast.Expr); ok {
				visit(ex, cond)
				return false
			}
			return true
		})
	}
	for _, e := range es {
		visit(e, false)
		if stop {
			break
		}
	}
	return found, fc
}

// replaceExpr substitutes `to` for the node `from` below root (root itself is handled by the caller).
func replaceExpr(root ast.Node, from ast.Expr, to []ast.Expr) bool {
	done := false
	var walk func(v reflect.Value)
	walk = func(v reflect.Value) {
		if done {
			return
		}
		switch v.Kind() {
		case reflect.Ptr:
			if v.IsNil() || v.Type() == objPtrType || v.Type() == scopePtrType {
				return
			}
			walk(v.Elem())
		case reflect.Interface:
			if v.IsNil() {
				return
			}
			if v.CanSet() && v.Elem().Kind() == reflect.Ptr && v.Elem().Interface() == interface{}(from) && len(to) == 1 {
				v.Set(reflect.ValueOf(to[0]))
				done = true
				return
			}
			walk(v.Elem())
		case reflect.Slice:
			for i := 0; i < v.Len(); i++ {
				el := v.Index(i)
				if el.Kind() == reflect.Interface && !el.IsNil() && el.Elem().Kind() == reflect.Ptr && el.Elem().Interface() == interface{}(from) {
					if len(to) == 1 {
						el.Set(reflect.ValueOf(to[0]))
						done = true
						return
					}
					if v.Len() == 1 && v.CanSet() && v.Type().Elem() == reflect.TypeOf((*ast.Expr)(nil)).Elem() {
						ns := reflect.MakeSlice(v.Type(), len(to), len(to))
						for k, t := range to {
							ns.Index(k).Set(reflect.ValueOf(t))
						}
						v.Set(ns)
						done = true
						return
					}
					return
				}
				walk(el)
				if done {
					return
				}
			}
		case reflect.Struct:
			for i := 0; i < v.NumField(); i++ {
				walk(v.Field(i))
				if done {
					return
				}
			}
		}
	}
	walk(reflect.ValueOf(root))
	return done
}

func ident(name string, pos token.Pos) *ast.Ident { return &ast.Ident{Name: name, NamePos: pos} }

// expandList processes a statement list in place.
func (in *inliner) expandList(p *packages.Package, f *ast.File, list *[]ast.Stmt) {
	for i := 0; i < len(*list); i++ {
		s := (*list)[i]
		// 1. statement forms whose header expressions must first be moved into a block
		switch x := s.(type) {
		case *ast.IfStmt:
			in.normaliseIf(p, f, x)
			if x.Init != nil && in.headerHasCallee(p, x.Init, x.Cond) {
				blk := &ast.BlockStmt{Lbrace: x.Pos(), Rbrace: x.End()}
				if x.Init != nil {
					blk.List = append(blk.List, x.Init)
					x.Init = nil
				}
				blk.List = append(blk.List, x)
				(*list)[i] = blk
				s = blk
				in.touched[f] = true
			}
		case *ast.SwitchStmt:
			if x.Init != nil && in.headerHasCallee(p, x.Init, x.Tag) {
				blk := &ast.BlockStmt{Lbrace: x.Pos(), Rbrace: x.End()}
				if x.Init != nil {
					blk.List = append(blk.List, x.Init)
					x.Init = nil
				}
				blk.List = append(blk.List, x)
				(*list)[i] = blk
				s = blk
				in.touched[f] = true
			}
		}
		// 2. hoist expandable calls evaluated first by this statement
		for guard := 0; guard < 8; guard++ {
			var es []ast.Expr
			switch x := s.(type) {
			case *ast.ExprStmt:
				es = []ast.Expr{x.X}
			case *ast.AssignStmt:
				lhsSimple := true
				for _, l := range x.Lhs {
					if _, ok := l.(*ast.Ident); !ok {
						if !in.callFree(p, l) {
							lhsSimple = false
						}
					}
				}
				if lhsSimple {
					es = x.Rhs
				}
			case *ast.ReturnStmt:
				es = x.Results
			case *ast.IfStmt:
				if x.Init == nil {
					es = []ast.Expr{x.Cond}
				}
			case *ast.SwitchStmt:
				if x.Init == nil && x.Tag != nil {
					es = []ast.Expr{x.Tag}
				}
			case *ast.RangeStmt:
				es = []ast.Expr{x.X}
			case *ast.DeclStmt:
				if gd, ok := x.Decl.(*ast.GenDecl); ok && gd.Tok == token.VAR && len(gd.Specs) == 1 {
					if vs, ok := gd.Specs[0].(*ast.ValueSpec); ok {
						es = vs.Values
					}
				}
			}
			if len(es) == 0 {
				break
			}
			call, c := in.firstHoistable(p, es)
			if call == nil {
				break
			}
			pre, results, ok := in.expandCall(p, f, call, c, s)
			if !ok {
				break
			}
			// substitute results for the call
			switch x := s.(type) {
			case *ast.ExprStmt:
				if x.X == ast.Expr(call) || ast.Unparen(x.X) == ast.Expr(call) {
					// statement disappears (results discarded)
					var discard ast.Stmt
					if len(results) > 0 {
						lhs := make([]ast.Expr, len(results))
						for k := range lhs {
							lhs[k] = ident("_", call.Pos())
						}
						discard = &ast.AssignStmt{Lhs: lhs, Tok: token.ASSIGN, Rhs: results, TokPos: call.Pos()}
					} else {
						discard = &ast.EmptyStmt{Semicolon: call.Pos(), Implicit: true}
					}
					s = discard
					(*list)[i] = s
				} else {
					replaceExpr(x, call, results)
				}
			default:
				if !replaceExpr(s, call, results) {
					in.log = append(in.log, fmt.Sprintf("internal: could not substitute results of %s", c.key))
				}
			}
			// splice pre before s
			nl := append([]ast.Stmt{}, (*list)[:i]...)
			nl = append(nl, pre...)
			nl = append(nl, (*list)[i:]...)
			*list = nl
			in.touched[f] = true
			s = (*list)[i] // continue with the first spliced statement (arguments may hold further sites)
		}
		// 3. recurse into nested statement lists (after hoisting, so that positions are stable)
		in.expandNested(p, f, (*list)[i])
	}
	// 4. closure definitions whose every use was expanded are dropped
	in.dropDeadClosures(p, f, list)
}

func (in *inliner) callFree(p *packages.Package, e ast.Expr) bool {
	free := true
	ast.Inspect(e, func(n ast.Node) bool {
		if c, ok := n.(*ast.CallExpr); ok && isRealCall(p.TypesInfo, c) {
			free = false
		}
		if u, ok := n.(*ast.UnaryExpr); ok && u.Op == token.ARROW {
			free = false
		}
		return free
	})
	return free
}

func (in *inliner) headerHasCallee(p *packages.Package, init ast.Stmt, e ast.Expr) bool {
	has := false
	chk := func(n ast.Node) {
		if n == nil || reflect.ValueOf(n).IsNil() {
			return
		}
		ast.Inspect(n, func(n ast.Node) bool {
			if _, ok := n.(*ast.FuncLit); ok {
				return false
			}
			if c, ok := n.(*ast.CallExpr); ok && in.calleeAt(p, c) != nil && in.calleeAt(p, c).ok {
				has = true
			}
			return !has
		})
	}
	if init != nil {
		chk(init)
	}
	if e != nil {
		chk(e)
	}
	return has
}

// normaliseIf turns `else if init; cond` with an expandable call in its header into `else { if … }`.
func (in *inliner) normaliseIf(p *packages.Package, f *ast.File, x *ast.IfStmt) {
	if ei, ok := x.Else.(*ast.IfStmt); ok {
		if in.headerHasCallee(p, ei.Init, ei.Cond) {
			x.Else = &ast.BlockStmt{Lbrace: ei.Pos(), List: []ast.Stmt{ei}, Rbrace: ei.End()}
			in.touched[f] = true
		}
	}
}

func (in *inliner) expandNested(p *packages.Package, f *ast.File, s ast.Stmt) {
	switch x := s.(type) {
	case *ast.BlockStmt:
		in.expandList(p, f, &x.List)
	case *ast.IfStmt:
		in.expandList(p, f, &x.Body.List)
		switch e := x.Else.(type) {
		case *ast.BlockStmt:
			in.expandList(p, f, &e.List)
		case *ast.IfStmt:
			in.normaliseIf(p, f, x)
			if b, ok := x.Else.(*ast.BlockStmt); ok {
				in.expandList(p, f, &b.List)
			} else {
				in.expandNested(p, f, e)
			}
		}
	case *ast.ForStmt:
		in.expandList(p, f, &x.Body.List)
	case *ast.RangeStmt:
		in.expandList(p, f, &x.Body.List)
	case *ast.SwitchStmt:
		for _, cc := range x.Body.List {
			in.expandList(p, f, &cc.(*ast.CaseClause).Body)
		}
	case *ast.TypeSwitchStmt:
		for _, cc := range x.Body.List {
			in.expandList(p, f, &cc.(*ast.CaseClause).Body)
		}
	case *ast.SelectStmt:
		for _, cc := range x.Body.List {
			in.expandList(p, f, &cc.(*ast.CommClause).Body)
		}
	case *ast.LabeledStmt:
		in.expandNested(p, f, x.Stmt)
	}
	// function literals anywhere in the statement's own expressions
	ast.Inspect(s, func(n ast.Node) bool {
		switch n := n.(type) {
		case *ast.BlockStmt:
			return n == s // nested blocks were handled above
		case *ast.FuncLit:
			if c := in.litCallee(n); c != nil {
				return false // an expandable closure definition: its body is prepared on demand
			}
			in.expandList(p, f, &n.Body.List)
			return false
		}
		return true
	})
}

func (in *inliner) litCallee(l *ast.FuncLit) *inlCallee {
	for _, c := range in.byObj {
		if c.lit == l {
			return c
		}
	}
	return nil
}

// ---- expanding one call ------------------------------------------------------------------------------

func (in *inliner) expandCall(p *packages.Package, f *ast.File, call *ast.CallExpr, c *inlCallee, at ast.Stmt) (pre []ast.Stmt, results []ast.Expr, ok bool) {
	skip := func(why string) ([]ast.Stmt, []ast.Expr, bool) {
		in.log = append(in.log, fmt.Sprintf("kept call to %s at %s: %s", c.key, in.w.Pos(call.Pos()), why))
		// make sure the search for further sites in this statement terminates
		in.blocked(call)
		return nil, nil, false
	}
	if !c.ok {
		return skip(c.why)
	}
	for _, s := range in.stack {
		if s == c {
			c.ok, c.why = false, "recursive"
			return skip("recursive")
		}
	}
	in.prepare(c)
	if !c.ok {
		return skip(c.why)
	}
	info := p.TypesInfo
	// shadowing of the callee's free names at the site
	sc := p.Types.Scope().Innermost(call.Pos())
	if sc == nil {
		return skip("no scope")
	}
	for name, obj := range c.free {
		if _, o := sc.LookupParent(name, call.Pos()); o != obj {
			if _, isPkg := obj.(*types.PkgName); isPkg {
				// another file of the package: the import must be visible in this file under the same name
				if o2, ok := o.(*types.PkgName); ok && o2.Imported() == obj.(*types.PkgName).Imported() {
					continue
				}
				if o == nil {
					if in.addImport(f, obj.(*types.PkgName)) {
						continue
					}
				}
			}
			return skip("name " + name + " is shadowed at the call site")
		}
	}
	for name, obj := range c.capt {
		if _, o := sc.LookupParent(name, call.Pos()); o != obj {
			return skip("captured variable " + name + " is shadowed at the call site")
		}
	}
	sig, _ := info.TypeOf(call.Fun).(*types.Signature)
	if sig == nil {
		return skip("no signature")
	}
	if call.Ellipsis.IsValid() && !sig.Variadic() {
		return skip("ellipsis")
	}
	nres := sig.Results().Len()
	// multi-value results only where the call is the whole right-hand side
	if nres > 1 {
		okCtx := false
		switch x := at.(type) {
		case *ast.AssignStmt:
			okCtx = len(x.Rhs) == 1 && ast.Unparen(x.Rhs[0]) == ast.Expr(call)
		case *ast.ReturnStmt:
			okCtx = len(x.Results) == 1 && ast.Unparen(x.Results[0]) == ast.Expr(call)
		case *ast.ExprStmt:
			okCtx = ast.Unparen(x.X) == ast.Expr(call)
		}
		if !okCtx {
			return skip("multi-value call inside an expression")
		}
	}
	if len(call.Args) == 1 && sig.Params().Len() > 1 {
		return skip("multi-value argument")
	}
	in.counter++
	pfx := fmt.Sprintf("__i%d_", in.counter)
	pos := call.Pos()
	label := ident(pfx+"L", pos)

	var inner []ast.Stmt // statements at the top of the loop body: parameter bindings
	var bindL, bindR []ast.Expr

	declVar := func(name string, typ ast.Expr, val ast.Expr) ast.Stmt {
		vs := &ast.ValueSpec{Names: []*ast.Ident{ident(name, pos)}, Type: typ}
		if val != nil {
			vs.Values = []ast.Expr{val}
		}
		return &ast.DeclStmt{Decl: &ast.GenDecl{Tok: token.VAR, TokPos: pos, Specs: []ast.Spec{vs}}}
	}
	// receiver
	if c.decl != nil && c.decl.Recv != nil {
		sel := ast.Unparen(call.Fun).(*ast.SelectorExpr)
		rfield := c.decl.Recv.List[0]
		_, declPtr := rfield.Type.(*ast.StarExpr)
		xt := info.TypeOf(sel.X)
		if xt == nil {
			return skip("receiver type")
		}
		_, argPtr := xt.Underlying().(*types.Pointer)
		var rx ast.Expr = sel.X
		switch {
		case declPtr && !argPtr:
			rx = &ast.UnaryExpr{Op: token.AND, X: sel.X, OpPos: pos}
		case !declPtr && argPtr:
			rx = &ast.StarExpr{X: sel.X, Star: pos}
		}
		pre = append(pre, declVar(pfx+"recv", cloneExpr(rfield.Type), rx))
		if len(rfield.Names) == 1 && rfield.Names[0].Name != "_" {
			bindL = append(bindL, ident(rfield.Names[0].Name, pos))
			bindR = append(bindR, ident(pfx+"recv", pos))
		} else {
			pre = append(pre, &ast.AssignStmt{Lhs: []ast.Expr{ident("_", pos)}, Tok: token.ASSIGN, Rhs: []ast.Expr{ident(pfx+"recv", pos)}})
		}
	}
	// parameters
	type param struct {
		name string
		typ  ast.Expr
		vari bool
	}
	var params []param
	if c.typ.Params != nil {
		for _, fl := range c.typ.Params.List {
			t := fl.Type
			vari := false
			if el, ok := t.(*ast.Ellipsis); ok {
				t = &ast.ArrayType{Elt: el.Elt, Lbrack: el.Pos()}
				vari = true
			}
			if len(fl.Names) == 0 {
				params = append(params, param{"_", t, vari})
			}
			for _, n := range fl.Names {
				params = append(params, param{n.Name, t, vari})
			}
		}
	}
	for k, pa := range params {
		var val ast.Expr
		switch {
		case pa.vari && call.Ellipsis.IsValid():
			if k >= len(call.Args) {
				return skip("argument count")
			}
			val = call.Args[k]
		case pa.vari:
			if k < len(call.Args) {
				val = &ast.CompositeLit{Type: cloneExpr(pa.typ), Elts: append([]ast.Expr{}, call.Args[k:]...), Lbrace: pos, Rbrace: pos}
			} else {
				val = nil // nil slice
			}
		default:
			if k >= len(call.Args) {
				return skip("argument count")
			}
			val = call.Args[k]
		}
		tmp := fmt.Sprintf("%sp%d", pfx, k)
		pre = append(pre, declVar(tmp, cloneExpr(pa.typ), val))
		if pa.name != "_" {
			bindL = append(bindL, ident(pa.name, pos))
			bindR = append(bindR, ident(tmp, pos))
		} else {
			pre = append(pre, &ast.AssignStmt{Lhs: []ast.Expr{ident("_", pos)}, Tok: token.ASSIGN, Rhs: []ast.Expr{ident(tmp, pos)}})
		}
	}
	if len(bindL) > 0 {
		inner = append(inner, &ast.AssignStmt{Lhs: bindL, Tok: token.DEFINE, Rhs: bindR, TokPos: pos})
		blanks := make([]ast.Expr, len(bindL))
		uses := make([]ast.Expr, len(bindL))
		for k := range bindL {
			blanks[k] = ident("_", pos)
			uses[k] = ident(bindL[k].(*ast.Ident).Name, pos)
		}
		inner = append(inner, &ast.AssignStmt{Lhs: blanks, Tok: token.ASSIGN, Rhs: uses, TokPos: pos})
	}
	// results
	var named []string
	var resTypes []ast.Expr
	if c.typ.Results != nil {
		for _, fl := range c.typ.Results.List {
			if len(fl.Names) == 0 {
				resTypes = append(resTypes, fl.Type)
				named = append(named, "")
			}
			for _, n := range fl.Names {
				resTypes = append(resTypes, fl.Type)
				named = append(named, n.Name)
			}
		}
	}
	if len(resTypes) != nres {
		return skip("result count")
	}
	var resIdents []ast.Expr
	for k, t := range resTypes {
		tmp := fmt.Sprintf("%sr%d", pfx, k)
		pre = append(pre, declVar(tmp, cloneExpr(t), nil))
		resIdents = append(resIdents, ident(tmp, pos))
		results = append(results, ident(tmp, pos))
		if named[k] != "" && named[k] != "_" {
			inner = append(inner, declVar(named[k], cloneExpr(t), nil))
			inner = append(inner, &ast.AssignStmt{Lhs: []ast.Expr{ident("_", pos)}, Tok: token.ASSIGN, Rhs: []ast.Expr{ident(named[k], pos)}})
		}
	}
	body := cloneBlock(c.body)
	rewriteReturns(body, label.Name, resIdents, named, pos)
	loopBody := &ast.BlockStmt{Lbrace: pos, Rbrace: pos}
	loopBody.List = append(loopBody.List, inner...)
	loopBody.List = append(loopBody.List, body.List...)
	loopBody.List = append(loopBody.List, &ast.BranchStmt{Tok: token.BREAK, Label: ident(label.Name, pos), TokPos: pos})
	pre = append(pre, &ast.LabeledStmt{Label: label, Colon: pos, Stmt: &ast.ForStmt{For: pos, Body: loopBody}})
	in.log = append(in.log, fmt.Sprintf("expanded %s at %s", c.key, in.w.Pos(call.Pos())))
	c.usesExpanded++
	return pre, results, true
}

// blocked remembers calls that must stay calls, so that firstHoistable does not return them again.
func (in *inliner) blocked(call *ast.CallExpr) {
	// wrapping the callee in parentheses twice is harmless to the type checker and makes calleeAt
	// resolve it the same way; instead we mark the callee expression with a sentinel ParenExpr and
	// teach calleeAt about it via the map below.
	if in.keep == nil {
		in.keep = map[*ast.CallExpr]bool{}
	}
	in.keep[call] = true
}

// rewriteReturns replaces the return statements of the cloned body (not those of nested literals).
func rewriteReturns(body *ast.BlockStmt, label string, res []ast.Expr, named []string, pos token.Pos) {
	var fix func(list []ast.Stmt)
	mk := func(r *ast.ReturnStmt) ast.Stmt {
		blk := &ast.BlockStmt{Lbrace: r.Pos(), Rbrace: r.End()}
		if len(res) > 0 {
			var rhs []ast.Expr
			if len(r.Results) == 0 {
				for _, n := range named {
					rhs = append(rhs, ident(n, r.Pos()))
				}
			} else {
				rhs = r.Results
			}
			lhs := make([]ast.Expr, len(res))
			for k := range res {
				lhs[k] = ident(res[k].(*ast.Ident).Name, r.Pos())
			}
			blk.List = append(blk.List, &ast.AssignStmt{Lhs: lhs, Tok: token.ASSIGN, Rhs: rhs, TokPos: r.Pos()})
		}
		blk.List = append(blk.List, &ast.BranchStmt{Tok: token.BREAK, Label: ident(label, r.Pos()), TokPos: r.Pos()})
		return blk
	}
	var fixStmt func(s ast.Stmt) ast.Stmt
	fixStmt = func(s ast.Stmt) ast.Stmt {
		switch x := s.(type) {
		case *ast.ReturnStmt:
			return mk(x)
		case *ast.BlockStmt:
			fix(x.List)
		case *ast.IfStmt:
			fix(x.Body.List)
			if x.Else != nil {
				x.Else = fixStmt(x.Else)
			}
		case *ast.ForStmt:
			fix(x.Body.List)
		case *ast.RangeStmt:
			fix(x.Body.List)
		case *ast.SwitchStmt:
			for _, cc := range x.Body.List {
				fix(cc.(*ast.CaseClause).Body)
			}
		case *ast.TypeSwitchStmt:
			for _, cc := range x.Body.List {
				fix(cc.(*ast.CaseClause).Body)
			}
		case *ast.SelectStmt:
			for _, cc := range x.Body.List {
				fix(cc.(*ast.CommClause).Body)
			}
		case *ast.LabeledStmt:
			x.Stmt = fixStmt(x.Stmt)
		}
		return s
	}
	fix = func(list []ast.Stmt) {
		for i, s := range list {
			list[i] = fixStmt(s)
		}
	}
	fix(body.List)
}

// addImport makes the import behind pn visible in file f (same local name) when the name is free.
func (in *inliner) addImport(f *ast.File, pn *types.PkgName) bool {
	path := pn.Imported().Path()
	for _, im := range f.Imports {
		if strings.Trim(im.Path.Value, `"`) == path {
			return false // imported under another name: give up
		}
	}
	spec := &ast.ImportSpec{Path: &ast.BasicLit{Kind: token.STRING, Value: `"` + path + `"`}}
	if pn.Name() != pn.Imported().Name() {
		spec.Name = ident(pn.Name(), token.NoPos)
	}
	gd := &ast.GenDecl{Tok: token.IMPORT, Specs: []ast.Spec{spec}}
	f.Decls = append([]ast.Decl{gd}, f.Decls...)
	f.Imports = append(f.Imports, spec)
	in.touched[f] = true
	return true
}

// dropDeadClosures removes `v := func…` definitions of new closures that are no longer referenced.
func (in *inliner) dropDeadClosures(p *packages.Package, f *ast.File, list *[]ast.Stmt) {
	for i := 0; i < len(*list); i++ {
		as, ok := (*list)[i].(*ast.AssignStmt)
		if !ok || as.Tok != token.DEFINE || len(as.Lhs) != 1 || len(as.Rhs) != 1 {
			continue
		}
		id, ok := as.Lhs[0].(*ast.Ident)
		if !ok {
			continue
		}
		c := in.byObj[p.TypesInfo.Defs[id]]
		if c == nil || c.lit == nil {
			continue
		}
		// still referenced?
		used := false
		for _, s := range *list {
			ast.Inspect(s, func(n ast.Node) bool {
				if x, ok := n.(*ast.Ident); ok && x != id {
					if p.TypesInfo.Uses[x] == p.TypesInfo.Defs[id] {
						used = true
					} else if x.Name == id.Name && p.TypesInfo.Uses[x] == nil && p.TypesInfo.Defs[x] == nil {
						used = true // an identifier of an expanded copy
					}
				}
				return !used
			})
		}
		if used {
			in.prepare(c)
			continue
		}
		*list = append((*list)[:i:i], (*list)[i+1:]...)
		i--
		in.touched[f] = true
	}
}

// ---- effect-free functions (syntactic, conservative) -----------------------------------------------

var pureStd = map[string]map[string]bool{
	"strings":               nil, // whole package
	"strconv":               nil,
	"path":                  nil,
	"unicode":               nil,
	"unicode/utf8":          nil,
	"path/filepath":         {"Base": true, "Clean": true, "Join": true, "Dir": true, "Ext": true, "IsAbs": true, "ToSlash": true, "FromSlash": true, "Split": true, "VolumeName": true},
	"fmt":                   {"Sprintf": true, "Sprint": true, "Errorf": true, "Sprintln": true},
	"errors":                {"New": true, "Is": true, "As": false},
	"github.com/pkg/errors": {"New": true, "Errorf": true, "Wrap": true, "Wrapf": true},
}

func (in *inliner) indexDecls() {
	if in.decls != nil {
		return
	}
	in.decls = map[types.Object]*declAt{}
	in.pure = map[types.Object]int8{}
	for _, p := range in.w.Roots {
		for _, f := range p.Syntax {
			for _, d := range f.Decls {
				if fd, ok := d.(*ast.FuncDecl); ok && fd.Body != nil {
					if obj := p.TypesInfo.Defs[fd.Name]; obj != nil {
						in.decls[obj] = &declAt{p, fd}
					}
				}
			}
		}
	}
}

// pureCall: the call has no effect besides computing its result (conversion, builtin without writes,
// an allow-listed standard function, or a helm function whose body is effect-free by the same test).
func (in *inliner) pureCall(p *packages.Package, call *ast.CallExpr) bool {
	in.indexDecls()
	info := p.TypesInfo
	if !isRealCall(info, call) {
		if id, ok := ast.Unparen(call.Fun).(*ast.Ident); ok {
			if b, isB := info.Uses[id].(*types.Builtin); isB {
				switch b.Name() {
				case "len", "cap", "make", "new", "append", "min", "max", "complex", "real", "imag":
					return true
				}
				return false
			}
		}
		return true // conversion
	}
	var obj types.Object
	switch fun := ast.Unparen(call.Fun).(type) {
	case *ast.Ident:
		obj = info.Uses[fun]
	case *ast.SelectorExpr:
		if sel := info.Selections[fun]; sel != nil {
			if sel.Kind() != types.MethodVal {
				return false
			}
			if _, isIface := sel.Recv().Underlying().(*types.Interface); isIface {
				return false
			}
			obj = sel.Obj()
		} else {
			obj = info.Uses[fun.Sel] // qualified identifier
		}
	}
	fn, ok := obj.(*types.Func)
	if !ok || fn.Pkg() == nil {
		return false
	}
	if names, isStd := pureStd[fn.Pkg().Path()]; isStd {
		if sig, _ := fn.Type().(*types.Signature); sig != nil && sig.Recv() != nil {
			return false
		}
		return names == nil || names[fn.Name()]
	}
	if d := in.decls[fn.Origin()]; d != nil {
		return in.pureDecl(d.pkg, d.decl)
	}
	return false
}

func (in *inliner) pureDecl(p *packages.Package, fd *ast.FuncDecl) bool {
	in.indexDecls()
	obj := p.TypesInfo.Defs[fd.Name]
	if obj == nil {
		return false
	}
	switch in.pure[obj] {
	case 1:
		return true
	case 2, 3:
		return false
	}
	in.pure[obj] = 3
	info := p.TypesInfo
	ok := true
	// locals freshly created in this function (make / composite literal): writing their elements is not an effect
	fresh := map[types.Object]bool{}
	ast.Inspect(fd.Body, func(n ast.Node) bool {
		if as, isAs := n.(*ast.AssignStmt); isAs && as.Tok == token.DEFINE && len(as.Lhs) == len(as.Rhs) {
			for i, r := range as.Rhs {
				isFresh := false
				switch x := ast.Unparen(r).(type) {
				case *ast.CompositeLit:
					isFresh = true
				case *ast.CallExpr:
					if id, ok := ast.Unparen(x.Fun).(*ast.Ident); ok {
						if b, isB := info.Uses[id].(*types.Builtin); isB && (b.Name() == "make" || b.Name() == "new") {
							isFresh = true
						}
					}
					if tv, isT := info.Types[x.Fun]; isT && tv.IsType() && len(x.Args) == 1 {
						if inner, okc := ast.Unparen(x.Args[0]).(*ast.CallExpr); okc {
							if id, ok := ast.Unparen(inner.Fun).(*ast.Ident); ok {
								if b, isB := info.Uses[id].(*types.Builtin); isB && b.Name() == "make" {
									isFresh = true
								}
							}
						}
					}
				}
				if id, isID := as.Lhs[i].(*ast.Ident); isID && isFresh {
					if o := info.Defs[id]; o != nil {
						fresh[o] = true
					}
				}
			}
		}
		return true
	})
	isLocal := func(id *ast.Ident) bool {
		o := info.Uses[id]
		if o == nil {
			o = info.Defs[id]
		}
		if o == nil {
			return id.Name == "_"
		}
		return o.Pkg() != nil && o.Parent() != o.Pkg().Scope() && o.Pos() >= fd.Pos() && o.Pos() <= fd.End()
	}
	okLHS := func(e ast.Expr) bool {
		switch x := ast.Unparen(e).(type) {
		case *ast.Ident:
			return isLocal(x)
		case *ast.IndexExpr:
			if id, isID := ast.Unparen(x.X).(*ast.Ident); isID {
				o := info.Uses[id]
				return o != nil && fresh[o]
			}
		}
		return false
	}
	ast.Inspect(fd.Body, func(n ast.Node) bool {
		if !ok {
			return false
		}
		switch x := n.(type) {
		case *ast.GoStmt, *ast.DeferStmt, *ast.SendStmt, *ast.SelectStmt, *ast.FuncLit:
			ok = false
		case *ast.UnaryExpr:
			if x.Op == token.ARROW {
				ok = false
			}
		case *ast.AssignStmt:
			if x.Tok != token.DEFINE { // := only introduces (or re-assigns) locals of this function
				for _, l := range x.Lhs {
					if !okLHS(l) {
						ok = false
					}
				}
			}
		case *ast.IncDecStmt:
			if !okLHS(x.X) {
				ok = false
			}
		case *ast.RangeStmt:
			if x.Tok == token.ASSIGN {
				if (x.Key != nil && !okLHS(x.Key)) || (x.Value != nil && !okLHS(x.Value)) {
					ok = false
				}
			}
		case *ast.CallExpr:
			if !in.pureCall(p, x) {
				ok = false
			}
		}
		return ok
	})
	if ok {
		in.pure[obj] = 1
	} else {
		in.pure[obj] = 2
	}
	return ok
}
