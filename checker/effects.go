package main

// effects.go — SUMMARY: leaf effect classification (cluster / release-store writes and reads) and
// may-effect summaries lifted over the static call graph of the helm module.

import (
	"go/types"
	"strings"

	"golang.org/x/tools/go/ssa"
)

type Eff uint8

const (
	WCluster Eff = 1 << iota // creating/updating/patching/deleting request to the cluster
	WStore                   // write to release storage
	RCluster                 // any other request through the cluster client (Build, IsReachable, Get, waiters…)
	RStore                   // read of release storage
)

func (e Eff) String() string {
	var p []string
	if e&WCluster != 0 {
		p = append(p, "W_cluster")
	}
	if e&WStore != 0 {
		p = append(p, "W_store")
	}
	if e&RCluster != 0 {
		p = append(p, "R_cluster")
	}
	if e&RStore != 0 {
		p = append(p, "R_store")
	}
	return strings.Join(p, "|")
}

var clusterWriteMethods = map[string]bool{
	"Create": true, "Update": true, "Delete": true, "UpdateThreeWayMerge": true, "DeleteWithPropagationPolicy": true,
}
var typedWriteMethods = map[string]bool{
	"Create": true, "Update": true, "UpdateStatus": true, "Delete": true, "DeleteCollection": true, "Patch": true, "Apply": true, "ApplyStatus": true,
	"Replace": true, "DeleteWithOptions": true, "CreateWithOptions": true, "UpdateScale": true, "ApplyScale": true, "Evict": true, "Bind": true,
}
var storeWrite = map[string]bool{"Create": true, "Update": true, "Delete": true}
var storeRead = map[string]bool{"Get": true, "List": true, "Query": true, "ListReleases": true, "ListUninstalled": true, "ListDeployed": true,
	"Deployed": true, "DeployedAll": true, "History": true, "Last": true}

type Effects struct {
	w     *World
	memo  map[*ssa.Function]Eff
	state map[*ssa.Function]int
	// Leaf lists the classified leaf sites per function.
}

func NewEffects(w *World) *Effects {
	return &Effects{w: w, memo: map[*ssa.Function]Eff{}, state: map[*ssa.Function]int{}}
}

func recvNamed(tf *types.Func) (pkg, name string) {
	sig, _ := tf.Type().(*types.Signature)
	if sig == nil || sig.Recv() == nil {
		return "", ""
	}
	t := sig.Recv().Type()
	if p, ok := t.(*types.Pointer); ok {
		t = p.Elem()
	}
	if n, ok := t.(*types.Named); ok && n.Obj().Pkg() != nil {
		return n.Obj().Pkg().Path(), refTypeName(n.Obj())
	}
	return "", ""
}

// Leaf classifies one call as a leaf effect (0 if none). It does not descend.
func (ef *Effects) Leaf(c *ssa.CallCommon) Eff {
	_, tf := calleeOf(c)
	if tf == nil {
		return 0
	}
	pkg, rn := recvNamed(tf)
	if pkg == "" && c.IsInvoke() {
		// method of an interface embedded anonymously: use the method's package
		if tf.Pkg() != nil {
			pkg = tf.Pkg().Path()
		}
	}
	name := tf.Name()
	switch {
	case pkg == helmMod+"/pkg/kube" && c.IsInvoke():
		// any of the kube.Interface* / Waiter slots
		if clusterWriteMethods[name] {
			return WCluster
		}
		return RCluster
	case pkg == helmMod+"/pkg/storage" && rn == "Storage":
		if storeWrite[name] {
			return WStore
		}
		if storeRead[name] {
			return RStore
		}
	case pkg == helmMod+"/pkg/storage/driver" && c.IsInvoke():
		if storeWrite[name] {
			return WStore
		}
		if storeRead[name] {
			return RStore
		}
	case strings.HasPrefix(pkg, "k8s.io/client-go/kubernetes/typed/") && c.IsInvoke():
		if typedWriteMethods[name] {
			return WCluster
		}
		if name == "Get" || name == "List" || name == "Watch" || name == "GetLogs" {
			return RCluster
		}
	case strings.HasPrefix(pkg, "k8s.io/client-go/dynamic"):
		if typedWriteMethods[name] {
			return WCluster
		}
	case pkg == "k8s.io/cli-runtime/pkg/resource" && rn == "Helper":
		if typedWriteMethods[name] {
			return WCluster
		}
		if name == "Get" || name == "List" || name == "Watch" || name == "WatchSingle" {
			return RCluster
		}
	case pkg == "k8s.io/client-go/rest" && rn == "Request":
		if name == "Do" || name == "DoRaw" || name == "Stream" || name == "Watch" {
			return RCluster
		}
	case pkg == "k8s.io/client-go/discovery" && c.IsInvoke():
		return RCluster
	}
	return 0
}

// May returns the effects fn may perform through static callees in the helm module (closures created
// in a function are assumed to be invoked; go/defer are calls).
func (ef *Effects) May(fn *ssa.Function) Eff {
	if fn == nil {
		return 0
	}
	fn = origin(fn)
	if e, ok := ef.memo[fn]; ok {
		return e
	}
	if ef.state[fn] == 1 {
		return 0 // recursion: the outer frame accumulates
	}
	ef.state[fn] = 1
	var e Eff
	for _, b := range fn.Blocks {
		for _, in := range b.Instrs {
			switch in := in.(type) {
			case ssa.CallInstruction:
				e |= ef.CallEffect(in.Common())
			case *ssa.MakeClosure:
				if f, ok := in.Fn.(*ssa.Function); ok {
					e |= ef.May(f)
				}
			}
		}
	}
	ef.state[fn] = 2
	ef.memo[fn] = e
	return e
}

// CallEffect: leaf effect of the call plus the may-effects of its static callee (helm module only),
// plus closures passed as arguments (visitor idiom: resources.Visit(func…)).
func (ef *Effects) CallEffect(c *ssa.CallCommon) Eff {
	e := ef.Leaf(c)
	if callee, _ := calleeOf(c); callee != nil && inHelm(callee) {
		e |= ef.May(callee)
	}
	for _, a := range c.Args {
		if mc, ok := a.(*ssa.MakeClosure); ok {
			if f, ok := mc.Fn.(*ssa.Function); ok && inHelm(f) {
				e |= ef.May(f)
			}
		}
	}
	return e
}

// EffectSites lists the call instructions of fn (not descending into closures) whose CallEffect
// intersects mask.
func (ef *Effects) EffectSites(fn *ssa.Function, mask Eff) []Site {
	var out []Site
	for _, c := range callInstrs(fn) {
		if ef.CallEffect(c.Common())&mask != 0 {
			out = append(out, Site{fn, c, posOf(c)})
		}
	}
	// closures created here that have effects count as a site at their creation
	return out
}

// describeCall renders a call for reports/keys: resolved callee name.
func describeCall(c *ssa.CallCommon) string {
	f, tf := calleeOf(c)
	if f != nil {
		return FuncName(f)
	}
	if tf != nil {
		pkg, rn := recvNamed(tf)
		pkg = strings.TrimPrefix(pkg, helmMod+"/")
		if rn != "" {
			return pkg + "." + rn + "." + tf.Name()
		}
		return tf.FullName()
	}
	return "dynamic:" + c.Value.Name()
}
