#!/bin/bash
# Developer tool (not a registered check): runs every claimed check on the unchanged tree (must pass) and
# against every confirmed seeded change and every reverted fix (must report a violation where
# tools/seed_expect.json says so). Scratch copies live under /tmp and are removed.
cd /verif
export PATH=/opt/veriftools/go1.26.8/bin:$PATH GOTOOLCHAIN=local GOFLAGS=-mod=mod GOPROXY=off GOWORK=off
./setup.sh >/dev/null || exit 2
FAIL=0
CLAIMED=$(python3 -c "import json;print(' '.join(c['property_id'] for c in json.load(open('MANIFEST.json'))['checks']))")
if [ "$1" != "--seeds-only" ]; then
for id in $CLAIMED; do
  out=$(./check.sh $id quick 2>&1); rc=$?
  if [ $rc -ne 0 ]; then echo "BASE FAIL $id"; echo "$out" | tail -5; FAIL=1; else echo "base ok $id"; fi
done
fi
runon() { # dir ids...
  local S=$1; shift
  local O=$(mktemp -d /tmp/mutout.XXXXXX); cp known_findings.json $O/
  for id in "$@"; do
    if bin/helmverif -prop $id -tier quick -repo $S -verif $O >/dev/null 2>&1; then echo -n "$id:miss "; else echo -n "$id:CAUGHT "; fi
  done
  rm -rf $O
}
python3 - <<'PY' > /tmp/regress.list
import json
e=json.load(open('/verif/tools/seed_expect.json'))
for k,v in sorted(e.items()):
    print(k, ' '.join(v['checks']) if v['checks'] else '-')
PY
while read name checks; do
  S=$(mktemp -d /tmp/mut.XXXXXX); rsync -a --exclude .git /repo/ $S/
  if [[ $name == revert-* ]]; then
    c=${name#revert-}; git -C /repo show $c | (cd $S && patch -R -p1 -s) || { echo "REVERT FAILED $name"; rm -rf $S; continue; }
  else
    (cd $S && patch -p1 -s < /verif/seeded/$name/patch.diff) || { echo "PATCH FAILED $name"; rm -rf $S; FAIL=1; continue; }
  fi
  if [ "$checks" = "-" ]; then echo "$name: (documented miss)"; rm -rf $S; continue; fi
  res=$(runon $S $checks)
  echo "$name: $res"
  if echo "$res" | grep -q ":miss"; then FAIL=1; fi
  rm -rf $S
done < /tmp/regress.list
exit $FAIL
