#!/bin/bash
# Developer tool (not a registered check): runs every claimed check on the unchanged tree (must pass) and
# against every confirmed seeded change and every reverted fix (must report a violation where
# tools/seed_expect.json says so). Scratch copies live under /tmp and are removed.
cd /verif
export PATH=/opt/veriftools/go1.26.8/bin:$PATH GOTOOLCHAIN=local GOFLAGS=-mod=mod GOPROXY=off GOWORK=off
./setup.sh >/dev/null || exit 2
FAIL=0
CLAIMED=$(python3 -c "import json;print(' '.join(c['property_id'] for c in json.load(open('MANIFEST.json'))['checks']))")
if [ "$1" != "--seeds-only" ]; then
for id in $CLAIMED; do
  out=$(./check.sh $id quick 2>&1); rc=$?
  if [ $rc -ne 0 ]; then echo "BASE FAIL $id"; echo "$out" | tail -5; FAIL=1; else echo "base ok $id"; fi
done
fi
python3 - <<'PY' > /tmp/regress.list
import json
e=json.load(open('/verif/tools/seed_expect.json'))
for k,v in sorted(e.items()):
    print(k, 'obsolete' if v.get('obsolete') else (','.join(v['checks']) if v['checks'] else '-'))
PY
xargs -P ${REGRESS_JOBS:-6} -L 1 tools/regress_one.sh < /tmp/regress.list | sort > /tmp/regress.out
cat /tmp/regress.out
if grep -q ":miss\|FAILED" /tmp/regress.out; then FAIL=1; fi
exit $FAIL
