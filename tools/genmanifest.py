#!/usr/bin/env python3
# Regenerates /verif/MANIFEST.json from the table below (kept in one place so the manifest stays valid).
import json, sys
V='/verif'
claims = {}
def claim(pid, text, note, technique, ref):
    claims[pid] = dict(text=text, note=note, technique=technique, ref=ref)

ADDED = {}
TECH_SUFFIX = ""
exec(open(V+'/tools/claims.py').read())
for _pid, _c in claims.items():
    _c['text'] = _c['text'] + ADDED.get(_pid, "")
    _c['technique'] = _c['technique'] + TECH_SUFFIX

props=[json.loads(l) for l in open(V+'/properties.jsonl')]
m={
 "version":1,
 "setup_cmd":"./setup.sh",
 "hooks":{"guard":"verif","enable":"none needed: the checks are static and read /repo's sources; there are no hook commits","baseline_off_cmd":"/verif/tools/baseline.sh /repo","source_commits":[],"add_only":True},
 "engines":[{"name":"helmverif","path":"checker","serves_properties":sorted(claims),"kind_free_text":"repository-specific static analyser (go/packages type-checked syntax + go/ssa; dominance / must-pass-through, flag specialisation, effect summaries, provenance, ownership, iteration-order, taint, lock-set rules)"}],
 "checks":[],
 "notes":"Static analysis only: nothing in helm is executed. Every check is claimed at level 'other' for the structural clauses named in its level text; the undecided clauses are listed per property in DESIGN.md §3 and in each evidence file. Genuine defects found are repaired by 'fix:' commits in /repo (see known_findings.json 'fixed') or recorded as known findings.",
 "not_applicable":[]
}
for p in props:
    pid=p['id']
    if pid in claims:
        c=claims[pid]
        m['checks'].append({
          "property_id":pid,
          "quick_cmd":"./check.sh %s quick"%pid,
          "thorough_cmd":"./check.sh %s thorough"%pid,
          "evidence_file":"/verif/evidence/%s.json"%pid,
          "replay_cmd_template":"cat {path}",
          "engine":"helmverif",
          "level_claimed":{"category":"other","text":c['text'],"design_ref":c['ref']},
          "level_note":c['note'],
          "technique":c['technique'],
        })
    else:
        reason = NA.get(pid, "check under construction in this round; not yet claimed (see DESIGN.md)")
        m['not_applicable'].append({"property_id":pid,"reason":reason})
json.dump(m,open(V+'/MANIFEST.json','w'),indent=1)
print("claimed:",sorted(claims)," n/a:",[x['property_id'] for x in m['not_applicable']])
