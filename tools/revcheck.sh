#!/bin/bash
# usage: revcheck.sh <repo-commit> <ID>...  — developer tool: reverts one fix commit in a scratch copy and runs checks.
C=$1; shift
git -C /repo show $C > /tmp/rev.$C.diff
S=$(mktemp -d /tmp/mut.XXXXXX); O=$(mktemp -d /tmp/mutout.XXXXXX)
rsync -a --exclude .git /repo/ "$S/"; cp /verif/known_findings.json "$O/"
( cd "$S" && patch -R -p1 -s < /tmp/rev.$C.diff ) || { echo "REVERT FAILED"; rm -rf "$S" "$O"; exit 2; }
export PATH=/opt/veriftools/go1.26.8/bin:$PATH GOTOOLCHAIN=local GOFLAGS=-mod=mod GOPROXY=off GOWORK=off
for id in "$@"; do /verif/bin/helmverif -prop "$id" -tier quick -repo "$S" -verif "$O" | grep -E "^(property=|VIOLATION|  (violated|undecided))" | sed "s#$S/##g" | cut -c1-300; done
rm -rf "$S" "$O" /tmp/rev.$C.diff
