#!/bin/bash
# usage: regress_one.sh <seed-name|revert-<commit>> <ID,ID,...|->  — one line: "<name>: ID:CAUGHT ID:miss …"
name=$1; checks=$2
cd /verif
export PATH=/opt/veriftools/go1.26.8/bin:$PATH GOTOOLCHAIN=local GOFLAGS=-mod=mod GOPROXY=off GOWORK=off
if [ "$checks" = "-" ]; then echo "$name: (documented miss)"; exit 0; fi
if [ "$checks" = "obsolete" ]; then echo "$name: (obsolete: the code it changes was rewritten by a later fix)"; exit 0; fi
S=$(mktemp -d /tmp/mut.XXXXXX); O=$(mktemp -d /tmp/mutout.XXXXXX); trap 'rm -rf $S $O' EXIT
rsync -a --exclude .git /repo/ $S/; cp known_findings.json $O/
if [[ $name == revert-* ]]; then
  c=${name#revert-}; git -C /repo show $c | (cd $S && patch -R -p1 -s) || { echo "$name: REVERT FAILED"; exit 0; }
else
  (cd $S && patch -p1 -s < /verif/seeded/$name/patch.diff) || { echo "$name: PATCH FAILED"; exit 0; }
fi
ids=$checks; [[ $ids == *,* ]] || ids="$ids,$ids"
out=$(bin/helmverif -prop "$ids" -tier quick -repo $S -verif $O 2>&1)
res=""
for id in ${checks//,/ }; do
  if echo "$out" | grep -q "^VIOLATION property=$id "; then res="$res $id:CAUGHT"; else res="$res $id:miss"; fi
done
echo "$name:$res"
