#!/bin/bash
# Runs the pinned helm test suite (guard OFF: no build tags) in DIR (default /repo) and compares with
# /root/.vp/BASELINE.json stable_pass. Exit 0 iff every stable_pass test passed.
DIR=${1:-/repo}
cd "$DIR" || exit 2
OUT=$(mktemp)
GOFLAGS=-mod=mod GOPROXY=off go test -json -vet=off -count=1 -timeout 25m ./... > "$OUT" 2>/dev/null
python3 - "$OUT" <<'PY'
import json,sys
want=set(json.load(open('/root/.vp/BASELINE.json'))['stable_pass'])
got=set()
for l in open(sys.argv[1]):
    try: d=json.loads(l)
    except Exception: continue
    if d.get('Action')=='pass' and d.get('Test'):
        got.add(d['Package']+'::'+d['Test'])
missing=sorted(want-got)
print("stable_pass=%d passed_now=%d missing=%d"%(len(want),len(got),len(missing)))
for m in missing[:40]: print("MISSING",m)
sys.exit(1 if missing else 0)
PY
rc=$?
rm -f "$OUT"
exit $rc
