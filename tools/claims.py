# claims table: claim(id, level text, level note, technique, design ref); NA = {id: reason}
NA = {}
COMMON_NOTE = " Trusted: Go type checker and go/ssa (x/tools v0.50.0), the checker's CFG/dataflow code, the effect/idiom/exception tables in DESIGN.md; third-party libraries at the call boundary."

claim("C06",
 "Decides the structural part: for every cluster-writing and storage-writing call site in the static call cone of install/upgrade/rollback/uninstall (≈45 leaf sites), the site is unreachable once the control-flow graphs are specialised to each dry-run spelling (DryRun, dry-run=client|server|true), the flag fields are never assigned inside the cone, isDryRun() folds to true for each spelling and the CLI accepts no other spelling, helm template forces DryRun on every path, and under ClientOnly every cluster/storage call in install follows the replacement of client and store by the printing fake and a private memory driver. All paths at once; does not decide actual HTTP traffic, post-renderer side effects or explicitly requested server contact.",
 "Static: nothing executed. Interprocedural facts follow static callees, closures, go/defer and the kube.Interface / driver.Driver slots." + COMMON_NOTE,
 "flag-specialised CFG reachability (sparse conditional constant propagation) + effect summaries over go/ssa", "DESIGN.md §3 C06")
