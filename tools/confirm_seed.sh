#!/bin/bash
# usage: confirm_seed.sh <Cxx> <n> [srcroot] [outN]   — developer tool. Confirms a seeded change produced by a sub-agent:
# applies /tmp/seed/out/<Cxx>/<n>/patch.diff in a scratch worktree of /repo (under /tmp), builds, runs
# the demonstration (must FAIL), runs the pinned suite (must match the baseline), reverts, runs the
# demonstration again (must PASS). On success copies patch/demo/meta into /verif/seeded/<Cxx>-<n>/.
ID=$1; N=$2; ROOT=${3:-/tmp/seed/out}; ON=${4:-$N}
SRC=$ROOT/$ID/$N
WT=/tmp/confirm.$ID.$N
export GOFLAGS=-mod=mod GOPROXY=off
LOG=/tmp/confirm.$ID.$N.log
exec >"$LOG" 2>&1
git -C /repo worktree add --detach "$WT" HEAD -q || exit 2
cd "$WT"
fail() { echo "RESULT $ID/$N REJECT: $1"; cd /; git -C /repo worktree remove --force "$WT"; exit 1; }
git apply "$SRC/patch.diff" || fail "patch does not apply"
if git diff --name-only | grep -q '_test.go$'; then fail "patch edits test files"; fi
go build ./... || fail "does not build"
DEMO=$(ls $SRC/*_test.go 2>/dev/null | head -1)
[ -n "$DEMO" ] || fail "no demo test"
DIR=$(python3 -c "import json;print(json.load(open('$SRC/meta.json')).get('demo_package_dir',''))")
[ -d "$DIR" ] || DIR=$(head -3 "$DEMO" | grep -o 'place in: *[^ ]*' | sed 's/place in: *//')
[ -d "$DIR" ] || fail "demo dir unknown"
cp "$DEMO" "$DIR/zz_seed_demo_test.go"
RACE=""; grep -q -- "-race" "$SRC/meta.json" && RACE="-race"
TESTS=$(grep -o '^func Test[A-Za-z0-9_]*' "$DEMO" | sed 's/func //' | paste -sd'|')
go test $RACE -vet=off -count=1 -run "^($TESTS)\$" "./$DIR/" >/tmp/confirm.$ID.$N.with 2>&1; RC_WITH=$?
rm "$DIR/zz_seed_demo_test.go"
[ $RC_WITH -ne 0 ] || fail "demo passes WITH the change"
grep -q "^--- FAIL\|^panic\|FAIL" /tmp/confirm.$ID.$N.with || fail "demo did not run"
/verif/tools/baseline.sh "$WT" > /tmp/confirm.$ID.$N.base 2>&1 || { /verif/tools/baseline.sh "$WT" > /tmp/confirm.$ID.$N.base 2>&1 || fail "baseline fails with the change: $(grep MISSING /tmp/confirm.$ID.$N.base | head -3 | tr '\n' ' ')"; }
git checkout -q -- . 
cp "$DEMO" "$DIR/zz_seed_demo_test.go"
go test $RACE -vet=off -count=1 -run "^($TESTS)\$" "./$DIR/" >/tmp/confirm.$ID.$N.without 2>&1; RC_WO=$?
rm "$DIR/zz_seed_demo_test.go"
[ $RC_WO -eq 0 ] || fail "demo fails WITHOUT the change"
OUT=/verif/seeded/$ID-$ON
mkdir -p "$OUT"
cp "$SRC/patch.diff" "$OUT/patch.diff"; cp "$DEMO" "$OUT/demo_test.go"
python3 - "$SRC/meta.json" "$OUT/meta.json" "$DIR" "$TESTS" <<'PY'
import json,sys
m=json.load(open(sys.argv[1]))
out={"property":m.get("property"),"summary":m.get("summary"),"needs_to_manifest":m.get("what_it_needs_to_manifest"),"files_changed":m.get("files_changed"),
 "demo_package_dir":sys.argv[3],"demo_tests":sys.argv[4],
 "confirmed":{"how":"tools/confirm_seed.sh in a scratch worktree of /repo HEAD: patch applies, go build ./... ok, demo fails with the change, pinned suite equals the baseline (stable_pass all pass) with the change, demo passes without it","by":"main session"},
 "caught_by":None}
json.dump(out,open(sys.argv[2],'w'),indent=1)
PY
echo "RESULT $ID/$N CONFIRMED"
cd /; git -C /repo worktree remove --force "$WT"
