#!/bin/bash
# usage: mutcheck.sh <patch.diff> <ID>...|all   — developer tool (not a registered check).
# Applies a patch to a scratch copy of /repo (outside /repo and /verif), runs the named checks on it
# and prints their verdict lines; the scratch copy is removed afterwards.
P=$(realpath "$1"); shift
S=$(mktemp -d /tmp/mut.XXXXXX); O=$(mktemp -d /tmp/mutout.XXXXXX)
rsync -a --exclude .git /repo/ "$S/"
cp /verif/known_findings.json "$O/"
( cd "$S" && patch -p1 -s < "$P" ) || { echo "PATCH FAILED"; rm -rf "$S" "$O"; exit 2; }
export PATH=/opt/veriftools/go1.26.8/bin:$PATH GOTOOLCHAIN=local GOFLAGS=-mod=mod GOPROXY=off GOWORK=off
rc=0
ids=$(IFS=,; echo "$*")
[ $# -eq 1 ] && [ "$1" != all ] && ids="$1,$1"
for id in "$ids"; do
  /verif/bin/helmverif -prop "$id" -tier quick -repo "$S" -verif "$O" | grep -E "^(property=|VIOLATION|KNOWN|  (violated|undecided))" | sed "s#$S/##g" | cut -c1-400
done
rm -rf "$S" "$O"
