#!/bin/bash
# usage: refbatch.sh <dir-with-Cxx/n/patch.diff> [parallel]  — developer tool: run every check on every
# behaviour-preserving refactoring; any alarm is a false alarm of the machinery.
D=$1; P=${2:-6}; R=$(mktemp -d /tmp/refres.XXXX)
( cd $D; ls -d C*/* | while read d; do [ -f $d/patch.diff ] && echo $d; done ) > $R/list
cat $R/list | xargs -P $P -I{} sh -c "/verif/tools/mutcheck.sh $D/{}/patch.diff all > $R/\$(echo {} | tr / -).txt 2>&1"
cd $R; for f in C*.txt; do n=$(grep -c 'violations=0' $f); [ "$n" = 20 ] && echo "ok $f" && continue; echo "== $f: $n clean"; grep -E "^  (violated|undecided)|PATCH FAILED" $f | cut -c1-330; done
rm -rf $R
