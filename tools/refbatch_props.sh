#!/bin/bash
# usage: refbatch_props.sh <dir-with-Cxx/n/patch.diff> <parallel> <ID,ID,...>  — like refbatch.sh, but only the
# named checks (after a change that touches only their rules).
D=$1; P=${2:-8}; IDS=$3; R=$(mktemp -d /tmp/refres.XXXX)
N=$(echo "$IDS" | tr ',' '\n' | wc -l)
( cd $D; ls -d C*/* | while read d; do [ -f $d/patch.diff ] && echo $d; done ) > $R/list
cat $R/list | xargs -P $P -I{} sh -c "/verif/tools/mutcheck.sh $D/{}/patch.diff $IDS > $R/\$(echo {} | tr / -).txt 2>&1"
cd $R; for f in C*.txt; do n=$(grep -c 'violations=0' $f); [ "$n" -ge "$N" ] && echo "ok $f" && continue; echo "== $f: $n clean"; grep -E "^  (violated|undecided)|PATCH FAILED" $f | cut -c1-330; done
rm -rf $R
