// place in: pkg/repo
package repo

import (
	"os"
	"path/filepath"
	"testing"
)

// F19: Metadata.Validate returns the "more than one dependency with name or alias" error from inside
// its loop over the dependencies; loadIndex tolerates exactly that error. A later dependency that is
// invalid (here: a null list element) is therefore never looked at and the entry stays in the index.
func TestF19DuplicateDependencyHidesInvalidOne(t *testing.T) {
	idx := `apiVersion: v1
entries:
  demo:
  - name: demo
    version: 1.0.0
    urls: ["https://example.com/demo-1.0.0.tgz"]
    dependencies:
    - name: a
      repository: https://example.com
    - name: a
      repository: https://example.com
    -
`
	p := filepath.Join(t.TempDir(), "index.yaml")
	if err := os.WriteFile(p, []byte(idx), 0o644); err != nil {
		t.Fatal(err)
	}
	i, err := LoadIndexFile(p)
	if err != nil {
		t.Fatal(err)
	}
	for _, cv := range i.Entries["demo"] {
		for n, d := range cv.Dependencies {
			if d == nil {
				t.Fatalf("entry %s-%s was kept although dependency #%d is null (invalid entries must be dropped)", cv.Name, cv.Version, n)
			}
		}
	}
}
