package action

import (
	"errors"
	"testing"

	kubefake "helm.sh/helm/v4/pkg/kube/fake"
	release "helm.sh/helm/v4/pkg/release/v1"
)

// F8: a rollback that fails before/after the resource update (manifest build error, hook failure)
// must leave its new revision failed, never pending-rollback.
func TestVerifF08RollbackFailureNotPending(t *testing.T) {
	for _, tc := range []struct {
		name string
		set  func(*kubefake.FailingKubeClient)
	}{
		{"build", func(k *kubefake.FailingKubeClient) { k.BuildError = errors.New("build failed") }},
		{"hook", func(k *kubefake.FailingKubeClient) { k.WatchUntilReadyError = errors.New("hook failed") }},
	} {
		cfg := actionConfigFixture(t)
		r1 := namedReleaseStub("rb", release.StatusSuperseded)
		r1.Version = 1
		r2 := namedReleaseStub("rb", release.StatusDeployed)
		r2.Version = 2
		for _, r := range []*release.Release{r1, r2} {
			r.Hooks[0].Events = append(r.Hooks[0].Events, release.HookPreRollback)
			if err := cfg.Releases.Create(r); err != nil {
				t.Fatal(err)
			}
		}
		tc.set(cfg.KubeClient.(*kubefake.FailingKubeClient))
		rb := NewRollback(cfg)
		rb.Version = 1
		if err := rb.Run("rb"); err == nil {
			t.Fatalf("%s: expected rollback to fail", tc.name)
		}
		last, err := cfg.Releases.Last("rb")
		if err != nil {
			t.Fatal(err)
		}
		if last.Version != 3 || last.Info.Status != release.StatusFailed {
			t.Fatalf("%s: revision %d has status %q, want failed", tc.name, last.Version, last.Info.Status)
		}
	}
}
