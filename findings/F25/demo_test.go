// place in: pkg/action
package action

import (
	"errors"
	"fmt"
	"strings"
	"testing"

	"helm.sh/helm/v4/pkg/kube"
	kubefake "helm.sh/helm/v4/pkg/kube/fake"
	release "helm.sh/helm/v4/pkg/release/v1"
)

// f25Client behaves like the real kube.Client in one respect the fakes do not: GetWaiter rejects a wait
// strategy it does not know (the empty string included).
type f25Client struct {
	*kubefake.FailingKubeClient
}

func (c *f25Client) GetWaiter(ws kube.WaitStrategy) (kube.Waiter, error) {
	switch ws {
	case kube.LegacyStrategy, kube.StatusWatcherStrategy, kube.HookOnlyStrategy:
		return c.FailingKubeClient.GetWaiter(ws)
	}
	return nil, errors.New("unknown wait strategy")
}

// F25: the rollback started by a failed `upgrade --atomic` and the uninstall started by a failed
// `install --atomic` are not given a wait strategy, so with the real client they fail at GetWaiter and
// the release is not restored / not removed.
func TestF25AtomicUpgradeRollsBack(t *testing.T) {
	upAction := upgradeAction(t)
	rel := releaseStub()
	rel.Name = "nuketown"
	rel.Info.Status = release.StatusDeployed
	upAction.cfg.Releases.Create(rel)
	failer := upAction.cfg.KubeClient.(*kubefake.FailingKubeClient)
	failer.WatchUntilReadyError = fmt.Errorf("arming key removed")
	upAction.cfg.KubeClient = &f25Client{failer}
	upAction.Atomic = true
	upAction.WaitStrategy = kube.HookOnlyStrategy // what the command line passes by default
	_, err := upAction.Run(rel.Name, buildChart(), map[string]interface{}{})
	if err == nil || strings.Contains(err.Error(), "an error occurred while rolling back") {
		t.Fatalf("the atomic rollback itself failed: %v", err)
	}
}

func TestF25AtomicInstallUninstalls(t *testing.T) {
	instAction := installAction(t)
	failer := instAction.cfg.KubeClient.(*kubefake.FailingKubeClient)
	failer.WaitError = fmt.Errorf("I timed out")
	instAction.cfg.KubeClient = &f25Client{failer}
	instAction.Atomic = true
	instAction.WaitStrategy = kube.HookOnlyStrategy
	_, err := instAction.Run(buildChart(), map[string]interface{}{})
	if err == nil || strings.Contains(err.Error(), "an error occurred while uninstalling") {
		t.Fatalf("the atomic uninstall itself failed: %v", err)
	}
}
