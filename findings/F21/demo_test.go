// place in: pkg/storage
package storage

import (
	"errors"
	"testing"

	rspb "helm.sh/helm/v4/pkg/release/v1"
	"helm.sh/helm/v4/pkg/storage/driver"
)

// F21: with a small history limit, Storage.Create prunes before it creates and protects only the
// deployed revision. When two operations race to create the same revision, the second one's pruning
// removes the first one's freshly stored pending record, after which its own Create succeeds: both
// operations "created" revision 2 and both proceed.
func TestF21PruningDoesNotRemoveTheRevisionBeingCreated(t *testing.T) {
	s := Init(driver.NewMemory())
	s.MaxHistory = 2
	mk := func(v int, st rspb.Status) *rspb.Release {
		return &rspb.Release{Name: "app", Namespace: "default", Version: v, Info: &rspb.Info{Status: st}}
	}
	if err := s.Create(mk(1, rspb.StatusDeployed)); err != nil {
		t.Fatal(err)
	}
	// operation A wins the race and stores revision 2
	if err := s.Create(mk(2, rspb.StatusPendingUpgrade)); err != nil {
		t.Fatal(err)
	}
	// operation B computed the same revision number and arrives second
	err := s.Create(mk(2, rspb.StatusPendingUpgrade))
	if !errors.Is(err, driver.ErrReleaseExists) {
		t.Fatalf("second Create of revision 2 returned %v; it must fail with %v (it pruned the first operation's record and took its place)", err, driver.ErrReleaseExists)
	}
}
