package action

import (
	"testing"

	chart "helm.sh/helm/v4/pkg/chart/v2"
)

// F9: with --render-subchart-notes the notes text must not depend on map iteration order.
func TestVerifF09NotesOrder(t *testing.T) {
	mk := func(name string) *chart.Chart {
		return &chart.Chart{Metadata: &chart.Metadata{Name: name, Version: "0.1.0", APIVersion: "v2"},
			Templates: []*chart.File{{Name: "templates/NOTES.txt", Data: []byte("notes of " + name)}}}
	}
	first := ""
	for i := 0; i < 64; i++ {
		p := mk("parent")
		p.AddDependency(mk("a"), mk("b"), mk("c"), mk("d"))
		cfg := actionConfigFixture(t)
		_, _, notes, err := cfg.renderResources(p, map[string]interface{}{"Values": map[string]interface{}{}}, "r", "", true, false, false, nil, false, false, false)
		if err != nil {
			t.Fatal(err)
		}
		if i == 0 {
			first = notes
		} else if notes != first {
			t.Fatalf("notes differ between identical renders:\n%q\n%q", first, notes)
		}
	}
}
