package repo

import "testing"

// F2: a null entry in an index's version list must be dropped at load; queries must not crash.
func TestVerifF02NullIndexEntry(t *testing.T) {
	data := []byte("apiVersion: v1\nentries:\n  foo:\n  - null\n  - name: foo\n    version: 1.0.0\n    urls: [\"http://x/foo-1.0.0.tgz\"]\n")
	i, err := loadIndex(data, "test")
	if err != nil {
		t.Fatal(err)
	}
	for _, cv := range i.Entries["foo"] {
		if cv == nil {
			t.Fatal("nil entry survived loading")
		}
	}
	if _, err := i.Get("foo", ""); err != nil {
		t.Fatal(err)
	}
}
