package util

import (
	"testing"

	chart "helm.sh/helm/v4/pkg/chart/v2"
)

// F3: import-values entries with non-string child/parent must produce an error, not a panic.
func TestVerifF03ImportValuesTypes(t *testing.T) {
	sub := &chart.Chart{Metadata: &chart.Metadata{Name: "sub", Version: "0.1.0", APIVersion: "v2"}, Values: map[string]interface{}{}}
	parent := &chart.Chart{Metadata: &chart.Metadata{Name: "p", Version: "0.1.0", APIVersion: "v2",
		Dependencies: []*chart.Dependency{{Name: "sub", Version: "0.1.0", ImportValues: []interface{}{map[string]interface{}{"child": 1, "parent": 2}}}}},
		Values: map[string]interface{}{}}
	parent.AddDependency(sub)
	defer func() {
		if r := recover(); r != nil {
			t.Fatalf("panicked: %v", r)
		}
	}()
	_ = ProcessDependencies(parent, Values{})
}
