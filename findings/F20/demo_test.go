// place in: pkg/engine
package engine

import (
	"testing"

	chart "helm.sh/helm/v4/pkg/chart/v2"
	chartutil "helm.sh/helm/v4/pkg/chart/v2/util"
)

// F20: a subchart whose name contains a dot (accepted by Metadata.Validate) never sees the values
// destined for it: the engine looks its section up with the dotted-path accessor
// (vals.Table("Values." + name)), which splits the name at the dot.
func TestF20DottedSubchartNameSeesItsValues(t *testing.T) {
	sub := &chart.Chart{
		Metadata:  &chart.Metadata{Name: "acme.db", Version: "0.1.0", APIVersion: "v2"},
		Templates: []*chart.File{{Name: "templates/cm.yaml", Data: []byte(`size: {{ .Values.size }}`)}},
		Values:    map[string]interface{}{"size": "small"},
	}
	parent := &chart.Chart{
		Metadata: &chart.Metadata{Name: "parent", Version: "0.1.0", APIVersion: "v2"},
		Values:   map[string]interface{}{"acme.db": map[string]interface{}{"size": "large"}},
	}
	parent.AddDependency(sub)
	if err := parent.Validate(); err != nil {
		t.Fatalf("chart tree should be valid: %v", err)
	}
	vals, err := chartutil.ToRenderValues(parent, map[string]interface{}{}, chartutil.ReleaseOptions{Name: "r", Namespace: "n"}, nil)
	if err != nil {
		t.Fatal(err)
	}
	out, err := Render(parent, vals)
	if err != nil {
		t.Fatal(err)
	}
	got := out["parent/charts/acme.db/templates/cm.yaml"]
	if got != "size: large" {
		t.Fatalf("subchart acme.db rendered %q; its values (defaults overridden by the parent's section) give \"size: large\"", got)
	}
}
