// place in: pkg/lint
package lint

import (
	"os"
	"path/filepath"
	"testing"
)

// F24: the values lint rule merges the chart's values.yaml over the caller's override map with a merge
// whose nested tables are the caller's own: after linting one chart, its defaults sit inside the
// overrides that are then used for the next chart (`helm lint a b --set image.tag=x`).
func TestF24LintDoesNotModifyTheCallersValues(t *testing.T) {
	dir := filepath.Join(t.TempDir(), "demo")
	if err := os.MkdirAll(filepath.Join(dir, "templates"), 0o755); err != nil {
		t.Fatal(err)
	}
	os.WriteFile(filepath.Join(dir, "Chart.yaml"), []byte("apiVersion: v2\nname: demo\nversion: 0.1.0\n"), 0o644)
	os.WriteFile(filepath.Join(dir, "values.yaml"), []byte("image:\n  repository: repo-of-demo\n  tag: latest\n"), 0o644)
	overrides := map[string]interface{}{"image": map[string]interface{}{"tag": "x"}}
	RunAll(dir, overrides, "default")
	img := overrides["image"].(map[string]interface{})
	if _, polluted := img["repository"]; polluted || len(img) != 1 {
		t.Fatalf("the caller's override map was modified by lint: image = %v (want only tag=x)", img)
	}
}
