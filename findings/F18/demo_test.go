package action

import (
	"fmt"
	"strings"
	"testing"

	metav1 "k8s.io/apimachinery/pkg/apis/meta/v1"
	"k8s.io/apimachinery/pkg/version"
	fakeclientset "k8s.io/client-go/kubernetes/fake"
)

// F18: .Capabilities.APIVersions (visible to templates) must come out in the same order for the same cluster.
func TestVerifF18APIVersionsOrder(t *testing.T) {
	client := fakeclientset.NewClientset()
	for i := 0; i < 12; i++ {
		client.Fake.Resources = append(client.Fake.Resources, &metav1.APIResourceList{
			GroupVersion: fmt.Sprintf("g%d.example.com/v1", i),
			APIResources: []metav1.APIResource{{Name: "things", Kind: "Thing"}},
		})
	}
	_ = version.Info{}
	first := ""
	for i := 0; i < 32; i++ {
		vs, err := GetVersionSet(client.Discovery())
		if err != nil {
			t.Fatal(err)
		}
		got := strings.Join(vs, ",")
		if i == 0 {
			first = got
		} else if got != first {
			t.Fatalf("API version list differs between identical discoveries:\n%s\n%s", first, got)
		}
	}
}
