package action

import (
	"io"
	"testing"

	chart "helm.sh/helm/v4/pkg/chart/v2"
	"helm.sh/helm/v4/pkg/kube"
	kubefake "helm.sh/helm/v4/pkg/kube/fake"
)

type verifF17Client struct {
	kubefake.PrintingKubeClient
	creates int
}

func (c *verifF17Client) Create(resources kube.ResourceList) (*kube.Result, error) {
	c.creates++
	return c.PrintingKubeClient.Create(resources)
}

// F17: values that violate the chart's schema must make install fail with nothing sent to the cluster;
// the CRDs of the chart were created before the schema was consulted.
func TestVerifF17CRDsBeforeSchemaGate(t *testing.T) {
	instAction := installAction(t)
	kc := &verifF17Client{PrintingKubeClient: kubefake.PrintingKubeClient{Out: io.Discard}}
	instAction.cfg.KubeClient = kc
	ch := buildChart(withSampleTemplates())
	ch.Schema = []byte(`{"type":"object","required":["mustHave"]}`)
	ch.Files = append(ch.Files, &chart.File{Name: "crds/foo.yaml", Data: []byte("apiVersion: apiextensions.k8s.io/v1\nkind: CustomResourceDefinition\nmetadata:\n  name: foos.example.com\n")})
	_, err := instAction.Run(ch, map[string]interface{}{})
	if err == nil {
		t.Fatal("expected the schema violation to fail the install")
	}
	if kc.creates != 0 {
		t.Fatalf("%d create request(s) reached the cluster although the values violate the schema", kc.creates)
	}
}
