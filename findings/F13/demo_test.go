package downloader

import (
	"os"
	"path/filepath"
	"testing"

	chart "helm.sh/helm/v4/pkg/chart/v2"
)

// F13: writing the lock file must not follow a symlink planted at Chart.lock.
func TestVerifF13LockSymlink(t *testing.T) {
	dir := t.TempDir()
	outside := filepath.Join(t.TempDir(), "victim")
	if err := os.WriteFile(outside, []byte("untouched"), 0o644); err != nil {
		t.Fatal(err)
	}
	if err := os.Symlink(outside, filepath.Join(dir, "Chart.lock")); err != nil {
		t.Skip(err)
	}
	_ = writeLock(dir, &chart.Lock{Digest: "x"}, false)
	got, _ := os.ReadFile(outside)
	if string(got) != "untouched" {
		t.Fatalf("file outside the chart directory was overwritten through the symlink: %q", got)
	}
}
