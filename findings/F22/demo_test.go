// place in: pkg/lint
package lint

import (
	"os"
	"path/filepath"
	"testing"

)

// F22: `helm lint` reads Chart.yaml without validating it; a null entry in the maintainers list
// (`maintainers:\n- `) is dereferenced by the maintainer rule and lint panics instead of reporting.
func TestF22LintNullMaintainerEntry(t *testing.T) {
	dir := filepath.Join(t.TempDir(), "demo")
	if err := os.MkdirAll(filepath.Join(dir, "templates"), 0o755); err != nil {
		t.Fatal(err)
	}
	os.WriteFile(filepath.Join(dir, "Chart.yaml"), []byte("apiVersion: v2\nname: demo\nversion: 0.1.0\nmaintainers:\n- \n"), 0o644)
	os.WriteFile(filepath.Join(dir, "values.yaml"), []byte("a: 1\n"), 0o644)
	defer func() {
		if r := recover(); r != nil {
			t.Fatalf("lint panicked on a null maintainer entry: %v", r)
		}
	}()
	res := RunAll(dir, map[string]interface{}{}, "default")
	if len(res.Messages) == 0 {
		t.Fatalf("lint reported nothing for a chart with a null maintainer entry")
	}
}
