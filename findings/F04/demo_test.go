package util

import (
	"testing"

	chart "helm.sh/helm/v4/pkg/chart/v2"
)

// F4: the exported ValidateAgainstSchema must not panic when a dependency's values are absent or not a table.
func TestVerifF04SubchartValuesNotTable(t *testing.T) {
	sub := &chart.Chart{Metadata: &chart.Metadata{Name: "sub", Version: "0.1.0", APIVersion: "v2"}, Schema: []byte(`{"type":"object","required":["a"]}`)}
	parent := &chart.Chart{Metadata: &chart.Metadata{Name: "p", Version: "0.1.0", APIVersion: "v2"}}
	parent.AddDependency(sub)
	for _, vals := range []map[string]interface{}{{}, {"sub": "scalar"}, {"sub": nil}} {
		func() {
			defer func() {
				if r := recover(); r != nil {
					t.Fatalf("panicked on %v: %v", vals, r)
				}
			}()
			if err := ValidateAgainstSchema(parent, vals); err == nil {
				t.Fatalf("expected a schema error for %v", vals)
			}
		}()
	}
}
