package action

import (
	"testing"

	"helm.sh/helm/v4/pkg/kube"
	releaseutil "helm.sh/helm/v4/pkg/release/util"
)

// F7: a resource-policy annotation with a value other than "keep" must leave the manifest in the delete set.
func TestVerifF07PolicyNotKeep(t *testing.T) {
	m := releaseutil.Manifest{Name: "a.yaml", Content: "x", Head: &releaseutil.SimpleHead{Kind: "ConfigMap"}}
	m.Head.Metadata = &struct {
		Name        string            `json:"name"`
		Annotations map[string]string `json:"annotations"`
	}{Name: "cm", Annotations: map[string]string{kube.ResourcePolicyAnno: "delete"}}
	keep, remaining := filterManifestsToKeep([]releaseutil.Manifest{m})
	if len(keep)+len(remaining) != 1 {
		t.Fatalf("manifest lost: keep=%d remaining=%d", len(keep), len(remaining))
	}
}
