// place in: pkg/engine
package engine

import (
	"os"
	"os/exec"
	"testing"

	chart "helm.sh/helm/v4/pkg/chart/v2"
	chartutil "helm.sh/helm/v4/pkg/chart/v2/util"
)

// F23: a value that tpl-renders itself recurses without bound: only `include` counts its depth. The Go
// runtime ends the process with a fatal stack overflow, which recover() cannot catch. The render runs in
// a child process so that the test itself survives.
func TestF23SelfReferencingTplReturnsAnError(t *testing.T) {
	if os.Getenv("F23_CHILD") == "1" {
		c := &chart.Chart{
			Metadata:  &chart.Metadata{Name: "moby", Version: "1.2.3", APIVersion: "v2"},
			Templates: []*chart.File{{Name: "templates/x.yaml", Data: []byte(`{{ tpl .Values.x . }}`)}},
			Values:    map[string]interface{}{"x": "{{ tpl .Values.x . }}"},
		}
		vals, err := chartutil.ToRenderValues(c, map[string]interface{}{}, chartutil.ReleaseOptions{Name: "r", Namespace: "n"}, nil)
		if err != nil {
			os.Exit(3)
		}
		if _, err := Render(c, vals); err != nil {
			os.Exit(0) // an error is the expected outcome
		}
		os.Exit(4)
	}
	cmd := exec.Command(os.Args[0], "-test.run", "TestF23SelfReferencingTplReturnsAnError")
	cmd.Env = append(os.Environ(), "F23_CHILD=1", "GODEBUG=")
	out, err := cmd.CombinedOutput()
	if err != nil {
		tail := string(out)
		if len(tail) > 300 {
			tail = tail[:300]
		}
		t.Fatalf("rendering a self-referencing tpl value did not return an error: %v\n%s", err, tail)
	}
}
