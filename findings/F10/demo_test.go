package loader

import (
	"strings"
	"testing"
)

// F10: the order of a loaded chart's dependencies must not vary between loads of the same files.
func TestVerifF10DependencyOrder(t *testing.T) {
	files := func() []*BufferedFile {
		fs := []*BufferedFile{{Name: "Chart.yaml", Data: []byte("apiVersion: v2\nname: p\nversion: 0.1.0\n")}}
		for _, n := range []string{"a", "b", "c", "d", "e"} {
			fs = append(fs, &BufferedFile{Name: "charts/" + n + "/Chart.yaml", Data: []byte("apiVersion: v2\nname: " + n + "\nversion: 0.1.0\n")})
		}
		return fs
	}
	first := ""
	for i := 0; i < 64; i++ {
		c, err := LoadFiles(files())
		if err != nil {
			t.Fatal(err)
		}
		var names []string
		for _, d := range c.Dependencies() {
			names = append(names, d.Name())
		}
		got := strings.Join(names, ",")
		if i == 0 {
			first = got
		} else if got != first {
			t.Fatalf("dependency order differs between loads: %s vs %s", first, got)
		}
	}
}
