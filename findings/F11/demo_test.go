package engine

import "testing"

// F11: AsConfig/AsSecrets over files sharing a base name must give the same result every time.
func TestVerifF11AsConfigDuplicateBase(t *testing.T) {
	first := ""
	for i := 0; i < 64; i++ {
		f := files{"a/x.txt": []byte("A"), "b/x.txt": []byte("B"), "c/x.txt": []byte("C"), "d/x.txt": []byte("D")}
		got := f.AsConfig() + f.AsSecrets()
		if i == 0 {
			first = got
		} else if got != first {
			t.Fatalf("output differs between identical calls: %q vs %q", first, got)
		}
	}
}
