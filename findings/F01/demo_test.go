package driver

import (
	"testing"

	v1 "k8s.io/api/core/v1"
	metav1 "k8s.io/apimachinery/pkg/apis/meta/v1"
)

// F1: a Secret whose "release" payload is not decodable must give an error from Get, not a nil dereference.
func TestVerifF01CorruptSecretGet(t *testing.T) {
	mock := &MockSecretsInterface{}
	mock.objects = map[string]*v1.Secret{"sh.helm.release.v1.x.v1": {
		ObjectMeta: metav1.ObjectMeta{Name: "sh.helm.release.v1.x.v1", Labels: map[string]string{"owner": "helm"}},
		Data:       map[string][]byte{"release": []byte("!!!not-base64!!!")},
	}}
	s := NewSecrets(mock)
	if _, err := s.Get("sh.helm.release.v1.x.v1"); err == nil {
		t.Fatal("expected an error")
	}
}
