package driver

import (
	"testing"

	rspb "helm.sh/helm/v4/pkg/release/v1"
)

// F5: valid release names containing ".v" must round-trip through the memory driver like through the others.
func TestVerifF05MemoryKeyWithDotV(t *testing.T) {
	for _, name := range []string{"a.v1x", "a.v1", "x.vault"} {
		mem := NewMemory()
		key := "sh.helm.release.v1." + name + ".v1"
		rel := &rspb.Release{Name: name, Version: 1, Namespace: "default", Info: &rspb.Info{Status: rspb.StatusDeployed}}
		if err := mem.Create(key, rel); err != nil {
			t.Fatal(err)
		}
		if _, err := mem.Get(key); err != nil {
			t.Fatalf("Get(%q): %v", key, err)
		}
		if _, err := mem.Delete(key); err != nil {
			t.Fatalf("Delete(%q): %v", key, err)
		}
	}
}
