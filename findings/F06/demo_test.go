package util

import (
	"testing"

	chart "helm.sh/helm/v4/pkg/chart/v2"
)

// F6: a subchart's default under global.a.b must not leak into the parent's or a sibling's globals.
func TestVerifF06GlobalLeak(t *testing.T) {
	mk := func(name string, vals map[string]interface{}) *chart.Chart {
		return &chart.Chart{Metadata: &chart.Metadata{Name: name, Version: "0.1.0", APIVersion: "v2"}, Values: vals}
	}
	parent := mk("p", map[string]interface{}{"global": map[string]interface{}{"a": map[string]interface{}{"b": map[string]interface{}{"x": 1}}}})
	s1 := mk("s1", map[string]interface{}{"global": map[string]interface{}{"a": map[string]interface{}{"b": map[string]interface{}{"y": 2}}}})
	s2 := mk("s2", map[string]interface{}{})
	parent.AddDependency(s1, s2)
	v, err := CoalesceValues(parent, map[string]interface{}{})
	if err != nil {
		t.Fatal(err)
	}
	b := v["global"].(map[string]interface{})["a"].(map[string]interface{})["b"].(map[string]interface{})
	if _, leaked := b["y"]; leaked {
		t.Fatalf("parent global sees the subchart's default: %v", b)
	}
	b2 := v["s2"].(map[string]interface{})["global"].(map[string]interface{})["a"].(map[string]interface{})["b"].(map[string]interface{})
	if _, leaked := b2["y"]; leaked {
		t.Fatalf("sibling global sees the subchart's default: %v", b2)
	}
}
