package provenance

import (
	"errors"
	"testing"
)

type failingReader struct{}

func (failingReader) Read([]byte) (int, error) { return 0, errors.New("read failed") }

// F15: a read error while hashing must be reported, not turned into ("", nil).
func TestVerifF15DigestError(t *testing.T) {
	if _, err := Digest(failingReader{}); err == nil {
		t.Fatal("expected the read error to be returned")
	}
}
