package action

import (
	"fmt"
	"net/http"
	"net/http/httptest"
	"testing"

	"helm.sh/helm/v4/pkg/cli"
)

// F16: `pull --repo R --username/--password` must not send the credentials to another origin that
// R's index points to.
func TestVerifF16PullCrossOriginCreds(t *testing.T) {
	leaked := false
	other := httptest.NewServer(http.HandlerFunc(func(w http.ResponseWriter, r *http.Request) {
		if r.Header.Get("Authorization") != "" {
			leaked = true
		}
		w.WriteHeader(http.StatusNotFound)
	}))
	defer other.Close()
	repoSrv := httptest.NewServer(http.HandlerFunc(func(w http.ResponseWriter, _ *http.Request) {
		fmt.Fprintf(w, "apiVersion: v1\nentries:\n  foo:\n  - name: foo\n    version: 1.0.0\n    urls: [\"%s/foo-1.0.0.tgz\"]\n", other.URL)
	}))
	defer repoSrv.Close()

	settings := cli.New()
	settings.RepositoryCache = t.TempDir()
	settings.RepositoryConfig = t.TempDir() + "/repositories.yaml"
	p := NewPull(WithConfig(&Configuration{}))
	p.Settings = settings
	p.RepoURL = repoSrv.URL
	p.Username, p.Password = "user", "secret"
	p.DestDir = t.TempDir()
	_, _ = p.Run("foo")
	if leaked {
		t.Fatal("credentials for the repository were sent to a different origin")
	}
}
