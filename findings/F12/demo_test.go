package util

import (
	"os"
	"path/filepath"
	"testing"
)

// F12: a values schema with a file:// $ref must not make validation depend on a host file.
func TestVerifF12SchemaFileRef(t *testing.T) {
	dir := t.TempDir()
	host := filepath.Join(dir, "host.json")
	schema := []byte(`{"$ref": "file://` + filepath.ToSlash(host) + `"}`)
	vals := Values{"a": "x"}
	os.WriteFile(host, []byte(`{"type":"object","properties":{"a":{"type":"string"}}}`), 0o644)
	err1 := ValidateAgainstSingleSchema(vals, schema)
	os.WriteFile(host, []byte(`{"type":"object","properties":{"a":{"type":"integer"}}}`), 0o644)
	err2 := ValidateAgainstSingleSchema(vals, schema)
	if (err1 == nil) != (err2 == nil) {
		t.Fatalf("validation outcome depends on a host file: %v vs %v", err1, err2)
	}
}
